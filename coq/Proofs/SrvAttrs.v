(* Proofs/SrvAttrs.v — property C04 on the server model (Model/Srv.v): every attribute block whose origin is a
   fresh Lstat (GetAttr, encodeCurrentAttrs, the READDIRPLUS refresh) agrees with the backend's lstat of the
   path it describes (type, permission bits, size) and carries the FNV-1a-64 hash of that path as fileid; the
   post-op blocks are taken from the post-state tree; the file type on the wire is a function of the lstat kind
   (so a symlink is NF3LNK, dangling or not); the fileid of every block (including the ones served from the
   attribute cache) is a function of the path alone; SETATTR changes neither the kind of any backend object nor
   kind/fileid of any node.

   Structure: 1 wire type; 2 Lstat and the last component; 3 backend_block and the fresh origins; 4 the cached
   fileid invariant AcFid through every handler; 5 a leaf tactic and the per-procedure theorems; 6 SETATTR;
   7 histories; 8 executable witnesses.  Cache coherence of srv_lookup's type/size/perm is not in this file. *)
From Coq Require Import List NArith ZArith Bool Lia.
From Verif Require Import Gen.Facts Model.Handles Model.Backend Model.Srv Proofs.SrvRO Proofs.SrvPaths Proofs.BackendData.
Import ListNotations.
Open Scope N_scope.

(* ====================================================================================================== *)
(* 1. the file type on the wire                                                                           *)
(* ====================================================================================================== *)
Definition NF3REG : N := st c_NF3REG.
Definition NF3DIR : N := st c_NF3DIR.
Definition NF3LNK : N := st c_NF3LNK.

Lemma type_from_kind a :
  fa_type (fattr_of a) = match na_kind a with KFile => NF3REG | KDir => NF3DIR | KLink => NF3LNK end.
Proof. destruct a as [k ? ? ? ? ? ? ?]. destruct k; reflexivity. Qed.
Lemma type_consts : NF3REG = 1 /\ NF3DIR = 2 /\ NF3LNK = 5.
Proof. vm_compute. auto. Qed.
Lemma ftype_of_inj k1 k2 : ftype_of k1 = ftype_of k2 -> k1 = k2.
Proof. destruct k1, k2; vm_compute; congruence. Qed.
Lemma type_kind_iff a :
  (fa_type (fattr_of a) = NF3REG <-> na_kind a = KFile) /\
  (fa_type (fattr_of a) = NF3DIR <-> na_kind a = KDir) /\
  (fa_type (fattr_of a) = NF3LNK <-> na_kind a = KLink).
Proof.
  rewrite type_from_kind. destruct (na_kind a); repeat split; intros H; try reflexivity; try discriminate;
    vm_compute in H; discriminate.
Qed.

(* ====================================================================================================== *)
(* 2. Lstat never follows the last component                                                              *)
(* ====================================================================================================== *)
(* whatever intermediate symlinks are followed, a no-follow resolution of "... / c" ends at a directory entry
   named c and returns the object stored there (a symlink is returned itself, whatever its target) *)
Lemma walk_nofollow_last fuel : forall links fs canon todo c q o,
  is_dotdot c = false ->
  walk fuel links fs canon (todo ++ [c]) false = WFound q o -> exists d, q = d ++ [c].
Proof.
  induction fuel as [|fuel IH]; intros links fs canon todo c q o Hc; cbn [walk]; [discriminate|].
  destruct (fs_get fs canon) as [cur|]; [|discriminate].
  destruct todo as [|c1 rest]; cbn [app].
  - destruct (negb (kind_eqb (o_kind cur) KDir)); [discriminate|]. rewrite Hc.
    destruct (fs_get fs (canon ++ [c])) as [ch|]; [|discriminate].
    rewrite andb_false_r. intros [= <- _]. exists canon. reflexivity.
  - destruct (negb (kind_eqb (o_kind cur) KDir)); [discriminate|].
    destruct (is_dotdot c1); [apply IH; exact Hc|].
    destruct (fs_get fs (canon ++ [c1])) as [ch|]; [|destruct (rest ++ [c]); discriminate].
    assert (NE : match rest ++ [c] with [] => true | _ => false end = false) by (destruct rest; reflexivity).
    rewrite NE. cbn [negb orb]. rewrite andb_true_r.
    destruct (kind_eqb (o_kind ch) KLink).
    + destruct links; [discriminate|]. rewrite app_assoc. apply IH. exact Hc.
    + destruct (rest ++ [c]) eqn:F; [discriminate|]. rewrite <- F. apply IH. exact Hc.
Qed.
Lemma lstat_last_component fs d c fi : is_dotdot c = false -> be_stat fs (d ++ [c]) false = Ok fi ->
  exists q o, fs_get fs (q ++ [c]) = Some o /\ fi = info_of o.
Proof.
  intros Hc. unfold be_stat. destruct (resolve fs (d ++ [c]) false) as [q o| |] eqn:E; try discriminate.
  intros [= <-]. pose proof (resolve_found _ _ _ _ _ E) as G.
  destruct (walk_nofollow_last _ _ _ _ _ _ _ _ Hc E) as [q' ->]. exists q', o. split; [exact G|reflexivity].
Qed.

(* every proper prefix of canon ++ todo from canon on is a directory, no ".." component *)
Fixpoint dirs_only (fs : fsmap) (canon : path) (todo : list name) : Prop :=
  match todo with
  | [] => True
  | c :: r => (exists o, fs_get fs canon = Some o /\ o_kind o = KDir) /\ is_dotdot c = false /\ dirs_only fs (canon ++ [c]) r
  end.
Lemma walk_direct fs todo : forall fuel links canon o,
  (length todo < fuel)%nat -> dirs_only fs canon todo -> fs_get fs (canon ++ todo) = Some o ->
  walk fuel links fs canon todo false = WFound (canon ++ todo) o.
Proof.
  induction todo as [|c r IH]; intros fuel links canon o Hf Hd Hg;
    (destruct fuel as [|fuel]; [cbn in Hf; lia|]); cbn [walk].
  - rewrite app_nil_r in *. rewrite Hg. reflexivity.
  - destruct Hd as ((cur & Hcur & Kcur) & Hc & Hr). rewrite Hcur, Kcur, Hc. cbn [kind_eqb negb].
    destruct r as [|c2 r'].
    + rewrite Hg. rewrite andb_false_r. reflexivity.
    + destruct Hr as ((ch & Hch & Kch) & Hr2). rewrite Hch, Kch. cbn [kind_eqb andb].
      replace (canon ++ c :: c2 :: r') with ((canon ++ [c]) ++ c2 :: r') by (rewrite <- app_assoc; reflexivity).
      apply IH.
      * cbn [length] in *. lia.
      * split; [exists ch; split; assumption|exact Hr2].
      * rewrite <- app_assoc. exact Hg.
Qed.
(* the object stored at a path reached through real directories is what Lstat reports: for a symlink, the link *)
Lemma lstat_direct fs p o : dirs_only fs [] p -> fs_get fs p = Some o -> be_stat fs p false = Ok (info_of o).
Proof.
  intros Hd Hg. unfold be_stat, resolve.
  rewrite (walk_direct fs p (walk_fuel fs p) 40%nat [] o); [reflexivity| |exact Hd|exact Hg].
  unfold walk_fuel. lia.
Qed.
Lemma lstat_symlink fs p o : dirs_only fs [] p -> fs_get fs p = Some o -> o_kind o = KLink ->
  exists fi, be_stat fs p false = Ok fi /\ fi_kind fi = KLink /\ fi_size fi = N.of_nat (length (o_target o)).
Proof.
  intros Hd Hg K. exists (info_of o). split; [apply lstat_direct; assumption|].
  unfold info_of, stat_size. cbn. rewrite K. split; reflexivity.
Qed.

(* ====================================================================================================== *)
(* 3. blocks that agree with the backend                                                                  *)
(* ====================================================================================================== *)
Definition backend_block (f : fsmap) (p : path) (a : nattrs) : Prop :=
  exists fi, be_stat f p false = Ok fi /\ fa_type (fattr_of a) = ftype_of (fi_kind fi) /\ na_perm a = fi_perm fi /\
             na_size a = fi_size fi /\ na_fileid a = fileid_of p.
(* the same on the decoded fattr3 of the reply *)
Definition fattr_ok (f : fsmap) (p : path) (b : fattr) : Prop :=
  exists fi, be_stat f p false = Ok fi /\ fa_type b = ftype_of (fi_kind fi) /\ fa_perm b = fi_perm fi /\
             fa_size b = fi_size fi /\ fa_fileid b = fileid_of p.
Lemma backend_block_wire f p a : backend_block f p a <-> fattr_ok f p (fattr_of a).
Proof. split; intros (fi & H); exists fi; exact H. Qed.
Lemma backend_block_kind f p a fi : backend_block f p a -> be_stat f p false = Ok fi -> na_kind a = fi_kind fi.
Proof. intros (fi' & A & B & _) E. rewrite E in A. injection A as <-. apply ftype_of_inj. exact B. Qed.

Lemma attrs_of_info_block f p fi u g : be_stat f p false = Ok fi -> backend_block f p (attrs_of_info fi (fileid_of p) u g).
Proof. intros H. exists fi. repeat split; auto. Qed.

(* symlinks are links *)
Lemma block_symlink f p a fi : backend_block f p a -> be_stat f p false = Ok fi -> fi_kind fi = KLink ->
  fa_type (fattr_of a) = NF3LNK /\ na_kind a = KLink.
Proof.
  intros B E K. pose proof (backend_block_kind f p a fi B E) as Ka. rewrite K in Ka.
  split; [rewrite type_from_kind, Ka; reflexivity|exact Ka].
Qed.
(* two blocks for the same path over trees that report the same kind: same type, same fileid *)
Lemma blocks_agree f f' p a a' : backend_block f p a -> backend_block f' p a' ->
  (forall fi fi', be_stat f p false = Ok fi -> be_stat f' p false = Ok fi' -> fi_kind fi = fi_kind fi') ->
  fa_type (fattr_of a) = fa_type (fattr_of a') /\ na_fileid a = na_fileid a'.
Proof.
  intros (fi & A1 & A2 & _ & _ & A5) (fi' & B1 & B2 & _ & _ & B5) H.
  rewrite A2, B2, (H fi fi' A1 B1), A5, B5. split; reflexivity.
Qed.
Lemma blocks_agree_same f p a a' : backend_block f p a -> backend_block f p a' ->
  fa_type (fattr_of a) = fa_type (fattr_of a') /\ na_perm a = na_perm a' /\ na_size a = na_size a' /\ na_fileid a = na_fileid a'.
Proof.
  intros (fi & A1 & A2 & A3 & A4 & A5) (fi' & B1 & B2 & B3 & B4 & B5).
  rewrite A1 in B1. injection B1 as <-. repeat split; congruence.
Qed.

(* ---------- state projections through the primitives ---------- *)
Lemma fs_ac_get s p : fs (fst (ac_get s p)) = fs s.
Proof. apply ac_get_ro. Qed.
Lemma nodes_ac_get s p : nodes (fst (ac_get s p)) = nodes s.
Proof. unfold ac_get. SrvRO.des; reflexivity. Qed.

Lemma srv_getattr_ok s p u g s1 a : srv_getattr s p u g = (s1, Ok a) -> backend_block (fs s) p a /\ fs s1 = fs s.
Proof.
  unfold srv_getattr. pose proof (fs_ac_get s p) as F. destruct (ac_get s p) as [s0 x]. cbn [fst] in F.
  unfold do_lstat. destruct (be_stat (fs s0) p false) as [fi|e] eqn:E; intros [= <- <-].
  rewrite F in E. split; [apply attrs_of_info_block; exact E|exact F].
Qed.
Lemma srv_getattr_err s p u g s1 e : srv_getattr s p u g = (s1, Err e) -> be_stat (fs s) p false = Err e /\ fs s1 = fs s.
Proof.
  unfold srv_getattr. pose proof (fs_ac_get s p) as F. destruct (ac_get s p) as [s0 x]. cbn [fst] in F.
  unfold do_lstat. destruct (be_stat (fs s0) p false) as [fi|e'] eqn:E; intros [= <- <-].
  rewrite F in E. split; [exact E|exact F].
Qed.
Lemma getattr_h_ok s h p s1 a : getattr_h s h p = (s1, Ok a) -> backend_block (fs s) p a /\ fs s1 = fs s.
Proof. unfold getattr_h. destruct (node_get s h); apply srv_getattr_ok. Qed.
Lemma getattr_h_err s h p s1 e : getattr_h s h p = (s1, Err e) -> be_stat (fs s) p false = Err e /\ fs s1 = fs s.
Proof. unfold getattr_h. destruct (node_get s h); apply srv_getattr_err. Qed.
Lemma current_attrs_ok s h p s1 b : current_attrs s h p = (s1, Some b) ->
  (exists a, b = fattr_of a /\ backend_block (fs s) p a) /\ fs s1 = fs s.
Proof.
  unfold current_attrs. destruct (getattr_h s h p) as [s2 ga] eqn:E. destruct ga as [a|e]; intros [= <- H].
  apply getattr_h_ok in E. destruct E as [B F]. split; [exists a; split; [unfold sf in H; congruence|exact B]|exact F].
Qed.
Lemma current_attrs_fs s h p : fs (fst (current_attrs s h p)) = fs s.
Proof. apply current_attrs_ro. Qed.

(* ====================================================================================================== *)
(* 4. the cached fileid invariant                                                                         *)
(* ====================================================================================================== *)
(* every positive attribute-cache entry carries the fileid of its own path *)
Definition good_e (e : acentry) : Prop := forall a, ac_attrs e = Some a -> na_fileid a = fileid_of (ac_path e).
Definition AcFid (s : srv) : Prop := forall e, In e (ac s) -> good_e e.
Definition AF (s s' : srv) : Prop := AcFid s -> AcFid s'.

Lemma AF_refl s : AF s s. Proof. intros H; exact H. Qed.
Lemma AF_trans a b c : AF a b -> AF b c -> AF a c. Proof. unfold AF; auto. Qed.
Lemma AF_sub s s' : (forall e, In e (ac s') -> In e (ac s)) -> AF s s'.
Proof. intros H A e He. apply A, H, He. Qed.
Lemma AF_same s s' : ac s' = ac s -> AF s s'.
Proof. intros H. apply AF_sub. rewrite H. auto. Qed.

Lemma In_removelast {A} (x : A) l : In x (removelast l) -> In x l.
Proof.
  induction l as [|y l IH]; [intros []|]. cbn [removelast]. destruct l as [|z l']; [intros []|].
  intros [<-|H]; [left; reflexivity|right; apply IH; exact H].
Qed.
Lemma ac_remove_sub l p e : In e (ac_remove l p) -> In e l.
Proof. unfold ac_remove. intros H. apply filter_In in H. tauto. Qed.
Lemma ac_find_some l p e : ac_find l p = Some e -> In e l /\ ac_path e = p.
Proof.
  unfold ac_find. intros H. apply find_some in H. destruct H as [A B]. apply path_eqb_eq in B. split; [exact A|congruence].
Qed.
Lemma ac_evict_sub s p e : In e (ac_evict_for s p) -> In e (ac s).
Proof.
  unfold ac_evict_for. destruct (ac_find (ac s) p); [auto|].
  destruct (attr_cap (conf s) <=? N.of_nat (length (ac s))); [apply In_removelast|auto].
Qed.

Lemma ac_get_AF s p : AF s (fst (ac_get s p)).
Proof.
  apply AF_sub. unfold ac_get. destruct (ac_find (ac s) p) as [e0|] eqn:F; [|auto].
  apply ac_find_some in F. destruct F as [F _].
  destruct (now s <? ac_expire e0); [|destruct (ac_expire e0 <? now s)]; cbn [fst ac with_ac]; auto.
  - intros e [<-|H]; [exact F|eapply ac_remove_sub; exact H].
  - intros e H. eapply ac_remove_sub; exact H.
Qed.
Lemma ac_get_hit s p s1 a : AcFid s -> ac_get s p = (s1, Some (Some a)) -> na_fileid a = fileid_of p.
Proof.
  intros A. unfold ac_get. destruct (ac_find (ac s) p) as [e0|] eqn:F; [|discriminate].
  apply ac_find_some in F. destruct F as [F <-].
  destruct (now s <? ac_expire e0); [|destruct (ac_expire e0 <? now s); discriminate].
  intros [= _ H]. exact (A e0 F a H).
Qed.
Lemma ac_put_AF s p a : na_fileid a = fileid_of p -> AF s (ac_put s p a).
Proof.
  intros H A e. unfold ac_put. cbn [ac with_ac]. intros [<-|He].
  - intros a' [= <-]. exact H.
  - apply A. eapply ac_evict_sub, ac_remove_sub. exact He.
Qed.
Lemma ac_put_negative_AF s p : AF s (ac_put_negative s p).
Proof.
  unfold ac_put_negative. destruct (neg_on (conf s)); [|apply AF_refl].
  intros A e. cbn [ac with_ac]. intros [<-|He].
  - intros a' [=].
  - apply A. eapply ac_evict_sub, ac_remove_sub. exact He.
Qed.
Lemma ac_invalidate_AF s p : AF s (ac_invalidate s p).
Proof. apply AF_sub. intros e H. eapply ac_remove_sub. exact H. Qed.
Lemma ac_invalidate_tree_AF s p : AF s (ac_invalidate_tree s p).
Proof. apply AF_sub. cbn [ac_invalidate_tree ac with_ac]. intros e H. apply filter_In in H. tauto. Qed.
Lemma ac_invalidate_neg_AF s p : AF s (ac_invalidate_neg_in_dir s p).
Proof. apply AF_sub. cbn [ac_invalidate_neg_in_dir ac with_ac]. intros e H. apply filter_In in H. tauto. Qed.

Lemma ac_dc_get s p : ac (fst (dc_get s p)) = ac s.
Proof. unfold dc_get. SrvRO.des; reflexivity. Qed.
Lemma ac_dc_put s p n : ac (dc_put s p n) = ac s.
Proof. unfold dc_put. SrvRO.des; reflexivity. Qed.
Lemma ac_dc_invalidate s p : ac (dc_invalidate s p) = ac s.
Proof. unfold dc_invalidate. SrvRO.des; reflexivity. Qed.
Lemma ac_dc_invalidate_tree s p : ac (dc_invalidate_tree s p) = ac s.
Proof. unfold dc_invalidate_tree. SrvRO.des; reflexivity. Qed.
Lemma ac_node_set s h a : ac (node_set s h a) = ac s. Proof. reflexivity. Qed.
Lemma ac_node_upd s h f : ac (node_upd s h f) = ac s.
Proof. unfold node_upd. destruct (node_get s h); reflexivity. Qed.
Lemma ac_alloc s p a : ac (fst (alloc s p a)) = ac s.
Proof. unfold alloc. destruct (allocate path_eqb (hm s) p). reflexivity. Qed.
Lemma ac_lift_unit s c r : ac (fst (lift_unit s c r)) = ac s. Proof. reflexivity. Qed.

Lemma AF_node_set s h a : AF s (node_set s h a). Proof. apply AF_same; reflexivity. Qed.
Lemma AF_with_fs s f : AF s (with_fs s f). Proof. apply AF_same; reflexivity. Qed.
Lemma AF_logc s c : AF s (logc s c). Proof. apply AF_same; reflexivity. Qed.
Lemma AF_lift_unit s c r : AF s (fst (lift_unit s c r)). Proof. apply AF_same; reflexivity. Qed.
Lemma AF_do_lstat s p : AF s (fst (do_lstat s p)). Proof. apply AF_same; reflexivity. Qed.
Lemma AF_do_stat s p : AF s (fst (do_stat s p)). Proof. apply AF_same; reflexivity. Qed.

Ltac afact E lem := let H := fresh "A" in pose proof lem as H; rewrite E in H; cbn [fst] in H.
Ltac collectA :=
  repeat match goal with
  | E : ac_get ?s ?p = (_, _) |- _ => afact E (ac_get_AF s p); revert E
  | E : dc_get ?s ?p = (_, _) |- _ => afact E (AF_same _ _ (ac_dc_get s p)); revert E
  | E : alloc ?s ?p ?a = (_, _) |- _ => afact E (AF_same _ _ (ac_alloc s p a)); revert E
  | E : do_lstat ?s ?p = (_, _) |- _ => afact E (AF_do_lstat s p); revert E
  | E : do_stat ?s ?p = (_, _) |- _ => afact E (AF_do_stat s p); revert E
  end; intros.
Ltac chainA :=
  cbn [fst snd];
  repeat match goal with
  | |- AF ?a ?a => apply AF_refl
  | H : AF ?a ?b |- AF ?a ?b => exact H
  | |- AF ?a (ac_put_negative ?b _) => apply AF_trans with b; [|apply ac_put_negative_AF]
  | |- AF ?a (ac_invalidate ?b _) => apply AF_trans with b; [|apply ac_invalidate_AF]
  | |- AF ?a (ac_invalidate_tree ?b _) => apply AF_trans with b; [|apply ac_invalidate_tree_AF]
  | |- AF ?a (ac_invalidate_neg_in_dir ?b _) => apply AF_trans with b; [|apply ac_invalidate_neg_AF]
  | |- AF ?a (dc_put ?b _ _) => apply AF_trans with b; [|apply AF_same, ac_dc_put]
  | |- AF ?a (dc_invalidate ?b _) => apply AF_trans with b; [|apply AF_same, ac_dc_invalidate]
  | |- AF ?a (dc_invalidate_tree ?b _) => apply AF_trans with b; [|apply AF_same, ac_dc_invalidate_tree]
  | |- AF ?a (node_set ?b _ _) => apply AF_trans with b; [|apply AF_node_set]
  | |- AF ?a (node_upd ?b _ _) => apply AF_trans with b; [|apply AF_same, ac_node_upd]
  | |- AF ?a (with_fs ?b _) => apply AF_trans with b; [|apply AF_with_fs]
  | |- AF ?a (invalidate_for_new ?b _ _) => unfold invalidate_for_new
  | |- AF ?a (logc ?b ?c) => apply AF_trans with b; [|apply AF_logc]
  | |- AF ?a (fst (lift_unit ?b ?c ?r)) => apply AF_trans with b; [|apply AF_lift_unit]
  | H : AF ?b ?c |- AF ?a ?c => apply AF_trans with b; [|exact H]
  end.

Lemma srv_lookup_AF s p : AF s (fst (srv_lookup s p)).
Proof.
  unfold srv_lookup. destruct (ac_get s p) as [s1 c] eqn:E. collectA.
  destruct c as [[a|]|]; cbn [fst]; try exact A.
  unfold do_lstat. destruct (be_stat (fs s1) p false) as [fi|e]; cbn [fst].
  - eapply AF_trans; [exact A|]. eapply AF_trans; [|apply ac_put_AF; reflexivity]. apply AF_same; reflexivity.
  - destruct e; chainA.
Qed.
Lemma srv_lookup_fid s p s1 a : AcFid s -> srv_lookup s p = (s1, Ok a) -> na_fileid a = fileid_of p.
Proof.
  intros A. unfold srv_lookup. destruct (ac_get s p) as [s0 c] eqn:E.
  destruct c as [[a0|]|].
  - intros [= _ <-]. eapply ac_get_hit; eassumption.
  - discriminate.
  - unfold do_lstat. destruct (be_stat (fs s0) p false) as [fi|e]; intros [= _ <-]. reflexivity.
Qed.
Lemma srv_getattr_AF s p u g : AF s (fst (srv_getattr s p u g)).
Proof.
  unfold srv_getattr. destruct (ac_get s p) as [s1 c] eqn:E. collectA.
  unfold do_lstat. destruct (be_stat (fs s1) p false) as [fi|e]; cbn [fst].
  - eapply AF_trans; [exact A|]. eapply AF_trans; [|apply ac_put_AF; reflexivity]. apply AF_same; reflexivity.
  - chainA.
Qed.
Lemma getattr_h_AF s h p : AF s (fst (getattr_h s h p)).
Proof. unfold getattr_h. destruct (node_get s h); apply srv_getattr_AF. Qed.

Ltac collectA2 :=
  repeat match goal with
  | E : srv_lookup ?s ?p = (_, _) |- _ => afact E (srv_lookup_AF s p); revert E
  | E : getattr_h ?s ?h ?p = (_, _) |- _ => afact E (getattr_h_AF s h p); revert E
  | E : srv_getattr ?s ?p ?u ?g = (_, _) |- _ => afact E (srv_getattr_AF s p u g); revert E
  end; intros; collectA.
Ltac chainA2 :=
  chainA;
  repeat (match goal with
  | |- AF ?a (fst (srv_lookup ?b _)) => apply AF_trans with b; [|apply srv_lookup_AF]
  | |- AF ?a (fst (getattr_h ?b _ _)) => apply AF_trans with b; [|apply getattr_h_AF]
  | |- AF ?a (fst (alloc ?b _ _)) => apply AF_trans with b; [|apply AF_same, ac_alloc]
  | |- AF ?a (fst (do_lstat ?b _)) => apply AF_trans with b; [|apply AF_do_lstat]
  | |- AF ?a (fst (do_stat ?b _)) => apply AF_trans with b; [|apply AF_do_stat]
  end; chainA).
Ltac handlerA0 := cbv zeta; SrvPaths.des; collectA2; chainA2.

Lemma srv_setattr_AF s h p cur new : AF s (fst (srv_setattr s h p cur new)).
Proof. unfold srv_setattr. handlerA0. Qed.
Lemma created_reply_AF s h d p a dpre : AF s (fst (created_reply s h d p a dpre)).
Proof. unfold created_reply. handlerA0. Qed.
Lemma failed_reply_AF s h d st_ dpre : AF s (fst (failed_reply s h d st_ dpre)).
Proof. unfold failed_reply. handlerA0. Qed.
Lemma current_attrs_AF s h p : AF s (fst (current_attrs s h p)).
Proof. unfold current_attrs. handlerA0. Qed.
Lemma srv_create_AF s d n perm uid gid : AF s (fst (srv_create s d n perm uid gid)).
Proof. unfold srv_create. handlerA0. Qed.

Ltac collectA3 :=
  repeat match goal with
  | E : srv_setattr ?s ?h ?p ?c ?n = (_, _) |- _ => afact E (srv_setattr_AF s h p c n); revert E
  | E : created_reply ?s ?h ?d ?p ?a ?dp = (_, _) |- _ => afact E (created_reply_AF s h d p a dp); revert E
  | E : failed_reply ?s ?h ?d ?c ?dp = (_, _) |- _ => afact E (failed_reply_AF s h d c dp); revert E
  | E : current_attrs ?s ?h ?p = (_, _) |- _ => afact E (current_attrs_AF s h p); revert E
  | E : srv_create ?s ?d ?n ?m ?u ?g = (_, _) |- _ => afact E (srv_create_AF s d n m u g); revert E
  end; intros; collectA2.
Ltac chainA3 :=
  chainA2;
  repeat (match goal with
  | |- AF ?a (fst (created_reply ?b _ _ _ _ _)) => apply AF_trans with b; [|apply created_reply_AF]
  | |- AF ?a (fst (failed_reply ?b _ _ _ _)) => apply AF_trans with b; [|apply failed_reply_AF]
  | |- AF ?a (fst (current_attrs ?b _ _)) => apply AF_trans with b; [|apply current_attrs_AF]
  | |- AF ?a (fst (srv_create ?b _ _ _ _ _)) => apply AF_trans with b; [|apply srv_create_AF]
  | |- AF ?a (fst (srv_setattr ?b _ _ _ _)) => apply AF_trans with b; [|apply srv_setattr_AF]
  end; chainA2).
Ltac handlerA := cbv zeta; SrvPaths.des; collectA3; chainA3.

Lemma handle_getattr_AF s h : AF s (fst (handle_getattr s h)).
Proof. unfold handle_getattr. handlerA. Qed.
Lemma handle_access_AF s c h m : AF s (fst (handle_access s c h m)).
Proof. unfold handle_access. handlerA. Qed.
Lemma handle_fsx_AF s h f : AF s (fst (handle_fsx s h f)).
Proof. unfold handle_fsx. handlerA. Qed.
Lemma handle_commit_AF s h : AF s (fst (handle_commit s h)).
Proof. unfold handle_commit. handlerA. Qed.
Lemma handle_readlink_AF s h : AF s (fst (handle_readlink s h)).
Proof. unfold handle_readlink. handlerA. Qed.
Lemma handle_read_AF s h off cnt : AF s (fst (handle_read s h off cnt)).
Proof. unfold handle_read. handlerA. Qed.
Lemma handle_write_AF s h off cnt st_ data : AF s (fst (handle_write s h off cnt st_ data)).
Proof. unfold handle_write. handlerA. Qed.
Lemma handle_setattr_AF s c h sa g : AF s (fst (handle_setattr s c h sa g)).
Proof. unfold handle_setattr. handlerA. Qed.
Lemma handle_lookup_AF s h n : AF s (fst (handle_lookup s h n)).
Proof. unfold handle_lookup. handlerA. Qed.
Lemma handle_create_AF s c h n how sa : AF s (fst (handle_create s c h n how sa)).
Proof. unfold handle_create. handlerA. Qed.
Lemma handle_mkdir_AF s c h n sa : AF s (fst (handle_mkdir s c h n sa)).
Proof. unfold handle_mkdir. handlerA. Qed.
Lemma handle_symlink_AF s c h n sa t : AF s (fst (handle_symlink s c h n sa t)).
Proof. unfold handle_symlink. handlerA. Qed.
Lemma handle_remove_AF s h n : AF s (fst (handle_remove s h n)).
Proof. unfold handle_remove. handlerA. Qed.
Lemma handle_rmdir_AF s h n : AF s (fst (handle_rmdir s h n)).
Proof. unfold handle_rmdir. handlerA. Qed.
Lemma handle_rename_AF s h1 n1 h2 n2 : AF s (fst (handle_rename s h1 n1 h2 n2)).
Proof. unfold handle_rename. handlerA. Qed.
Lemma mnt_prefix_check_AF fuel : forall s pre, AF s (fst (mnt_prefix_check s pre fuel)).
Proof.
  induction fuel as [|k IH]; intros s pre; cbn [mnt_prefix_check]; [destruct pre; apply AF_refl|].
  destruct pre as [|c r]; [apply AF_refl|]. unfold do_lstat.
  destruct (be_stat (fs s) (c :: r) false) as [fi|e]; [destruct (kind_eqb (fi_kind fi) KLink)|]; cbn [fst];
    first [ apply AF_logc | eapply AF_trans; [apply AF_logc|apply IH] ].
Qed.
Lemma handle_mnt_AF s p : AF s (fst (handle_mnt s p)).
Proof.
  unfold handle_mnt. cbv zeta. SrvPaths.des;
  repeat match goal with E : mnt_prefix_check ?s ?pre ?f = (_, _) |- _ => afact E (mnt_prefix_check_AF f s pre); revert E end;
  intros; collectA3; chainA3.
Qed.

(* ---------- directory listings ---------- *)
(* what AbsfsNFS.ReadDir returns: children of d, each with the fileid of its own path *)
Definition entry_ok (d : path) (e : path * nattrs) : Prop :=
  (exists n, fst e = d ++ [n]) /\ na_fileid (snd e) = fileid_of (fst e).

Lemma lookup_all_AF d names : forall s,
  AF s (fst (lookup_all s d names)) /\ (AcFid s -> forall e, In e (snd (lookup_all s d names)) -> entry_ok d e).
Proof.
  induction names as [|n r IH]; intros s; cbn [lookup_all]; [split; [apply AF_refl|intros _ e []]|].
  destruct (is_dot n || is_dotdot n || negb (sanitize_ok d n)); [apply IH|].
  destruct (srv_lookup s (d ++ [n])) as [s1 lr] eqn:E.
  destruct (IH s1) as [I1 I2]. destruct (lookup_all s1 d r) as [s2 rest]. cbn [fst snd] in I1, I2.
  pose proof (srv_lookup_AF s (d ++ [n])) as A1. rewrite E in A1. cbn [fst] in A1.
  destruct lr as [a|er]; cbn [fst snd]; (split; [eapply AF_trans; eassumption|]); intros A.
  - intros e [<-|He]; [|exact (I2 (A1 A) e He)]. split; [exists n; reflexivity|].
    cbn [fst snd]. eapply srv_lookup_fid; eassumption.
  - exact (I2 (A1 A)).
Qed.

Lemma srv_readdir_AF s d :
  AF s (fst (srv_readdir s d)) /\
  (AcFid s -> forall l, snd (srv_readdir s d) = Ok l -> forall e, In e l -> entry_ok d e).
Proof.
  unfold srv_readdir.
  assert (Hhit : AF s (fst (if dir_on (conf s) then dc_get s d else (s, None)))).
  { destruct (dir_on (conf s)); [apply AF_same, ac_dc_get|apply AF_refl]. }
  destruct (if dir_on (conf s) then dc_get s d else (s, None)) as [s0 hit]. cbn [fst snd] in *.
  destruct hit as [names|].
  - destruct (lookup_all_AF d names s0) as [I1 I2]. destruct (lookup_all s0 d names) as [s1 l]. cbn [fst snd] in *.
    split; [eapply AF_trans; eassumption|]. intros A l' [= <-]. exact (I2 (Hhit A)).
  - assert (R1 : AF s (logc s0 (bc BOpenR d))) by (eapply AF_trans; [exact Hhit|apply AF_same; reflexivity]).
    destruct (be_open (fs (logc s0 (bc BOpenR d))) d false) as [q|e]; cbn [fst snd]; [|split; [exact R1|discriminate]].
    assert (R2 : AF s (logc (logc s0 (bc BOpenR d)) (bc BReaddir d))) by (eapply AF_trans; [exact R1|apply AF_same; reflexivity]).
    destruct (be_readdir _ q) as [ents|e]; cbn [fst snd]; [|split; [exact R2|discriminate]].
    match goal with |- context [lookup_all ?st d ?nm] =>
      destruct (lookup_all_AF d nm st) as [I1 I2]; destruct (lookup_all st d nm) as [s4 l];
      assert (R3 : AF s st) end.
    { eapply AF_trans; [exact R2|]. destruct (dir_on _); [apply AF_same, ac_dc_put|apply AF_refl]. }
    cbn [fst snd] in *. split; [eapply AF_trans; eassumption|]. intros A l' [= <-]. exact (I2 (R3 A)).
Qed.

(* ReadDirPlus's refresh: entry by entry, same path, same fileid; type/perm/size re-read by Lstat when it succeeds,
   the entry kept as Lookup returned it when it fails *)
Definition refreshed (f : fsmap) (e e' : path * nattrs) : Prop :=
  fst e' = fst e /\ na_fileid (snd e') = na_fileid (snd e) /\
  (forall fi, be_stat f (fst e) false = Ok fi ->
     snd e' = attrs_of_info fi (na_fileid (snd e)) (na_uid (snd e)) (na_gid (snd e))) /\
  (forall er, be_stat f (fst e) false = Err er -> snd e' = snd e).

Lemma refresh_all_spec l : forall s,
  fs (fst (refresh_all s l)) = fs s /\ Forall2 (refreshed (fs s)) l (snd (refresh_all s l)) /\
  ((forall e, In e l -> na_fileid (snd e) = fileid_of (fst e)) -> AF s (fst (refresh_all s l))).
Proof.
  induction l as [|[p a] r IH]; intros s; cbn [refresh_all]; [split; [reflexivity|split; [constructor|intros _; apply AF_refl]]|].
  pose proof (fs_ac_get s p) as F0. pose proof (ac_get_AF s p) as A0.
  destruct (ac_get s p) as [s0 x]. cbn [fst] in F0, A0.
  unfold do_lstat. destruct (be_stat (fs s0) p false) as [fi|er] eqn:E; rewrite F0 in E.
  - match goal with |- context [refresh_all ?st r] => destruct (IH st) as (I1 & I2 & I3); destruct (refresh_all st r) as [s2 rest] end.
    cbn [fst snd] in *. cbn [fs ac_put with_ac logc] in I1, I2. rewrite F0 in I1, I2.
    split; [exact I1|split].
    + constructor; [|exact I2]. unfold refreshed. cbn [fst snd]. repeat split.
      * intros fi' H. rewrite E in H. injection H as <-. reflexivity.
      * intros er H. rewrite E in H. discriminate.
    + intros H. eapply AF_trans; [exact A0|]. eapply AF_trans; [|apply I3; intros e He; apply H; right; exact He].
      eapply AF_trans; [|apply ac_put_AF]; [apply AF_same; reflexivity|]. exact (H (p, a) (or_introl eq_refl)).
  - destruct (IH (logc s0 (bc BLstat p))) as (I1 & I2 & I3). destruct (refresh_all (logc s0 (bc BLstat p)) r) as [s2 rest].
    cbn [fst snd] in *. cbn [fs logc] in I1, I2. rewrite F0 in I1, I2.
    split; [exact I1|split].
    + constructor; [|exact I2]. unfold refreshed. cbn [fst snd]. repeat split.
      intros fi' H. rewrite E in H. discriminate.
    + intros H. eapply AF_trans; [exact A0|]. eapply AF_trans; [|apply I3; intros e He; apply H; right; exact He].
      apply AF_same; reflexivity.
Qed.
Lemma Forall2_In_r {A B} (R : A -> B -> Prop) l l' : Forall2 R l l' -> forall y, In y l' -> exists x, In x l /\ R x y.
Proof.
  induction 1 as [|x y l l' H _ IH]; intros z; [intros []|].
  intros [<-|Hz]; [exists x; split; [left; reflexivity|exact H]|].
  destruct (IH z Hz) as (x' & A1 & A2). exists x'. split; [right; exact A1|exact A2].
Qed.

Lemma alloc_all_AF pg : forall s, AF s (fst (alloc_all s pg)).
Proof.
  induction pg as [|[ck [p a]] r IH]; intros s; cbn [alloc_all]; [apply AF_refl|].
  pose proof (ac_alloc s p a) as E. destruct (alloc s p a) as [s1 fh]. cbn [fst] in E.
  pose proof (IH s1) as H. destruct (alloc_all s1 r) as [s2 rest]. cbn [fst] in *.
  eapply AF_trans; [apply AF_same; exact E|exact H].
Qed.
Lemma alloc_all_entries pg : forall s de, In de (snd (alloc_all s pg)) ->
  exists ck q a, In (ck, (q, a)) pg /\ de_attr de = sf a /\ de_fileid de = na_fileid a /\ de_name de = name_of q /\ de_cookie de = ck.
Proof.
  induction pg as [|[ck [p a]] r IH]; intros s de; cbn [alloc_all]; [intros []|].
  destruct (alloc s p a) as [s1 fh]. pose proof (IH s1 de) as H. destruct (alloc_all s1 r) as [s2 rest]. cbn [snd] in *.
  intros [<-|Hd].
  - exists ck, p, a. cbn. repeat split; auto.
  - destruct (H Hd) as (ck' & q & a' & A1 & A2). exists ck', q, a'. split; [right; exact A1|exact A2].
Qed.
Lemma name_of_child d n : name_of (d ++ [n]) = n.
Proof. unfold name_of. apply last_last. Qed.

Lemma handle_readdir_AF s h ck cnt : AF s (fst (handle_readdir s h ck cnt)).
Proof.
  unfold handle_readdir. destruct (lookup_node s h) as [[d da]|]; [|apply AF_refl].
  destruct (negb (kind_eqb (na_kind da) KDir)); [apply AF_refl|].
  destruct (srv_readdir_AF s d) as [R1 _]. destruct (srv_readdir s d) as [s1 r]. cbn [fst snd] in R1.
  destruct r as [ents|e]; [|exact R1].
  pose proof (getattr_h_AF s1 h d) as R2. destruct (getattr_h s1 h d) as [s2 ga]. cbn [fst] in R2.
  destruct ga as [a|e]; [destruct (page _ _ _ _ _ _ _)|]; cbn [fst]; eapply AF_trans; eassumption.
Qed.
Lemma handle_readdirplus_AF s h ck mc : AF s (fst (handle_readdirplus s h ck mc)).
Proof.
  unfold handle_readdirplus. destruct (lookup_node s h) as [[d da]|]; [|apply AF_refl].
  destruct (negb (kind_eqb (na_kind da) KDir)); [apply AF_refl|].
  destruct (srv_readdir_AF s d) as [R1 P1]. destruct (srv_readdir s d) as [s1 r]. cbn [fst snd] in R1, P1.
  destruct r as [ents0|e]; [|exact R1].
  intros A.
  assert (P2 : forall e, In e ents0 -> na_fileid (snd e) = fileid_of (fst e)).
  { intros e He. exact (proj2 (P1 A ents0 eq_refl e He)). }
  destruct (refresh_all_spec ents0 s1) as (_ & _ & R2). specialize (R2 P2).
  destruct (refresh_all s1 ents0) as [s1' ents]. cbn [fst snd] in R2.
  pose proof (getattr_h_AF s1' h d) as R3. destruct (getattr_h s1' h d) as [s2 ga]. cbn [fst] in R3.
  destruct ga as [a|e]; [|cbn [fst]; exact (R3 (R2 (R1 A)))].
  destruct (page true mc 0 ck 0 dir_header_len ents) as [pg lim].
  pose proof (alloc_all_AF pg s2) as R4. destruct (alloc_all s2 pg) as [s3 des_]. cbn [fst] in *.
  exact (R4 (R3 (R2 (R1 A)))).
Qed.

(* ---------- one request, histories ---------- *)
Lemma step_AF s c r : AF s (fst (step s c r)).
Proof.
  unfold step. apply AF_trans with (clear_log s); [apply AF_same; reflexivity|]. set (s0 := clear_log s). clearbody s0.
  destruct (garbage_reply s0 r) as [o|]; cbn [fst]; [apply AF_refl|].
  destruct r; cbn [fst]; try apply AF_refl;
    first [ apply handle_getattr_AF | apply handle_setattr_AF | apply handle_lookup_AF | apply handle_access_AF
          | apply handle_readlink_AF | apply handle_read_AF | apply handle_write_AF | apply handle_create_AF
          | apply handle_mkdir_AF | apply handle_symlink_AF | apply handle_remove_AF | apply handle_rmdir_AF
          | apply handle_rename_AF | apply handle_readdir_AF | apply handle_readdirplus_AF | apply handle_fsx_AF
          | apply handle_commit_AF | apply handle_mnt_AF | (apply AF_same; reflexivity) ].
Qed.
Lemma hrun1_AF s x : AF s (fst (hrun1 s x)).
Proof. unfold hrun1. eapply AF_trans; [|apply step_AF]. apply AF_same; reflexivity. Qed.
Lemma AcFid_init f c mx t : AcFid (srv_init_fs f c mx t).
Proof. intros e []. Qed.
Lemma hfinal_AcFid l : forall s, AcFid s -> AcFid (hfinal s l).
Proof. induction l as [|x r IH]; intros s H; [exact H|]. cbn. apply IH. apply hrun1_AF. exact H. Qed.
Lemma reachable_AcFid f c mx t l : AcFid (hfinal (srv_init_fs f c mx t) l).
Proof. apply hfinal_AcFid, AcFid_init. Qed.

(* ====================================================================================================== *)
(* 5. the blocks of every reply                                                                           *)
(* ====================================================================================================== *)
(* ---------- the tree through the primitives ---------- *)
Lemma fs_logc s c : fs (logc s c) = fs s. Proof. reflexivity. Qed.
Lemma fs_with_fs s f : fs (with_fs s f) = f. Proof. reflexivity. Qed.
Lemma fs_with_ac s a : fs (with_ac s a) = fs s. Proof. reflexivity. Qed.
Lemma fs_with_dc s a : fs (with_dc s a) = fs s. Proof. reflexivity. Qed.
Lemma fs_with_nodes s a : fs (with_nodes s a) = fs s. Proof. reflexivity. Qed.
Lemma fs_with_hm s a : fs (with_hm s a) = fs s. Proof. reflexivity. Qed.
Lemma fs_with_conf s a : fs (with_conf s a) = fs s. Proof. reflexivity. Qed.
Lemma fs_with_now s a : fs (with_now s a) = fs s. Proof. reflexivity. Qed.
Lemma fs_clear_log s : fs (clear_log s) = fs s. Proof. reflexivity. Qed.
Lemma fs_ac_put s p a : fs (ac_put s p a) = fs s. Proof. reflexivity. Qed.
Lemma fs_ac_put_negative s p : fs (ac_put_negative s p) = fs s. Proof. apply ac_put_negative_ro. Qed.
Lemma fs_ac_invalidate s p : fs (ac_invalidate s p) = fs s. Proof. reflexivity. Qed.
Lemma fs_ac_invalidate_tree s p : fs (ac_invalidate_tree s p) = fs s. Proof. reflexivity. Qed.
Lemma fs_ac_invalidate_neg s p : fs (ac_invalidate_neg_in_dir s p) = fs s. Proof. reflexivity. Qed.
Lemma fs_dc_put s p n : fs (dc_put s p n) = fs s. Proof. apply dc_put_ro. Qed.
Lemma fs_dc_invalidate s p : fs (dc_invalidate s p) = fs s. Proof. unfold dc_invalidate. destruct (dir_on (conf s)); reflexivity. Qed.
Lemma fs_dc_invalidate_tree s p : fs (dc_invalidate_tree s p) = fs s.
Proof. unfold dc_invalidate_tree. destruct (dir_on (conf s)); reflexivity. Qed.
Lemma fs_node_set s h a : fs (node_set s h a) = fs s. Proof. reflexivity. Qed.
Lemma fs_node_upd s h f : fs (node_upd s h f) = fs s. Proof. apply node_upd_ro. Qed.
Lemma fs_lift_unit s c r : fs (fst (lift_unit s c r)) = fst r. Proof. reflexivity. Qed.
Lemma fs_invalidate_for_new s d p : fs (invalidate_for_new s d p) = fs s.
Proof. unfold invalidate_for_new. rewrite fs_dc_invalidate. reflexivity. Qed.
#[export] Hint Rewrite fs_logc fs_with_fs fs_with_ac fs_with_dc fs_with_nodes fs_with_hm fs_with_conf fs_with_now fs_clear_log
  fs_ac_put fs_ac_put_negative fs_ac_invalidate fs_ac_invalidate_tree fs_ac_invalidate_neg fs_dc_put fs_dc_invalidate
  fs_dc_invalidate_tree fs_node_set fs_node_upd fs_lift_unit fs_invalidate_for_new : fsdb.

Lemma fs_srv_lookup s p : fs (fst (srv_lookup s p)) = fs s. Proof. apply srv_lookup_ro. Qed.
Lemma fs_alloc s p a : fs (fst (alloc s p a)) = fs s. Proof. apply alloc_ro. Qed.
Lemma fs_dc_get s p : fs (fst (dc_get s p)) = fs s. Proof. apply dc_get_ro. Qed.
Lemma fs_srv_readdir s d : fs (fst (srv_readdir s d)) = fs s. Proof. apply srv_readdir_ro. Qed.
Lemma fs_alloc_all s pg : fs (fst (alloc_all s pg)) = fs s. Proof. apply alloc_all_ro. Qed.

(* ---------- predicates on optional blocks ---------- *)
Definition opt_ok (f : fsmap) (p : path) (x : option fattr) : Prop := forall b, x = Some b -> fattr_ok f p b.
Lemma opt_ok_none f p : opt_ok f p None. Proof. intros b H; discriminate. Qed.
Lemma opt_ok_sf f p a : backend_block f p a -> opt_ok f p (sf a).
Proof. intros B b [= <-]. apply backend_block_wire. exact B. Qed.
Lemma current_attrs_spec s h p s1 x : current_attrs s h p = (s1, x) -> opt_ok (fs s) p x /\ fs s1 = fs s.
Proof.
  intros E. split.
  - intros b ->. apply current_attrs_ok in E. destruct E as [(a & -> & B) _]. apply backend_block_wire. exact B.
  - pose proof (current_attrs_fs s h p) as F. rewrite E in F. exact F.
Qed.

(* a post-op block: read from the post-state tree; or, when that Lstat failed, the pre-op block of the same
   directory, read from the pre-state tree f0 *)
Definition post_ok (f0 : fsmap) (d : path) (s' : srv) (x : option fattr) : Prop :=
  forall b, x = Some b -> exists a, b = fattr_of a /\
    (backend_block (fs s') d a \/ ((exists e, be_stat (fs s') d false = Err e) /\ backend_block f0 d a)).
Lemma post_ok_none f0 d s' : post_ok f0 d s' None. Proof. intros b H; discriminate. Qed.
Lemma post_ok_fresh f0 d s' a : backend_block (fs s') d a -> post_ok f0 d s' (sf a).
Proof. intros B b [= <-]. exists a. split; [reflexivity|left; exact B]. Qed.
Lemma post_ok_stale f0 d s' a e : be_stat (fs s') d false = Err e -> backend_block f0 d a -> post_ok f0 d s' (sf a).
Proof. intros E B b [= <-]. exists a. split; [reflexivity|right; split; [exists e; exact E|exact B]]. Qed.
Lemma post_ok_fid f0 d s' x b : post_ok f0 d s' x -> x = Some b -> fa_fileid b = fileid_of d.
Proof. intros H E. destruct (H b E) as (a & -> & [(fi & _ & _ & _ & _ & F)|[_ (fi & _ & _ & _ & _ & F)]]); exact F. Qed.
Lemma opt_ok_fid f p x b : opt_ok f p x -> x = Some b -> fa_fileid b = fileid_of p.
Proof. intros H E. destruct (H b E) as (fi & _ & _ & _ & _ & F). exact F. Qed.

(* ---------- facts about destructed calls ---------- *)
Ltac fsf E lem := let H := fresh "F" in pose proof lem as H; rewrite E in H; cbn [fst] in H.
Ltac collectF :=
  repeat match goal with
  | E : getattr_h ?s ?h ?p = (_, Ok _) |- _ =>
      let B := fresh "B" in let F := fresh "F" in destruct (getattr_h_ok _ _ _ _ _ E) as [B F]; revert E
  | E : getattr_h ?s ?h ?p = (_, Err _) |- _ =>
      let B := fresh "Be" in let F := fresh "F" in destruct (getattr_h_err _ _ _ _ _ E) as [B F]; revert E
  | E : current_attrs ?s ?h ?p = (_, _) |- _ =>
      let B := fresh "Bc" in let F := fresh "F" in destruct (current_attrs_spec _ _ _ _ _ E) as [B F]; revert E
  | E : srv_lookup ?s ?p = (_, _) |- _ => fsf E (fs_srv_lookup s p); revert E
  | E : alloc ?s ?p ?a = (_, _) |- _ => fsf E (fs_alloc s p a); revert E
  | E : ac_get ?s ?p = (_, _) |- _ => fsf E (fs_ac_get s p); revert E
  | E : dc_get ?s ?p = (_, _) |- _ => fsf E (fs_dc_get s p); revert E
  | E : do_lstat ?s ?p = (_, _) |- _ => fsf E (eq_refl : fs (fst (do_lstat s p)) = fs s); revert E
  | E : do_stat ?s ?p = (_, _) |- _ => fsf E (eq_refl : fs (fst (do_stat s p)) = fs s); revert E
  | E : srv_readdir ?s ?d = (_, _) |- _ => fsf E (fs_srv_readdir s d); revert E
  end; intros.
Ltac norm := cbn [fst snd ob_attrs ob_mk ob_fail fail_post fail_wcc fail_wcc2 last nth] in *; autorewrite with fsdb in *.

(* ---------- the getattr family: read-only, every block fresh from fs s ---------- *)
Definition GF (f : fsmap) (p : path) (so : srv * obs) : Prop :=
  fs (fst so) = f /\ Forall (opt_ok f p) (ob_attrs (snd so)).
Ltac leafG :=
  unfold GF; collectF; norm;
  (split; [congruence | repeat constructor; first [ apply opt_ok_none | apply opt_ok_sf; congruence ]]).
Ltac walkG := cbv zeta; SrvPaths.des; leafG.

Section Family.
Variable s : srv.
Variable h : N.
Variable p : path.
Variable n0 : nattrs.
Hypothesis L : lookup_node s h = Some (p, n0).

Lemma handle_getattr_GF : GF (fs s) p (handle_getattr s h).
Proof. unfold handle_getattr. rewrite L. walkG. Qed.
Lemma handle_access_GF c m : GF (fs s) p (handle_access s c h m).
Proof. unfold handle_access. rewrite L. walkG. Qed.
Lemma handle_fsx_GF f : GF (fs s) p (handle_fsx s h f).
Proof. unfold handle_fsx. rewrite L. walkG. Qed.
Lemma handle_commit_GF : GF (fs s) p (handle_commit s h).
Proof. unfold handle_commit. rewrite L. walkG. Qed.
Lemma handle_readlink_GF : GF (fs s) p (handle_readlink s h).
Proof. unfold handle_readlink. rewrite L. walkG. Qed.
Lemma handle_read_GF off cnt : GF (fs s) p (handle_read s h off cnt).
Proof. unfold handle_read. rewrite L. walkG. Qed.
Lemma handle_readdir_GF ck cnt : GF (fs s) p (handle_readdir s h ck cnt).
Proof. unfold handle_readdir. rewrite L. walkG. Qed.
End Family.

(* ---------- LOOKUP: the directory block is the last one, in all three branches ---------- *)
Definition GL (f : fsmap) (p : path) (so : srv * obs) : Prop :=
  fs (fst so) = f /\ opt_ok f p (last (ob_attrs (snd so)) None).
Lemma opt_ok_eq f f' p x : f' = f -> opt_ok f' p x -> opt_ok f p x.
Proof. intros ->; auto. Qed.
Lemma handle_lookup_GL s h n p n0 : lookup_node s h = Some (p, n0) -> GL (fs s) p (handle_lookup s h n).
Proof.
  intros L. unfold handle_lookup. rewrite L. cbv zeta. SrvPaths.des; unfold GL; collectF; norm;
  (split; [congruence|]); first [ apply opt_ok_none | eapply opt_ok_eq; [|eassumption]; congruence ].
Qed.

(* ---------- READDIRPLUS ---------- *)
Lemma handle_readdirplus_blocks s h ck mc d da : lookup_node s h = Some (d, da) ->
  GF (fs s) d (handle_readdirplus s h ck mc) /\
  (AcFid s -> forall de, In de (ob_entries (snd (handle_readdirplus s h ck mc))) ->
     exists a, de_attr de = sf a /\ de_fileid de = na_fileid a /\ na_fileid a = fileid_of (d ++ [de_name de]) /\
       ((exists fi, be_stat (fs s) (d ++ [de_name de]) false = Ok fi) -> backend_block (fs s) (d ++ [de_name de]) a)).
Proof.
  intros L. unfold handle_readdirplus. rewrite L.
  destruct (negb (kind_eqb (na_kind da) KDir)); [split; [leafG|intros _ de []]|].
  destruct (srv_readdir_AF s d) as [R1 P1]. pose proof (fs_srv_readdir s d) as F1.
  destruct (srv_readdir s d) as [s1 r]. cbn [fst snd] in R1, P1, F1.
  destruct r as [ents0|e]; [|split; [leafG|intros _ de []]].
  destruct (refresh_all_spec ents0 s1) as (F2 & Q2 & _).
  destruct (refresh_all s1 ents0) as [s1' ents]. cbn [fst snd] in F2, Q2.
  destruct (getattr_h s1' h d) as [s2 ga] eqn:E. destruct ga as [a|e]; [|split; [leafG|intros _ de []]].
  destruct (page true mc 0 ck 0 dir_header_len ents) as [pg lim] eqn:Epg.
  pose proof (fs_alloc_all s2 pg) as F4. pose proof (alloc_all_entries pg s2) as P4.
  destruct (alloc_all s2 pg) as [s3 des_]. cbn [fst snd] in F4, P4.
  split; [leafG|]. cbn [snd ob_entries]. intros A de Hde.
  destruct (P4 de Hde) as (ck' & q & a' & Hin & Ha & Hf & Hn & _).
  assert (Hq : In (q, a') ents).
  { apply (page_sub true mc ck ents 0 0 dir_header_len (ck', (q, a'))). rewrite Epg. exact Hin. }
  destruct (Forall2_In_r _ _ _ Q2 _ Hq) as ([q0 a0] & Hin0 & (Rp & Rf & Rok & _)). cbn [fst snd] in Rp, Rf, Rok. subst q.
  destruct (P1 A ents0 eq_refl _ Hin0) as [(n & Hn0) Hf0]. cbn [fst snd] in Hn0, Hf0. subst q0.
  rewrite name_of_child in Hn. rewrite Hn.
  exists a'. split; [exact Ha|split; [exact Hf|]]. split; [congruence|].
  intros (fi & Hfi). rewrite <- F1 in Hfi. rewrite (Rok fi Hfi). rewrite F1 in Hfi.
  exists fi. repeat split; auto.
Qed.
Lemma handle_readdir_fileids s h ck cnt d da : lookup_node s h = Some (d, da) -> AcFid s ->
  forall de, In de (ob_entries (snd (handle_readdir s h ck cnt))) ->
  de_fileid de = fileid_of (d ++ [de_name de]) /\ de_attr de = None.
Proof.
  intros L A. unfold handle_readdir. rewrite L.
  destruct (negb (kind_eqb (na_kind da) KDir)); [intros de []|].
  destruct (srv_readdir_AF s d) as [_ P1]. destruct (srv_readdir s d) as [s1 r]. cbn [fst snd] in P1.
  destruct r as [ents|e]; [|intros de []].
  destruct (getattr_h s1 h d) as [s2 ga]. destruct ga as [a|e]; [|intros de []].
  destruct (page false cnt 0 ck 0 dir_header_len ents) as [pg lim] eqn:Epg. cbn [snd ob_entries].
  intros de Hde. apply in_map_iff in Hde. destruct Hde as ([ck' [q a']] & <- & Hin). cbn [de_fileid de_name de_attr fst snd].
  assert (Hq : In (q, a') ents).
  { apply (page_sub false cnt ck ents 0 0 dir_header_len (ck', (q, a'))). rewrite Epg. exact Hin. }
  destruct (P1 A ents eq_refl _ Hq) as [(n & Hn0) Hf0]. cbn [fst snd] in Hn0, Hf0. subst q.
  rewrite name_of_child. split; [exact Hf0|reflexivity].
Qed.

(* ---------- post-op blocks ---------- *)
(* SETATTR, WRITE, REMOVE, RMDIR: the only block; CREATE, MKDIR, SYMLINK: the directory block is the last one *)
Definition PO1 (f0 : fsmap) (d : path) (so : srv * obs) : Prop := Forall (post_ok f0 d (fst so)) (ob_attrs (snd so)).
Definition PO (f0 : fsmap) (d : path) (so : srv * obs) : Prop := post_ok f0 d (fst so) (last (ob_attrs (snd so)) None).
Definition PO2 (f0 : fsmap) (d1 d2 : path) (so : srv * obs) : Prop :=
  post_ok f0 d1 (fst so) (nth 0 (ob_attrs (snd so)) None) /\ post_ok f0 d2 (fst so) (nth 1 (ob_attrs (snd so)) None).
Ltac post_leaf :=
  first [ apply post_ok_none
        | apply post_ok_fresh; congruence
        | match goal with Be : be_stat _ ?d false = Err ?e |- post_ok _ ?d _ (sf _) =>
            apply (post_ok_stale _ _ _ _ e); congruence end ].
Ltac post_leaves := repeat (apply Forall_cons; [post_leaf|]); apply Forall_nil.
Lemma failed_reply_PO1 f0 s h d st_ dpre : backend_block f0 d dpre -> PO1 f0 d (failed_reply s h d st_ dpre).
Proof. intros B0. unfold failed_reply. cbv zeta. SrvPaths.des; unfold PO1; collectF; norm; post_leaves. Qed.
Lemma failed_reply_PO f0 s h d st_ dpre : backend_block f0 d dpre -> PO f0 d (failed_reply s h d st_ dpre).
Proof. intros B0. unfold failed_reply. cbv zeta. SrvPaths.des; unfold PO; collectF; norm; post_leaf. Qed.
Lemma created_reply_PO f0 s h d p a dpre : PO f0 d (created_reply s h d p a dpre).
Proof. unfold created_reply. cbv zeta. SrvPaths.des; unfold PO; collectF; norm; post_leaf. Qed.
Ltac leafP1 :=
  first [ apply failed_reply_PO1; collectF; norm; congruence
        | unfold PO1; collectF; norm; post_leaves ].
Ltac leafP :=
  first [ apply created_reply_PO
        | apply failed_reply_PO; collectF; norm; congruence
        | unfold PO; collectF; norm; post_leaf ].
Ltac walkP1 := cbv zeta; SrvPaths.des; leafP1.
Ltac walkP := cbv zeta; SrvPaths.des; leafP.

Section PostOp.
Variable s : srv.
Variable h : N.
Variable d : path.
Variable n0 : nattrs.
Hypothesis L : lookup_node s h = Some (d, n0).

Lemma handle_setattr_PO c sa g : PO1 (fs s) d (handle_setattr s c h sa g).
Proof. unfold handle_setattr. rewrite L. walkP1. Qed.
Lemma handle_write_PO off cnt st_ data : PO1 (fs s) d (handle_write s h off cnt st_ data).
Proof. unfold handle_write. rewrite L. walkP1. Qed.
Lemma handle_remove_PO n : PO1 (fs s) d (handle_remove s h n).
Proof. unfold handle_remove. rewrite L. walkP1. Qed.
Lemma handle_rmdir_PO n : PO1 (fs s) d (handle_rmdir s h n).
Proof. unfold handle_rmdir. rewrite L. walkP1. Qed.
Lemma handle_create_PO c n how sa : PO (fs s) d (handle_create s c h n how sa).
Proof. unfold handle_create. rewrite L. walkP. Qed.
Lemma handle_mkdir_PO c n sa : PO (fs s) d (handle_mkdir s c h n sa).
Proof. unfold handle_mkdir. rewrite L. walkP. Qed.
Lemma handle_symlink_PO c n sa t : PO (fs s) d (handle_symlink s c h n sa t).
Proof. unfold handle_symlink. rewrite L. walkP. Qed.
End PostOp.

Lemma handle_rename_PO2 s h1 n1 h2 n2 d1 a1 d2 a2 :
  lookup_node s h1 = Some (d1, a1) -> lookup_node s h2 = Some (d2, a2) ->
  PO2 (fs s) d1 d2 (handle_rename s h1 n1 h2 n2).
Proof.
  intros L1 L2. unfold handle_rename. rewrite L1, L2. cbv zeta.
  SrvPaths.des; unfold PO2; collectF; norm; (split; post_leaf).
Qed.

(* ---------- the object block of LOOKUP / CREATE / MKDIR / SYMLINK carries the fileid of the child path ---------- *)
Definition fid_is (q : path) (x : option fattr) : Prop := forall b, x = Some b -> fa_fileid b = fileid_of q.
Definition child_fid (q : path) (so : srv * obs) : Prop :=
  match ob_attrs (snd so) with [y; _] => fid_is q y | _ => True end.
Lemma fid_is_sf q a : na_fileid a = fileid_of q -> fid_is q (sf a).
Proof. intros H b [= <-]. exact H. Qed.

Lemma srv_create_fid s d n perm uid gid s1 a : AcFid s -> srv_create s d n perm uid gid = (s1, Ok a) ->
  na_fileid a = fileid_of (d ++ [n]).
Proof.
  intros A. unfold srv_create. cbv zeta. SrvPaths.des; try discriminate. intros E.
  match type of E with srv_lookup ?sK ?p = _ =>
    assert (K : AF s sK) by (collectA3; chainA3); exact (srv_lookup_fid sK p _ a (K A) E) end.
Qed.
Ltac fidgoal s A :=
  match goal with
  | E : srv_lookup ?sK ?p = (_, Ok ?a) |- na_fileid ?a = fileid_of ?p =>
      let K := fresh "K" in assert (K : AF s sK) by (collectA3; chainA3); exact (srv_lookup_fid sK p _ a (K A) E)
  | E : srv_create ?sK ?d ?n _ _ _ = (_, Ok ?a) |- na_fileid ?a = fileid_of (?d ++ [?n]) =>
      let K := fresh "K" in assert (K : AF s sK) by (collectA3; chainA3); exact (srv_create_fid sK d n _ _ _ _ a (K A) E)
  end.
Lemma created_reply_CF s h d p a dpre : na_fileid a = fileid_of p -> child_fid p (created_reply s h d p a dpre).
Proof.
  intros H. unfold created_reply. destruct (getattr_h s h d) as [s1 dpost]. destruct dpost as [dp|e]; [|exact I].
  destruct (alloc s1 p a) as [s2 fh]. unfold child_fid. cbn [snd ob_attrs ob_mk]. apply fid_is_sf. exact H.
Qed.
Lemma failed_reply_CF q s h d st_ dpre : child_fid q (failed_reply s h d st_ dpre).
Proof. unfold failed_reply. destruct (getattr_h s h d) as [s1 dpost]. exact I. Qed.
Ltac leafC s A :=
  first [ apply failed_reply_CF
        | apply created_reply_CF; fidgoal s A
        | unfold child_fid; cbn [fst snd ob_attrs ob_mk ob_fail fail_post fail_wcc fail_wcc2];
          first [ exact I | apply fid_is_sf; fidgoal s A ] ].

Section Child.
Variable s : srv.
Variable h : N.
Variable d : path.
Variable n0 : nattrs.
Hypothesis L : lookup_node s h = Some (d, n0).
Hypothesis A : AcFid s.

Lemma handle_lookup_CF n : child_fid (d ++ [n]) (handle_lookup s h n).
Proof. unfold handle_lookup. rewrite L. cbv zeta. SrvPaths.des; leafC s A. Qed.
Lemma handle_create_CF c n how sa : child_fid (d ++ [n]) (handle_create s c h n how sa).
Proof. unfold handle_create. rewrite L. cbv zeta. SrvPaths.des; leafC s A. Qed.
Lemma handle_mkdir_CF c n sa : child_fid (d ++ [n]) (handle_mkdir s c h n sa).
Proof. unfold handle_mkdir. rewrite L. cbv zeta. SrvPaths.des; leafC s A. Qed.
Lemma handle_symlink_CF c n sa t : child_fid (d ++ [n]) (handle_symlink s c h n sa t).
Proof. unfold handle_symlink. rewrite L. cbv zeta. SrvPaths.des; leafC s A. Qed.
End Child.

(* ====================================================================================================== *)
(* 6. SETATTR keeps kinds and fileids                                                                     *)
(* ====================================================================================================== *)
(* the kind Stat/Lstat report for a path *)
Definition stat_kind (f : fsmap) (p : path) (fl : bool) : res kind :=
  match be_stat f p fl with Ok fi => Ok (fi_kind fi) | Err e => Err e end.
(* f' stores an object of the same kind under every key, and reports the same kind (or the same error) for every path *)
Definition KP (f f' : fsmap) : Prop :=
  (forall q, option_map o_kind (fs_get f' q) = option_map o_kind (fs_get f q)) /\
  (forall p fl, stat_kind f' p fl = stat_kind f p fl).
Lemma KP_refl f : KP f f. Proof. split; reflexivity. Qed.
Lemma KP_trans a b c : KP a b -> KP b c -> KP a c.
Proof. intros [A1 A2] [B1 B2]. split; intros; [rewrite B1; apply A1|rewrite B2; apply A2]. Qed.
Lemma KP_upd f q g : keeps_shape g -> KP f (fs_upd f q g).
Proof.
  intros K. split.
  - intros p. rewrite fs_get_upd. destruct (fs_get f p) as [o|]; [|reflexivity]. cbn [option_map].
    destruct (path_eqb p q); [rewrite (proj1 (K o))|]; reflexivity.
  - intros p fl. unfold stat_kind, be_stat. rewrite (resolve_upd q g K). destruct (resolve f p fl) as [p' o| |]; cbn; try reflexivity.
    destruct (path_eqb p' q); [rewrite (proj1 (K o))|]; reflexivity.
Qed.
Lemma be_meta_KP f p fl g : keeps_shape g -> KP f (fst (be_meta f p fl g)).
Proof. intros K. unfold be_meta. destruct (resolve f p fl); cbn [fst]; try apply KP_refl. apply KP_upd. exact K. Qed.
Lemma be_chmod_KP f p m : KP f (fst (be_chmod f p m)).
Proof. apply be_meta_KP. intros o. split; reflexivity. Qed.
Lemma be_chown_KP f p u g : KP f (fst (be_chown f p u g)).
Proof. apply be_meta_KP. intros o. split; reflexivity. Qed.
Lemma be_chtimes_KP f p t : KP f (fst (be_chtimes f p t)).
Proof. apply be_meta_KP. intros o. split; reflexivity. Qed.
Lemma be_truncate_KP f p sz t : KP f (fst (be_truncate f p sz t)).
Proof.
  unfold be_truncate. destruct (resolve f p true) as [q o| |]; cbn [fst]; try apply KP_refl.
  destruct (o_kind o); try apply KP_refl; (destruct (sz <? 0)%Z; cbn [fst]; [apply KP_refl|]);
    apply KP_upd; intros o'; split; reflexivity.
Qed.

Lemma find_filter_other (h h' : N) (l : list (N * nattrs)) : h' <> h ->
  find (fun e => fst e =? h') (filter (fun e => negb (fst e =? h)) l) = find (fun e => fst e =? h') l.
Proof.
  intros Hn. induction l as [|[k x] r IH]; [reflexivity|]. cbn [filter find fst].
  destruct (k =? h) eqn:E; cbn [negb].
  - apply N.eqb_eq in E. subst k. destruct (h =? h') eqn:F; [apply N.eqb_eq in F; congruence|exact IH].
  - cbn [find fst]. destruct (k =? h'); [reflexivity|exact IH].
Qed.
Lemma node_get_set s h a h' : node_get (node_set s h a) h' = if h' =? h then Some a else node_get s h'.
Proof.
  unfold node_get, node_set. cbn [nodes with_nodes find fst].
  destruct (h' =? h) eqn:E.
  - apply N.eqb_eq in E. subst. rewrite N.eqb_refl. reflexivity.
  - rewrite N.eqb_sym, E. apply N.eqb_neq in E. rewrite find_filter_other by exact E. reflexivity.
Qed.

(* s' is s up to in-place changes that keep every kind and every fileid *)
Definition NK (s s' : srv) : Prop :=
  KP (fs s) (fs s') /\ hm s' = hm s /\
  forall h a, node_get s h = Some a ->
    exists a', node_get s' h = Some a' /\ na_kind a' = na_kind a /\ na_fileid a' = na_fileid a.
Lemma NK_refl s : NK s s.
Proof. split; [apply KP_refl|split; [reflexivity|]]. intros h a H. exists a. auto. Qed.
Lemma NK_trans a b c : NK a b -> NK b c -> NK a c.
Proof.
  intros (A1 & A2 & A3) (B1 & B2 & B3). split; [eapply KP_trans; eassumption|split; [congruence|]].
  intros h x H. destruct (A3 h x H) as (y & Hy & K1 & K2). destruct (B3 h y Hy) as (z & Hz & K3 & K4).
  exists z. split; [exact Hz|split; congruence].
Qed.
Lemma NK_same s s' : fs s' = fs s -> hm s' = hm s -> nodes s' = nodes s -> NK s s'.
Proof.
  intros F H N_. split; [rewrite F; apply KP_refl|split; [exact H|]].
  intros h a G. exists a. unfold node_get in *. rewrite N_. auto.
Qed.
Lemma lift_unit_NK s c r : KP (fs s) (fst r) -> NK s (fst (lift_unit s c r)).
Proof. intros K. split; [exact K|split; [reflexivity|]]. intros h a G. exists a. auto. Qed.
Lemma node_upd_NK s h f : (forall a, na_kind (f a) = na_kind a /\ na_fileid (f a) = na_fileid a) -> NK s (node_upd s h f).
Proof.
  intros Hf. unfold node_upd. destruct (node_get s h) as [cur|] eqn:G; [|apply NK_refl].
  split; [apply KP_refl|split; [reflexivity|]]. intros h' a G'. rewrite node_get_set.
  destruct (h' =? h) eqn:E; [|exists a; auto].
  apply N.eqb_eq in E. subst h'. rewrite G in G'. injection G' as <-. exists (f cur). split; [reflexivity|apply Hf].
Qed.
Lemma node_set_NK s0 s h cur new : NK s0 s -> node_get s0 h = Some cur ->
  na_kind new = na_kind cur -> na_fileid new = na_fileid cur -> NK s0 (node_set s h new).
Proof.
  intros (A1 & A2 & A3) G Hk Hf. split; [exact A1|split; [exact A2|]].
  intros h' a G'. rewrite node_get_set. destruct (h' =? h) eqn:E; [|apply A3; exact G'].
  apply N.eqb_eq in E. subst h'. rewrite G in G'. injection G' as <-. exists new. auto.
Qed.

Lemma hm_ac_get s p : hm (fst (ac_get s p)) = hm s.
Proof. apply ac_get_same. Qed.
Lemma srv_getattr_NK s p u g : NK s (fst (srv_getattr s p u g)).
Proof.
  unfold srv_getattr. pose proof (fs_ac_get s p) as F. pose proof (hm_ac_get s p) as H. pose proof (nodes_ac_get s p) as N_.
  destruct (ac_get s p) as [s1 x]. cbn [fst] in *. unfold do_lstat.
  destruct (be_stat (fs s1) p false); cbn [fst]; apply NK_same; assumption.
Qed.
Lemma getattr_h_NK s h p : NK s (fst (getattr_h s h p)).
Proof. unfold getattr_h. destruct (node_get s h); apply srv_getattr_NK. Qed.

Lemma ac_invalidate_NK s p : NK s (ac_invalidate s p). Proof. apply NK_same; reflexivity. Qed.
Lemma logc_NK s c : NK s (logc s c). Proof. apply NK_same; reflexivity. Qed.
Lemma do_stat_NK s p : NK s (fst (do_stat s p)). Proof. apply NK_same; reflexivity. Qed.
Ltac kp :=
  cbn [fst];
  lazymatch goal with
  | |- KP ?x ?x => apply KP_refl
  | |- KP _ (fst (be_chmod _ _ _)) => apply be_chmod_KP
  | |- KP _ (fst (be_chown _ _ _ _)) => apply be_chown_KP
  | |- KP _ (fst (be_chtimes _ _ _)) => apply be_chtimes_KP
  | |- KP _ (fst (be_truncate _ _ _ _)) => apply be_truncate_KP
  end.
Ltac chainN :=
  cbn [fst snd];
  repeat match goal with
  | |- NK ?a ?a => apply NK_refl
  | H : NK ?a ?b |- NK ?a ?b => exact H
  | |- NK ?a (ac_invalidate ?b _) => apply NK_trans with b; [|apply ac_invalidate_NK]
  | |- NK ?a (node_upd ?b _ _) => apply NK_trans with b; [|apply node_upd_NK; intros; split; reflexivity]
  | |- NK ?a (node_set ?b _ _) => eapply node_set_NK; [|eassumption|assumption|assumption]
  | |- NK ?a (logc ?b ?c) => apply NK_trans with b; [|apply logc_NK]
  | |- NK ?a (fst (lift_unit ?b ?c ?r)) => apply NK_trans with b; [|apply lift_unit_NK; kp]
  | H : NK ?b ?c |- NK ?a ?c => apply NK_trans with b; [|exact H]
  end.
Ltac nfact E lem := let H := fresh "K" in pose proof lem as H; rewrite E in H; cbn [fst] in H.
Ltac collectN :=
  repeat match goal with
  | E : getattr_h ?s ?h ?p = (_, _) |- _ => nfact E (getattr_h_NK s h p); revert E
  | E : do_stat ?s ?p = (_, _) |- _ => nfact E (do_stat_NK s p); revert E
  end; intros.

Lemma srv_setattr_NK s h p cur new : node_get s h = Some cur ->
  na_kind new = na_kind cur -> na_fileid new = na_fileid cur -> NK s (fst (srv_setattr s h p cur new)).
Proof. intros G Hk Hf. unfold srv_setattr. cbv zeta. SrvPaths.des; collectN; chainN. Qed.

Lemma handle_setattr_NK s c h sa g : NK s (fst (handle_setattr s c h sa g)).
Proof.
  unfold handle_setattr. cbv zeta. SrvPaths.des; collectN;
  repeat match goal with
  | E : srv_setattr ?s4 ?h ?p ?cur ?new = (_, _), G : node_get ?s4 ?h = Some ?cur |- _ =>
      nfact E (srv_setattr_NK s4 h p cur new G eq_refl eq_refl); revert E
  end; intros; chainN.
Qed.

Lemma NK_lookup_node s s' h p a : NK s s' -> lookup_node s h = Some (p, a) ->
  exists a', lookup_node s' h = Some (p, a') /\ na_kind a' = na_kind a /\ na_fileid a' = na_fileid a.
Proof.
  intros (_ & H & N_). unfold lookup_node. rewrite H. destruct (get (hm s) h) as [q|]; [|discriminate].
  destruct (node_get s h) as [x|] eqn:G; [|discriminate]. intros [= <- <-].
  destruct (N_ h x G) as (a' & -> & K). exists a'. split; [reflexivity|exact K].
Qed.
(* blocks read from two trees related by KP agree on type and fileid *)
Lemma KP_blocks f f' q a a' : KP f f' -> backend_block f q a -> backend_block f' q a' ->
  fa_type (fattr_of a') = fa_type (fattr_of a) /\ na_fileid a' = na_fileid a.
Proof.
  intros [_ K] B B'. destruct (blocks_agree f f' q a a' B B') as [T F]; [|split; congruence].
  intros fi fi' E E'. specialize (K q false). unfold stat_kind in K. rewrite E, E' in K. congruence.
Qed.
Lemma KP_lstat_ok f f' q fi : KP f f' -> be_stat f q false = Ok fi ->
  exists fi', be_stat f' q false = Ok fi' /\ fi_kind fi' = fi_kind fi.
Proof.
  intros [_ K] E. specialize (K q false). unfold stat_kind in K. rewrite E in K.
  destruct (be_stat f' q false) as [fi'|e]; [|discriminate]. exists fi'. split; [reflexivity|congruence].
Qed.

(* ====================================================================================================== *)
(* 7. one request; histories                                                                              *)
(* ====================================================================================================== *)
Lemma garbage_attrs s r o : garbage_reply s r = Some o -> Forall (fun x => x = None) (ob_attrs o).
Proof.
  destruct r; cbn [garbage_reply]; try discriminate; SrvPaths.des; try discriminate; intros [= <-]; cbn; repeat constructor.
Qed.
Lemma last_all_none (l : list (option fattr)) : Forall (fun x => x = None) l -> last l None = None.
Proof. induction 1 as [|x l -> _ IH]; [reflexivity|]. destruct l; [reflexivity|exact IH]. Qed.
Lemma nth_all_none (l : list (option fattr)) k : Forall (fun x => x = None) l -> nth k l None = None.
Proof. intros H. revert k. induction H as [|x l -> _ IH]; intros [|k]; cbn; auto. Qed.

(* the procedures whose reply carries exactly the attributes of the object the handle names *)
Definition family_req (r : req) : option N :=
  match r with
  | RGetattr h | RAccess h _ | RReadlink h | RRead h _ _ | RFsstat h | RFsinfo h | RPathconf h | RCommit h _ _
  | RReaddir h _ _ | RReaddirplus h _ _ _ => Some h
  | _ => None
  end.
Lemma step_family s c r h p n0 : family_req r = Some h -> lookup_node s h = Some (p, n0) ->
  fs (fst (step s c r)) = fs s /\ Forall (opt_ok (fs s) p) (ob_attrs (snd (step s c r))).
Proof.
  intros Hr L. change (GF (fs (clear_log s)) p (step s c r)). unfold step.
  assert (L' : lookup_node (clear_log s) h = Some (p, n0)) by exact L.
  set (s0 := clear_log s) in *. clearbody s0.
  destruct r; try discriminate; injection Hr as ->; cbn [garbage_reply];
    first [ eapply handle_getattr_GF | eapply handle_access_GF | eapply handle_readlink_GF | eapply handle_read_GF
          | eapply handle_fsx_GF | eapply handle_commit_GF | eapply handle_readdir_GF
          | eapply (fun L => proj1 (handle_readdirplus_blocks _ _ _ _ _ _ L)) ]; exact L'.
Qed.
Lemma step_lookup_dir s c h n p n0 : lookup_node s h = Some (p, n0) ->
  fs (fst (step s c (RLookup h n))) = fs s /\ opt_ok (fs s) p (last (ob_attrs (snd (step s c (RLookup h n)))) None).
Proof.
  intros L. change (GL (fs (clear_log s)) p (step s c (RLookup h n))). unfold step. cbn [garbage_reply].
  destruct (str_ok n); [apply handle_lookup_GL with n0; exact L|]. split; [reflexivity|apply opt_ok_none].
Qed.
Lemma step_readdirplus_entries s c h ck dc_ mc d da : lookup_node s h = Some (d, da) -> AcFid s ->
  forall de, In de (ob_entries (snd (step s c (RReaddirplus h ck dc_ mc)))) ->
     exists a, de_attr de = sf a /\ de_fileid de = na_fileid a /\ na_fileid a = fileid_of (d ++ [de_name de]) /\
       ((exists fi, be_stat (fs s) (d ++ [de_name de]) false = Ok fi) -> backend_block (fs s) (d ++ [de_name de]) a).
Proof. intros L A. exact (proj2 (handle_readdirplus_blocks (clear_log s) h ck mc d da L) A). Qed.
Lemma step_readdir_entries s c h ck cnt d da : lookup_node s h = Some (d, da) -> AcFid s ->
  forall de, In de (ob_entries (snd (step s c (RReaddir h ck cnt)))) ->
  de_fileid de = fileid_of (d ++ [de_name de]) /\ de_attr de = None.
Proof. intros L A. exact (handle_readdir_fileids (clear_log s) h ck cnt d da L A). Qed.

(* post-op attributes *)
Definition post1_req (r : req) : option N :=
  match r with RSetattr h _ _ | RWrite h _ _ _ _ | RRemove h _ | RRmdir h _ => Some h | _ => None end.
Definition create_req (r : req) : option (N * name) :=
  match r with RCreate h n _ _ | RMkdir h n _ | RSymlink h n _ _ => Some (h, n) | _ => None end.

Lemma step_post1 s c r h d n0 : post1_req r = Some h -> lookup_node s h = Some (d, n0) ->
  Forall (post_ok (fs s) d (fst (step s c r))) (ob_attrs (snd (step s c r))).
Proof.
  intros Hr L. change (PO1 (fs (clear_log s)) d (step s c r)). unfold step.
  assert (L' : lookup_node (clear_log s) h = Some (d, n0)) by exact L.
  set (s0 := clear_log s) in *. clearbody s0.
  destruct (garbage_reply s0 r) as [o|] eqn:G.
  - apply garbage_attrs in G. unfold PO1. cbn [fst snd]. eapply Forall_impl; [|exact G]. intros x ->. apply post_ok_none.
  - destruct r; try discriminate; injection Hr as ->;
      first [ eapply handle_setattr_PO | eapply handle_write_PO | eapply handle_remove_PO | eapply handle_rmdir_PO ]; exact L'.
Qed.
Lemma step_post_dir s c r h n d n0 : create_req r = Some (h, n) -> lookup_node s h = Some (d, n0) ->
  post_ok (fs s) d (fst (step s c r)) (last (ob_attrs (snd (step s c r))) None).
Proof.
  intros Hr L. change (PO (fs (clear_log s)) d (step s c r)). unfold step.
  assert (L' : lookup_node (clear_log s) h = Some (d, n0)) by exact L.
  set (s0 := clear_log s) in *. clearbody s0.
  destruct (garbage_reply s0 r) as [o|] eqn:G.
  - apply garbage_attrs in G. unfold PO. cbn [fst snd]. rewrite (last_all_none _ G). apply post_ok_none.
  - destruct r; try discriminate; injection Hr as -> ->;
      first [ eapply handle_create_PO | eapply handle_mkdir_PO | eapply handle_symlink_PO ]; exact L'.
Qed.
Lemma step_post_rename s c h1 n1 h2 n2 d1 a1 d2 a2 :
  lookup_node s h1 = Some (d1, a1) -> lookup_node s h2 = Some (d2, a2) ->
  let so := step s c (RRename h1 n1 h2 n2) in
  post_ok (fs s) d1 (fst so) (nth 0 (ob_attrs (snd so)) None) /\ post_ok (fs s) d2 (fst so) (nth 1 (ob_attrs (snd so)) None).
Proof.
  intros L1 L2. cbv zeta. change (PO2 (fs (clear_log s)) d1 d2 (step s c (RRename h1 n1 h2 n2))). unfold step.
  destruct (garbage_reply (clear_log s) (RRename h1 n1 h2 n2)) as [o|] eqn:G.
  - apply garbage_attrs in G. unfold PO2. cbn [fst snd]. rewrite !(nth_all_none _ _ G). split; apply post_ok_none.
  - eapply handle_rename_PO2; [exact L1|exact L2].
Qed.
(* the object block of a successful LOOKUP / CREATE / MKDIR / SYMLINK *)
Lemma step_child_fid s c r h n d n0 :
  (r = RLookup h n \/ create_req r = Some (h, n)) -> lookup_node s h = Some (d, n0) -> AcFid s ->
  match ob_attrs (snd (step s c r)) with [y; _] => fid_is (d ++ [n]) y | _ => True end.
Proof.
  intros Hr L A. change (child_fid (d ++ [n]) (step s c r)). unfold step.
  assert (L' : lookup_node (clear_log s) h = Some (d, n0)) by exact L.
  assert (A' : AcFid (clear_log s)) by exact A.
  set (s0 := clear_log s) in *. clearbody s0.
  destruct (garbage_reply s0 r) as [o|] eqn:G.
  - destruct Hr as [->|Hr]; [|destruct r; try discriminate; injection Hr as -> ->];
      cbn [garbage_reply] in G; revert G; SrvPaths.des; try discriminate; intros [= <-]; exact I.
  - destruct Hr as [->|Hr]; [eapply handle_lookup_CF; eassumption|].
    destruct r; try discriminate; injection Hr as -> ->;
      first [ eapply handle_create_CF | eapply handle_mkdir_CF | eapply handle_symlink_CF ]; eassumption.
Qed.

(* ---------- every block of every reply carries the fileid of the path it describes ---------- *)
Definition fileids_ok (s : srv) (r : req) (o : obs) : Prop :=
  match r with
  | RGetattr h | RAccess h _ | RReadlink h | RRead h _ _ | RFsstat h | RFsinfo h | RPathconf h | RCommit h _ _
  | RSetattr h _ _ | RWrite h _ _ _ _ | RRemove h _ | RRmdir h _ =>
      forall p n0, lookup_node s h = Some (p, n0) -> Forall (fid_is p) (ob_attrs o)
  | RReaddir h _ _ | RReaddirplus h _ _ _ =>
      forall p n0, lookup_node s h = Some (p, n0) ->
        Forall (fid_is p) (ob_attrs o) /\
        forall de, In de (ob_entries o) ->
          de_fileid de = fileid_of (p ++ [de_name de]) /\ fid_is (p ++ [de_name de]) (de_attr de)
  | RLookup h n | RCreate h n _ _ | RMkdir h n _ | RSymlink h n _ _ =>
      forall p n0, lookup_node s h = Some (p, n0) ->
        fid_is p (last (ob_attrs o) None) /\ match ob_attrs o with [y; _] => fid_is (p ++ [n]) y | _ => True end
  | RRename h1 _ h2 _ =>
      forall d1 a1 d2 a2, lookup_node s h1 = Some (d1, a1) -> lookup_node s h2 = Some (d2, a2) ->
        fid_is d1 (nth 0 (ob_attrs o) None) /\ fid_is d2 (nth 1 (ob_attrs o) None)
  | RNull | RMknod _ _ | RLink _ _ _ | RMnt _ | RSetRO _ | RSetMaxFile _ | RSetTsize _ =>
      forall b, ~ In (Some b) (ob_attrs o)
  end.

Lemma opt_ok_fid_is f p x : opt_ok f p x -> fid_is p x.
Proof. intros H b E. eapply opt_ok_fid; eassumption. Qed.
Lemma post_ok_fid_is f0 d s' x : post_ok f0 d s' x -> fid_is d x.
Proof. intros H b E. eapply post_ok_fid; eassumption. Qed.

Lemma step_fileids s c r : AcFid s -> fileids_ok s r (snd (step s c r)).
Proof.
  intros A.
  assert (FAM : forall h p n0, family_req r = Some h -> lookup_node s h = Some (p, n0) ->
                 Forall (fid_is p) (ob_attrs (snd (step s c r)))).
  { intros h p n0 Hr L. destruct (step_family s c r h p n0 Hr L) as [_ H].
    eapply Forall_impl; [|exact H]. intros x. apply opt_ok_fid_is. }
  assert (P1 : forall h p n0, post1_req r = Some h -> lookup_node s h = Some (p, n0) ->
                 Forall (fid_is p) (ob_attrs (snd (step s c r)))).
  { intros h p n0 Hr L. pose proof (step_post1 s c r h p n0 Hr L) as H.
    eapply Forall_impl; [|exact H]. intros x. apply post_ok_fid_is. }
  assert (CR : forall h n p n0, create_req r = Some (h, n) -> lookup_node s h = Some (p, n0) ->
                 fid_is p (last (ob_attrs (snd (step s c r))) None) /\
                 match ob_attrs (snd (step s c r)) with [y; _] => fid_is (p ++ [n]) y | _ => True end).
  { intros h n p n0 Hr L. split; [eapply post_ok_fid_is, step_post_dir; eassumption|].
    eapply step_child_fid; [right; exact Hr|exact L|exact A]. }
  destruct r; cbn [fileids_ok]; try (intros p n0 L; first [ eapply FAM; solve [reflexivity | exact L] | eapply P1; solve [reflexivity | exact L]
                               | eapply CR; solve [reflexivity | exact L] ]).
  - (* RNull *) cbn. intros b [].
  - (* RLookup *) intros p n0 L. split.
    + destruct (step_lookup_dir s c h n p n0 L) as [_ H]. eapply opt_ok_fid_is; exact H.
    + eapply step_child_fid; [left; reflexivity|exact L|exact A].
  - (* RMknod *) cbn. intros b [H|[]]; discriminate.
  - (* RRename *) intros d1 a1 d2 a2 L1 L2. destruct (step_post_rename s c h1 n1 h2 n2 d1 a1 d2 a2 L1 L2) as [H1 H2].
    split; eapply post_ok_fid_is; eassumption.
  - (* RLink *) cbn. intros b [H|[H|[]]]; discriminate.
  - (* RReaddir *) intros p n0 L. split; [eapply FAM; [reflexivity|exact L]|].
    intros de Hde. destruct (step_readdir_entries s c h cookie count p n0 L A de Hde) as [H1 H2].
    split; [exact H1|]. rewrite H2. intros b E; discriminate.
  - (* RReaddirplus *) intros p n0 L. split; [eapply FAM; [reflexivity|exact L]|].
    intros de Hde. destruct (step_readdirplus_entries s c h cookie dircount maxcount p n0 L A de Hde) as (a & H1 & H2 & H3 & _).
    split; [congruence|]. rewrite H1. apply fid_is_sf. exact H3.
  - (* RMnt *) unfold step. destruct (garbage_reply (clear_log s) (RMnt p)) as [o|] eqn:G.
    + apply garbage_attrs in G. cbn [snd]. intros b Hb. apply (proj1 (Forall_forall _ _) G) in Hb. discriminate.
    + unfold handle_mnt. cbv zeta. SrvPaths.des; cbn; intros b' [].
  - cbn. intros b' [].
  - cbn. intros b' [].
  - cbn. intros b' [].
Qed.

(* at every point of every history started from a fresh server *)
Lemma history_fileids f c mx t l x :
  let s := hfinal (srv_init_fs f c mx t) l in fileids_ok s (hs_req x) (snd (hrun1 s x)).
Proof.
  cbv zeta. set (s := hfinal _ l). assert (A : AcFid s) by apply reachable_AcFid.
  exact (step_fileids (with_now s (now s + hs_adv x)) (hs_cred x) (hs_req x) A).
Qed.

(* ---------- SETATTR ---------- *)
Lemma step_setattr_preserves s c h sa g :
  let s' := fst (step s c (RSetattr h sa g)) in
  (forall q, option_map o_kind (fs_get (fs s') q) = option_map o_kind (fs_get (fs s) q)) /\
  (forall q fl, stat_kind (fs s') q fl = stat_kind (fs s) q fl) /\
  hm s' = hm s /\
  (forall h' p a, lookup_node s h' = Some (p, a) ->
     exists a', lookup_node s' h' = Some (p, a') /\ na_kind a' = na_kind a /\ na_fileid a' = na_fileid a) /\
  (forall q a a', backend_block (fs s) q a -> backend_block (fs s') q a' ->
     fa_type (fattr_of a') = fa_type (fattr_of a) /\ na_fileid a' = na_fileid a) /\
  (forall q fi, be_stat (fs s) q false = Ok fi -> exists fi', be_stat (fs s') q false = Ok fi' /\ fi_kind fi' = fi_kind fi).
Proof.
  cbv zeta. unfold step. cbn [garbage_reply].
  pose proof (handle_setattr_NK (clear_log s) c h sa g) as K. set (s' := fst (handle_setattr (clear_log s) c h sa g)) in *.
  assert (K' : NK s s') by exact K. clear K. destruct K' as ((K1 & K2) & H & N_).
  split; [exact K1|split; [exact K2|split; [exact H|split; [|split]]]].
  - intros h' p a L. eapply NK_lookup_node; [|exact L]. split; [split; assumption|split; assumption].
  - intros q a a'. apply KP_blocks. split; assumption.
  - intros q fi. apply KP_lstat_ok. split; assumption.
Qed.

Lemma type_from_kind_num a : fa_type (fattr_of a) = match na_kind a with KFile => 1 | KDir => 2 | KLink => 5 end.
Proof. rewrite type_from_kind. destruct (na_kind a); reflexivity. Qed.
Lemma block_symlink_num f p a fi : backend_block f p a -> be_stat f p false = Ok fi -> fi_kind fi = KLink ->
  fa_type (fattr_of a) = 5 /\ na_kind a = KLink.
Proof. intros B E K. destruct (block_symlink f p a fi B E K) as [H1 H2]. split; [rewrite H1; reflexivity|exact H2]. Qed.
Lemma refresh_all_blocks s l : (forall e, In e l -> na_fileid (snd e) = fileid_of (fst e)) ->
  fs (fst (refresh_all s l)) = fs s /\
  forall e', In e' (snd (refresh_all s l)) ->
    (exists e, In e l /\ fst e' = fst e /\ na_fileid (snd e') = na_fileid (snd e)) /\
    ((exists fi, be_stat (fs s) (fst e') false = Ok fi) -> backend_block (fs s) (fst e') (snd e')).
Proof.
  intros H. destruct (refresh_all_spec l s) as (F & Q & _). split; [exact F|].
  intros e' He'. destruct (Forall2_In_r _ _ _ Q e' He') as (e & Hin & Rp & Rf & Rok & _).
  split; [exists e; auto|]. intros (fi & Hfi). rewrite Rp in *. rewrite (Rok fi Hfi).
  exists fi. repeat split; auto. cbn. apply H. exact Hin.
Qed.

(* ====================================================================================================== *)
(* 8. executable witnesses                                                                                *)
(* ====================================================================================================== *)
(* "/" with a regular file f (3 bytes), a directory d, a symlink l -> "f", a dangling symlink x -> "nope" *)
Definition c04_file : obj :=
  {| o_kind := KFile; o_perm := 420; o_uid := 0; o_gid := 0; o_mtime := 7; o_size := 3; o_data := [(0, 104); (1, 105); (2, 33)];
     o_dsize := 3; o_ddata := [(0, 104); (1, 105); (2, 33)]; o_target := [] |}.
Definition c04_fs : fsmap :=
  fs_set (fs_set (fs_set (fs_set fs_init [[102]] c04_file) [[100]] (mk_dir 493 7)) [[108]] (mk_link [102] 7))
         [[120]] (mk_link [110; 111; 112; 101] 7).
Definition c04_s0 : srv := srv_init_fs c04_fs ex_cfg 0 100.
Definition c04_hist (l : list req) : list hstep := map (fun r => {| hs_adv := 1; hs_cred := ex_cred; hs_req := r |}) l.
(* handles: 1 = /, 2 = /f, 3 = /d, 4 = /l, 5 = /x *)
Definition c04_s1 : srv :=
  hfinal c04_s0 (c04_hist [RMnt [47]; RLookup 1 [102]; RLookup 1 [100]; RLookup 1 [108]; RLookup 1 [120]]).
(* (type, perm, size, fileid) of every block of a reply *)
Definition c04_proj (x : option fattr) : option (N * N * N * N) :=
  match x with Some b => Some (fa_type b, fa_perm b, fa_size b, fa_fileid b) | None => None end.
Definition c04_blocks (s : srv) (r : req) : list (option (N * N * N * N)) := map c04_proj (ob_attrs (snd (step s ex_cred r))).
Definition c04_entries (s : srv) (r : req) : list (name * N * option (N * N * N * N)) :=
  map (fun de => (de_name de, de_fileid de, c04_proj (de_attr de))) (ob_entries (snd (step s ex_cred r))).
Definition c04_sattr (m : N) : sattr :=
  {| s_mode := Some m; s_uid := None; s_gid := None; s_size := None; s_atime := 0; s_atime_v := 0; s_mtime := 0; s_mtime_v := 0 |}.

(* ---------- the full-strength statement, and why the cached LOOKUP blocks are not part of this file ---------- *)
(* every block of a reply, with the path it describes (the handle's path in the pre-state; children by name) *)
Definition hpath (s : srv) (h : N) : list path := match lookup_node s h with Some (p, _) => [p] | None => [] end.
Definition attributed (s : srv) (r : req) (o : obs) : list (path * option fattr) :=
  let at_ k := nth k (ob_attrs o) None in
  match r with
  | RGetattr h | RAccess h _ | RReadlink h | RRead h _ _ | RFsstat h | RFsinfo h | RPathconf h | RCommit h _ _
  | RSetattr h _ _ | RWrite h _ _ _ _ | RRemove h _ | RRmdir h _ | RReaddir h _ _ => map (fun p => (p, at_ 0%nat)) (hpath s h)
  | RLookup h n | RCreate h n _ _ | RMkdir h n _ | RSymlink h n _ _ =>
      flat_map (fun p => match ob_attrs o with [y; x] => [(p ++ [n], y); (p, x)] | [x] => [(p, x)] | _ => [] end) (hpath s h)
  | RRename h1 _ h2 _ => map (fun p => (p, at_ 0%nat)) (hpath s h1) ++ map (fun p => (p, at_ 1%nat)) (hpath s h2)
  | RReaddirplus h _ _ _ =>
      flat_map (fun p => (p, at_ 0%nat) :: map (fun de => (p ++ [de_name de], de_attr de)) (ob_entries o)) (hpath s h)
  | _ => []
  end.
(* full strength: in every history, every block agrees with the Lstat of its path in the tree the reply leaves behind *)
Definition full_statement : Prop :=
  forall f c mx t l x, let s := hfinal (srv_init_fs f c mx t) l in let so := hrun1 s x in
  forall p b, In (p, Some b) (attributed s (hs_req x) (snd so)) -> fattr_ok (fs (fst so)) p b.

(* the model (like the Go code it mirrors) refutes it for a block served from the attribute cache, through a stale
   directory handle whose ancestor was replaced by a symlink: tree /d/s/a (3 bytes); LOOKUP gives handle 3 on "/d/s";
   RENAME /d -> /e; SYMLINK /d -> "e"; LOOKUPs give handle 6 on "/e/s/a"; LOOKUP 3 "a" caches "/d/s/a" (the Lstat
   follows the intermediate link); WRITE of 5 bytes through handle 6 invalidates "/e/s/a" only; LOOKUP 3 "a" then answers
   size 3 from the cache while Lstat of "/d/s/a" (and GETATTR on its handle) say 5.  (MNT through a symlink, the
   shorter route to two names for one directory, is refused since fix 614ea9f.) *)
Definition c04_alias_fs : fsmap :=
  fs_set (fs_set (fs_set fs_init [[100]] (mk_dir 493 7)) [[100]; [115]] (mk_dir 493 7)) [[100]; [115]; [97]] c04_file.
Definition c04_alias_hist : list hstep :=
  c04_hist [RMnt [47]; RLookup 1 [100]; RLookup 2 [115]; RRename 1 [100] 1 [101]; RSymlink 1 [100] (c04_sattr 511) [101];
            RLookup 1 [101]; RLookup 4 [115]; RLookup 5 [97]; RLookup 3 [97]; RWrite 6 0 5 0 [1; 2; 3; 4; 5]].
Lemma full_statement_refuted : ~ full_statement.
Proof.
  intros H.
  pose proof (H c04_alias_fs ex_cfg 0%Z 100 c04_alias_hist {| hs_adv := 1; hs_cred := ex_cred; hs_req := RLookup 3 [97] |}
                [[100]; [115]; [97]]) as HH.
  vm_compute in HH. destruct (HH _ (or_introl eq_refl)) as (fi & E & _ & _ & S & _).
  injection E as <-. discriminate S.
Qed.

Lemma backend_keeps_kind :
  (forall f p m, KP f (fst (be_chmod f p m))) /\ (forall f p u g, KP f (fst (be_chown f p u g))) /\
  (forall f p t, KP f (fst (be_chtimes f p t))) /\ (forall f p sz t, KP f (fst (be_truncate f p sz t))).
Proof. repeat split; first [apply be_chmod_KP | apply be_chown_KP | apply be_chtimes_KP | apply be_truncate_KP]. Qed.
Lemma step_AcFid s c r : AcFid s -> AcFid (fst (step s c r)).
Proof. apply step_AF. Qed.

(* as long as the directory still resolves after the operation, its post-op block is the post-state view *)
Lemma post_ok_live f0 d s' x : post_ok f0 d s' x -> (exists fi, be_stat (fs s') d false = Ok fi) -> opt_ok (fs s') d x.
Proof.
  intros H (fi & E) b Hb. destruct (H b Hb) as (a & -> & [B|[(e & Ee) _]]); [apply backend_block_wire; exact B|].
  rewrite E in Ee. discriminate.
Qed.
