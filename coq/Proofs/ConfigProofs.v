(* Proofs/ConfigProofs.v — lemmas about Model/Config.v (C24). *)
From Coq Require Import List ZArith NArith Bool String Ascii Lia.
From Verif Require Import Gen.Facts Model.Config.
Import ListNotations.
Open Scope Z_scope.

(* ---------- the step lists of Facts.v, executed: the order the Go functions have NOW ---------- *)
Lemma update_tuning_eq : forall ncpu fn s,
  update_tuning ncpu fn s =
  let u := apply_tuning_defaults ncpu (fn (s_tuning s)) in
  mkServer u (s_policy s) (side_effects (s_tuning s) u (s_comp s)).
Proof. intros. reflexivity. Qed.

Definition policy_limiter (p : policy) (c : components) : components :=
  mkComp (c_attr_size c) (c_attr_ttl c) (c_neg_enabled c) (c_neg_ttl c) (c_dir c) (c_pool c)
    (match rlc p with
     | Some r => if enable_rl p then Some r else None
     | None => if enable_rl p then c_limiter c else None
     end).
Definition rlc_filled (p : policy) : policy :=
  set_rlc p (match rlc p with None => Some default_rlc | r => r end).

Lemma update_policy_eq : forall p s,
  update_policy p s =
  if String.eqb (squash (s_policy s)) (squash p)
  then (true, mkServer (s_tuning s) (rlc_filled p) (policy_limiter (rlc_filled p) (s_comp s)))
  else (false, s).
Proof.
  intros. unfold update_policy, cfg_update_policy_steps. cbn [fold_left].
  assert (H1 : up_step (mkUp p s false) "squash_check" =
               if String.eqb (squash (s_policy s)) (squash p) then mkUp p s false else mkUp p s true) by reflexivity.
  rewrite H1. destruct (String.eqb (squash (s_policy s)) (squash p)); reflexivity.
Qed.

Lemma merge_tuning_eq : forall g cur,
  merge_tuning g cur =
  mkTuning (num g) (flag g)
    (match log g with None => log cur | l => l end)
    (match timeouts g with None => timeouts cur | x => x end).
Proof. intros. reflexivity. Qed.

Definition squash_rejected (o : export_options) (s : server) : bool :=
  (negb (String.eqb (squash (snd o)) "") && negb (String.eqb (squash (snd o)) (squash (s_policy s))))%bool.

Lemma update_export_eq : forall ncpu o s,
  update_export ncpu o s =
  if squash_rejected o s then (false, s)
  else
    let s1 := update_tuning ncpu (merge_tuning (fst o)) s in
    let p := rlc_filled (set_squash (snd o) (squash (s_policy s))) in
    (true, mkServer (s_tuning s1) p (policy_limiter p (s_comp s1))).
Proof.
  intros. unfold update_export, cfg_update_export_steps. cbn [fold_left].
  assert (H1 : ue_step ncpu o (squash (s_policy s)) (mkUe s false) "squash_check" =
               if squash_rejected o s then mkUe s true else mkUe s false) by reflexivity.
  rewrite H1. destruct (squash_rejected o s); [reflexivity|].
  assert (H2 : ue_step ncpu o (squash (s_policy s)) (mkUe s false) "tuning" =
               mkUe (update_tuning ncpu (merge_tuning (fst o)) s) false) by reflexivity.
  rewrite H2.
  assert (H3 : forall s1, ue_step ncpu o (squash (s_policy s)) (mkUe s1 false) "policy" =
               let r := update_policy (set_squash (snd o) (squash (s_policy s))) s1 in mkUe (snd r) (negb (fst r))) by reflexivity.
  rewrite H3. cbv zeta. rewrite update_policy_eq.
  rewrite update_tuning_eq. cbn [s_policy s_tuning s_comp squash set_squash].
  rewrite String.eqb_refl. reflexivity.
Qed.

(* ---------- the default tables ---------- *)
Lemma tables_agree :
  cfg_rt_defaults = cfg_new_defaults /\ cfg_rt_timeouts = cfg_new_timeouts_nil /\
  cfg_new_timeouts_fill = cfg_new_timeouts_nil /\ cfg_rt_timeouts_nil_alloc = true /\
  cfg_new_rlc_defaulted = true.
Proof. repeat split; reflexivity. Qed.

Lemma rt_num_row : forall ncpu f, 0 < ncpu ->
  exists d, cfg_lookup cfg_rt_defaults (nfield_name f) = Some d /\ 0 < cfg_eval ncpu d.
Proof. intros ncpu f H; destruct f; (eexists; split; [reflexivity | cbn; lia]). Qed.
Lemma rt_to_row : forall ncpu f, 0 < ncpu ->
  exists d, cfg_lookup cfg_rt_timeouts (tfield_name f) = Some d /\ 0 < cfg_eval ncpu d.
Proof. intros ncpu f H; destruct f; (eexists; split; [reflexivity | cbn; lia]). Qed.
Lemma new_num_row : forall ncpu f, 0 < ncpu ->
  exists d, cfg_lookup cfg_new_defaults (nfield_name f) = Some d /\ 0 < cfg_eval ncpu d.
Proof. destruct tables_agree as [<- _]. exact rt_num_row. Qed.
Lemma new_to_row : forall ncpu f, 0 < ncpu ->
  exists d, cfg_lookup cfg_new_timeouts_nil (tfield_name f) = Some d /\ 0 < cfg_eval ncpu d.
Proof. destruct tables_agree as (_ & <- & _). exact rt_to_row. Qed.

Lemma defaulted_pos : forall ncpu tbl name v,
  (exists d, cfg_lookup tbl name = Some d /\ 0 < cfg_eval ncpu d) -> 0 < defaulted ncpu tbl name v.
Proof.
  intros ncpu tbl name v (d & Hl & Hp). unfold defaulted. rewrite Hl.
  destruct (v <=? 0) eqn:E; lia.
Qed.
Lemma defaulted_le0 : forall ncpu tbl name v,
  (exists d, cfg_lookup tbl name = Some d /\ 0 < cfg_eval ncpu d) -> v <= 0 ->
  defaulted ncpu tbl name v = literal ncpu tbl name.
Proof.
  intros ncpu tbl name v (d & Hl & _) Hv. unfold defaulted, literal. rewrite Hl.
  destruct (v <=? 0) eqn:E; [reflexivity | lia].
Qed.
Lemma defaulted_gt0 : forall ncpu tbl name v, 0 < v -> defaulted ncpu tbl name v = v.
Proof.
  intros. unfold defaulted. destruct (cfg_lookup tbl name); [|reflexivity].
  destruct (v <=? 0) eqn:E; [lia | reflexivity].
Qed.

(* ---------- runtime defaults = construction defaults ---------- *)
Lemma same_as_new_num : forall ncpu t f,
  num (apply_tuning_defaults ncpu t) f = num (new_tuning ncpu t) f.
Proof. intros. destruct tables_agree as [E _]. cbn [apply_tuning_defaults new_tuning num]. rewrite E. reflexivity. Qed.

Lemma same_as_new_timeouts : forall ncpu t,
  exists h h', timeouts (apply_tuning_defaults ncpu t) = Some h /\ timeouts (new_tuning ncpu t) = Some h' /\
               forall f, h f = h' f.
Proof.
  intros. destruct tables_agree as (_ & E2 & E3 & E4 & _).
  cbn [apply_tuning_defaults new_tuning timeouts]. rewrite E4, E2, E3.
  destruct (timeouts t) as [g|].
  - eexists; eexists; split; [reflexivity|split; [reflexivity|]]. intros; reflexivity.
  - eexists; eexists; split; [reflexivity|split; [reflexivity|]]. intros f.
    unfold defaulted, literal. destruct (cfg_lookup cfg_new_timeouts_nil (tfield_name f)); reflexivity.
Qed.

Lemma rt_defaults_applied : forall ncpu g, 0 < ncpu -> defaults_applied ncpu g (apply_tuning_defaults ncpu g).
Proof.
  intros ncpu g Hn. destruct tables_agree as (E1 & E2 & E3 & E4 & _). split.
  - intros f. cbn [apply_tuning_defaults num]. unfold new_default_num. rewrite <- E1. split; intros H.
    + apply defaulted_le0; [apply rt_num_row; assumption | assumption].
    + apply defaulted_gt0; assumption.
  - cbn [apply_tuning_defaults timeouts]. rewrite E4. unfold new_default_timeout. rewrite <- E2.
    destruct (timeouts g) as [gg|].
    + eexists; split; [reflexivity|]. intros f; split; intros H.
      * apply defaulted_le0; [apply rt_to_row; assumption | assumption].
      * apply defaulted_gt0; assumption.
    + eexists; split; [reflexivity|]. intros f.
      apply defaulted_le0; [apply rt_to_row; assumption | lia].
Qed.

Lemma new_defaults_applied : forall ncpu g, 0 < ncpu -> defaults_applied ncpu g (new_tuning ncpu g).
Proof.
  intros ncpu g Hn. destruct (rt_defaults_applied ncpu g Hn) as [Hnum (h & Hh & Hto)]. split.
  - intros f. rewrite <- same_as_new_num. apply Hnum.
  - destruct (same_as_new_timeouts ncpu g) as (h1 & h2 & H1 & H2 & H12).
    rewrite Hh in H1; injection H1 as <-. exists h2; split; [assumption|].
    destruct (timeouts g); intros f; rewrite <- H12; apply Hto.
Qed.

(* ---------- invariant of every reachable state ---------- *)
Record inv (s : server) : Prop := {
  inv_pos : positive_config s;
  inv_comp : comp_agrees s }.

Lemma apply_defaults_positive : forall ncpu t, 0 < ncpu ->
  (forall f, 0 < num (apply_tuning_defaults ncpu t) f) /\
  exists g, timeouts (apply_tuning_defaults ncpu t) = Some g /\ forall f, 0 < g f.
Proof.
  intros ncpu t Hn. split.
  - intros f. cbn [apply_tuning_defaults num]. apply defaulted_pos, rt_num_row; assumption.
  - cbn [apply_tuning_defaults timeouts]. destruct tables_agree as (_ & _ & _ & E4 & _). rewrite E4.
    destruct (timeouts t); eexists; (split; [reflexivity|]); intros f; apply defaulted_pos, rt_to_row; assumption.
Qed.

Lemma new_inv : forall ncpu o s, 0 < ncpu -> new ncpu o = Some s -> inv s.
Proof.
  intros ncpu o s Hn H. unfold new in H. destruct (squash_valid (squash (snd o))); [|discriminate].
  injection H as <-.
  assert (Hnum : forall f, 0 < num (new_tuning ncpu (fst o)) f).
  { intros f. rewrite <- same_as_new_num. apply apply_defaults_positive; assumption. }
  split.
  - split; [exact Hnum|split].
    + destruct (same_as_new_timeouts ncpu (fst o)) as (h1 & h2 & H1 & H2 & H12).
      destruct (apply_defaults_positive ncpu (fst o) Hn) as [_ (g & Hg & Hp)].
      rewrite Hg in H1; injection H1 as <-. exists h2; split; [exact H2|]. intros f; rewrite <- H12; apply Hp.
    + cbn [s_policy]. unfold new_policy. destruct tables_agree as (_ & _ & _ & _ & E5).
      destruct (rlc (snd o)); [cbn; discriminate|]. rewrite E5. cbn; discriminate.
  - unfold comp_agrees. cbn [s_tuning s_policy s_comp new_components c_attr_size c_attr_ttl c_neg_enabled c_neg_ttl c_pool c_limiter c_dir].
    repeat split; try reflexivity.
    + specialize (Hnum NegativeCacheTimeout).
      destruct (0 <? num (new_tuning ncpu (fst o)) NegativeCacheTimeout) eqn:E; [reflexivity | lia].
    + destruct (flag (new_tuning ncpu (fst o)) EnableDirCache); [|discriminate]. injection H as <- _ _; reflexivity.
    + destruct (flag (new_tuning ncpu (fst o)) EnableDirCache); [|discriminate]. injection H as _ <- _; reflexivity.
Qed.

Lemma zneqb_false : forall a b, zneqb a b = false -> a = b.
Proof. unfold zneqb; intros a b H. destruct (a =? b) eqn:E; [lia | discriminate]. Qed.

Lemma side_effects_agree : forall old upd p c,
  (forall f, 0 < num upd f) ->
  comp_agrees (mkServer old p c) -> comp_agrees (mkServer upd p (side_effects old upd c)).
Proof.
  intros old upd p c Hpos (A1 & A2 & A3 & A4 & A5 & A6 & A7).
  cbn [s_tuning s_policy s_comp] in *.
  assert (CH : forall f x, x = num old f ->
            (if ((0 <? num upd f) && zneqb (num upd f) (num old f))%bool then num upd f else x) = num upd f).
  { intros f x ->. specialize (Hpos f).
    destruct (0 <? num upd f) eqn:E1; [|lia]. cbn [andb].
    destruct (zneqb (num upd f) (num old f)) eqn:E2; [reflexivity|]. symmetry; apply zneqb_false; assumption. }
  unfold comp_agrees, side_effects. cbn [s_tuning s_policy s_comp c_attr_size c_attr_ttl c_neg_enabled c_neg_ttl c_pool c_limiter c_dir].
  repeat split.
  - apply CH; assumption.
  - apply CH; assumption.
  - destruct (negb (Bool.eqb (flag upd CacheNegativeLookups) (flag old CacheNegativeLookups))) eqn:E1; cbn [orb]; [reflexivity|].
    apply negb_false_iff, eqb_prop in E1.
    destruct (zneqb (num upd NegativeCacheTimeout) (num old NegativeCacheTimeout)); [reflexivity | congruence].
  - specialize (Hpos NegativeCacheTimeout).
    destruct (0 <? num upd NegativeCacheTimeout) eqn:E0; [|lia]. rewrite andb_true_r.
    destruct (negb (Bool.eqb (flag upd CacheNegativeLookups) (flag old CacheNegativeLookups))); cbn [orb]; [reflexivity|].
    destruct (zneqb (num upd NegativeCacheTimeout) (num old NegativeCacheTimeout)) eqn:E2; [reflexivity|].
    apply zneqb_false in E2. congruence.
  - apply CH; assumption.
  - assumption.
  - destruct (c_dir c) as [[[ttl0 me0] mds0]|]; [|discriminate].
    injection H as <- _ _. destruct (A7 _ _ _ eq_refl) as [-> _]. apply CH; reflexivity.
  - destruct (c_dir c) as [[[ttl0 me0] mds0]|]; [|discriminate].
    injection H as _ <- _. destruct (A7 _ _ _ eq_refl) as [_ ->]. apply CH; reflexivity.
Qed.

Lemma update_tuning_inv : forall ncpu fn s, 0 < ncpu -> inv s -> inv (update_tuning ncpu fn s).
Proof.
  intros ncpu fn s Hn [[P1 [P2 P3]] C]. rewrite update_tuning_eq. cbv zeta.
  destruct (apply_defaults_positive ncpu (fn (s_tuning s)) Hn) as [Q1 Q2].
  split; [split; [exact Q1|split; [exact Q2|exact P3]]|].
  destruct s as [t p c]. cbn [s_tuning s_policy s_comp] in *. apply side_effects_agree; assumption.
Qed.

Lemma rlc_filled_some : forall p, rlc (rlc_filled p) <> None.
Proof. intros p. unfold rlc_filled. cbn [set_rlc rlc]. destruct (rlc p); discriminate. Qed.

Lemma policy_limiter_agree : forall t p0 p c,
  rlc p <> None -> comp_agrees (mkServer t p0 c) -> comp_agrees (mkServer t p (policy_limiter p c)).
Proof.
  intros t p0 p c Hr (A1 & A2 & A3 & A4 & A5 & A6 & A7).
  unfold comp_agrees, policy_limiter in *. cbn [s_tuning s_policy s_comp c_attr_size c_attr_ttl c_neg_enabled c_neg_ttl c_pool c_limiter c_dir] in *.
  repeat split; try assumption.
  - destruct (rlc p); [reflexivity | contradiction].
  - apply (A7 _ _ _ H).
  - apply (A7 _ _ _ H).
Qed.

Lemma update_policy_inv : forall p s, inv s -> inv (snd (update_policy p s)).
Proof.
  intros p s I. rewrite update_policy_eq. destruct (String.eqb (squash (s_policy s)) (squash p)); [|exact I].
  destruct I as [[P1 [P2 P3]] C]. cbn [snd]. split.
  - split; [exact P1|split; [exact P2|]]. cbn [s_policy]. apply rlc_filled_some.
  - destruct s as [t p0 c]. apply (policy_limiter_agree t p0); [apply rlc_filled_some | exact C].
Qed.

Lemma update_export_inv : forall ncpu o s, 0 < ncpu -> inv s -> inv (snd (update_export ncpu o s)).
Proof.
  intros ncpu o s Hn I. rewrite update_export_eq. destruct (squash_rejected o s); [exact I|]. cbv zeta. cbn [snd].
  pose proof (update_tuning_inv ncpu (merge_tuning (fst o)) s Hn I) as [[P1 [P2 P3]] C].
  set (s1 := update_tuning ncpu (merge_tuning (fst o)) s) in *.
  split.
  - split; [exact P1|split; [exact P2|]]. cbn [s_policy]. apply rlc_filled_some.
  - destruct s1 as [t1 p1 c1]. apply (policy_limiter_agree t1 p1); [apply rlc_filled_some | exact C].
Qed.

Lemma apply_update_inv : forall ncpu s u, 0 < ncpu -> inv s -> inv (snd (apply_update ncpu s u)).
Proof.
  intros ncpu s u Hn I. destruct u; cbn [apply_update snd].
  - apply update_export_inv; assumption.
  - apply update_tuning_inv; assumption.
  - apply update_policy_inv; assumption.
Qed.

Lemma run_inv : forall ncpu us s, 0 < ncpu -> inv s -> inv (run ncpu s us).
Proof.
  intros ncpu us. induction us as [|u us IH]; intros s Hn I; [exact I|].
  cbn [run fold_left]. apply IH; [assumption|]. apply apply_update_inv; assumption.
Qed.

(* ---------- the property lemmas ---------- *)
Definition reachable (ncpu : Z) (s : server) : Prop :=
  exists o s0 us, new ncpu o = Some s0 /\ s = run ncpu s0 us.

Lemma reachable_inv : forall ncpu s, 0 < ncpu -> reachable ncpu s -> inv s.
Proof. intros ncpu s Hn (o & s0 & us & Hnew & ->). apply run_inv; [assumption|]. eapply new_inv; eassumption. Qed.

(* all-or-nothing: in ANY state (reachable or not) a rejected update returns the state it was given *)
Lemma atomic_lemma : forall ncpu s u s', apply_update ncpu s u = (false, s') -> s' = s.
Proof.
  intros ncpu s u s' H. destruct u; cbn [apply_update] in H.
  - rewrite update_export_eq in H. destruct (squash_rejected o s); [|discriminate]. congruence.
  - discriminate.
  - rewrite update_policy_eq in H. destruct (String.eqb (squash (s_policy s)) (squash p)); [discriminate|]. congruence.
Qed.

(* which updates are rejected: exactly the Squash changes *)
Lemma rejected_iff : forall ncpu s u,
  fst (apply_update ncpu s u) = false <->
  match u with
  | UExport o => squash (snd o) <> ""%string /\ squash (snd o) <> squash (s_policy s)
  | UTuning _ => False
  | UPolicy p => squash p <> squash (s_policy s)
  end.
Proof.
  intros ncpu s u. destruct u; cbn [apply_update].
  - rewrite update_export_eq. unfold squash_rejected.
    destruct (String.eqb_spec (squash (snd o)) ""), (String.eqb_spec (squash (snd o)) (squash (s_policy s)));
      cbn; split; intros H; try discriminate; try reflexivity; try tauto; try (split; assumption).
  - cbn. split; [discriminate | contradiction].
  - rewrite update_policy_eq. destruct (String.eqb_spec (squash (s_policy s)) (squash p)) as [e|n]; cbn; split; intros H;
      try discriminate; try reflexivity; try congruence.
Qed.

(* effect of an accepted update on the tuning half *)
Lemma accepted_tuning : forall ncpu s u s' g, 0 < ncpu ->
  apply_update ncpu s u = (true, s') -> effective_tuning u s = Some g ->
  defaults_applied ncpu g (s_tuning s').
Proof.
  intros ncpu s u s' g Hn H Hg. destruct u; cbn [apply_update effective_tuning] in *.
  - injection Hg as <-. rewrite update_export_eq in H. destruct (squash_rejected o s); [discriminate|].
    rewrite update_tuning_eq in H. cbv zeta in H. cbn [s_tuning] in H. injection H as <-. cbn [s_tuning].
    apply rt_defaults_applied; assumption.
  - injection Hg as <-. injection H as <-. rewrite update_tuning_eq. cbn [s_tuning]. apply rt_defaults_applied; assumption.
  - discriminate.
Qed.

Lemma accepted_policy_only : forall ncpu s p s',
  apply_update ncpu s (UPolicy p) = (true, s') -> s_tuning s' = s_tuning s.
Proof.
  intros ncpu s p s' H. cbn [apply_update] in H. rewrite update_policy_eq in H.
  destruct (String.eqb (squash (s_policy s)) (squash p)); [|discriminate]. injection H as <-. reflexivity.
Qed.

Lemma accepted_tuning_only : forall ncpu s fn,
  s_policy (update_tuning ncpu fn s) = s_policy s.
Proof. intros. rewrite update_tuning_eq. reflexivity. Qed.

(* a nil RateLimitConfig gets the construction default, a given one is kept; the other policy fields are stored as given
   (Squash: the current one, which an accepted update cannot differ from unless it was left empty in UpdateExportOptions) *)
Lemma accepted_policy : forall ncpu s u s' p,
  apply_update ncpu s u = (true, s') -> given_policy u = Some p ->
  rlc (s_policy s') = (match rlc p with None => Some default_rlc | r => r end) /\
  read_only (s_policy s') = read_only p /\ secure (s_policy s') = secure p /\
  allowed_ips (s_policy s') = allowed_ips p /\ max_file_size (s_policy s') = max_file_size p /\
  enable_rl (s_policy s') = enable_rl p /\ tls (s_policy s') = tls p /\
  squash (s_policy s') = squash (s_policy s).
Proof.
  intros ncpu s u s' p H Hp. destruct u; cbn [apply_update given_policy] in *.
  - injection Hp as <-. rewrite update_export_eq in H. destruct (squash_rejected o s); [discriminate|].
    cbv zeta in H. injection H as <-. cbn. repeat split; reflexivity.
  - discriminate.
  - injection Hp as <-. rewrite update_policy_eq in H.
    destruct (String.eqb_spec (squash (s_policy s)) (squash p0)); [|discriminate]. injection H as <-.
    cbn. repeat split; try reflexivity. symmetry; assumption.
Qed.

(* nil Timeouts / Log through UpdateExportOptions: the current value is kept (documented; known finding k=1) *)
Lemma export_nil_preserved : forall ncpu o s s', 0 < ncpu -> inv s ->
  update_export ncpu o s = (true, s') ->
  (log (fst o) = None -> log (s_tuning s') = log (s_tuning s)) /\
  (timeouts (fst o) = None ->
     exists h h', timeouts (s_tuning s) = Some h /\ timeouts (s_tuning s') = Some h' /\ forall f, h' f = h f).
Proof.
  intros ncpu o s s' Hn [[P1 [(h & Hh & Hpos) P3]] _] H.
  rewrite update_export_eq in H. destruct (squash_rejected o s); [discriminate|].
  rewrite update_tuning_eq in H. cbv zeta in H. cbn [s_tuning] in H. injection H as <-. cbn [s_tuning].
  rewrite merge_tuning_eq. cbn [apply_tuning_defaults log timeouts]. split.
  - intros ->. reflexivity.
  - intros ->. rewrite Hh. eexists; eexists; split; [reflexivity|split; [reflexivity|]].
    intros f. apply defaulted_gt0, Hpos.
Qed.
