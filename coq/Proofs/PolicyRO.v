(* Proofs/PolicyRO.v — the read-only property (C08) on the policy LTS: while "read-only is in force" every backend
   operation belongs to a request admitted under a ReadOnly policy.  Used by Properties/C08t.v. *)
From Coq Require Import List NArith Bool Lia ZifyBool ZifyN.
From Verif Require Import Model.PolicyLTS Proofs.PolicyProofs.
Import ListNotations.
Open Scope N_scope.

(* "read-only is in force" in state s of a run that started from policy p0 (the definition Corr/C08t.v recomputes from
   the UCall / URet / refused-update events):
   - the latest update that RETURNED set ReadOnly - returns are serialised by policyMu and versions grow, so it is the
     returned update whose version is retmax s (ro_latest_returned below) - or no update has returned yet and the
     export was built read-only;
   - no update back to read-write has been called and not yet returned (or been refused for its Squash mode). *)
Definition ro_in_force (p0 : policy) (s : state) : Prop :=
  ((exists u q, upds s u = Some q /\ u_pc q = UReturned /\ u_ver q = retmax s /\ p_ro (u_pol q) = true) \/
   ((forall u q, upds s u = Some q -> u_pc q <> UReturned) /\ p_ro p0 = true)) /\
  (forall u q, upds s u = Some q -> p_ro (u_pol q) = false -> u_pc q = UReturned \/ u_pc q = USquashErr).

(* where the current policy value comes from *)
Record InvP (p0 : policy) (s : state) : Prop := {
  p_init : cur s = 0 -> cur_pol s = p0;
  p_src : forall u q, upds s u = Some q -> stored (u_pc q) = true -> u_ver q = cur s -> u_pol q = cur_pol s;
  p_ex : cur s <> 0 -> exists u q, upds s u = Some q /\ stored (u_pc q) = true /\ u_ver q = cur s }.

Lemma invp_init p0 l0 : InvP p0 (init p0 l0).
Proof. constructor; cbn; try (intros; discriminate); auto. intros H. contradiction. Qed.

Lemma step_invp p0 s l s' : Inv s -> InvP p0 s -> step s l = Some s' -> InvP p0 s'.
Proof.
  intros I [P1 P2 P3] H.
  destruct l; cbn in H; step_inv H; pcs; proj; constructor; proj; auto.
  all: try (intros v qv Hq Hst Hv; proj_in Hq; updcase Hq; try (cbn in Hst; discriminate); eauto; fail).
  all: try (intros Hc; destruct (P3 Hc) as (v & qv & Ev & Sv & Vv);
            match goal with |- context [fset _ ?k _] => destruct (N.eq_dec v k) as [->|Hne] end;
            [eexists; eexists; rewrite fset_eq; split; [reflexivity|];
             match goal with E1 : upds _ ?k = Some ?a, E2 : upds _ ?k = Some ?b |- _ => assert (a = b) by congruence; subst end;
             upcrw; cbn in *; try discriminate; auto
            |exists v, qv; rewrite fset_neq by exact Hne; auto]; fail).
  - (* UCall: a fresh id *)
    intros Hc. destruct (P3 Hc) as (v & qv & Ev & Sv & Vv). exists v, qv. rewrite fset_neq; [auto|]. intros ->. congruence.
  - (* UStore *) intros Hc. lia.
  - intros v qv Hq Hst Hv. proj_in Hq. updcase Hq; [reflexivity|].
    pose proof (proj1 (i_ver _ I _ _ Hq) Hst). lia.
  - intros _. exists u, (with_uver u0 (cur s + 1)). rewrite fset_eq. repeat split; reflexivity.
  - (* USwap / UUnlock / URet: the moved update keeps its policy and version *)
    intros v qv Hq Hst Hv. proj_in Hq. updcase Hq; [|eauto]. cbn in *. apply (P2 _ _ E); [rewrite E0; reflexivity|exact Hv].
  - intros v qv Hq Hst Hv. proj_in Hq. updcase Hq; [|eauto]. cbn in *. apply (P2 _ _ E); [rewrite E0; reflexivity|exact Hv].
  - intros v qv Hq Hst Hv. proj_in Hq. updcase Hq; [|eauto]. cbn in *. apply (P2 _ _ E); [rewrite E0; reflexivity|exact Hv].
Qed.

Lemma run_invp p0 tr : forall s s', Inv s -> InvP p0 s -> run s tr = Some s' -> InvP p0 s'.
Proof.
  induction tr as [|l tr IH]; cbn; intros s s' I P H.
  - injection H as <-. exact P.
  - destruct (step s l) as [s1|] eqn:E; [|discriminate].
    exact (IH _ _ (step_inv_preserved _ _ _ I E) (step_invp _ _ _ _ I P E) H).
Qed.

(* read-only in force => the policy pointer holds a ReadOnly policy *)
Lemma in_force_cur_ro p0 l0 tr s : run (init p0 l0) tr = Some s -> ro_in_force p0 s -> p_ro (cur_pol s) = true.
Proof.
  intros R [Hlast Hrw].
  pose proof (reachable_inv _ _ _ _ R) as I.
  pose proof (run_invp p0 tr _ _ (inv_init p0 l0) (invp_init p0 l0) R) as [P1 P2 P3].
  assert (Ret : forall u q, upds s u = Some q -> u_pc q = UReturned ->
                 u_ver q <= cur s /\ u_ver q <= retmax s /\ stored (u_pc q) = true).
  { intros u q E Pc. pose proof (i_ver _ I _ _ E) as (V1 & _ & _ & V4 & _). rewrite Pc in *. auto. }
  destruct (N.eq_dec (cur s) 0) as [Z|NZ].
  - destruct Hlast as [(u & q & E & Pc & V & Ro)|[_ Ro]]; [|rewrite (P1 Z); exact Ro].
    destruct (Ret _ _ E Pc) as (A & _ & St). rewrite <- (P2 _ _ E St); [exact Ro|lia].
  - destruct (P3 NZ) as (v & qv & Ev & Sv & Vv). rewrite <- (P2 _ _ Ev Sv Vv).
    destruct (p_ro (u_pol qv)) eqn:Rv; [reflexivity|exfalso].
    destruct (Hrw _ _ Ev Rv) as [Pv|Pv]; [|rewrite Pv in Sv; discriminate].
    destruct Hlast as [(u & q & E & Pc & V & Ro)|[Hn _]]; [|exact (Hn _ _ Ev Pv)].
    destruct (Ret _ _ E Pc) as (A & _ & St). destruct (Ret _ _ Ev Pv) as (_ & B & _).
    assert (Vu : u_ver q = cur s) by lia.
    rewrite (P2 _ _ E St Vu) in Ro. rewrite (P2 _ _ Ev Sv Vv) in Rv. congruence.
Qed.

(* the statement behind Properties/C08t.v *)
Lemma readonly_in_force_lemma p0 l0 tr s r s' :
  run (init p0 l0) tr = Some s -> ro_in_force p0 s -> step s (Op r) = Some s' ->
  exists q, reqs s r = Some q /\ executing q = true /\
            r_snap q = r_adm q /\ r_adm q = cur s /\ r_snap_ro q = true /\ p_ro (cur_pol s) = true /\
            oplog s' = (r, cur s, true) :: oplog s.
Proof.
  intros R F H. pose proof (in_force_cur_ro _ _ _ _ R F) as Ro. pose proof (reachable_inv _ _ _ _ R) as I.
  cbn in H. destruct (reqs s r) as [q|] eqn:E; [|discriminate].
  destruct (rpc_eqb (r_pc q) RRunning) eqn:P; [|discriminate]. apply rpc_eqb_eq in P. injection H as <-.
  assert (X : executing q = true) by (unfold executing; rewrite P; reflexivity).
  assert (Sn : snapped q = true) by (unfold snapped; rewrite P; reflexivity).
  destruct (i_snap _ I _ _ E Sn) as [S1 S2]. exists q. repeat split; auto.
  - exact (i_adm _ I _ _ E X).
  - rewrite (S2 X). exact Ro.
  - cbn. rewrite Ro. reflexivity.
Qed.

(* contrapositive reading: a request admitted under a read-write policy has no backend operation while read-only is in
   force - whether HandleCall has timed out on it or not (r_h is unconstrained) *)
Lemma no_rw_request_op_lemma p0 l0 tr s r q :
  run (init p0 l0) tr = Some s -> ro_in_force p0 s -> reqs s r = Some q -> r_snap_ro q = false ->
  step s (Op r) = None.
Proof.
  intros R F E Rw. destruct (step s (Op r)) as [s'|] eqn:H; [|reflexivity].
  destruct (readonly_in_force_lemma _ _ _ _ _ _ R F H) as (q' & E' & _ & _ & _ & Ro & _). congruence.
Qed.

(* why "the returned update whose version is retmax" is the latest one that returned: a return sets retmax to the
   returning update's version, which is the current version, above every earlier one *)
Lemma ro_latest_returned s u s' : reachable s -> step s (URet u) = Some s' ->
  exists q, upds s' u = Some q /\ u_pc q = UReturned /\ u_ver q = retmax s' /\ retmax s <= retmax s' /\ retmax s' = cur s'.
Proof.
  intros R H. apply reachable_Inv in R. cbn in H. destruct (upds s u) as [q|] eqn:E; [|discriminate].
  destruct (u_pc q) eqn:P; try discriminate. injection H as <-. proj. rewrite fset_eq. eexists. split; [reflexivity|].
  pose proof (i_ver _ R _ _ E) as (_ & _ & V3 & _). rewrite P in V3. specialize (V3 (or_intror eq_refl)).
  pose proof (i_gen _ R). cbn. repeat split; lia.
Qed.
