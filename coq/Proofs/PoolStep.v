(* Proofs/PoolStep.v — Part 4 of the worker-pool proofs: every step preserves Str; the C20 lemmas. *)
From Coq Require Import List Arith Bool Lia.
From Verif Require Import Model.PoolLTS Proofs.PoolProofs Proofs.PoolStr.
Import ListNotations.

Ltac keep St :=
  split; [ try exact (s_nopanic _ St) | try exact (s_cur _ St) | try exact (s_old _ St) | try exact (s_idle _ St)
         | try exact (s_pend _ St) | try exact (s_live _ St) | try exact (s_cap _ St) | try exact (s_len _ St)
         | try exact (s_stop _ St) | try exact (s_rz _ St) | try exact (s_free _ St) ].

Ltac start :=
  match goal with |- good ?c -> Str ?s -> step _ _ _ = Some _ -> _ =>
    let SD := fresh "SD" in let OC := fresh "OC" in let LK := fresh "LK" in
    let St := fresh "St" in let H := fresh "H" in let PC := fresh "PC" in
    intros (SD & OC & LK) St H; pose proof (Str_pcs _ St) as PC; unfold step in H; rewrite (s_nopanic _ St) in H;
    rewrite ?LK, ?SD in H; cbn [andb negb] in H
  end.

Lemma Str_SubmitCall c s s' t : good c -> Str s -> step c s (SubmitCall t) = Some s' -> Str s'.
Proof.
  start. break H. injection H as <-.
  destruct (pcs_set_subs s ((t, SCalled) :: subs s)) as (PA & PB & PD); [intros _ N; exact N|exact PC|].
  keep St; try assumption.
  intros u g [EQ|I]; [discriminate|]. exact (s_pend _ St _ _ I).
Qed.

Lemma Str_SubmitBegin c s s' t : good c -> Str s -> step c s (SubmitBegin t) = Some s' -> Str s'.
Proof.
  start. break H. injection H as <-. unfold put_sub.
  match goal with |- Str (set_subs s ?x) => destruct (pcs_set_subs s x) as (PA & PB & PD); [|exact PC|] end.
  { intros R N. rewrite R. unfold no_pending at 1; cbn [subs set_subs]. apply no_pending_upd; [|exact N]. discriminate. }
  keep St; try assumption.
  intros u g I. apply in_upd_sub in I. destruct I as (st0 & I & EQ). destruct (Nat.eqb u t).
  - destruct (running s) eqn:R; [|discriminate]. injection EQ as ->. split; [reflexivity|]. apply (pcs_running _ PC R).
  - subst st0. exact (s_pend _ St _ _ I).
Qed.

Lemma Str_SubmitTimeout c s s' t : good c -> Str s -> step c s (SubmitTimeout t) = Some s' -> Str s'.
Proof.
  start. break H. injection H as <-. unfold put_sub.
  match goal with |- Str (set_subs s ?x) => destruct (pcs_set_subs s x) as (PA & PB & PD); [|exact PC|] end.
  { intros R N. unfold no_pending at 1; cbn [subs set_subs]. apply no_pending_upd; [|exact N]. discriminate. }
  keep St; try assumption.
  intros u g' I. apply in_upd_sub in I. destruct I as (st0 & I & EQ). destruct (Nat.eqb u t); [discriminate|].
  subst st0. exact (s_pend _ St _ _ I).
Qed.

(* the generation a pending Submit or an idle worker refers to is the current one *)
Lemma gen_is_cur s g G0 : Str s -> g = cur s -> nth_error (gens s) g = Some G0 -> G0 = curgen s.
Proof. intros St -> E. rewrite (curgen_nth s (s_cur _ St)) in E. congruence. Qed.

Lemma Str_SubmitEnq c s s' t : good c -> Str s -> step c s (SubmitEnq t) = Some s' -> Str s'.
Proof.
  start. break H; injection H as <-;
  match goal with E : sub_of _ _ = Some (SPending ?g) |- _ =>
    pose proof (sub_of_in _ _ _ E) as IP; destruct (s_pend _ St _ _ IP) as (GC & CL) end;
  match goal with E : nth_error (gens s) _ = Some ?G0 |- _ => pose proof (gen_is_cur _ _ _ St GC E) as EG end; subst.
  - congruence.
  - set (x := upd_sub t (fun _ => SWait) (subs s)).
    set (G' := g_set_items (curgen s) (g_items (curgen s) ++ [t])).
    assert (P1 : pcs (put_gen s (cur s) G')).
    { apply (pcs_put_curgen s G'); [exact (s_cur _ St)|reflexivity|reflexivity| |exact PC].
      intros _ N _. exfalso. exact (no_pending_in _ _ _ N IP). }
    assert (P2 : pcs (set_subs (put_gen s (cur s) G') x)).
    { apply pcs_set_subs; [|exact P1]. intros R N. unfold no_pending at 1; cbn [subs set_subs]. apply no_pending_upd; [|exact N]. discriminate. }
    destruct P2 as (PA & PB & PD).
    match goal with E : (_ <? _) = true |- _ => apply Nat.ltb_lt in E end.
    assert (CG : curgen (put_gen (put_sub s t SWait) (cur s) G') = G') by (apply (curgen_put (put_sub s t SWait) G'); exact (s_cur _ St)).
    split; try assumption.
    + exact (s_nopanic _ St).
    + cbn. rewrite set_nth_length. exact (s_cur _ St).
    + intros g G0 EN N. cbn in EN, N. rewrite nth_error_set_nth_neq in EN by congruence. exact (s_old _ St _ _ EN N).
    + exact (s_idle _ St).
    + intros u g I. rewrite CG. cbn in I. apply in_upd_sub in I. destruct I as (st0 & I & EQ).
      destruct (Nat.eqb u t); [discriminate|]. subst st0. destruct (s_pend _ St _ _ I) as (-> & _). split; [reflexivity|exact CL].
    + exact (s_live _ St).
    + rewrite CG. exact (s_cap _ St).
    + rewrite CG. cbn. rewrite app_length. cbn. lia.
Qed.

Lemma all_exited_not s w x : all_exited s = true -> nth_error (workers s) w = Some x -> is_exit x = false -> False.
Proof. intros A E N. pose proof (forallb_nth _ _ _ _ A E). congruence. Qed.

Lemma nth_error_set_nth_cases {A} (l : list A) w w' x y :
  nth_error (set_nth w x l) w' = Some y -> (w' = w /\ y = x) \/ (w' <> w /\ nth_error l w' = Some y).
Proof.
  intros E. destruct (Nat.eq_dec w w') as [->|N].
  - left. split; [reflexivity|]. assert (w' < length l).
    { rewrite <- (set_nth_length w' x l). eapply nth_error_lt; eauto. }
    rewrite nth_error_set_nth_eq in E by assumption. congruence.
  - right. rewrite nth_error_set_nth_neq in E by assumption. split; [congruence|exact E].
Qed.

Lemma Str_Take c s s' w : good c -> Str s -> step c s (Take w) = Some s' -> Str s'.
Proof.
  start. break H. injection H as <-.
  match goal with E : nth_error (workers s) w = Some (WIdle ?g) |- _ => pose proof (s_idle _ St _ _ E) as GC; pose proof E as EW end.
  match goal with E : nth_error (gens s) _ = Some ?G0 |- _ => pose proof (gen_is_cur _ _ _ St GC E) as EG end. subst.
  match goal with E : g_items (curgen s) = ?t :: ?q |- _ => rename E into EI; set (G' := g_set_items (curgen s) q) end.
  assert (P1 : pcs (put_gen s (cur s) G')).
  { apply (pcs_put_curgen s G'); [exact (s_cur _ St)|reflexivity|reflexivity| |exact PC]. intros Z. congruence. }
  match goal with |- Str (set_workers _ ?ws) => set (ws' := ws) end.
  assert (P2 : pcs (set_workers (put_gen s (cur s) G') ws')).
  { apply pcs_set_workers; [| |exact P1].
    - intros A. exfalso. exact (all_exited_not s _ _ A EW eq_refl).
    - intros _. pose proof (live_set s w _ (WExec t) EW) as Q. cbn in Q. unfold live in Q at 1. cbn in Q.
      change (live (put_gen s (cur s) G')) with (live s). unfold ws', live. lia. }
  destruct P2 as (PA & PB & PD).
  assert (CG : curgen (set_workers (put_gen s (cur s) G') ws') = G') by (apply (curgen_put s G'); exact (s_cur _ St)).
  split; try assumption.
  - exact (s_nopanic _ St).
  - cbn. rewrite set_nth_length. exact (s_cur _ St).
  - intros g G0 EN N. cbn in EN, N. rewrite nth_error_set_nth_neq in EN by congruence. exact (s_old _ St _ _ EN N).
  - intros w' g EN. cbn in EN. apply nth_error_set_nth_cases in EN. destruct EN as [(_ & Q)|(_ & Q)]; [discriminate|].
    exact (s_idle _ St _ _ Q).
  - intros u g I. rewrite CG. destruct (s_pend _ St _ _ I) as (-> & CL). split; [reflexivity|exact CL].
  - pose proof (live_set s w _ (WExec t) EW) as Q. cbn in Q. unfold live in *. cbn in *. pose proof (s_live _ St). unfold live, ws' in *. lia.
  - rewrite CG. exact (s_cap _ St).
  - rewrite CG. pose proof (s_len _ St) as Q. rewrite EI in Q. cbn in *. lia.
Qed.

Lemma Str_Exit c s s' w :
  good c -> Str s -> (step c s (ExitCtx w) = Some s' \/ step c s (ExitClosed w) = Some s') -> Str s'.
Proof.
  intros GD St HH. assert (exists g, nth_error (workers s) w = Some (WIdle g) /\
     (g_cancel (curgen s) = true \/ g_closed (curgen s) = true) /\ s' = set_workers s (set_nth w WExit (workers s))) as (g & EW & FL & ->).
  { destruct HH as [H|H]; unfold step in H; rewrite (s_nopanic _ St) in H; break H; injection H as <-;
    match goal with E : nth_error (workers s) w = Some (WIdle ?g) |- _ => pose proof (s_idle _ St _ _ E) as GC; exists g end;
    match goal with E : nth_error (gens s) _ = Some ?G0 |- _ => pose proof (gen_is_cur _ _ _ St GC E) as EG end; subst; auto. }
  pose proof (Str_pcs _ St) as PC.
  assert (P2 : pcs (set_workers s (set_nth w WExit (workers s)))).
  { apply pcs_set_workers; [| |exact PC].
    - intros A. apply (forallb_set_nth' _ _ _ _ _ EW A). reflexivity.
    - intros (R1 & R2 & _). destruct FL; congruence. }
  destruct P2 as (PA & PB & PD).
  pose proof (live_set s w _ WExit EW) as Q. cbn in Q.
  keep St; try assumption.
  - intros w' g' EN. cbn in EN. apply nth_error_set_nth_cases in EN. destruct EN as [(_ & X)|(_ & X)]; [discriminate|].
    exact (s_idle _ St _ _ X).
  - pose proof (s_live _ St). change (maxw (set_workers s (set_nth w WExit (workers s)))) with (maxw s). unfold live in *. cbn [workers set_workers] in *. lia.
Qed.

Lemma Str_Finish c s s' w : good c -> Str s -> step c s (Finish w) = Some s' -> Str s'.
Proof.
  start. break H. injection H as <-.
  match goal with E : nth_error (workers s) w = Some (WExec ?t) |- _ => pose proof E as EW end.
  set (x := subs (tell s t (SGot (Some t)))).
  assert (P1 : pcs (set_subs s x)).
  { apply pcs_set_subs; [|exact PC]. intros R N. unfold no_pending at 1; cbn [subs set_subs]. unfold x, tell; cbn [subs set_subs].
    apply no_pending_upd; [|exact N]. intros [] Q; cbn in *; congruence. }
  match goal with |- Str (set_workers _ ?ws) => set (ws' := ws) end.
  assert (P2 : pcs (set_workers (set_subs s x) ws')).
  { apply pcs_set_workers; [| |exact P1].
    - intros A. exfalso. exact (all_exited_not s _ _ A EW eq_refl).
    - intros _. pose proof (live_set s w _ (WIdle (cur s)) EW) as Q. cbn in Q. unfold live in Q at 1. cbn in Q.
      change (live (set_subs s x)) with (live s). unfold ws', live. lia. }
  destruct P2 as (PA & PB & PD).
  split; try assumption.
  - exact (s_nopanic _ St).
  - exact (s_cur _ St).
  - exact (s_old _ St).
  - intros w' g EN. cbn in EN. apply nth_error_set_nth_cases in EN. destruct EN as [(_ & Q)|(_ & Q)]; [injection Q as ->; reflexivity|].
    exact (s_idle _ St _ _ Q).
  - intros u g I. apply (in_tell_inv s t (SGot (Some t))) in I. destruct I as [(_ & Q & _)|(I & _)]; [discriminate|].
    exact (s_pend _ St _ _ I).
  - pose proof (live_set s w _ (WIdle (cur s)) EW) as Q. cbn in Q. unfold live in *. cbn in *. pose proof (s_live _ St). unfold live, ws' in *. lia.
  - exact (s_cap _ St).
  - exact (s_len _ St).
Qed.

(* ---- the part of Str that does not mention the program counters ---- *)
Record Str0 (s : state) : Prop := {
  z_nopanic : panicked s = false;
  z_cur : S (cur s) = length (gens s);
  z_old : forall g G0, nth_error (gens s) g = Some G0 -> g <> cur s -> g_items G0 = [];
  z_idle : forall w g, nth_error (workers s) w = Some (WIdle g) -> g = cur s;
  z_pend : forall t g, In (t, SPending g) (subs s) -> g = cur s /\ g_closed (curgen s) = false;
  z_live : live s <= maxw s;
  z_cap : g_cap (curgen s) = queue_factor * maxw s;
  z_len : length (g_items (curgen s)) <= g_cap (curgen s) }.

Lemma Str_Str0 s : Str s -> Str0 s.
Proof. intros St. split; apply St. Qed.
Lemma Str_make s : Str0 s -> pcs s -> Str s.
Proof. intros Z (A & B & C). split; try apply Z; assumption. Qed.

(* Str0 only looks at these components *)
Lemma Str0_eq s s' :
  panicked s' = panicked s -> cur s' = cur s -> gens s' = gens s -> workers s' = workers s -> subs s' = subs s ->
  maxw s' = maxw s -> Str0 s -> Str0 s'.
Proof.
  intros E1 E2 E3 E4 E5 E6 Z. destruct Z. split; unfold curgen, live in *; rewrite ?E1, ?E2, ?E3, ?E4, ?E5, ?E6; assumption.
Qed.
Ltac same0 s Z := apply (Str0_eq s); [reflexivity|reflexivity|reflexivity|reflexivity|reflexivity|reflexivity|exact Z].

(* the current generation is replaced: same capacity, queue within capacity; it may only be closed when no Submit is pending *)
Lemma Str0_put_gen s G' :
  Str0 s -> g_cap G' = g_cap (curgen s) -> length (g_items G') <= g_cap (curgen s) ->
  (g_closed G' = true -> g_closed (curgen s) = true \/ no_pending s = true) ->
  Str0 (put_gen s (cur s) G').
Proof.
  intros Z C L N. assert (CG : curgen (put_gen s (cur s) G') = G') by (apply curgen_put; apply Z).
  split; rewrite ?CG.
  - apply Z.
  - cbn. rewrite set_nth_length. apply Z.
  - intros g G0 EN NE. cbn in EN, NE. rewrite nth_error_set_nth_neq in EN by congruence. exact (z_old _ Z _ _ EN NE).
  - apply Z.
  - intros u g I. cbn in I. destruct (z_pend _ Z _ _ I) as (-> & CL). split; [reflexivity|].
    destruct (g_closed G') eqn:Q; [|reflexivity]. destruct (N eq_refl) as [X|X]; [congruence|].
    exfalso. exact (no_pending_in _ _ _ X I).
  - apply Z.
  - rewrite C. apply Z.
  - rewrite C. exact L.
Qed.
Lemma Str0_put_gen_shrink s G' :
  Str0 s -> g_cap G' = g_cap (curgen s) -> length (g_items G') <= length (g_items (curgen s)) ->
  (g_closed G' = true -> g_closed (curgen s) = true \/ no_pending s = true) ->
  Str0 (put_gen s (cur s) G').
Proof. intros Z C L N. apply Str0_put_gen; auto. pose proof (z_len _ Z). lia. Qed.

Lemma Str0_tell s t x : (forall g, x <> SPending g) -> Str0 s -> Str0 (tell s t x).
Proof.
  intros NP Z. split; try apply Z.
  intros u g I. apply in_tell_inv in I. destruct I as [(_ & Q & _)|(I & _)]; [exfalso; exact (NP _ (eq_sym Q))|].
  exact (z_pend _ Z _ _ I).
Qed.

(* facts about [tell] for the program-counter part *)
Lemma pcs_tell s t x : (forall g, x <> SPending g) -> pcs s -> pcs (tell s t x).
Proof.
  intros NP PC. unfold tell. apply pcs_set_subs; [|exact PC]. intros _ N.
  unfold no_pending at 1; cbn [subs set_subs]. apply no_pending_upd; [|exact N].
  intros [] Q; cbn in *; try congruence. destruct x; cbn in Q; try discriminate. exfalso. exact (NP g eq_refl).
Qed.

(* normalising the observers of a state that differs from s only in program counters / flags / the current generation *)
Ltac norm1 f s :=
  repeat match goal with |- context [f ?x] => lazymatch x with s => fail | _ => change (f x) with (f s) end end.
Ltac normg s G' :=
  repeat match goal with |- context [curgen ?x] =>
    lazymatch x with s => fail | put_gen s (cur s) G' => fail | _ => change (curgen x) with (curgen (put_gen s (cur s) G')) end end.
Ltac norm s := norm1 no_pending s; norm1 all_exited s; norm1 live s; norm1 maxw s; norm1 cur s.
Ltac pcopen := unfold pcs, stop_inv, rz_inv, free_inv, idle_facts, running_facts, stopped_facts, stop_free, rz_free.
Ltac pcproj := cbn [stop rz running resizing set_stop set_rz set_running set_resizing put_gen set_gens set_subs set_workers set_executed tell].

Lemma Str_StopCall c s s' : good c -> Str s -> step c s StopCall = Some s' -> Str s'.
Proof.
  start. break H. injection H as <-. apply Str_make; [same0 s (Str_Str0 _ St)|].
  revert PC. pcopen. pcproj. norm s. norm1 curgen s.
  match goal with E : stop s = _ |- _ => rewrite E end. destruct (rz s); intuition (try discriminate; try congruence).
Qed.

Lemma Str_StopCAS c s s' : good c -> Str s -> step c s StopCAS = Some s' -> Str s'.
Proof.
  start. pose proof (Str_Str0 _ St) as Z. break H; injection H as <-.
  - (* running: CAS succeeds, context cancelled *)
    match goal with E : nth_error (gens s) _ = Some ?G0 |- _ => pose proof (gen_is_cur _ _ _ St eq_refl E) as EG end. subst.
    set (G' := g_cancelled (curgen s)).
    assert (CG : curgen (put_gen s (cur s) G') = G') by (apply curgen_put; apply Z).
    apply Str_make.
    + apply (Str0_eq (put_gen s (cur s) G')); try reflexivity.
      apply (Str0_put_gen_shrink s G' Z); [reflexivity|apply le_n|]. intros Q. left. exact Q.
    + pose proof (pcs_running _ PC) as RF. revert PC RF. pcopen. pcproj. norm s. normg s G'. rewrite CG. cbn [g_closed g_cancel G' g_cancelled].
      match goal with E : stop s = _ |- _ => rewrite E end. match goal with E : running s = _ |- _ => rewrite E end.
      match goal with E : negb _ = false |- _ => apply negb_false_iff in E; unfold rz_free in E end.
      destruct (rz s); try discriminate; intuition (try discriminate; try congruence).
  - (* not running: Stop returns at once *)
    apply Str_make; [same0 s Z|].
    revert PC. pcopen. pcproj. norm s. norm1 curgen s.
    match goal with E : stop s = _ |- _ => rewrite E end. destruct (rz s); intuition (try discriminate; try congruence).
Qed.
