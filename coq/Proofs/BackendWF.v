(* Proofs/BackendWF.v — well-formedness of the backend tree of Model/Backend.v, a fuel-free closed form of
   path resolution on link-free trees, and for every backend operation used by the namespace handlers:
   an exact specification (success condition + resulting tree), preservation of well-formedness, and
   FRAME lemmas (which paths' projected attributes and which directories' listings can change).

   Side condition used throughout ("the aliasing caveat" of property C02): [nolinks fs] — the tree holds
   no symbolic-link object — and [nodd p] — the path has no ".." component.  Under these two, resolution
   of p is determined by [fs_get] on the prefixes of p; in particular the fuel of [walk_fuel] suffices
   (EFUEL and ELOOP never occur).

   Written for property C02 (Proofs/SrvCoh.v); independent of Proofs/BackendData.v. *)
From Coq Require Import List NArith ZArith Bool Lia.
From Verif Require Import Model.Backend.
Import ListNotations.
Open Scope N_scope.

(* ====================================================================================================== *)
(* 1. equality tests, prefixes, parents                                                                   *)
(* ====================================================================================================== *)
Lemma beqb_eq a : forall b, bytes_eqb a b = true <-> a = b.
Proof.
  induction a as [|x a IH]; intros [|y b]; cbn; split; try discriminate; try reflexivity.
  - intros H. apply andb_true_iff in H. destruct H as [H1 H2]. apply N.eqb_eq in H1. apply IH in H2. congruence.
  - intros [= -> ->]. rewrite N.eqb_refl. cbn. apply IH. reflexivity.
Qed.
Lemma peqb_eq a : forall b, path_eqb a b = true <-> a = b.
Proof.
  induction a as [|x a IH]; intros [|y b]; cbn; split; try discriminate; try reflexivity.
  - intros H. apply andb_true_iff in H. destruct H as [H1 H2]. apply beqb_eq in H1. apply IH in H2. congruence.
  - intros [= -> ->]. apply andb_true_iff. split; [apply beqb_eq|apply IH]; reflexivity.
Qed.
Lemma peqb_refl a : path_eqb a a = true. Proof. apply peqb_eq. reflexivity. Qed.
Lemma peqb_neq a b : path_eqb a b = false <-> a <> b.
Proof. rewrite <- peqb_eq. destruct (path_eqb a b); split; congruence. Qed.
Lemma peqb_sym a b : path_eqb a b = path_eqb b a.
Proof.
  destruct (path_eqb a b) eqn:E.
  - apply peqb_eq in E. subst. symmetry. apply peqb_refl.
  - symmetry. apply peqb_neq. apply peqb_neq in E. congruence.
Qed.
(* case analysis on a path equality test *)
Ltac peq a b :=
  let E := fresh "E" in
  destruct (path_eqb a b) eqn:E; [apply peqb_eq in E|apply peqb_neq in E].

Lemma is_prefix_spec a : forall b, is_prefix a b = true <-> exists r, b = a ++ r.
Proof.
  induction a as [|x a IH]; intros b; cbn.
  - split; [intros _; exists b; reflexivity|reflexivity].
  - destruct b as [|y b].
    + split; [discriminate|intros [r H]; discriminate].
    + rewrite andb_true_iff, beqb_eq, IH. split.
      * intros [-> [r ->]]. exists r. reflexivity.
      * intros [r [= -> ->]]. split; [reflexivity|exists r; reflexivity].
Qed.
Lemma is_prefix_app a r : is_prefix a (a ++ r) = true.
Proof. apply is_prefix_spec. exists r. reflexivity. Qed.
Lemma is_prefix_refl a : is_prefix a a = true.
Proof. apply is_prefix_spec. exists []. symmetry. apply app_nil_r. Qed.
Lemma is_prefix_false a b : is_prefix a b = false <-> forall r, b <> a ++ r.
Proof.
  destruct (is_prefix a b) eqn:E.
  - apply is_prefix_spec in E. destruct E as [r ->]. split; [discriminate|intros H; exfalso; exact (H r eq_refl)].
  - split; [|reflexivity]. intros _ r ->. rewrite is_prefix_app in E. discriminate.
Qed.
Lemma is_prefix_trans a b c : is_prefix a b = true -> is_prefix b c = true -> is_prefix a c = true.
Proof.
  rewrite !is_prefix_spec. intros [r ->] [r' ->]. exists (r ++ r'). symmetry. apply app_assoc.
Qed.

Lemma parent_snoc (d : path) n : parent (d ++ [n]) = d.
Proof. apply removelast_last. Qed.
Lemma snoc_parent (p : path) : p <> [] -> p = parent p ++ [last p []].
Proof. apply app_removelast_last. Qed.
Lemma last_snoc (d : path) n : last (d ++ [n]) [] = n.
Proof. apply last_last. Qed.
Lemma snoc_neq {A} (d : list A) n : d ++ [n] <> d.
Proof. intros H. apply (f_equal (@length A)) in H. rewrite app_length in H. cbn in H. lia. Qed.
Lemma snoc_nonnil {A} (d : list A) n : d ++ [n] <> [].
Proof. destruct d; discriminate. Qed.
Lemma snoc_inj {A} (a b : list A) x y : a ++ [x] = b ++ [y] -> a = b /\ x = y.
Proof. intros H. apply app_inj_tail in H. exact H. Qed.
Lemma parent_app (a b : path) : b <> [] -> parent (a ++ b) = a ++ parent b.
Proof. intros H. unfold parent. apply removelast_app. exact H. Qed.

Lemma is_child_spec d p : is_child d p = true <-> exists n, p = d ++ [n].
Proof.
  unfold is_child. destruct p as [|x p'].
  - split; [discriminate|intros [n H]; destruct d; discriminate].
  - rewrite peqb_eq. set (p := x :: p'). split.
    + intros <-. exists (last p []). apply snoc_parent. discriminate.
    + intros [n ->]. apply parent_snoc.
Qed.
Lemma is_child_snoc d n : is_child d (d ++ [n]) = true.
Proof. apply is_child_spec. exists n. reflexivity. Qed.
Lemma is_child_parent d p : is_child d p = true -> parent p = d /\ p <> [].
Proof. intros H. apply is_child_spec in H. destruct H as [n ->]. split; [apply parent_snoc|apply snoc_nonnil]. Qed.

(* ====================================================================================================== *)
(* 2. the flat map                                                                                        *)
(* ====================================================================================================== *)
Definition keys (fs : fsmap) : list path := map fst fs.

Lemma fs_get_In fs p o : fs_get fs p = Some o -> In (p, o) fs.
Proof.
  induction fs as [|[q x] r IH]; cbn; [discriminate|].
  peq p q; [intros [= ->]; subst; left; reflexivity|intros H; right; apply IH; exact H].
Qed.
Lemma fs_get_None fs p : fs_get fs p = None <-> ~ In p (keys fs).
Proof.
  induction fs as [|[q x] r IH]; cbn; [tauto|].
  peq p q.
  - subst. split; [discriminate|intros H; exfalso; apply H; left; reflexivity].
  - rewrite IH. split; [intros H [F|F]; [congruence|exact (H F)]|intros H F; apply H; right; exact F].
Qed.
Lemma In_fs_get fs p o : NoDup (keys fs) -> In (p, o) fs -> fs_get fs p = Some o.
Proof.
  induction fs as [|[q x] r IH]; cbn; [intros _ []|].
  intros ND [H|H].
  - injection H as -> ->. rewrite peqb_refl. reflexivity.
  - inversion ND as [|? ? N1 N2]; subst. peq p q.
    + subst. exfalso. apply N1. change q with (fst (q, o)). apply in_map. exact H.
    + apply IH; assumption.
Qed.
Lemma fs_get_some_key fs p o : fs_get fs p = Some o -> In p (keys fs).
Proof. intros H. apply fs_get_In in H. change p with (fst (p, o)). apply in_map. exact H. Qed.

Lemma fs_get_upd fs q f p :
  fs_get (fs_upd fs q f) p = if path_eqb p q then option_map f (fs_get fs p) else fs_get fs p.
Proof.
  unfold fs_upd. induction fs as [|[k x] r IH]; cbn [map fs_get fst snd]; [destruct (path_eqb p q); reflexivity|].
  peq q k.
  - subst k. cbn [fs_get]. peq p q; [reflexivity|exact IH].
  - cbn [fs_get]. peq p k.
    + subst k. peq p q; [congruence|reflexivity].
    + exact IH.
Qed.
Lemma fs_get_del fs q p : fs_get (fs_del fs q) p = if path_eqb p q then None else fs_get fs p.
Proof.
  unfold fs_del. induction fs as [|[k x] r IH]; cbn [filter fs_get fst]; [destruct (path_eqb p q); reflexivity|].
  peq q k; cbn [negb].
  - subst k. rewrite IH. peq p q; reflexivity.
  - cbn [fs_get]. peq p k; [|exact IH]. subst k. peq p q; [congruence|reflexivity].
Qed.
Lemma fs_get_set fs q o p : fs_get (fs_set fs q o) p = if path_eqb p q then Some o else fs_get fs p.
Proof. unfold fs_set. cbn [fs_get]. peq p q; [reflexivity|]. rewrite fs_get_del. apply peqb_neq in E. rewrite E. reflexivity. Qed.
Lemma keys_upd fs q f : keys (fs_upd fs q f) = keys fs.
Proof.
  unfold keys, fs_upd. rewrite map_map. apply map_ext. intros [k x]. cbn. destruct (path_eqb q k); reflexivity.
Qed.
Lemma fs_del_absent fs q : fs_get fs q = None -> fs_del fs q = fs.
Proof.
  unfold fs_del. induction fs as [|[k x] r IH]; cbn [filter fs_get fst]; [reflexivity|].
  peq q k; [discriminate|]. intros H. cbn [negb]. rewrite IH by exact H. reflexivity.
Qed.

(* the touched object: only the mtime changes *)
Definition touch_o (t : N) (o : obj) : obj :=
  {| o_kind := o_kind o; o_perm := o_perm o; o_uid := o_uid o; o_gid := o_gid o; o_mtime := t;
     o_size := o_size o; o_data := o_data o; o_dsize := o_dsize o; o_ddata := o_ddata o; o_target := o_target o |}.
Lemma touch_upd fs d t : touch fs d t = fs_upd fs d (touch_o t).
Proof. reflexivity. Qed.
Lemma fs_get_touch fs d t p :
  fs_get (touch fs d t) p = if path_eqb p d then option_map (touch_o t) (fs_get fs p) else fs_get fs p.
Proof. rewrite touch_upd. apply fs_get_upd. Qed.

(* ---------- the projection of an object the attribute cache is about ---------- *)
Definition pko (o : obj) : kind * N * N := (o_kind o, o_perm o, stat_size o).
Definition pk (fs : fsmap) (p : path) : option (kind * N * N) := option_map pko (fs_get fs p).
Definition kd (fs : fsmap) (p : path) : bool :=
  match fs_get fs p with Some o => kind_eqb (o_kind o) KDir | None => false end.
Definition keeps_pk (f : obj -> obj) : Prop := forall o, pko (f o) = pko o.
Definition keeps_kind (f : obj -> obj) : Prop := forall o, o_kind (f o) = o_kind o.

Lemma kind_eqb_eq a b : kind_eqb a b = true <-> a = b.
Proof. destruct a, b; cbn; split; congruence. Qed.
Lemma kd_true fs p : kd fs p = true <-> exists o, fs_get fs p = Some o /\ o_kind o = KDir.
Proof.
  unfold kd. destruct (fs_get fs p) as [o|].
  - rewrite kind_eqb_eq. split; [intros H; exists o; auto|intros [o' [[= ->] H]]; exact H].
  - split; [discriminate|intros [o' [H _]]; discriminate].
Qed.
Lemma keeps_pk_kind f : keeps_pk f -> keeps_kind f.
Proof. intros H o. specialize (H o). unfold pko in H. congruence. Qed.
Lemma touch_o_pk t : keeps_pk (touch_o t).
Proof. intros o. reflexivity. Qed.
Lemma pk_upd fs q f p : keeps_pk f -> pk (fs_upd fs q f) p = pk fs p.
Proof.
  intros K. unfold pk. rewrite fs_get_upd. destruct (path_eqb p q); [|reflexivity].
  destruct (fs_get fs p) as [o|]; cbn; [rewrite K|]; reflexivity.
Qed.
Lemma kd_upd fs q f p : keeps_kind f -> kd (fs_upd fs q f) p = kd fs p.
Proof.
  intros K. unfold kd. rewrite fs_get_upd. destruct (path_eqb p q); [|reflexivity].
  destruct (fs_get fs p) as [o|]; cbn; [rewrite K|]; reflexivity.
Qed.
Lemma fs_get_upd_none fs q f p : fs_get (fs_upd fs q f) p = None <-> fs_get fs p = None.
Proof. rewrite fs_get_upd. destruct (path_eqb p q), (fs_get fs p); cbn; split; congruence. Qed.
Lemma pk_kd fs fs' p : pk fs' p = pk fs p -> kd fs' p = kd fs p.
Proof.
  unfold pk, kd. destruct (fs_get fs' p) as [a|], (fs_get fs p) as [b|]; cbn; try discriminate; [|reflexivity].
  unfold pko. intros [= -> _ _]. reflexivity.
Qed.

(* ====================================================================================================== *)
(* 3. well-formed trees                                                                                   *)
(* ====================================================================================================== *)
Record WF (fs : fsmap) : Prop := {
  wf_nodup : NoDup (keys fs);
  wf_root : kd fs [] = true;
  wf_parent : forall p o, fs_get fs p = Some o -> p <> [] -> kd fs (parent p) = true
}.
Definition nolinks (fs : fsmap) : Prop := forall p o, fs_get fs p = Some o -> o_kind o <> KLink.
Definition nodd (p : path) : Prop := Forall (fun c => is_dotdot c = false) p.

Lemma nodd_app p q : nodd (p ++ q) <-> nodd p /\ nodd q.
Proof. apply Forall_app. Qed.
Lemma nodd_snoc p n : nodd p -> is_dotdot n = false -> nodd (p ++ [n]).
Proof. intros A B. apply nodd_app. split; [exact A|constructor; [exact B|constructor]]. Qed.

Lemma WF_init : WF fs_init.
Proof.
  split.
  - cbn. constructor; [intros []|constructor].
  - reflexivity.
  - intros p o. cbn. destruct p; cbn; [congruence|discriminate].
Qed.
Lemma nolinks_init : nolinks fs_init.
Proof. intros p o. cbn. destruct p; cbn; [intros [= <-]; discriminate|discriminate]. Qed.

(* every prefix of a present path is present; proper prefixes are directories *)
Lemma wf_prefix fs (W : WF fs) a : forall b o, fs_get fs (a ++ b) = Some o ->
  exists o', fs_get fs a = Some o' /\ (b <> [] -> o_kind o' = KDir).
Proof.
  intros b. induction b as [|x b IH] using rev_ind; intros o H.
  - rewrite app_nil_r in H. exists o. split; [exact H|congruence].
  - rewrite app_assoc in H. pose proof (wf_parent fs W _ _ H (snoc_nonnil _ _)) as K.
    rewrite parent_snoc in K. apply kd_true in K. destruct K as [d [K1 K2]].
    destruct (IH d K1) as [o' [A B]]. exists o'. split; [exact A|]. intros _.
    destruct b as [|y b']; [|apply B; discriminate].
    rewrite app_nil_r in K1. congruence.
Qed.
Lemma wf_prefix_kd fs (W : WF fs) a b o : fs_get fs (a ++ b) = Some o -> b <> [] -> kd fs a = true.
Proof.
  intros H NE. destruct (wf_prefix fs W a b o H) as [o' [A B]]. apply kd_true. exists o'. auto.
Qed.
(* nothing lives below an absent path or below a non-directory *)
Lemma wf_below fs (W : WF fs) a b o : fs_get fs (a ++ b) = Some o -> b <> [] -> kd fs a = true.
Proof. apply wf_prefix_kd. exact W. Qed.
Lemma wf_absent_below fs (W : WF fs) a b : kd fs a = false -> b <> [] -> fs_get fs (a ++ b) = None.
Proof.
  intros K NE. destruct (fs_get fs (a ++ b)) as [o|] eqn:E; [|reflexivity].
  rewrite (wf_prefix_kd fs W a b o E NE) in K. discriminate.
Qed.
Lemma wf_root_present fs (W : WF fs) : exists o, fs_get fs [] = Some o /\ o_kind o = KDir.
Proof. apply kd_true. apply wf_root. exact W. Qed.

(* ====================================================================================================== *)
(* 4. resolution without fuel                                                                             *)
(* ====================================================================================================== *)
Fixpoint rwalk (fs : fsmap) (canon : path) (todo : list name) : walk_res :=
  match fs_get fs canon with
  | None => WErr ENOENT
  | Some cur =>
    match todo with
    | [] => WFound canon cur
    | c :: rest =>
      if negb (kind_eqb (o_kind cur) KDir) then WErr ENOTDIR
      else
        match fs_get fs (canon ++ [c]) with
        | None => match rest with [] => WMissing (canon ++ [c]) | _ => WErr ENOENT end
        | Some ch => match rest with [] => WFound (canon ++ [c]) ch | _ => rwalk fs (canon ++ [c]) rest end
        end
    end
  end.

Lemma kind_neq_link k : k <> KLink -> kind_eqb k KLink = false.
Proof. destruct k; cbn; congruence. Qed.

(* on a link-free tree and a ".."-free path the fuel-bounded walk is the structural one as soon as the
   fuel exceeds the number of components: EFUEL / ELOOP are impossible *)
Lemma walk_rwalk fs (NL : nolinks fs) follow : forall todo fuel links canon,
  nodd todo -> (length todo < fuel)%nat -> walk fuel links fs canon todo follow = rwalk fs canon todo.
Proof.
  induction todo as [|c rest IH]; intros fuel links canon ND HF.
  - destruct fuel as [|fuel']; [cbn in HF; lia|]. cbn [walk rwalk]. reflexivity.
  - destruct fuel as [|fuel']; [cbn in HF; lia|]. cbn [walk rwalk].
    destruct (fs_get fs canon) as [cur|]; [|reflexivity].
    destruct (negb (kind_eqb (o_kind cur) KDir)); [reflexivity|].
    inversion ND as [|? ? D1 D2]; subst. rewrite D1.
    destruct (fs_get fs (canon ++ [c])) as [ch|] eqn:G; [|reflexivity].
    rewrite (kind_neq_link _ (NL _ _ G)). cbn [andb].
    destruct rest as [|c2 rest']; [reflexivity|].
    apply IH; [exact D2|cbn [length] in *; lia].
Qed.
Theorem resolve_rwalk fs p follow : nolinks fs -> nodd p -> resolve fs p follow = rwalk fs [] p.
Proof. intros NL ND. unfold resolve, walk_fuel. apply walk_rwalk; [exact NL|exact ND|lia]. Qed.

(* shape of the results *)
Lemma rwalk_found_inv fs : forall t c q o, rwalk fs c t = WFound q o -> q = c ++ t /\ fs_get fs q = Some o.
Proof.
  induction t as [|x rest IH]; intros c q o; cbn [rwalk].
  - destruct (fs_get fs c) as [cur|] eqn:G; [|discriminate]. intros [= <- <-]. rewrite app_nil_r. auto.
  - destruct (fs_get fs c) as [cur|]; [|discriminate].
    destruct (negb (kind_eqb (o_kind cur) KDir)); [discriminate|].
    destruct (fs_get fs (c ++ [x])) as [ch|] eqn:G.
    + destruct rest as [|y rest'].
      * intros [= <- <-]. auto.
      * intros H. apply IH in H. rewrite <- app_assoc in H. exact H.
    + destruct rest; discriminate.
Qed.
Lemma rwalk_missing_inv fs : forall t c q, rwalk fs c t = WMissing q ->
  q = c ++ t /\ fs_get fs q = None /\ t <> [] /\ kd fs (parent q) = true.
Proof.
  induction t as [|x rest IH]; intros c q; cbn [rwalk].
  - destruct (fs_get fs c); discriminate.
  - destruct (fs_get fs c) as [cur|] eqn:Gc; [|discriminate].
    destruct (negb (kind_eqb (o_kind cur) KDir)) eqn:K; [discriminate|].
    destruct (fs_get fs (c ++ [x])) as [ch|] eqn:G.
    + destruct rest as [|y rest']; [discriminate|].
      intros H. apply IH in H. rewrite <- app_assoc in H. destruct H as (A & B & _ & D).
      repeat split; auto. discriminate.
    + destruct rest as [|y rest']; [|discriminate].
      intros [= <-]. repeat split; auto; [discriminate|].
      rewrite parent_snoc. unfold kd. rewrite Gc. apply negb_false_iff in K. exact K.
Qed.
Lemma rwalk_err_inv fs : forall t c e, rwalk fs c t = WErr e -> e = ENOENT \/ e = ENOTDIR.
Proof.
  induction t as [|x rest IH]; intros c e; cbn [rwalk].
  - destruct (fs_get fs c); [discriminate|]. intros [= <-]. auto.
  - destruct (fs_get fs c) as [cur|]; [|intros [= <-]; auto].
    destruct (negb (kind_eqb (o_kind cur) KDir)); [intros [= <-]; auto|].
    destruct (fs_get fs (c ++ [x])) as [ch|].
    + destruct rest as [|y rest']; [discriminate|]. apply IH.
    + destruct rest; [discriminate|intros [= <-]; auto].
Qed.

(* on well-formed trees *)
Lemma rwalk_present fs (W : WF fs) : forall t c o, fs_get fs (c ++ t) = Some o -> rwalk fs c t = WFound (c ++ t) o.
Proof.
  induction t as [|x rest IH]; intros c o H; cbn [rwalk].
  - rewrite app_nil_r in *. rewrite H. reflexivity.
  - destruct (wf_prefix fs W c (x :: rest) o H) as [cur [G K]]. rewrite G, K by discriminate. cbn [kind_eqb negb].
    change (x :: rest) with ([x] ++ rest) in H. rewrite app_assoc in H.
    destruct (wf_prefix fs W (c ++ [x]) rest o H) as [ch [G2 _]]. rewrite G2.
    destruct rest as [|y rest'].
    + rewrite app_nil_r in H. congruence.
    + rewrite (IH (c ++ [x]) o H). rewrite <- app_assoc. reflexivity.
Qed.
Lemma rwalk_missing fs (W : WF fs) : forall t c, t <> [] ->
  fs_get fs (c ++ t) = None -> kd fs (parent (c ++ t)) = true -> rwalk fs c t = WMissing (c ++ t).
Proof.
  induction t as [|x rest IH]; intros c NE H K; [congruence|]. cbn [rwalk].
  apply kd_true in K. destruct K as [d [K1 K2]].
  destruct rest as [|y rest'].
  - rewrite parent_snoc in K1. rewrite K1, K2. cbn [kind_eqb negb]. rewrite H. reflexivity.
  - set (rest := y :: rest') in *.
    assert (P : parent (c ++ x :: rest) = (c ++ [x]) ++ parent rest).
    { change (x :: rest) with ([x] ++ rest). rewrite app_assoc. apply parent_app. discriminate. }
    rewrite P in K1.
    assert (K1' : fs_get fs (c ++ ([x] ++ parent rest)) = Some d) by (rewrite app_assoc; exact K1).
    destruct (wf_prefix fs W c _ d K1') as [cur [G Kc]]. rewrite G, Kc by discriminate. cbn [kind_eqb negb].
    destruct (wf_prefix fs W (c ++ [x]) _ d K1) as [ch [G2 _]]. rewrite G2.
    change (x :: rest) with ([x] ++ rest) in *. rewrite app_assoc in *.
    apply IH; [discriminate|exact H|]. rewrite P. apply kd_true. exists d. auto.
Qed.

(* one more component *)
Lemma rwalk_snoc fs n : forall t c,
  rwalk fs c (t ++ [n]) =
  match rwalk fs c t with
  | WFound q o => if negb (kind_eqb (o_kind o) KDir) then WErr ENOTDIR
                  else match fs_get fs (q ++ [n]) with None => WMissing (q ++ [n]) | Some ch => WFound (q ++ [n]) ch end
  | WMissing _ => WErr ENOENT
  | WErr e => WErr e
  end.
Proof.
  induction t as [|x rest IH]; intros c.
  - cbn [app rwalk]. destruct (fs_get fs c) as [cur|]; reflexivity.
  - cbn [app]. cbn [rwalk]. destruct (fs_get fs c) as [cur|]; [|reflexivity].
    destruct (negb (kind_eqb (o_kind cur) KDir)); [reflexivity|].
    destruct (fs_get fs (c ++ [x])) as [ch|] eqn:G.
    + destruct rest as [|y rest'].
      * cbn [app]. change [n] with ([] ++ [n]) at 1. rewrite (IH (c ++ [x])). cbn [rwalk]. rewrite G. reflexivity.
      * cbn [app]. apply IH.
    + destruct rest; reflexivity.
Qed.

(* ---------- the closed form of [resolve] ---------- *)
Section Closed.
Variable fs : fsmap.
Hypothesis W : WF fs.
Hypothesis NL : nolinks fs.

Theorem resolve_present p o fl : nodd p -> fs_get fs p = Some o -> resolve fs p fl = WFound p o.
Proof. intros ND H. rewrite resolve_rwalk by assumption. apply (rwalk_present fs W p [] o). exact H. Qed.
Theorem resolve_missing p fl : nodd p -> fs_get fs p = None -> kd fs (parent p) = true -> resolve fs p fl = WMissing p.
Proof.
  intros ND H K. rewrite resolve_rwalk by assumption. apply (rwalk_missing fs W p []); [|exact H|exact K].
  intros ->. destruct (wf_root_present fs W) as [o [R _]]. cbn in H. congruence.
Qed.
Theorem resolve_error p fl : nodd p -> fs_get fs p = None -> kd fs (parent p) = false ->
  exists e, resolve fs p fl = WErr e /\ (e = ENOENT \/ e = ENOTDIR).
Proof.
  intros ND H K. rewrite resolve_rwalk by assumption.
  destruct (rwalk fs [] p) as [q o|q|e] eqn:R.
  - apply rwalk_found_inv in R. destruct R as [-> R]. cbn [app] in R. congruence.
  - apply rwalk_missing_inv in R. destruct R as (-> & _ & _ & R). cbn [app] in R. congruence.
  - exists e. split; [reflexivity|]. eapply rwalk_err_inv. exact R.
Qed.
(* all three together, as a case analysis *)
Inductive resolve_case (p : path) (fl : bool) : Prop :=
| RC_found o : fs_get fs p = Some o -> resolve fs p fl = WFound p o -> resolve_case p fl
| RC_missing : fs_get fs p = None -> kd fs (parent p) = true -> p <> [] -> resolve fs p fl = WMissing p -> resolve_case p fl
| RC_err e : fs_get fs p = None -> kd fs (parent p) = false -> (e = ENOENT \/ e = ENOTDIR) ->
             resolve fs p fl = WErr e -> resolve_case p fl.
Theorem resolve_cases p fl : nodd p -> resolve_case p fl.
Proof.
  intros ND. destruct (fs_get fs p) as [o|] eqn:G.
  - apply (RC_found p fl o G). apply resolve_present; assumption.
  - destruct (kd fs (parent p)) eqn:K.
    + apply RC_missing; auto; [|apply resolve_missing; assumption].
      intros ->. destruct (wf_root_present fs W) as [o [R _]]. congruence.
    + destruct (resolve_error p fl ND G K) as [e [R E]]. apply (RC_err p fl e); assumption.
Qed.
Theorem resolve_follow_irrelevant p fl : nodd p -> resolve fs p fl = resolve fs p false.
Proof. intros ND. rewrite !resolve_rwalk by assumption. reflexivity. Qed.

(* be_stat *)
Theorem be_stat_present p o fl : nodd p -> fs_get fs p = Some o -> be_stat fs p fl = Ok (info_of o).
Proof. intros ND H. unfold be_stat. rewrite (resolve_present p o fl ND H). reflexivity. Qed.
Theorem be_stat_absent p fl : nodd p -> fs_get fs p = None ->
  exists e, be_stat fs p fl = Err e /\ (e = ENOENT \/ e = ENOTDIR).
Proof.
  intros ND H. unfold be_stat. destruct (resolve_cases p fl ND) as [o G R|G K NE R|e G K E R]; rewrite R.
  - congruence.
  - exists ENOENT. auto.
  - exists e. auto.
Qed.
Theorem be_stat_ok_inv p fl fi : nodd p -> be_stat fs p fl = Ok fi -> exists o, fs_get fs p = Some o /\ fi = info_of o.
Proof.
  intros ND H. destruct (fs_get fs p) as [o|] eqn:G.
  - rewrite (be_stat_present p o fl ND G) in H. injection H as <-. exists o. auto.
  - destruct (be_stat_absent p fl ND G) as [e [E _]]. congruence.
Qed.
Theorem be_stat_err_inv p fl e : nodd p -> be_stat fs p fl = Err e -> fs_get fs p = None /\ (e = ENOENT \/ e = ENOTDIR).
Proof.
  intros ND H. destruct (fs_get fs p) as [o|] eqn:G.
  - rewrite (be_stat_present p o fl ND G) in H. discriminate.
  - destruct (be_stat_absent p fl ND G) as [e' [E1 E2]]. split; [reflexivity|]. congruence.
Qed.
Theorem be_stat_follow p fl : nodd p -> be_stat fs p fl = be_stat fs p false.
Proof. intros ND. unfold be_stat. rewrite (resolve_follow_irrelevant p fl ND). reflexivity. Qed.

(* the error of an absent child, from the status of its directory *)
Theorem be_stat_child_absent d n fl : nodd d -> is_dotdot n = false -> fs_get fs (d ++ [n]) = None ->
  be_stat fs (d ++ [n]) fl =
  match be_stat fs d false with
  | Ok fi => if kind_eqb (fi_kind fi) KDir then Err ENOENT else Err ENOTDIR
  | Err e => Err e
  end.
Proof.
  intros ND Dn H. unfold be_stat. rewrite !resolve_rwalk by (try apply nodd_snoc; assumption).
  rewrite rwalk_snoc. destruct (rwalk fs [] d) as [q o|q|e] eqn:R.
  - apply rwalk_found_inv in R. destruct R as [-> R]. cbn [app] in *. rewrite H. cbn [info_of fi_kind].
    destruct (kind_eqb (o_kind o) KDir); reflexivity.
  - reflexivity.
  - reflexivity.
Qed.
End Closed.

(* resolution only looks at the kinds along the path and at the final object *)
Lemma rwalk_ext fs fs' : forall t c,
  (forall q, is_prefix q (c ++ t) = true -> q <> c ++ t -> kd fs' q = kd fs q /\ (fs_get fs' q = None <-> fs_get fs q = None)) ->
  fs_get fs' (c ++ t) = fs_get fs (c ++ t) ->
  rwalk fs' c t = rwalk fs c t.
Proof.
  induction t as [|x rest IH]; intros c HP HL.
  - cbn [rwalk]. rewrite app_nil_r in HL. rewrite HL. reflexivity.
  - cbn [rwalk].
    assert (Pc : is_prefix c (c ++ x :: rest) = true) by apply is_prefix_app.
    assert (Nc : c <> c ++ x :: rest).
    { intros F. apply (f_equal (@length name)) in F. rewrite app_length in F. cbn in F. lia. }
    destruct (HP c Pc Nc) as [Kc Ec].
    destruct (fs_get fs' c) as [cur'|] eqn:G', (fs_get fs c) as [cur|] eqn:G;
      try (exfalso; destruct Ec as [E1 E2]; first [specialize (E1 eq_refl)|specialize (E2 eq_refl)]; discriminate); [|reflexivity].
    unfold kd in Kc. rewrite G', G in Kc. rewrite Kc.
    destruct (negb (kind_eqb (o_kind cur) KDir)); [reflexivity|].
    destruct rest as [|y rest'].
    + rewrite HL. reflexivity.
    + set (rest := y :: rest') in *.
      assert (A : (c ++ [x]) ++ rest = c ++ x :: rest) by (rewrite <- app_assoc; reflexivity).
      assert (Px : is_prefix (c ++ [x]) (c ++ x :: rest) = true) by (rewrite <- A; apply is_prefix_app).
      assert (Nx : c ++ [x] <> c ++ x :: rest).
      { rewrite <- A. intros F. apply (f_equal (@length name)) in F. rewrite !app_length in F. cbn in F. lia. }
      destruct (HP _ Px Nx) as [Kx Ex].
      assert (R : rwalk fs' (c ++ [x]) rest = rwalk fs (c ++ [x]) rest).
      { apply IH; rewrite A; [exact HP|exact HL]. }
      destruct (fs_get fs' (c ++ [x])) as [ch'|] eqn:H', (fs_get fs (c ++ [x])) as [ch|] eqn:H;
        try (exfalso; destruct Ex as [E1 E2]; first [specialize (E1 eq_refl)|specialize (E2 eq_refl)]; discriminate);
        [exact R|reflexivity].
Qed.

(* ====================================================================================================== *)
(* 5. directory listings                                                                                  *)
(* ====================================================================================================== *)
Fixpoint insert_nm (n : name) (l : list name) : list name :=
  match l with [] => [n] | m :: r => if bytes_leb n m then n :: l else m :: insert_nm n r end.
Definition child_keys (fs : fsmap) (d : path) : list path := filter (is_child d) (keys fs).
(* the names [be_readdir] returns for d (without its presence / kind check) *)
Definition listing (fs : fsmap) (d : path) : list name :=
  fold_right insert_nm [] (map (fun k => last k []) (child_keys fs d)).

Lemma map_fst_insert n l : map fst (insert_name n l) = insert_nm (fst n) (map fst l).
Proof.
  induction l as [|m r IH]; cbn [insert_name insert_nm map]; [reflexivity|].
  destruct (bytes_leb (fst n) (fst m)); cbn [map]; [reflexivity|rewrite IH; reflexivity].
Qed.
Lemma children_keys fs d : map fst (children fs d) = child_keys fs d.
Proof.
  unfold children, child_keys, keys. induction fs as [|[k x] r IH]; cbn [filter map fst]; [reflexivity|].
  destruct (is_child d k); cbn [map fst]; rewrite IH; reflexivity.
Qed.
Lemma sorted_names l :
  map fst (fold_right insert_name [] (map (fun e : path * obj => (last (fst e) [], snd e)) l)) =
  fold_right insert_nm [] (map (fun k => last k []) (map fst l)).
Proof.
  induction l as [|e r IH]; cbn [map fold_right]; [reflexivity|]. rewrite map_fst_insert, IH. reflexivity.
Qed.
Lemma be_readdir_spec fs d :
  be_readdir fs d =
  match fs_get fs d with
  | Some o => match o_kind o with
              | KDir => Ok (fold_right insert_name [] (map (fun e => (last (fst e) [], snd e)) (children fs d)))
              | _ => Err ENOTDIR end
  | None => Err ENOENT
  end.
Proof. reflexivity. Qed.
Lemma be_readdir_listing fs d ents : be_readdir fs d = Ok ents -> map fst ents = listing fs d /\ kd fs d = true.
Proof.
  unfold be_readdir, kd. destruct (fs_get fs d) as [o|]; [|discriminate].
  destruct (o_kind o); try discriminate. intros [= <-]. split; [|reflexivity].
  rewrite sorted_names, children_keys. reflexivity.
Qed.
Lemma be_readdir_dir fs d : kd fs d = true -> exists ents, be_readdir fs d = Ok ents /\ map fst ents = listing fs d.
Proof.
  intros K. apply kd_true in K. destruct K as [o [G K]]. unfold be_readdir. rewrite G, K.
  eexists. split; [reflexivity|]. rewrite sorted_names, children_keys. reflexivity.
Qed.
Lemma be_readdir_notdir fs d : kd fs d = false -> exists e, be_readdir fs d = Err e.
Proof.
  unfold kd, be_readdir. destruct (fs_get fs d) as [o|]; [|eexists; reflexivity].
  destruct (o_kind o); cbn; try discriminate; eexists; reflexivity.
Qed.

Lemma child_keys_upd fs q f d : child_keys (fs_upd fs q f) d = child_keys fs d.
Proof. unfold child_keys. rewrite keys_upd. reflexivity. Qed.
Lemma listing_upd fs q f d : listing (fs_upd fs q f) d = listing fs d.
Proof. unfold listing. rewrite child_keys_upd. reflexivity. Qed.
Lemma keys_del fs q : keys (fs_del fs q) = filter (fun k => negb (path_eqb q k)) (keys fs).
Proof.
  unfold keys, fs_del. induction fs as [|[k x] r IH]; cbn [filter map fst]; [reflexivity|].
  destruct (negb (path_eqb q k)); cbn [map fst]; rewrite IH; reflexivity.
Qed.
Lemma filter_filter_weak {A} (P Q : A -> bool) l : (forall x, P x = true -> Q x = true) ->
  filter P (filter Q l) = filter P l.
Proof.
  intros H. induction l as [|x r IH]; cbn [filter]; [reflexivity|].
  destruct (Q x) eqn:EQ; cbn [filter]; [rewrite IH; reflexivity|].
  destruct (P x) eqn:EP; [rewrite (H x EP) in EQ; discriminate|exact IH].
Qed.
Lemma child_keys_del fs q d : d <> parent q \/ q = [] -> child_keys (fs_del fs q) d = child_keys fs d.
Proof.
  intros H. unfold child_keys. rewrite keys_del. apply filter_filter_weak. intros k C.
  apply negb_true_iff, peqb_neq. intros <-. apply is_child_parent in C. destruct C as [C1 C2].
  destruct H as [H|H]; congruence.
Qed.
Lemma child_keys_set fs q o d : d <> parent q \/ q = [] -> child_keys (fs_set fs q o) d = child_keys fs d.
Proof.
  intros H. unfold fs_set. unfold child_keys at 1. cbn [keys map fst filter].
  destruct (is_child d q) eqn:C.
  - apply is_child_parent in C. destruct C. destruct H; congruence.
  - apply (child_keys_del fs q d H).
Qed.

Lemma has_children_false fs q : has_children fs q = false <-> forall n, fs_get fs (q ++ [n]) = None.
Proof.
  unfold has_children. split.
  - intros H n. apply fs_get_None. intros I. unfold keys in I. apply in_map_iff in I. destruct I as [e [E1 E2]].
    assert (F : existsb (fun e => is_child q (fst e)) fs = true).
    { apply existsb_exists. exists e. split; [exact E2|]. rewrite E1. apply is_child_snoc. }
    congruence.
  - intros H. destruct (existsb _ fs) eqn:F; [|reflexivity]. apply existsb_exists in F. destruct F as [[k x] [F1 F2]].
    cbn [fst] in F2. apply is_child_spec in F2. destruct F2 as [n ->]. specialize (H n).
    apply fs_get_None in H. exfalso. apply H. change (q ++ [n]) with (fst (q ++ [n], x)). apply in_map. exact F1.
Qed.
Lemma has_children_true fs q : has_children fs q = true <-> exists n o, fs_get fs (q ++ [n]) = Some o.
Proof.
  destruct (has_children fs q) eqn:H.
  - split; [intros _|reflexivity]. unfold has_children in H. apply existsb_exists in H. destruct H as [[k x] [F1 F2]].
    cbn [fst] in F2. apply is_child_spec in F2. destruct F2 as [n ->]. exists n.
    destruct (fs_get fs (q ++ [n])) as [o|] eqn:G; [exists o; reflexivity|].
    apply fs_get_None in G. exfalso. apply G. change (q ++ [n]) with (fst (q ++ [n], x)). apply in_map. exact F1.
  - split; [discriminate|]. intros [n [o G]]. rewrite (proj1 (has_children_false fs q) H n) in G. discriminate.
Qed.
(* the names of a listing are exactly the present children *)
Lemma In_insert_nm x n l : In x (insert_nm n l) <-> x = n \/ In x l.
Proof.
  induction l as [|m r IH]; cbn [insert_nm]; [cbn; intuition congruence|].
  destruct (bytes_leb n m); cbn [In]; [intuition congruence|]. rewrite IH. cbn [In]. intuition congruence.
Qed.
Lemma In_listing fs d n : In n (listing fs d) <-> fs_get fs (d ++ [n]) <> None.
Proof.
  unfold listing. assert (A : forall l, In n (fold_right insert_nm [] l) <-> In n l).
  { induction l as [|x r IH]; cbn [fold_right]; [tauto|]. rewrite In_insert_nm, IH. cbn [In]. intuition congruence. }
  rewrite A, in_map_iff. unfold child_keys. split.
  - intros [k [K1 K2]]. apply filter_In in K2. destruct K2 as [K2 K3]. apply is_child_spec in K3. destruct K3 as [m ->].
    rewrite last_snoc in K1. subst m. intros F. apply fs_get_None in F. exact (F K2).
  - intros H. exists (d ++ [n]). split; [apply last_snoc|]. apply filter_In. split; [|apply is_child_snoc].
    destruct (fs_get fs (d ++ [n])) as [o|] eqn:G; [|congruence]. eapply fs_get_some_key. exact G.
Qed.

(* ====================================================================================================== *)
(* 6. adding and deleting one entry                                                                       *)
(* ====================================================================================================== *)
Definition fs_add (fs : fsmap) (p : path) (o : obj) (t : N) : fsmap := touch (fs_set fs p o) (parent p) t.
Definition fs_rm (fs : fsmap) (p : path) (t : N) : fsmap := touch (fs_del fs p) (parent p) t.
Definition creatable (fs : fsmap) (p : path) : bool :=
  match fs_get fs p with Some _ => false | None => kd fs (parent p) end.

Lemma parent_neq (p : path) : p <> [] -> parent p <> p.
Proof. intros NE H. rewrite (snoc_parent p NE) in H at 2. symmetry in H. exact (snoc_neq _ _ H). Qed.
Lemma creatable_nonroot fs (W : WF fs) p : creatable fs p = true -> p <> [].
Proof.
  unfold creatable. intros H ->. destruct (wf_root_present fs W) as [o [R _]]. rewrite R in H. discriminate.
Qed.

Lemma fs_get_add fs p o t q : p <> [] ->
  fs_get (fs_add fs p o t) q =
  if path_eqb q p then Some o else if path_eqb q (parent p) then option_map (touch_o t) (fs_get fs q) else fs_get fs q.
Proof.
  intros NE. unfold fs_add. rewrite fs_get_touch, fs_get_set.
  peq q p.
  - subst q. peq p (parent p); [exfalso; symmetry in E; exact (parent_neq p NE E)|reflexivity].
  - reflexivity.
Qed.
Lemma pk_add fs p o t q : p <> [] -> q <> p -> pk (fs_add fs p o t) q = pk fs q.
Proof.
  intros NE Q. unfold pk. rewrite fs_get_add by exact NE. apply peqb_neq in Q. rewrite Q.
  destruct (path_eqb q (parent p)); [|reflexivity]. destruct (fs_get fs q); reflexivity.
Qed.
Lemma fs_get_add_same fs p o t : p <> [] -> fs_get (fs_add fs p o t) p = Some o.
Proof. intros NE. rewrite fs_get_add by exact NE. rewrite peqb_refl. reflexivity. Qed.
Lemma fs_get_del' fs p t q : p <> [] ->
  fs_get (fs_rm fs p t) q =
  if path_eqb q p then None else if path_eqb q (parent p) then option_map (touch_o t) (fs_get fs q) else fs_get fs q.
Proof.
  intros NE. unfold fs_rm. rewrite fs_get_touch, fs_get_del.
  peq q p; [|reflexivity]. subst q. peq p (parent p); reflexivity.
Qed.
Lemma pk_del fs p t q : p <> [] -> q <> p -> pk (fs_rm fs p t) q = pk fs q.
Proof.
  intros NE Q. unfold pk. rewrite fs_get_del' by exact NE. apply peqb_neq in Q. rewrite Q.
  destruct (path_eqb q (parent p)); [|reflexivity]. destruct (fs_get fs q); reflexivity.
Qed.
Lemma fs_get_del_same fs p t : p <> [] -> fs_get (fs_rm fs p t) p = None.
Proof. intros NE. rewrite fs_get_del' by exact NE. rewrite peqb_refl. reflexivity. Qed.
Lemma listing_add fs p o t d : d <> parent p -> listing (fs_add fs p o t) d = listing fs d.
Proof.
  intros H. unfold fs_add. rewrite touch_upd, listing_upd. unfold listing. rewrite child_keys_set by (left; exact H). reflexivity.
Qed.
Lemma listing_del fs p t d : d <> parent p -> listing (fs_rm fs p t) d = listing fs d.
Proof.
  intros H. unfold fs_rm. rewrite touch_upd, listing_upd. unfold listing. rewrite child_keys_del by (left; exact H). reflexivity.
Qed.

(* ---------- well-formedness is preserved ---------- *)
Lemma WF_upd fs q f : keeps_kind f -> WF fs -> WF (fs_upd fs q f).
Proof.
  intros K W. split.
  - rewrite keys_upd. apply wf_nodup. exact W.
  - rewrite kd_upd by exact K. apply wf_root. exact W.
  - intros p o H NE. rewrite kd_upd by exact K. rewrite fs_get_upd in H.
    destruct (fs_get fs p) as [o0|] eqn:G; [|destruct (path_eqb p q); discriminate].
    eapply wf_parent; eassumption.
Qed.
Lemma nolinks_upd fs q f : keeps_kind f -> nolinks fs -> nolinks (fs_upd fs q f).
Proof.
  intros K NL p o H. rewrite fs_get_upd in H. destruct (path_eqb p q); [|eapply NL; exact H].
  destruct (fs_get fs p) as [o0|] eqn:G; [|discriminate]. injection H as <-. rewrite K. eapply NL. exact G.
Qed.
Lemma NoDup_filter {A} (P : A -> bool) l : NoDup l -> NoDup (filter P l).
Proof.
  induction 1 as [|x r H1 H2 IH]; cbn [filter]; [constructor|].
  destruct (P x); [constructor; [|exact IH]|exact IH]. intros F. apply filter_In in F. tauto.
Qed.
Lemma touch_o_kind t : keeps_kind (touch_o t). Proof. intros o. reflexivity. Qed.

Lemma WF_add fs p o t : WF fs -> creatable fs p = true -> WF (fs_add fs p o t).
Proof.
  intros W C. pose proof (creatable_nonroot fs W p C) as NE. unfold creatable in C.
  destruct (fs_get fs p) eqn:G; [discriminate|].
  unfold fs_add. rewrite touch_upd. apply WF_upd; [apply touch_o_kind|]. split.
  - unfold fs_set. cbn [keys map fst]. rewrite (fs_del_absent fs p G). constructor; [|apply wf_nodup; exact W].
    apply fs_get_None. exact G.
  - unfold kd. rewrite fs_get_set. apply peqb_neq in NE. rewrite peqb_sym, NE. apply (wf_root fs W).
  - intros q x H NQ. unfold kd. rewrite fs_get_set in *. peq q p.
    + subst q. peq (parent p) p; [exfalso; exact (parent_neq p NQ E)|exact C].
    + peq (parent q) p.
      * (* q would live below the absent p *)
        exfalso. rewrite (snoc_parent q NQ), E0 in H.
        assert (K : kd fs p = false) by (unfold kd; rewrite G; reflexivity).
        rewrite (wf_absent_below fs W p [last q []] K) in H; [discriminate|discriminate].
      * apply (wf_parent fs W q x H NQ).
Qed.
Lemma nolinks_add fs p o t : nolinks fs -> o_kind o <> KLink -> nolinks (fs_add fs p o t).
Proof.
  intros NL K. unfold fs_add. rewrite touch_upd. apply nolinks_upd; [apply touch_o_kind|].
  intros q x H. rewrite fs_get_set in H. destruct (path_eqb q p); [injection H as <-; exact K|eapply NL; exact H].
Qed.
Lemma WF_del fs p t : WF fs -> p <> [] -> (forall n, fs_get fs (p ++ [n]) = None) -> WF (fs_rm fs p t).
Proof.
  intros W NE NC. unfold fs_rm. rewrite touch_upd. apply WF_upd; [apply touch_o_kind|]. split.
  - rewrite keys_del. apply NoDup_filter. apply wf_nodup. exact W.
  - unfold kd. rewrite fs_get_del. apply peqb_neq in NE. rewrite peqb_sym, NE. apply (wf_root fs W).
  - intros q x H NQ. unfold kd. rewrite fs_get_del in *. peq q p; [discriminate|].
    peq (parent q) p.
    + exfalso. rewrite (snoc_parent q NQ), E0, NC in H. discriminate.
    + apply (wf_parent fs W q x H NQ).
Qed.
Lemma nolinks_del fs p t : nolinks fs -> nolinks (fs_rm fs p t).
Proof.
  intros NL. unfold fs_rm. rewrite touch_upd. apply nolinks_upd; [apply touch_o_kind|].
  intros q x H. rewrite fs_get_del in H. destruct (path_eqb q p); [discriminate|eapply NL; exact H].
Qed.

(* ====================================================================================================== *)
(* 7. exact specifications of the backend operations on well-formed link-free trees                       *)
(* ====================================================================================================== *)
Section Ops.
Variable fs : fsmap.
Hypothesis W : WF fs.
Hypothesis NL : nolinks fs.

Lemma creatable_cases p fl : nodd p ->
  (creatable fs p = true /\ resolve fs p fl = WMissing p /\ fs_get fs p = None /\ p <> []) \/
  (creatable fs p = false /\ ((exists o, fs_get fs p = Some o /\ resolve fs p fl = WFound p o) \/
                              (fs_get fs p = None /\ exists e, resolve fs p fl = WErr e))).
Proof.
  intros ND. unfold creatable. destruct (resolve_cases fs W NL p fl ND) as [o G R|G K NE R|e G K E R]; rewrite G.
  - right. split; [reflexivity|]. left. exists o. auto.
  - left. auto.
  - right. split; [exact K|]. right. split; [reflexivity|]. exists e. exact R.
Qed.

Theorem be_mkdir_spec p perm t : nodd p ->
  exists e, be_mkdir fs p perm t =
            if creatable fs p then (fs_add fs p (mk_dir (N.land perm 511) t) t, Ok tt) else (fs, Err e).
Proof.
  intros ND. unfold be_mkdir. destruct (creatable_cases p false ND) as [(C & R & _)|(C & [[o [G R]]|[G [e R]]])]; rewrite C, R.
  - exists EIO. reflexivity.
  - exists EEXIST. reflexivity.
  - exists e. reflexivity.
Qed.
Theorem be_create_spec p t : nodd p ->
  exists e, be_create fs p t =
    match fs_get fs p with
    | Some o => match o_kind o with
                | KDir => (fs, Err EISDIR)
                | KFile => (fs_upd fs p (fun o => set_data o 0 [] t), Ok p)
                | KLink => (fs, Ok p) end
    | None => if kd fs (parent p) then (fs_add fs p (mk_file 438 t) t, Ok p) else (fs, Err e)
    end.
Proof.
  intros ND. unfold be_create. destruct (resolve_cases fs W NL p true ND) as [o G R|G K NE R|e G K E R]; rewrite G, R.
  - exists EIO. reflexivity.
  - rewrite K. exists EIO. reflexivity.
  - rewrite K. exists e. reflexivity.
Qed.
Definition removable (p : path) : bool :=
  match fs_get fs p with
  | Some o => negb (match p with [] => true | _ => false end) && negb (kind_eqb (o_kind o) KDir && has_children fs p)
  | None => false
  end.
Theorem be_remove_spec p t : nodd p ->
  exists e, be_remove fs p t = if removable p then (fs_rm fs p t, Ok tt) else (fs, Err e).
Proof.
  intros ND. unfold be_remove, removable. destruct (resolve_cases fs W NL p false ND) as [o G R|G K NE R|e G K E R]; rewrite G, R.
  - destruct p as [|x p']; [exists EINVAL; reflexivity|]. cbn [negb andb].
    destruct (kind_eqb (o_kind o) KDir && has_children fs (x :: p')); [exists ENOTEMPTY|exists EIO]; reflexivity.
  - exists ENOENT. reflexivity.
  - exists e. reflexivity.
Qed.
Lemma removable_spec p : removable p = true ->
  p <> [] /\ (exists o, fs_get fs p = Some o) /\ forall n, fs_get fs (p ++ [n]) = None.
Proof.
  unfold removable. destruct (fs_get fs p) as [o|] eqn:G; [|discriminate].
  intros H. apply andb_true_iff in H. destruct H as [H1 H2]. split; [destruct p; [discriminate|discriminate]|].
  split; [exists o; reflexivity|]. apply negb_true_iff in H2.
  destruct (kind_eqb (o_kind o) KDir) eqn:K; cbn [andb] in H2.
  - apply has_children_false. exact H2.
  - intros n. apply (wf_absent_below fs W p [n]); [unfold kd; rewrite G; exact K|discriminate].
Qed.
Theorem be_meta_spec p fl f : nodd p ->
  exists e, be_meta fs p fl f = match fs_get fs p with Some _ => (fs_upd fs p f, Ok tt) | None => (fs, Err e) end.
Proof.
  intros ND. unfold be_meta. destruct (resolve_cases fs W NL p fl ND) as [o G R|G K NE R|e G K E R]; rewrite G, R.
  - exists EIO. reflexivity.
  - exists ENOENT. reflexivity.
  - exists e. reflexivity.
Qed.
Theorem be_truncate_spec p sz t : nodd p ->
  exists e, be_truncate fs p sz t =
    match fs_get fs p with
    | Some o => match o_kind o with
                | KDir => (fs, Err EISDIR)
                | _ => if (sz <? 0)%Z then (fs, Err EINVAL)
                       else (fs_upd fs p (fun o => set_data o (Z.to_N sz) (sd_trunc (o_data o) (Z.to_N sz)) t), Ok tt) end
    | None => (fs, Err e)
    end.
Proof.
  intros ND. unfold be_truncate. destruct (resolve_cases fs W NL p true ND) as [o G R|G K NE R|e G K E R]; rewrite G, R.
  - exists EIO. reflexivity.
  - exists ENOENT. reflexivity.
  - exists e. reflexivity.
Qed.
Theorem be_open_spec p w : nodd p ->
  exists e, be_open fs p w =
    match fs_get fs p with
    | Some o => if kind_eqb (o_kind o) KDir && w then Err EISDIR else Ok p
    | None => Err e
    end.
Proof.
  intros ND. unfold be_open. destruct (resolve_cases fs W NL p true ND) as [o G R|G K NE R|e G K E R]; rewrite G, R.
  - exists EIO. reflexivity.
  - exists ENOENT. reflexivity.
  - exists e. reflexivity.
Qed.
Theorem be_readlink_spec p : nodd p -> exists e, be_readlink fs p = Err e.
Proof.
  intros ND. unfold be_readlink. destruct (resolve_cases fs W NL p false ND) as [o G R|G K NE R|e G K E R]; rewrite R.
  - pose proof (NL p o G) as L. destruct (o_kind o); [exists EINVAL|exists EINVAL|congruence]; reflexivity.
  - exists ENOENT. reflexivity.
  - exists e. reflexivity.
Qed.
End Ops.

Lemma set_data_pkkind sz d t : keeps_kind (fun o => set_data o (sz o) (d o) t).
Proof. intros o. reflexivity. Qed.
Lemma set_meta_kind a b c d : keeps_kind (fun o => set_meta o (a o) (b o) (c o) (d o)).
Proof. intros o. reflexivity. Qed.

(* ====================================================================================================== *)
(* 8. rename                                                                                              *)
(* ====================================================================================================== *)
Definition mvk (oc nc k : path) : path := if is_prefix oc k then rekey oc nc k else k.
Definition moved (l : fsmap) (oc nc : path) : fsmap :=
  map (fun e => if is_prefix oc (fst e) then (rekey oc nc (fst e), snd e) else e) l.
Definition renamed (fs : fsmap) (oc nc : path) (t : N) : fsmap :=
  touch (touch (moved (fs_del fs nc) oc nc) (parent oc) t) (parent nc) t.
Definition nilb {A} (l : list A) : bool := match l with [] => true | _ => false end.
Definition isd (o : obj) : bool := kind_eqb (o_kind o) KDir.
Definition rename_ok (fs : fsmap) (oc nc : path) : bool :=
  match fs_get fs oc with
  | None => false
  | Some o =>
    negb (nilb oc) &&
    match fs_get fs nc with
    | Some m => negb (nilb nc) &&
                (path_eqb oc nc ||
                 (negb (isd o && is_prefix oc nc) && negb (isd o && negb (isd m)) &&
                  negb (negb (isd o) && isd m) && negb (isd m && has_children fs nc)))
    | None => kd fs (parent nc) && negb (isd o && is_prefix oc nc)
    end
  end.

Theorem be_rename_spec fs oc nc t : WF fs -> nolinks fs -> nodd oc -> nodd nc ->
  exists e, be_rename fs oc nc t =
            if rename_ok fs oc nc then ((if path_eqb oc nc then fs else renamed fs oc nc t), Ok tt) else (fs, Err e).
Proof.
  intros W NL ND1 ND2. unfold be_rename, rename_ok.
  destruct (resolve_cases fs W NL oc false ND1) as [o G R|G K NE R|e G K E R]; rewrite G, R;
    [|exists ENOENT; reflexivity|exists e; reflexivity].
  destruct oc as [|x oc']; [exists EINVAL; reflexivity|]. set (oc := x :: oc') in *. cbn [nilb negb andb].
  destruct (resolve_cases fs W NL nc false ND2) as [m G2 R2|G2 K2 NE2 R2|e G2 K2 E2 R2]; rewrite G2, R2.
  - destruct nc as [|y nc']; [exists EINVAL; reflexivity|]. set (nc := y :: nc') in *. cbn [nilb negb andb].
    destruct (path_eqb oc nc); [exists EIO; reflexivity|]. cbn [orb]. fold (isd o). fold (isd m).
    destruct (isd o && is_prefix oc nc); [exists EINVAL; reflexivity|].
    destruct (isd o && negb (isd m)); [exists ENOTDIR; reflexivity|].
    destruct (negb (isd o) && isd m); [exists EISDIR; reflexivity|].
    destruct (isd m && has_children fs nc); [exists ENOTEMPTY; reflexivity|].
    exists EIO. reflexivity.
  - rewrite K2. cbn [andb]. fold (isd o). destruct (isd o && is_prefix oc nc); [exists EINVAL; reflexivity|].
    exists EIO. cbn [negb]. peq oc nc; [congruence|]. unfold renamed. rewrite (fs_del_absent fs nc G2). reflexivity.
  - rewrite K2. exists e. reflexivity.
Qed.

Lemma rekey_app oc nc r : rekey oc nc (oc ++ r) = nc ++ r.
Proof. unfold rekey. rewrite skipn_app, skipn_all, Nat.sub_diag. reflexivity. Qed.
Lemma mvk_under oc nc r : mvk oc nc (oc ++ r) = nc ++ r.
Proof. unfold mvk. rewrite is_prefix_app. apply rekey_app. Qed.
Lemma mvk_other oc nc k : is_prefix oc k = false -> mvk oc nc k = k.
Proof. unfold mvk. intros ->. reflexivity. Qed.
Lemma moved_entry oc nc (e : path * obj) :
  (if is_prefix oc (fst e) then (rekey oc nc (fst e), snd e) else e) = (mvk oc nc (fst e), snd e).
Proof. unfold mvk. destruct e as [k x]. cbn [fst snd]. destruct (is_prefix oc k); reflexivity. Qed.
Lemma keys_moved l oc nc : keys (moved l oc nc) = map (mvk oc nc) (keys l).
Proof.
  unfold keys, moved. rewrite !map_map. apply map_ext. intros e. rewrite moved_entry. reflexivity.
Qed.
Lemma In_moved l oc nc q o : In (q, o) (moved l oc nc) <-> exists k, In (k, o) l /\ q = mvk oc nc k.
Proof.
  unfold moved. rewrite in_map_iff. split.
  - intros [[k x] [E I]]. rewrite moved_entry in E. cbn [fst snd] in E. injection E as <- <-. exists k. auto.
  - intros [k [I ->]]. exists (k, o). split; [rewrite moved_entry; reflexivity|exact I].
Qed.

(* paths outside both subtrees are untouched *)
Lemma fs_get_moved_other l oc nc q : is_prefix oc q = false -> is_prefix nc q = false ->
  fs_get (moved l oc nc) q = fs_get l q.
Proof.
  intros H1 H2. unfold moved. induction l as [|[k x] r IH]; cbn [map fs_get fst snd]; [reflexivity|].
  destruct (is_prefix oc k) eqn:P.
  - cbn [fs_get]. apply is_prefix_spec in P. destruct P as [s ->]. rewrite rekey_app.
    peq q (nc ++ s); [subst q; rewrite is_prefix_app in H2; discriminate|].
    peq q (oc ++ s); [subst q; rewrite is_prefix_app in H1; discriminate|]. exact IH.
  - cbn [fs_get]. rewrite IH. reflexivity.
Qed.
Lemma pk_renamed fs oc nc t q : is_prefix oc q = false -> is_prefix nc q = false ->
  pk (renamed fs oc nc t) q = pk fs q.
Proof.
  intros H1 H2. unfold renamed. rewrite !touch_upd, !pk_upd by apply touch_o_pk.
  unfold pk. rewrite fs_get_moved_other by assumption. rewrite fs_get_del.
  peq q nc; [subst q; rewrite is_prefix_refl in H2; discriminate|reflexivity].
Qed.
Lemma filter_map_same {A} (P : A -> bool) (f : A -> A) l :
  (forall x, f x = x \/ (P (f x) = false /\ P x = false)) -> filter P (map f l) = filter P l.
Proof.
  intros H. induction l as [|x r IH]; cbn [map filter]; [reflexivity|].
  destruct (H x) as [E|[E1 E2]]; [rewrite E, IH; reflexivity|rewrite E1, E2; exact IH].
Qed.
Lemma listing_renamed fs oc nc t d : oc <> [] -> nc <> [] ->
  d <> parent oc -> d <> parent nc -> is_prefix oc d = false -> is_prefix nc d = false ->
  listing (renamed fs oc nc t) d = listing fs d.
Proof.
  intros NEo NEn D1 D2 P1 P2. unfold renamed. rewrite !touch_upd, !listing_upd.
  unfold listing. f_equal. f_equal. unfold child_keys. rewrite keys_moved.
  rewrite filter_map_same; [apply (child_keys_del fs nc d); left; exact D2|].
  intros k. destruct (is_prefix oc k) eqn:P; [right|left; apply mvk_other; exact P].
  apply is_prefix_spec in P. destruct P as [s ->]. rewrite mvk_under.
  assert (A : forall a, a <> [] -> d <> parent a -> is_prefix a d = false -> is_child d (a ++ s) = false).
  { intros a NEa Da Pa. destruct (is_child d (a ++ s)) eqn:C; [|reflexivity]. exfalso.
    apply is_child_parent in C. destruct C as [C _]. destruct s as [|y s'].
    - rewrite app_nil_r in C. congruence.
    - rewrite parent_app in C by discriminate. subst d. rewrite is_prefix_app in Pa. discriminate. }
  split; apply A; assumption.
Qed.

Lemma NoDup_map_on {A B} (f : A -> B) l : NoDup l ->
  (forall x y, In x l -> In y l -> f x = f y -> x = y) -> NoDup (map f l).
Proof.
  induction 1 as [|x r H1 H2 IH]; intros Inj; cbn [map]; [constructor|]. constructor.
  - intros F. apply in_map_iff in F. destruct F as [y [E I]].
    assert (y = x) by (apply Inj; [right; exact I|left; reflexivity|exact E]). subst y. exact (H1 I).
  - apply IH. intros a b Ia Ib. apply Inj; right; assumption.
Qed.
Lemma WF_In fs : NoDup (keys fs) -> (exists o, In ([], o) fs /\ o_kind o = KDir) ->
  (forall p o, In (p, o) fs -> p <> [] -> exists d, In (parent p, d) fs /\ o_kind d = KDir) -> WF fs.
Proof.
  intros ND [o [R1 R2]] HP. split; [exact ND| |].
  - apply kd_true. exists o. split; [apply In_fs_get; assumption|exact R2].
  - intros p x G NE. apply fs_get_In in G. destruct (HP p x G NE) as [d [D1 D2]].
    apply kd_true. exists d. split; [apply In_fs_get; assumption|exact D2].
Qed.

Section Renamed.
Variable fs : fsmap.
Hypothesis W : WF fs.
Variables oc nc : path.
Hypothesis OK : rename_ok fs oc nc = true.
Hypothesis NEQ : oc <> nc.

Lemma rename_ok_facts :
  oc <> [] /\ nc <> [] /\ (exists o, fs_get fs oc = Some o) /\ kd fs (parent nc) = true /\
  is_prefix oc nc = false /\ forall r, r <> [] -> fs_get fs (nc ++ r) = None.
Proof.
  unfold rename_ok in OK. destruct (fs_get fs oc) as [o|] eqn:Go; [|discriminate].
  apply andb_true_iff in OK. destruct OK as [O1 O2].
  assert (NEo : oc <> []) by (destruct oc; [discriminate|discriminate]).
  (* a non-directory has nothing below it, so it is not a proper prefix of anything whose parent exists *)
  assert (PF : isd o = false -> kd fs (parent nc) = true -> is_prefix oc nc = false).
  { intros Io Kp. destruct (is_prefix oc nc) eqn:P; [|reflexivity]. exfalso.
    apply is_prefix_spec in P. destruct P as [r ->].
    destruct r as [|y r']; [rewrite app_nil_r in NEQ; congruence|].
    rewrite parent_app in Kp by discriminate. apply kd_true in Kp. destruct Kp as [d [D1 D2]].
    destruct (wf_prefix fs W oc _ d D1) as [o' [A B]]. rewrite Go in A. injection A as <-.
    unfold isd in Io. destruct (parent (y :: r')) eqn:PR.
    - rewrite app_nil_r in D1. rewrite Go in D1. injection D1 as <-. rewrite D2 in Io. discriminate.
    - rewrite B in Io by discriminate. discriminate. }
  destruct (fs_get fs nc) as [m|] eqn:Gn.
  - apply andb_true_iff in O2. destruct O2 as [O2 O3].
    assert (NEn : nc <> []) by (destruct nc; [discriminate|discriminate]).
    apply peqb_neq in NEQ. rewrite NEQ in O3. cbn [orb] in O3.
    apply andb_true_iff in O3. destruct O3 as [O3 O6]. apply andb_true_iff in O3. destruct O3 as [O3 O5].
    apply andb_true_iff in O3. destruct O3 as [O3 O4].
    apply negb_true_iff in O3, O4, O5, O6.
    assert (Kp : kd fs (parent nc) = true) by (eapply wf_parent; eassumption).
    repeat split; auto; [exists o; reflexivity| |].
    + destruct (isd o) eqn:Io; [exact O3|apply PF; auto].
    + intros r NR. destruct (isd m) eqn:Im; cbn [andb] in O6.
      * destruct r as [|y r']; [congruence|]. destruct (fs_get fs (nc ++ y :: r')) as [z|] eqn:Z; [|reflexivity].
        change (y :: r') with ([y] ++ r') in Z. rewrite app_assoc in Z.
        destruct (wf_prefix fs W _ _ z Z) as [z' [Z1 _]].
        rewrite (proj1 (has_children_false fs nc) O6 y) in Z1. discriminate.
      * apply (wf_absent_below fs W nc r); [unfold kd; rewrite Gn; exact Im|exact NR].
  - apply andb_true_iff in O2. destruct O2 as [Kp O3]. apply negb_true_iff in O3.
    assert (NEn : nc <> []).
    { intros ->. destruct (wf_root_present fs W) as [z [Z _]]. congruence. }
    repeat split; auto; [exists o; reflexivity| |].
    + destruct (isd o) eqn:Io; [exact O3|apply PF; auto].
    + intros r NR. apply (wf_absent_below fs W nc r); [unfold kd; rewrite Gn; reflexivity|exact NR].
Qed.

Lemma In_fs1 k x : In (k, x) (fs_del fs nc) <-> fs_get fs k = Some x /\ k <> nc.
Proof.
  unfold fs_del. rewrite filter_In. cbn [fst]. rewrite negb_true_iff, peqb_neq. split.
  - intros [I N]. split; [apply In_fs_get; [apply wf_nodup; exact W|exact I]|congruence].
  - intros [G N]. split; [apply fs_get_In; exact G|congruence].
Qed.

Theorem WF_renamed t : WF (renamed fs oc nc t).
Proof.
  destruct rename_ok_facts as (NEo & NEn & [o Go] & Kp & NP & NB).
  unfold renamed. rewrite !touch_upd. apply WF_upd; [apply touch_o_kind|]. apply WF_upd; [apply touch_o_kind|].
  set (fs1 := fs_del fs nc).
  assert (M : forall q x, In (q, x) (moved fs1 oc nc) <-> exists k, fs_get fs k = Some x /\ k <> nc /\ q = mvk oc nc k).
  { intros q x. rewrite In_moved. split.
    - intros [k [I E]]. apply In_fs1 in I. exists k. tauto.
    - intros [k [G [N E]]]. exists k. split; [apply In_fs1; auto|exact E]. }
  (* an unmoved present key other than nc is not below nc *)
  assert (UB : forall k x, fs_get fs k = Some x -> k <> nc -> is_prefix nc k = false).
  { intros k x G N. destruct (is_prefix nc k) eqn:P; [|reflexivity]. apply is_prefix_spec in P. destruct P as [r ->].
    destruct r as [|y r']; [rewrite app_nil_r in N; congruence|]. rewrite NB in G by discriminate. discriminate. }
  apply WF_In.
  - rewrite keys_moved. apply NoDup_map_on.
    + unfold fs1. rewrite keys_del. apply NoDup_filter. apply wf_nodup. exact W.
    + intros k1 k2 I1 I2 E. unfold fs1 in I1, I2. rewrite keys_del in I1, I2.
      apply filter_In in I1, I2. destruct I1 as [I1 N1], I2 as [I2 N2].
      apply negb_true_iff, peqb_neq in N1, N2.
      assert (X : forall a b, In a (keys fs) -> a <> nc -> is_prefix oc b = true -> is_prefix oc a = false ->
                              mvk oc nc b = mvk oc nc a -> False).
      { intros a b Ia Na Pb Pa Eab. apply is_prefix_spec in Pb. destruct Pb as [r ->].
        rewrite mvk_under, (mvk_other oc nc a Pa) in Eab. subst a.
        destruct (fs_get fs (nc ++ r)) as [z|] eqn:Z; [|apply fs_get_None in Z; exact (Z Ia)].
        assert (F : is_prefix nc (nc ++ r) = false) by (eapply UB; [exact Z|congruence]).
        rewrite is_prefix_app in F. discriminate. }
      destruct (is_prefix oc k1) eqn:P1, (is_prefix oc k2) eqn:P2.
      * apply is_prefix_spec in P1, P2. destruct P1 as [r1 ->], P2 as [r2 ->].
        rewrite !mvk_under in E. apply app_inv_head in E. congruence.
      * exfalso. eapply (X k2 k1); eauto.
      * exfalso. eapply (X k1 k2); eauto.
      * rewrite !mvk_other in E by assumption. exact E.
  - destruct (wf_root_present fs W) as [z [Z1 Z2]]. exists z. split; [|exact Z2].
    apply M. exists []. split; [exact Z1|]. split; [congruence|].
    symmetry. apply mvk_other. destruct oc; [congruence|reflexivity].
  - intros q x I NQ. apply M in I. destruct I as [k [G [N ->]]].
    destruct (is_prefix oc k) eqn:P.
    + apply is_prefix_spec in P. destruct P as [r ->]. rewrite mvk_under in *.
      destruct r as [|y r'].
      * (* the renamed object itself: its parent is the (unmoved) parent of nc *)
        rewrite app_nil_r in *. apply kd_true in Kp. destruct Kp as [d [D1 D2]]. exists d. split; [|exact D2].
        apply M. exists (parent nc). split; [exact D1|]. split; [apply parent_neq; exact NEn|].
        symmetry. apply mvk_other. destruct (is_prefix oc (parent nc)) eqn:PP; [|reflexivity]. exfalso.
        apply is_prefix_spec in PP. destruct PP as [s PP].
        assert (F : is_prefix oc nc = true).
        { apply is_prefix_spec. exists (s ++ [last nc []]). rewrite app_assoc, <- PP. apply snoc_parent. exact NEn. }
        congruence.
      * (* below the renamed object: the parent moves along *)
        rewrite parent_app by discriminate.
        pose proof (wf_parent fs W _ _ G (fun F => app_cons_not_nil _ _ _ (eq_sym F))) as K.
        rewrite parent_app in K by discriminate. apply kd_true in K. destruct K as [d [D1 D2]].
        exists d. split; [|exact D2]. apply M. exists (oc ++ parent (y :: r')).
        split; [exact D1|]. split; [|symmetry; apply mvk_under].
        intros F. assert (Z : fs_get fs (nc ++ [last (y :: r') []]) = None) by (apply NB; discriminate).
        rewrite <- F, <- app_assoc, <- snoc_parent in Z by discriminate. congruence.
    + rewrite (mvk_other oc nc k P) in *.
      pose proof (wf_parent fs W _ _ G NQ) as K. apply kd_true in K. destruct K as [d [D1 D2]].
      exists d. split; [|exact D2]. apply M. exists (parent k). split; [exact D1|]. split.
      * intros F. pose proof (UB k x G N) as U. rewrite (snoc_parent k NQ), F, is_prefix_app in U. discriminate.
      * symmetry. apply mvk_other. destruct (is_prefix oc (parent k)) eqn:PP; [|reflexivity]. exfalso.
        apply is_prefix_spec in PP. destruct PP as [s PP].
        assert (F : is_prefix oc k = true).
        { apply is_prefix_spec. exists (s ++ [last k []]). rewrite app_assoc, <- PP. apply snoc_parent. exact NQ. }
        congruence.
Qed.
End Renamed.

Lemma nolinks_renamed fs oc nc t : WF fs -> nolinks fs -> nolinks (renamed fs oc nc t).
Proof.
  intros W NL. unfold renamed. rewrite !touch_upd. apply nolinks_upd; [apply touch_o_kind|]. apply nolinks_upd; [apply touch_o_kind|].
  intros q x G. apply fs_get_In in G. apply In_moved in G. destruct G as [k [I _]].
  unfold fs_del in I. apply filter_In in I. destruct I as [I _].
  apply (NL k x). apply In_fs_get; [apply wf_nodup; exact W|exact I].
Qed.

(* ====================================================================================================== *)
(* 9. "Lstat p fails with ENOENT", in a form that is stable under changes elsewhere                       *)
(* ====================================================================================================== *)
Definition noent (fs : fsmap) (p : path) : Prop := rwalk fs [] p = WMissing p \/ rwalk fs [] p = WErr ENOENT.

Lemma pk_none fs q : pk fs q = None <-> fs_get fs q = None.
Proof. unfold pk. destruct (fs_get fs q); cbn; split; congruence. Qed.
Lemma pk_none_iff fs fs' q : pk fs' q = pk fs q -> (fs_get fs' q = None <-> fs_get fs q = None).
Proof. intros H. rewrite <- !pk_none, H. tauto. Qed.

Lemma noent_be_stat fs p fl : nolinks fs -> nodd p -> noent fs p -> be_stat fs p fl = Err ENOENT.
Proof. intros NL ND [H|H]; unfold be_stat; rewrite resolve_rwalk, H by assumption; reflexivity. Qed.
Lemma be_stat_noent fs p fl : nolinks fs -> nodd p -> be_stat fs p fl = Err ENOENT -> noent fs p.
Proof.
  intros NL ND. unfold be_stat, noent. rewrite resolve_rwalk by assumption.
  destruct (rwalk fs [] p) as [q o|q|e] eqn:R; [discriminate| |intros [= ->]; right; reflexivity].
  intros _. left. apply rwalk_missing_inv in R. destruct R as [-> _]. reflexivity.
Qed.
Lemma noent_absent fs p : WF fs -> noent fs p -> fs_get fs p = None.
Proof.
  intros W H. destruct (fs_get fs p) as [o|] eqn:G; [|reflexivity].
  unfold noent in H. rewrite (rwalk_present fs W p [] o G) in H. destruct H; discriminate.
Qed.
Lemma noent_frame fs fs' p : WF fs -> (forall q, is_prefix q p = true -> pk fs' q = pk fs q) -> noent fs p -> noent fs' p.
Proof.
  intros W H N. unfold noent. replace (rwalk fs' [] p) with (rwalk fs [] p); [exact N|]. symmetry.
  apply rwalk_ext; cbn [app].
  - intros q P _. specialize (H q P). split; [apply pk_kd; exact H|apply pk_none_iff; exact H].
  - pose proof (noent_absent fs p W N) as A. rewrite A. apply (pk_none_iff fs fs' p (H p (is_prefix_refl p))). exact A.
Qed.
(* an absent child of a present directory *)
Lemma noent_child fs d n : WF fs -> kd fs d = true -> fs_get fs (d ++ [n]) = None -> noent fs (d ++ [n]).
Proof.
  intros W K G. left. apply (rwalk_missing fs W (d ++ [n]) []); cbn [app]; [apply snoc_nonnil|exact G|].
  rewrite parent_snoc. exact K.
Qed.

(* ====================================================================================================== *)
(* 10. summary: every backend operation preserves well-formedness and the side condition, and changes     *)
(*     only what it names (FRAME): the projected attributes [pk] of other paths and the listings of other  *)
(*     directories are untouched                                                                           *)
(* ====================================================================================================== *)
Section Summary.
Variable f : fsmap.
Hypothesis W : WF f.
Hypothesis NL : nolinks f.
Ltac unch := repeat (first [exact W | exact NL | split | (intros; reflexivity) | discriminate]).

(* read-only operations: be_stat, be_readlink, be_open, be_readdir, be_readat return no tree at all *)

Theorem be_mkdir_frame p perm t : nodd p -> let f' := fst (be_mkdir f p perm t) in
  WF f' /\ nolinks f' /\ (forall q, q <> p -> pk f' q = pk f q) /\ (forall d, d <> parent p -> listing f' d = listing f d) /\
  (forall e, snd (be_mkdir f p perm t) = Err e -> f' = f).
Proof.
  intros ND. cbv zeta. destruct (be_mkdir_spec f W NL p perm t ND) as [e S]. rewrite S.
  destruct (creatable f p) eqn:C; cbn [fst snd].
  - pose proof (creatable_nonroot f W p C) as NE. split; [apply WF_add; assumption|].
    split; [apply nolinks_add; [assumption|discriminate]|]. split; [intros q Q; apply pk_add; assumption|].
    split; [intros d D; apply listing_add; exact D|discriminate].
  - unch.
Qed.
Theorem be_create_frame p t : nodd p -> let f' := fst (be_create f p t) in
  WF f' /\ nolinks f' /\ (forall q, q <> p -> pk f' q = pk f q) /\ (forall d, d <> parent p -> listing f' d = listing f d) /\
  (forall e, snd (be_create f p t) = Err e -> f' = f).
Proof.
  intros ND. cbv zeta. destruct (be_create_spec f W NL p t ND) as [e S]. rewrite S.
  destruct (fs_get f p) as [o|] eqn:G.
  - destruct (o_kind o); cbn [fst snd]; try (solve [unch]).
    split; [apply WF_upd; [intros x; reflexivity|exact W]|]. split; [apply nolinks_upd; [intros x; reflexivity|exact NL]|].
    split; [|split; [intros d _; apply listing_upd|discriminate]].
    intros q Q. unfold pk. rewrite fs_get_upd. apply peqb_neq in Q. rewrite Q. reflexivity.
  - destruct (kd f (parent p)) eqn:K; cbn [fst snd]; [|unch].
    assert (C : creatable f p = true) by (unfold creatable; rewrite G; exact K).
    pose proof (creatable_nonroot f W p C) as NE. split; [apply WF_add; assumption|].
    split; [apply nolinks_add; [assumption|discriminate]|]. split; [intros q Q; apply pk_add; assumption|].
    split; [intros d D; apply listing_add; exact D|discriminate].
Qed.
Theorem be_remove_frame p t : nodd p -> let f' := fst (be_remove f p t) in
  WF f' /\ nolinks f' /\ (forall q, q <> p -> pk f' q = pk f q) /\ (forall d, d <> parent p -> listing f' d = listing f d) /\
  (forall e, snd (be_remove f p t) = Err e -> f' = f).
Proof.
  intros ND. cbv zeta. destruct (be_remove_spec f W NL p t ND) as [e S]. rewrite S.
  destruct (removable f p) eqn:R; cbn [fst snd]; [|unch].
  destruct (removable_spec f W p R) as (NE & _ & NC). split; [apply WF_del; assumption|]. split; [apply nolinks_del; exact NL|].
  split; [intros q Q; apply pk_del; assumption|]. split; [intros d D; apply listing_del; exact D|discriminate].
Qed.
(* rename: everything outside the two subtrees keeps its attributes; every directory outside them other than the two
   parents keeps its listing *)
Theorem be_rename_frame oc nc t : nodd oc -> nodd nc -> let f' := fst (be_rename f oc nc t) in
  WF f' /\ nolinks f' /\
  (forall q, is_prefix oc q = false -> is_prefix nc q = false -> pk f' q = pk f q) /\
  (forall d, d <> parent oc -> d <> parent nc -> is_prefix oc d = false -> is_prefix nc d = false -> listing f' d = listing f d) /\
  (forall e, snd (be_rename f oc nc t) = Err e -> f' = f).
Proof.
  intros N1 N2. cbv zeta. destruct (be_rename_spec f oc nc t W NL N1 N2) as [e S]. rewrite S.
  destruct (rename_ok f oc nc) eqn:OK; cbn [fst snd]; [|unch].
  peq oc nc; [unch|].
  destruct (rename_ok_facts f W oc nc OK E) as (NEo & NEn & _).
  split; [apply WF_renamed; assumption|]. split; [apply nolinks_renamed; assumption|].
  split; [intros q Q1 Q2; apply pk_renamed; assumption|]. split; [|discriminate].
  intros d D1 D2 P1 P2. apply listing_renamed; assumption.
Qed.
(* chmod / chown / lchown / chtimes: one object's metadata; keys, kinds and all listings unchanged *)
Theorem be_meta_frame p fl g : nodd p -> keeps_kind g -> let f' := fst (be_meta f p fl g) in
  WF f' /\ nolinks f' /\ (forall q, q <> p -> pk f' q = pk f q) /\ (forall d, listing f' d = listing f d) /\
  (forall q, kd f' q = kd f q) /\ (forall e, snd (be_meta f p fl g) = Err e -> f' = f).
Proof.
  intros ND K. cbv zeta. destruct (be_meta_spec f W NL p fl g ND) as [e S]. rewrite S.
  destruct (fs_get f p) as [o|]; cbn [fst snd]; [|unch].
  split; [apply WF_upd; assumption|]. split; [apply nolinks_upd; assumption|].
  split; [intros q Q; unfold pk; rewrite fs_get_upd; apply peqb_neq in Q; rewrite Q; reflexivity|].
  split; [intros d; apply listing_upd|]. split; [intros q; apply kd_upd; exact K|discriminate].
Qed.
Theorem be_truncate_frame p sz t : nodd p -> let f' := fst (be_truncate f p sz t) in
  WF f' /\ nolinks f' /\ (forall q, q <> p -> pk f' q = pk f q) /\ (forall d, listing f' d = listing f d) /\
  (forall q, kd f' q = kd f q) /\ (forall e, snd (be_truncate f p sz t) = Err e -> f' = f).
Proof.
  intros ND. cbv zeta. destruct (be_truncate_spec f W NL p sz t ND) as [e S]. rewrite S.
  destruct (fs_get f p) as [o|]; cbn [fst snd]; [|unch].
  assert (X : forall g, keeps_kind g ->
    WF (fs_upd f p g) /\ nolinks (fs_upd f p g) /\ (forall q, q <> p -> pk (fs_upd f p g) q = pk f q) /\
    (forall d, listing (fs_upd f p g) d = listing f d) /\ (forall q, kd (fs_upd f p g) q = kd f q)).
  { intros g K. split; [apply WF_upd; assumption|]. split; [apply nolinks_upd; assumption|].
    split; [intros q Q; unfold pk; rewrite fs_get_upd; apply peqb_neq in Q; rewrite Q; reflexivity|].
    split; [intros d; apply listing_upd|intros q; apply kd_upd; exact K]. }
  destruct (o_kind o); cbn [fst snd]; try (solve [unch]);
    (destruct (sz <? 0)%Z; cbn [fst snd]; [unch|]);
    (destruct (X (fun o0 => set_data o0 (Z.to_N sz) (sd_trunc (o_data o0) (Z.to_N sz)) t)) as (A & B & C & D & E0); [intros x; reflexivity|]);
    (split; [exact A|]; split; [exact B|]; split; [exact C|]; split; [exact D|]; split; [exact E0|discriminate]).
Qed.
End Summary.
