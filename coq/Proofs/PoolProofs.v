(* Proofs/PoolProofs.v — invariants of the worker-pool transition system Model/PoolLTS.v.

   Part 1: list/update lemmas.
   Part 2: the conservation invariant G, for EVERY configuration and EVERY trace (overlapping Stop and
           Resize included): a task id is in at most one place (some queue generation, a worker, the
           Resize pending list, the executed log), and only after its Submit got past the enqueue.
           => C20_at_most_once.
   Part 3: the invariant Inv of the configuration in which Stop holds resizeMu (stop_locks) and dropped
           tasks are told so (stop_drains, overflow_closes).  => C20_bounded, C20_resolved. *)
From Coq Require Import List Arith Bool Lia.
From Verif Require Import Model.PoolLTS.
Import ListNotations.

(* ------------------------------------------------------------------ Part 1: lists *)

Lemma set_nth_length {A} n (x : A) l : length (set_nth n x l) = length l.
Proof. revert n; induction l as [|y r IH]; intros [|n]; cbn; auto. Qed.

Lemma nth_error_set_nth_eq {A} n (x : A) l : n < length l -> nth_error (set_nth n x l) n = Some x.
Proof. revert n; induction l as [|y r IH]; intros [|n] H; cbn in *; try lia; auto. apply IH; lia. Qed.

Lemma nth_error_set_nth_neq {A} n m (x : A) l : n <> m -> nth_error (set_nth n x l) m = nth_error l m.
Proof. revert n m; induction l as [|y r IH]; intros [|n] [|m] H; cbn; auto; try congruence. Qed.

Lemma nth_error_lt {A} (l : list A) n x : nth_error l n = Some x -> n < length l.
Proof. intros H. apply nth_error_Some. congruence. Qed.

(* replacing the n-th element: the list splits around it *)
Lemma set_nth_split {A} n (l : list A) y :
  nth_error l n = Some y -> exists a b, l = a ++ y :: b /\ forall x, set_nth n x l = a ++ x :: b.
Proof.
  revert n; induction l as [|z r IH]; intros [|n] H; cbn in H; try discriminate.
  - inversion H; subst. exists [], r. split; auto.
  - destruct (IH _ H) as (a & b & E & F). exists (z :: a), b. split; [cbn; congruence|].
    intros x. cbn. rewrite F. reflexivity.
Qed.

Definition cnt (t : task) (l : list task) : nat := count_occ Nat.eq_dec l t.

Lemma cnt_app t a b : cnt t (a ++ b) = cnt t a + cnt t b.
Proof. apply count_occ_app. Qed.
Lemma cnt_nil t : cnt t [] = 0. Proof. reflexivity. Qed.
Lemma cnt_cons t u l : cnt t (u :: l) = (if Nat.eq_dec u t then 1 else 0) + cnt t l.
Proof. unfold cnt; cbn. destruct (Nat.eq_dec u t); reflexivity. Qed.
Lemma cnt_in t l : In t l <-> cnt t l >= 1.
Proof. unfold cnt. rewrite (count_occ_In Nat.eq_dec). lia. Qed.
Lemma cnt_notin t l : ~ In t l <-> cnt t l = 0.
Proof. unfold cnt. apply count_occ_not_In. Qed.
Lemma nodup_cnt l : NoDup l <-> forall t, cnt t l <= 1.
Proof. apply (NoDup_count_occ Nat.eq_dec). Qed.

Definition ex_of (w : wst) : list task := match w with WExec t => [t] | _ => [] end.
Lemma exec_tasks_app a b : exec_tasks (a ++ b) = exec_tasks a ++ exec_tasks b.
Proof. unfold exec_tasks. apply flat_map_app. Qed.

(* counts after replacing one generation / one worker *)
Lemma cnt_queue_set t gs g G G' :
  nth_error gs g = Some G ->
  cnt t (flat_map g_items (set_nth g G' gs)) + cnt t (g_items G) = cnt t (flat_map g_items gs) + cnt t (g_items G').
Proof.
  intros H. destruct (set_nth_split _ _ _ H) as (a & b & E & F). rewrite F, E.
  rewrite !flat_map_app. cbn. rewrite !cnt_app. lia.
Qed.
Lemma exec_tasks_mid a x b : exec_tasks (a ++ x :: b) = exec_tasks a ++ ex_of x ++ exec_tasks b.
Proof. unfold exec_tasks. rewrite flat_map_app. reflexivity. Qed.
Lemma cnt_exec_set t ws w x x' :
  nth_error ws w = Some x ->
  cnt t (exec_tasks (set_nth w x' ws)) + cnt t (ex_of x) = cnt t (exec_tasks ws) + cnt t (ex_of x').
Proof.
  intros H. destruct (set_nth_split _ _ _ H) as (a & b & E & F). rewrite F, E.
  rewrite !exec_tasks_mid, !cnt_app. lia.
Qed.
Lemma exec_tasks_repeat_idle g n : exec_tasks (repeat (WIdle g) n) = [].
Proof. induction n; cbn; auto. Qed.

(* submitter table *)
Lemma upd_sub_keys t f l : map fst (upd_sub t f l) = map fst l.
Proof. unfold upd_sub. rewrite map_map. apply map_ext. intros [u st]; cbn. destruct (Nat.eqb u t); reflexivity. Qed.

Lemma in_upd_sub t f l u st' :
  In (u, st') (upd_sub t f l) <-> exists st, In (u, st) l /\ st' = if Nat.eqb u t then f st else st.
Proof.
  unfold upd_sub. rewrite in_map_iff. split.
  - intros ([v st0] & E & I). cbn in E. destruct (Nat.eqb v t) eqn:Q; injection E as E1 E2; exists st0;
      rewrite <- E1, Q; auto.
  - intros (st & I & E). exists (u, st). split; auto. cbn. subst. destruct (Nat.eqb u t); reflexivity.
Qed.

Lemma sub_of_in t l st : sub_of t l = Some st -> In (t, st) l.
Proof.
  induction l as [|[u x] r IH]; cbn; [discriminate|]. destruct (Nat.eqb u t) eqn:Q.
  - intros E; inversion E; subst. apply Nat.eqb_eq in Q; subst. auto.
  - auto.
Qed.
Lemma sub_of_none t l : sub_of t l = None -> ~ In t (map fst l).
Proof.
  induction l as [|[u x] r IH]; cbn; [tauto|]. destruct (Nat.eqb u t) eqn:Q; [discriminate|].
  apply Nat.eqb_neq in Q. intros H [E|I]; [congruence|]. exact (IH H I).
Qed.
Lemma in_sub_of t st l : NoDup (map fst l) -> In (t, st) l -> sub_of t l = Some st.
Proof.
  induction l as [|[u x] r IH]; cbn; [tauto|]. intros ND [E|I].
  - inversion E; subst. rewrite Nat.eqb_refl. reflexivity.
  - inversion ND as [|? ? NI ND']; subst. destruct (Nat.eqb u t) eqn:Q; [|auto].
    apply Nat.eqb_eq in Q; subst. exfalso. apply NI. apply in_map_iff. exists (t, st); auto.
Qed.
Lemma sub_unique (l : list (task * sst)) t a b : NoDup (map fst l) -> In (t, a) l -> In (t, b) l -> a = b.
Proof. intros ND A B. apply (in_sub_of _ _ _ ND) in A, B. congruence. Qed.

(* ------------------------------------------------------------------ Part 2: conservation (all configurations) *)

Definition keys (s : state) : list task := map fst (subs s).
Definition active (s : state) : list task := queued s ++ exec_tasks (workers s) ++ rz_pend (rz s).
Definition places (s : state) : list task := active s ++ executed s.
(* a submitter that is past the enqueue (its task may be somewhere in the pool) *)
Definition past (st : sst) : bool := match st with SCalled | SPending _ => false | _ => true end.

Record G (s : state) : Prop := {
  g_keys : NoDup (keys s);
  g_once : forall t, cnt t (places s) <= 1;
  g_past : forall t, cnt t (places s) >= 1 -> exists st, In (t, st) (subs s) /\ past st = true }.

Lemma places_init n : places (init n) = [].
Proof. unfold places, active, queued, init. cbn [gens workers rz executed flat_map g_items g_fresh rz_pend app].
  rewrite exec_tasks_repeat_idle. reflexivity. Qed.

Lemma G_init n : G (init n).
Proof.
  split.
  - constructor.
  - intros t. rewrite places_init. cbn. lia.
  - intros t. rewrite places_init. cbn. lia.
Qed.

Lemma cnt_places t s :
  cnt t (places s) = cnt t (queued s) + cnt t (exec_tasks (workers s)) + cnt t (rz_pend (rz s)) + cnt t (executed s).
Proof. unfold places, active. rewrite !cnt_app. lia. Qed.

(* [tell] and [put_sub] keep a "past" entry for every task that has one, except possibly the updated task *)
Lemma past_tell s t x u :
  past x = true ->
  (exists st, In (u, st) (subs s) /\ past st = true) ->
  exists st, In (u, st) (subs (tell s t x)) /\ past st = true.
Proof.
  intros Px (st & I & P). unfold tell; cbn.
  eexists. split. { apply in_upd_sub. exists st. split; [exact I|reflexivity]. }
  destruct (Nat.eqb u t); [|exact P]. destruct st; cbn in *; auto.
Qed.
Lemma past_put_other s t x u :
  u <> t ->
  (exists st, In (u, st) (subs s) /\ past st = true) ->
  exists st, In (u, st) (subs (put_sub s t x)) /\ past st = true.
Proof.
  intros N (st & I & P). unfold put_sub; cbn.
  exists st. split; [|exact P]. apply in_upd_sub. exists st. split; [exact I|].
  destruct (Nat.eqb u t) eqn:Q; [apply Nat.eqb_eq in Q; contradiction|reflexivity].
Qed.
Lemma past_put_self s t x st0 :
  In (t, st0) (subs s) -> past x = true -> exists st, In (t, st) (subs (put_sub s t x)) /\ past st = true.
Proof.
  intros I P. exists x. split; [|exact P]. unfold put_sub; cbn. apply in_upd_sub. exists st0. split; [exact I|].
  rewrite Nat.eqb_refl. reflexivity.
Qed.

(* a task whose submitter is not past the enqueue is nowhere in the pool *)
Lemma G_not_past s t st : G s -> sub_of t (subs s) = Some st -> past st = false -> cnt t (places s) = 0.
Proof.
  intros Gs E P. destruct (Nat.eq_dec (cnt t (places s)) 0) as [Z|NZ]; [exact Z|].
  destruct (g_past _ Gs t) as (st' & I & P'); [lia|].
  apply sub_of_in in E. rewrite (sub_unique _ _ _ _ (g_keys _ Gs) E I) in P. congruence.
Qed.

Arguments cnt : simpl never.

Lemma G_intro s s' :
  G s -> NoDup (keys s') ->
  (forall u, cnt u (places s') <= cnt u (places s) \/
             (cnt u (places s') = 1 /\ cnt u (places s) = 0 /\ exists st, In (u, st) (subs s') /\ past st = true)) ->
  (forall u, cnt u (places s') >= 1 -> (exists st, In (u, st) (subs s) /\ past st = true) ->
             exists st, In (u, st) (subs s') /\ past st = true) ->
  G s'.
Proof.
  intros Gs K C T. split; [exact K| |].
  - intros u. destruct (C u) as [L|(E & _)]; [|lia]. pose proof (g_once _ Gs u). lia.
  - intros u P. destruct (C u) as [L|(_ & _ & X)]; [|exact X].
    apply (T u P). apply (g_past _ Gs). lia.
Qed.

Ltac break H :=
  repeat (match type of H with
  | (if ?c then _ else _) = Some _ => let E := fresh "E" in destruct c eqn:E
  | match ?x with _ => _ end = Some _ => let E := fresh "E" in destruct x eqn:E
  | with_gen _ _ _ = Some _ => unfold with_gen in H
  end; try discriminate H).

Ltac proj := cbn [running maxw cur gens workers subs stop rz resizing executed panicked
                  set_running set_gens set_workers set_subs set_stop set_rz set_resizing set_executed set_panicked
                  put_gen put_sub tell queued rz_pend].

Ltac counts := rewrite !cnt_places; unfold queued; proj;
  try (match goal with E : rz _ = _ |- _ => rewrite !E end); proj.

(* the submitter table after the three kinds of update used by [step] *)
Lemma keys_put s t x : keys (put_sub s t x) = keys s.
Proof. unfold keys, put_sub; cbn. apply upd_sub_keys. Qed.
Lemma keys_tell s t x : keys (tell s t x) = keys s.
Proof. unfold keys, tell; cbn. apply upd_sub_keys. Qed.

Lemma G_same s s' : G s -> subs s' = subs s -> (forall u, cnt u (places s') <= cnt u (places s)) -> G s'.
Proof.
  intros Gs E C. apply (G_intro s); [exact Gs| | |].
  - unfold keys. rewrite E. apply (g_keys _ Gs).
  - intros u. left. apply C.
  - intros u _ X. rewrite E. exact X.
Qed.
Lemma G_tell s s' t x :
  G s -> past x = true -> subs s' = subs (tell s t x) -> (forall u, cnt u (places s') <= cnt u (places s)) -> G s'.
Proof.
  intros Gs P E C. apply (G_intro s); [exact Gs| | |].
  - unfold keys. rewrite E. fold (keys (tell s t x)). rewrite keys_tell. apply (g_keys _ Gs).
  - intros u. left. apply C.
  - intros u _ X. rewrite E. apply past_tell; assumption.
Qed.
Lemma G_put s s' t x :
  G s -> cnt t (places s) = 0 -> subs s' = subs (put_sub s t x) ->
  (forall u, cnt u (places s') <= cnt u (places s)) -> G s'.
Proof.
  intros Gs Z E C. apply (G_intro s); [exact Gs| | |].
  - unfold keys. rewrite E. fold (keys (put_sub s t x)). rewrite keys_put. apply (g_keys _ Gs).
  - intros u. left. apply C.
  - intros u P X. rewrite E. apply past_put_other; [|exact X]. intros ->. specialize (C t). lia.
Qed.

Ltac qset u G' :=
  match goal with E : nth_error (gens _) _ = Some _ |- _ =>
    let Q := fresh "Q" in pose proof (cnt_queue_set u _ _ _ G' E) as Q; cbn [g_items g_set_items g_close g_cancelled] in Q;
    try match goal with E' : g_items _ = _ |- _ => rewrite E' in Q end;
    rewrite ?cnt_app, ?cnt_cons, ?cnt_nil in Q; revert Q end.
Ltac wset u x' :=
  match goal with E : nth_error (workers _) _ = Some _ |- _ =>
    let R := fresh "R" in pose proof (cnt_exec_set u _ _ _ x' E) as R; cbn [ex_of] in R;
    rewrite ?cnt_cons, ?cnt_nil in R; revert R end.
Ltac fin := counts; rewrite ?cnt_app, ?cnt_cons, ?cnt_nil; intros; lia.

Lemma G_step c s l s' : G s -> step c s l = Some s' -> G s'.
Proof.
  intros Gs H. unfold step in H. destruct (panicked s) eqn:EP; [discriminate|].
  destruct l.
  - (* SubmitCall *)
    break H. injection H as <-. apply (G_intro s); [exact Gs| | |].
    + unfold keys; cbn. constructor; [apply sub_of_none; assumption|apply (g_keys _ Gs)].
    + intros u. left. fin.
    + intros u _ (st & I & P). exists st. split; [right; exact I|exact P].
  - (* SubmitBegin *)
    break H. injection H as <-.
    match goal with E : sub_of _ _ = Some _ |- _ => pose proof (G_not_past _ _ _ Gs E eq_refl) as Z end.
    apply (G_put s _ t (if running s then SPending (cur s) else SRejected) Gs Z); [reflexivity|].
    intros u. fin.
  - (* SubmitEnq *)
    break H; injection H as <-;
    match goal with E : sub_of _ _ = Some _ |- _ => pose proof (G_not_past _ _ _ Gs E eq_refl) as Z; pose proof (sub_of_in _ _ _ E) as I end.
    + (* panic *)
      apply (G_put s _ t SPanic Gs Z); [reflexivity|]. intros u. fin.
    + (* enqueue *)
      apply (G_intro s); [exact Gs| | |].
      * unfold keys; proj. rewrite upd_sub_keys. apply (g_keys _ Gs).
      * intros u. rewrite cnt_places in Z. unfold queued in Z.
        match goal with E : nth_error (gens _) _ = Some ?G0 |- _ => qset u (g_set_items G0 (g_items G0 ++ [t])) end.
        counts. intros Q.
        destruct (Nat.eq_dec t u) as [->|N].
        -- right. split; [lia|]. split; [lia|]. apply (past_put_self s u SWait _ I). reflexivity.
        -- left. lia.
      * intros u P X. destruct (Nat.eq_dec u t) as [->|N].
        -- apply (past_put_self s t SWait _ I). reflexivity.
        -- apply (past_put_other s); auto.
  - (* SubmitTimeout *)
    break H. injection H as <-.
    match goal with E : sub_of _ _ = Some _ |- _ => pose proof (G_not_past _ _ _ Gs E eq_refl) as Z end.
    apply (G_put s _ t SRejected Gs Z); [reflexivity|]. intros u. fin.
  - (* Take *)
    break H. injection H as <-. (apply (G_same s _ Gs); [reflexivity|]). intros u.
    match goal with E : nth_error (gens _) _ = Some ?G0, E' : g_items ?G0 = _ :: ?q |- _ => qset u (g_set_items G0 q) end.
    match goal with E : g_items _ = ?t0 :: _ |- _ => wset u (WExec t0) end. fin.
  - (* ExitCtx *)
    break H. injection H as <-. (apply (G_same s _ Gs); [reflexivity|]). intros u. wset u WExit. fin.
  - (* ExitClosed *)
    break H. injection H as <-. (apply (G_same s _ Gs); [reflexivity|]). intros u. wset u WExit. fin.
  - (* Finish *)
    break H. injection H as <-. apply (G_tell s _ t (SGot (Some t)) Gs eq_refl); [reflexivity|]. intros u.
    wset u (WIdle (cur s)). fin.
  - (* StopCall *) break H. injection H as <-. (apply (G_same s _ Gs); [reflexivity|]). intros u. fin.
  - (* StopCAS *)
    break H; injection H as <-; (apply (G_same s _ Gs); [reflexivity|]); intros u.
    + match goal with E : nth_error (gens _) _ = Some ?G0 |- _ => qset u (g_cancelled G0) end. fin.
    + fin.
  - (* StopClose *)
    break H; injection H as <-; (apply (G_same s _ Gs); [reflexivity|]); intros u.
    match goal with E : nth_error (gens _) _ = Some ?G0 |- _ => qset u (g_close G0) end. fin.
  - (* StopWait *)
    break H; injection H as <-; (apply (G_same s _ Gs); [reflexivity|]); intros u; fin.
  - (* StopDrain *)
    break H; injection H as <-.
    + (apply (G_same s _ Gs); [reflexivity|]); intros u; fin.
    + apply (G_tell s _ t SNotExec Gs eq_refl); [reflexivity|]. intros u.
      match goal with E : nth_error (gens _) _ = Some ?G0, E' : g_items ?G0 = _ :: ?q |- _ => qset u (g_set_items G0 q) end. fin.
  - (* RzCall *) break H. injection H as <-. (apply (G_same s _ Gs); [reflexivity|]). intros u. fin.
  - (* RzBegin *)
    break H; injection H as <-; (apply (G_same s _ Gs); [reflexivity|]); intros u; fin.
  - (* RzStop *)
    break H; injection H as <-; (apply (G_same s _ Gs); [reflexivity|]); intros u.
    + match goal with E : nth_error (gens _) _ = Some ?G0 |- _ => qset u (g_cancelled G0) end. fin.
    + fin.
    + match goal with E : nth_error (gens _) _ = Some ?G0 |- _ => qset u (g_close G0) end. fin.
  - (* RzClose *)
    break H; injection H as <-; (apply (G_same s _ Gs); [reflexivity|]); intros u.
    match goal with E : nth_error (gens _) _ = Some ?G0 |- _ => qset u (g_close G0) end. fin.
  - (* RzWait *)
    break H; injection H as <-; (apply (G_same s _ Gs); [reflexivity|]); intros u; fin.
  - (* RzDrain *)
    break H; injection H as <-; (apply (G_same s _ Gs); [reflexivity|]); intros u.
    + fin.
    + match goal with E : nth_error (gens _) _ = Some ?G0, E' : g_items ?G0 = _ :: ?q |- _ => qset u (g_set_items G0 q) end. fin.
  - (* RzSwap *)
    break H; injection H as <-; (apply (G_same s _ Gs); [reflexivity|]); intros u; counts;
      rewrite ?flat_map_app, ?exec_tasks_app, ?exec_tasks_repeat_idle, ?cnt_app; cbn [flat_map g_items g_fresh app];
      rewrite ?cnt_nil; lia.
  - (* RzReenq *)
    break H; injection H as <-.
    + (apply (G_same s _ Gs); [reflexivity|]); intros u; fin.
    + (apply (G_same s _ Gs); [reflexivity|]); intros u; fin.
    + (apply (G_same s _ Gs); [reflexivity|]); intros u.
      match goal with E : nth_error (gens _) _ = Some ?G0 |- _ => qset u (g_set_items G0 (g_items G0 ++ [t])) end. fin.
    + apply (G_tell s _ t (dropped c) Gs); [unfold dropped; destruct (overflow_closes c); reflexivity|reflexivity|].
      intros u; fin.
    + (apply (G_same s _ Gs); [reflexivity|]); intros u; fin.
    + apply (G_tell s _ t (dropped c) Gs); [unfold dropped; destruct (overflow_closes c); reflexivity|reflexivity|].
      intros u; fin.
Qed.

(* ------------------------------------------------------------------ Part 2b: bookkeeping between submitters and places *)

Lemma cnt_active t s :
  cnt t (active s) = cnt t (queued s) + cnt t (exec_tasks (workers s)) + cnt t (rz_pend (rz s)).
Proof. unfold active. rewrite !cnt_app. lia. Qed.
Lemma cnt_places_active t s : cnt t (places s) = cnt t (active s) + cnt t (executed s).
Proof. unfold places. apply cnt_app. Qed.

Lemma in_tell s t x u st :
  In (u, st) (subs (tell s t x)) <->
  exists st0, In (u, st0) (subs s) /\ st = if Nat.eqb u t then match st0 with SWait => x | o => o end else st0.
Proof. unfold tell; cbn. apply in_upd_sub. Qed.
Lemma in_put s t x u st :
  In (u, st) (subs (put_sub s t x)) <-> exists st0, In (u, st0) (subs s) /\ st = if Nat.eqb u t then x else st0.
Proof. unfold put_sub; cbn. apply in_upd_sub. Qed.

Lemma in_tell_other s t x u st : u <> t -> (In (u, st) (subs (tell s t x)) <-> In (u, st) (subs s)).
Proof.
  intros N. rewrite in_tell. apply Nat.eqb_neq in N. rewrite N. split.
  - intros (st0 & I & ->). exact I.
  - intros I. exists st. auto.
Qed.
Lemma in_put_other s t x u st : u <> t -> (In (u, st) (subs (put_sub s t x)) <-> In (u, st) (subs s)).
Proof.
  intros N. rewrite in_put. apply Nat.eqb_neq in N. rewrite N. split.
  - intros (st0 & I & ->). exact I.
  - intros I. exists st. auto.
Qed.
Lemma in_put_self s t x st : In (t, st) (subs (put_sub s t x)) -> st = x.
Proof. rewrite in_put. rewrite Nat.eqb_refl. intros (st0 & _ & ->). reflexivity. Qed.
Lemma in_put_self' s t x st0 : In (t, st0) (subs s) -> In (t, x) (subs (put_sub s t x)).
Proof. intros I. apply in_put. exists st0. rewrite Nat.eqb_refl. auto. Qed.
Lemma in_tell_wait s t x : In (t, SWait) (subs s) -> In (t, x) (subs (tell s t x)).
Proof. intros I. apply in_tell. exists SWait. rewrite Nat.eqb_refl. auto. Qed.
(* an entry that is not SWait is not touched *)
Lemma in_tell_keep s t x u st : st <> SWait -> In (u, st) (subs s) -> In (u, st) (subs (tell s t x)).
Proof. intros N I. apply in_tell. exists st. split; [exact I|]. destruct (Nat.eqb u t); [|reflexivity]. destruct st; congruence. Qed.
(* where an entry of the told table comes from *)
Lemma in_tell_inv s t x u st :
  In (u, st) (subs (tell s t x)) -> (u = t /\ st = x /\ In (t, SWait) (subs s)) \/ (In (u, st) (subs s) /\ (u <> t \/ st <> SWait)).
Proof.
  rewrite in_tell. intros (st0 & I & E). destruct (Nat.eqb u t) eqn:Q.
  - apply Nat.eqb_eq in Q. subst u. destruct st0; subst st; try (right; split; [exact I|right; discriminate]).
    left. auto.
  - apply Nat.eqb_neq in Q. subst st. right. auto.
Qed.

Record Book (s : state) : Prop := {
  b_wait1 : forall t, In (t, SWait) (subs s) -> cnt t (active s) >= 1;
  b_wait2 : forall t, cnt t (active s) >= 1 -> In (t, SWait) (subs s);
  b_got : forall t v, In (t, SGot v) (subs s) -> v = Some t /\ In t (executed s);
  b_exd : forall t, In t (executed s) -> In (t, SGot (Some t)) (subs s);
  b_nop : panicked s = false -> forall t, ~ In (t, SPanic) (subs s) }.

Lemma Book_init n : Book (init n).
Proof.
  split; cbn; try tauto.
  intros t. unfold active, queued. cbn. rewrite exec_tasks_repeat_idle. cbn. unfold cnt; cbn. lia.
Qed.

(* nothing about submitters, places or the log changes *)
Lemma Book_same s s' :
  Book s -> subs s' = subs s -> (forall u, cnt u (active s') = cnt u (active s)) -> executed s' = executed s ->
  panicked s' = panicked s -> Book s'.
Proof.
  intros B E A X P. split.
  - intros t. rewrite E, A. apply (b_wait1 _ B).
  - intros t. rewrite E, A. apply (b_wait2 _ B).
  - intros t v. rewrite E, X. apply (b_got _ B).
  - intros t. rewrite E, X. apply (b_exd _ B).
  - rewrite E, P. apply (b_nop _ B).
Qed.

Lemma sst_panic_dec (x : sst) : {x = SPanic} + {x <> SPanic}.
Proof. destruct x; (left; reflexivity) || (right; discriminate). Qed.

(* the entry of a task that is nowhere in the pool changes to something that is neither SWait nor SGot *)
Lemma Book_put s s' t x :
  G s -> Book s -> cnt t (places s) = 0 -> subs s' = subs (put_sub s t x) ->
  x <> SWait -> (forall v, x <> SGot v) -> (x = SPanic -> panicked s' = true) -> (x <> SPanic -> panicked s' = panicked s) ->
  (forall u, cnt u (active s') = cnt u (active s)) -> executed s' = executed s -> Book s'.
Proof.
  intros Gs B Z E NW NG PP PN A X. rewrite cnt_places_active in Z. split.
  - intros u. rewrite E, A. intros I. destruct (Nat.eq_dec u t) as [->|N].
    + apply in_put_self in I. congruence.
    + apply (b_wait1 _ B). apply (in_put_other s t x); assumption.
  - intros u. rewrite E, A. intros C. destruct (Nat.eq_dec u t) as [->|N]; [lia|].
    apply in_put_other; [exact N|]. apply (b_wait2 _ B). exact C.
  - intros u v. rewrite E, X. intros I. destruct (Nat.eq_dec u t) as [->|N].
    + apply in_put_self in I. exfalso. apply (NG v). congruence.
    + apply (b_got _ B). apply (in_put_other s t x); assumption.
  - intros u. rewrite E, X. intros I. destruct (Nat.eq_dec u t) as [->|N].
    + apply cnt_in in I. lia.
    + apply in_put_other; [exact N|]. apply (b_exd _ B). exact I.
  - intros P u. rewrite E. intros I. destruct (Nat.eq_dec u t) as [->|N].
    + apply in_put_self in I. symmetry in I. specialize (PP I). congruence.
    + apply (in_put_other s t x) in I; [|exact N]. destruct (sst_panic_dec x) as [XP|XP].
      * specialize (PP XP). congruence.
      * rewrite (PN XP) in P. exact (b_nop _ B P u I).
Qed.

Lemma Book_call s s' t :
  Book s -> subs s' = (t, SCalled) :: subs s -> (forall u, cnt u (active s') = cnt u (active s)) ->
  executed s' = executed s -> panicked s' = panicked s -> Book s'.
Proof.
  intros B E A X P. split.
  - intros u. rewrite E, A. intros [I|I]; [discriminate|]. apply (b_wait1 _ B _ I).
  - intros u. rewrite E, A. intros C. right. apply (b_wait2 _ B _ C).
  - intros u v. rewrite E, X. intros [I|I]; [discriminate|]. apply (b_got _ B _ _ I).
  - intros u. rewrite E, X. intros I. right. apply (b_exd _ B _ I).
  - rewrite E, P. intros Q u [I|I]; [discriminate|]. exact (b_nop _ B Q u I).
Qed.

Lemma Book_enq s s' t st0 :
  G s -> Book s -> cnt t (places s) = 0 -> In (t, st0) (subs s) -> subs s' = subs (put_sub s t SWait) ->
  (forall u, cnt u (active s') = cnt u (active s) + if Nat.eq_dec t u then 1 else 0) ->
  executed s' = executed s -> panicked s' = panicked s -> Book s'.
Proof.
  intros Gs B Z I0 E A X P. rewrite cnt_places_active in Z. split.
  - intros u. rewrite E, A. intros I. destruct (Nat.eq_dec t u) as [->|N]; [lia|].
    assert (u <> t) as N' by congruence. apply (in_put_other s t SWait) in I; [|exact N'].
    pose proof (b_wait1 _ B _ I). lia.
  - intros u. rewrite E, A. intros C. destruct (Nat.eq_dec t u) as [->|N].
    + apply (in_put_self' s u SWait st0 I0).
    + apply in_put_other; [congruence|]. apply (b_wait2 _ B). lia.
  - intros u v. rewrite E, X. intros I. destruct (Nat.eq_dec u t) as [->|N].
    + apply in_put_self in I. discriminate.
    + apply (b_got _ B). apply (in_put_other s t SWait); assumption.
  - intros u. rewrite E, X. intros I. destruct (Nat.eq_dec u t) as [->|N].
    + apply cnt_in in I. lia.
    + apply in_put_other; [exact N|]. apply (b_exd _ B). exact I.
  - rewrite E, P. intros Q u I. destruct (Nat.eq_dec u t) as [->|N].
    + apply in_put_self in I. discriminate.
    + apply (in_put_other s t SWait) in I; [|exact N]. exact (b_nop _ B Q u I).
Qed.

(* task t leaves the pool (it was in [active]): its waiting submitter is told x *)
Lemma Book_tell s s' t x :
  G s -> Book s -> subs s' = subs (tell s t x) ->
  (forall u, cnt u (active s') + (if Nat.eq_dec t u then 1 else 0) = cnt u (active s)) ->
  (x = SNotExec /\ executed s' = executed s) \/ (x = SGot (Some t) /\ executed s' = t :: executed s) ->
  panicked s' = panicked s -> Book s'.
Proof.
  intros Gs B E A D P.
  assert (T0 : cnt t (active s') = 0).
  { pose proof (A t) as At. destruct (Nat.eq_dec t t); [|congruence].
    pose proof (g_once _ Gs t) as O. rewrite cnt_places_active in O. lia. }
  assert (TW : In (t, SWait) (subs s)).
  { apply (b_wait2 _ B). pose proof (A t) as At. destruct (Nat.eq_dec t t); [lia|congruence]. }
  assert (XW : x <> SWait) by (destruct D as [[-> _]|[-> _]]; discriminate).
  assert (XP : x <> SPanic) by (destruct D as [[-> _]|[-> _]]; discriminate).
  assert (SUB : forall u, In u (executed s) -> In u (executed s')).
  { intros u I. destruct D as [[_ ->]|[_ ->]]; [exact I|right; exact I]. }
  split.
  - intros u. rewrite E. intros I. apply in_tell_inv in I. destruct I as [(-> & Q & _)|(I & [N|N])]; try congruence.
    pose proof (b_wait1 _ B _ I). pose proof (A u) as Au. destruct (Nat.eq_dec t u); [congruence|lia].
  - intros u C. rewrite E. assert (u <> t) as N by (intros ->; lia).
    apply in_tell_other; [exact N|]. apply (b_wait2 _ B). pose proof (A u). lia.
  - intros u v. rewrite E. intros I. apply in_tell_inv in I. destruct I as [(-> & Q & _)|(I & _)].
    + destruct D as [[-> _]|[-> ->]]; [discriminate|]. injection Q as ->. split; [reflexivity|left; reflexivity].
    + destruct (b_got _ B _ _ I) as (V & IX). split; [exact V|apply SUB; exact IX].
  - intros u I. rewrite E. destruct D as [[_ X]|[-> X]]; rewrite X in I.
    + apply in_tell_keep; [discriminate|]. apply (b_exd _ B _ I).
    + destruct I as [<-|I]; [apply in_tell_wait; exact TW|]. apply in_tell_keep; [discriminate|]. apply (b_exd _ B _ I).
  - rewrite E, P. intros Q u I. apply in_tell_inv in I. destruct I as [(_ & Q' & _)|(I & _)]; [congruence|].
    exact (b_nop _ B Q u I).
Qed.

Ltac acounts := rewrite !cnt_active; unfold queued; proj;
  try (match goal with E : rz _ = _ |- _ => rewrite !E end); proj.
Ltac afin := acounts; rewrite ?cnt_app, ?cnt_cons, ?cnt_nil; intros; lia.

Ltac rf := first [reflexivity | cbn; congruence].

Lemma Book_step c s l s' : overflow_closes c = true -> G s -> Book s -> step c s l = Some s' -> Book s'.
Proof.
  intros OC Gs B H. unfold step in H. destruct (panicked s) eqn:EP; [discriminate|].
  assert (DR : dropped c = SNotExec) by (unfold dropped; rewrite OC; reflexivity).
  destruct l.
  - (* SubmitCall *)
    break H. injection H as <-. apply (Book_call s _ t B); [rf|intros u|rf|rf]. afin.
  - (* SubmitBegin *)
    break H. injection H as <-.
    match goal with E : sub_of _ _ = Some _ |- _ => pose proof (G_not_past _ _ _ Gs E eq_refl) as Z end.
    apply (Book_put s _ t (if running s then SPending (cur s) else SRejected) Gs B Z);
      [reflexivity|destruct (running s); discriminate|intros v; destruct (running s); discriminate
      |destruct (running s); discriminate|reflexivity|intros u|reflexivity]. afin.
  - (* SubmitEnq *)
    break H; injection H as <-;
    match goal with E : sub_of _ _ = Some _ |- _ => pose proof (G_not_past _ _ _ Gs E eq_refl) as Z; pose proof (sub_of_in _ _ _ E) as I end.
    + apply (Book_put s _ t SPanic Gs B Z); [reflexivity|discriminate|discriminate|reflexivity|congruence|intros u|reflexivity]. afin.
    + apply (Book_enq s _ t _ Gs B Z I); [rf|intros u|rf|rf].
      match goal with E : nth_error (gens _) _ = Some ?G0 |- _ => qset u (g_set_items G0 (g_items G0 ++ [t])) end.
      acounts. intros Q. destruct (Nat.eq_dec t u); lia.
  - (* SubmitTimeout *)
    break H. injection H as <-.
    match goal with E : sub_of _ _ = Some _ |- _ => pose proof (G_not_past _ _ _ Gs E eq_refl) as Z end.
    apply (Book_put s _ t SRejected Gs B Z); [reflexivity|discriminate|discriminate|discriminate|reflexivity|intros u|reflexivity]. afin.
  - (* Take *)
    break H. injection H as <-. apply (Book_same s _ B); [rf|intros u|rf|rf].
    match goal with E : nth_error (gens _) _ = Some ?G0, E' : g_items ?G0 = _ :: ?q |- _ => qset u (g_set_items G0 q) end.
    match goal with E : g_items _ = ?t0 :: _ |- _ => wset u (WExec t0) end. afin.
  - (* ExitCtx *)
    break H. injection H as <-. apply (Book_same s _ B); [rf|intros u|rf|rf]. wset u WExit. afin.
  - (* ExitClosed *)
    break H. injection H as <-. apply (Book_same s _ B); [rf|intros u|rf|rf]. wset u WExit. afin.
  - (* Finish *)
    break H. injection H as <-. apply (Book_tell s _ t (SGot (Some t)) Gs B); [reflexivity|intros u|right; split; reflexivity|reflexivity].
    wset u (WIdle (cur s)). acounts. rewrite ?cnt_cons, ?cnt_nil. intros. destruct (Nat.eq_dec t u); lia.
  - (* StopCall *) break H. injection H as <-. apply (Book_same s _ B); [rf|intros u|rf|rf]. afin.
  - (* StopCAS *)
    break H; injection H as <-; (apply (Book_same s _ B); [rf|intros u|rf|rf]).
    + match goal with E : nth_error (gens _) _ = Some ?G0 |- _ => qset u (g_cancelled G0) end. afin.
    + afin.
  - (* StopClose *)
    break H; injection H as <-; (apply (Book_same s _ B); [rf|intros u|rf|rf]).
    match goal with E : nth_error (gens _) _ = Some ?G0 |- _ => qset u (g_close G0) end. afin.
  - (* StopWait *)
    break H; injection H as <-; (apply (Book_same s _ B); [rf|intros u|rf|rf]); afin.
  - (* StopDrain *)
    break H; injection H as <-.
    + apply (Book_same s _ B); [rf|intros u|rf|rf]; afin.
    + apply (Book_tell s _ t SNotExec Gs B); [reflexivity|intros u|left; split; reflexivity|reflexivity].
      match goal with E : nth_error (gens _) _ = Some ?G0, E' : g_items ?G0 = _ :: ?q |- _ => qset u (g_set_items G0 q) end.
      acounts. intros. destruct (Nat.eq_dec t u); lia.
  - (* RzCall *) break H. injection H as <-. apply (Book_same s _ B); [rf|intros u|rf|rf]. afin.
  - (* RzBegin *)
    break H; injection H as <-; (apply (Book_same s _ B); [rf|intros u|rf|rf]); afin.
  - (* RzStop *)
    break H; injection H as <-; (apply (Book_same s _ B); [rf|intros u|rf|rf]).
    + match goal with E : nth_error (gens _) _ = Some ?G0 |- _ => qset u (g_cancelled G0) end. afin.
    + afin.
    + match goal with E : nth_error (gens _) _ = Some ?G0 |- _ => qset u (g_close G0) end. afin.
  - (* RzClose *)
    break H; injection H as <-; (apply (Book_same s _ B); [rf|intros u|rf|rf]).
    match goal with E : nth_error (gens _) _ = Some ?G0 |- _ => qset u (g_close G0) end. afin.
  - (* RzWait *)
    break H; injection H as <-; (apply (Book_same s _ B); [rf|intros u|rf|rf]); afin.
  - (* RzDrain *)
    break H; injection H as <-; (apply (Book_same s _ B); [rf|intros u|rf|rf]).
    + afin.
    + match goal with E : nth_error (gens _) _ = Some ?G0, E' : g_items ?G0 = _ :: ?q |- _ => qset u (g_set_items G0 q) end. afin.
  - (* RzSwap *)
    break H; injection H as <-; (apply (Book_same s _ B); [rf|intros u|rf|rf]); acounts;
      rewrite ?flat_map_app, ?exec_tasks_app, ?exec_tasks_repeat_idle, ?cnt_app; cbn [flat_map g_items g_fresh app];
      rewrite ?cnt_nil; lia.
  - (* RzReenq *)
    break H; injection H as <-.
    + apply (Book_same s _ B); [rf|intros u|rf|rf]; afin.
    + (* panic in Resize: nothing else changes *)
      split; proj; try apply B. discriminate.
    + apply (Book_same s _ B); [rf|intros u|rf|rf].
      match goal with E : nth_error (gens _) _ = Some ?G0 |- _ => qset u (g_set_items G0 (g_items G0 ++ [t])) end. afin.
    + rewrite DR. apply (Book_tell s _ t SNotExec Gs B); [reflexivity|intros u|left; split; reflexivity|reflexivity].
      acounts. rewrite ?cnt_cons. destruct (Nat.eq_dec t u); lia.
    + apply (Book_same s _ B); [rf|intros u|rf|rf]; afin.
    + rewrite DR. apply (Book_tell s _ t SNotExec Gs B); [reflexivity|intros u|left; split; reflexivity|reflexivity].
      acounts. rewrite ?cnt_cons. destruct (Nat.eq_dec t u); lia.
Qed.

