(* Proofs/PoolProofs.v — invariants of the worker-pool transition system (being written). *)
From Coq Require Import List Arith Bool Lia.
From Verif Require Import Model.PoolLTS.
Import ListNotations.
