(* Proofs/BackendData.v — the data plane of Model/Backend.v against a byte-array specification.

   SPECIFICATION (all of it):  a file is  (size : N, byte_at : N -> N).
     spec_write f off payload n : byte_at i = nth (i - off) payload 0   if off <= i < off + n,  else old byte_at i
                                  size      = if n = 0 then old size else max old size (off + n)
     spec_trunc f sz            : byte_at i = if i < sz then old byte_at i else 0;   size = sz
     spec_read  f off count     = [byte_at off; byte_at (off+1); ...; byte_at (off+count-1)]
   The file of a backend object o is  file_of o = (o_size o, sd_get (o_data o)).

   Then: sd_get/sd_set/sd_write/sd_trunc/sd_read implement it; fs_get against fs_upd/fs_set; path resolution
   is insensitive to updates that keep kind and symlink target; be_open/be_writeat/be_sync/be_chtimes/
   be_truncate/be_stat on a regular file reached without following a symlink; Create of an absent name
   (resolution in the tree with one new entry). *)
From Coq Require Import List NArith ZArith Bool Lia ZifyBool ZifyNat ZifyN.
From Verif Require Import Model.Backend.
Import ListNotations.
Open Scope N_scope.

(* ====================================================================================================== *)
(* 0. the specification                                                                                   *)
(* ====================================================================================================== *)
Record bfile := { bf_size : N; bf_at : N -> N }.
Definition file_of (o : obj) : bfile := {| bf_size := o_size o; bf_at := sd_get (o_data o) |}.
Definition durable_of (o : obj) : bfile := {| bf_size := o_dsize o; bf_at := sd_get (o_ddata o) |}.
(* extensional equality of files *)
Definition bf_eq (f g : bfile) : Prop := bf_size f = bf_size g /\ forall i, bf_at f i = bf_at g i.

Definition spec_write (f : bfile) (off : N) (payload : list N) (n : N) : bfile :=
  {| bf_size := if n =? 0 then bf_size f else N.max (bf_size f) (off + n);
     bf_at := fun i => if (off <=? i) && (i <? off + n) then nth (N.to_nat (i - off)) payload 0 else bf_at f i |}.
Definition spec_trunc (f : bfile) (sz : N) : bfile :=
  {| bf_size := sz; bf_at := fun i => if i <? sz then bf_at f i else 0 |}.
Definition spec_read (f : bfile) (off count : N) : list N :=
  map (fun k => bf_at f (off + N.of_nat k)) (seq 0 (N.to_nat count)).
Definition empty_file : bfile := {| bf_size := 0; bf_at := fun _ => 0 |}.

Lemma bf_eq_refl f : bf_eq f f. Proof. split; reflexivity. Qed.
Lemma bf_eq_sym f g : bf_eq f g -> bf_eq g f. Proof. intros [A B]. split; [symmetry; exact A|intros i; symmetry; apply B]. Qed.
Lemma bf_eq_trans f g h : bf_eq f g -> bf_eq g h -> bf_eq f h.
Proof. intros [A B] [C D]. split; [congruence|intros i; rewrite B; apply D]. Qed.
Lemma spec_read_ext f g off n : bf_eq f g -> spec_read f off n = spec_read g off n.
Proof. intros [_ H]. unfold spec_read. apply map_ext. intros k. apply H. Qed.
Lemma spec_read_length f off n : length (spec_read f off n) = N.to_nat n.
Proof. unfold spec_read. rewrite map_length, seq_length. reflexivity. Qed.

(* ====================================================================================================== *)
(* 1. sparse contents                                                                                     *)
(* ====================================================================================================== *)
Lemma sd_get_nil i : sd_get [] i = 0. Proof. reflexivity. Qed.
Lemma sd_get_cons k b d i : sd_get ((k, b) :: d) i = if k =? i then b else sd_get d i.
Proof. unfold sd_get. cbn [find fst snd]. destruct (k =? i); reflexivity. Qed.

Lemma sd_get_del d off i : sd_get (sd_del d off) i = if i =? off then 0 else sd_get d i.
Proof.
  induction d as [|[k b] d IH]; [cbn; destruct (i =? off); reflexivity|].
  unfold sd_del in *. cbn [filter fst]. destruct (k =? off) eqn:E; cbn [negb].
  - rewrite IH, sd_get_cons. destruct (i =? off) eqn:F; [reflexivity|].
    destruct (k =? i) eqn:G; [lia|reflexivity].
  - rewrite !sd_get_cons, IH. destruct (k =? i) eqn:G; [|reflexivity].
    destruct (i =? off) eqn:F; [lia|reflexivity].
Qed.
Lemma sd_get_set d off b i : sd_get (sd_set d off b) i = if i =? off then b else sd_get d i.
Proof.
  unfold sd_set. destruct (b =? 0) eqn:E.
  - rewrite sd_get_del. destruct (i =? off); [lia|reflexivity].
  - rewrite sd_get_cons, sd_get_del. destruct (off =? i) eqn:F, (i =? off) eqn:G; try reflexivity; lia.
Qed.

(* WRITE: the payload lands at [off, off + length), everything else is untouched *)
Lemma sd_get_write bs : forall d off i,
  sd_get (sd_write d off bs) i =
  if (off <=? i) && (i <? off + N.of_nat (length bs)) then nth (N.to_nat (i - off)) bs 0 else sd_get d i.
Proof.
  induction bs as [|b r IH]; intros d off i; cbn [sd_write length].
  - destruct ((off <=? i) && (i <? off + N.of_nat 0)) eqn:E; [lia|reflexivity].
  - rewrite IH, sd_get_set.
    destruct ((off + 1 <=? i) && (i <? off + 1 + N.of_nat (length r))) eqn:E1.
    + assert (E2 : (off <=? i) && (i <? off + N.of_nat (S (length r))) = true) by lia. rewrite E2.
      replace (N.to_nat (i - off)) with (S (N.to_nat (i - (off + 1)))) by lia. reflexivity.
    + destruct (i =? off) eqn:E3.
      * assert (E2 : (off <=? i) && (i <? off + N.of_nat (S (length r))) = true) by lia. rewrite E2.
        replace (N.to_nat (i - off)) with O by lia. reflexivity.
      * assert (E2 : (off <=? i) && (i <? off + N.of_nat (S (length r))) = false) by lia. rewrite E2. reflexivity.
Qed.

(* TRUNCATE: bytes below the new size stay, the rest reads as zero (also after a later extension) *)
Lemma sd_get_trunc d sz i : sd_get (sd_trunc d sz) i = if i <? sz then sd_get d i else 0.
Proof.
  induction d as [|[k b] d IH]; [cbn; destruct (i <? sz); reflexivity|].
  unfold sd_trunc in *. cbn [filter fst]. destruct (k <? sz) eqn:E.
  - rewrite !sd_get_cons, IH. destruct (k =? i) eqn:G; [|reflexivity]. destruct (i <? sz) eqn:F; [reflexivity|lia].
  - rewrite IH, sd_get_cons. destruct (i <? sz) eqn:F; [|reflexivity]. destruct (k =? i) eqn:G; [lia|reflexivity].
Qed.

(* READ: n consecutive bytes *)
Lemma sd_read_spec n : forall d off, sd_read d off n = map (fun k => sd_get d (off + N.of_nat k)) (seq 0 n).
Proof.
  induction n as [|n IH]; intros d off; [reflexivity|].
  cbn [sd_read seq map]. rewrite IH. f_equal; [f_equal; lia|].
  rewrite <- seq_shift, map_map. apply map_ext. intros k. f_equal. lia.
Qed.
Lemma sd_read_length n : forall d off, length (sd_read d off n) = n.
Proof. induction n as [|n IH]; intros d off; cbn; [reflexivity|rewrite IH; reflexivity]. Qed.

(* the three operations on objects, against the specification *)
Lemma sd_write_spec d sz off bs :
  bf_eq {| bf_size := (match bs with [] => sz | _ => N.max sz (off + N.of_nat (length bs)) end);
           bf_at := sd_get (sd_write d off bs) |}
        (spec_write {| bf_size := sz; bf_at := sd_get d |} off bs (N.of_nat (length bs))).
Proof.
  split; cbn [bf_size bf_at spec_write].
  - destruct bs; cbn [length]; [reflexivity|]. destruct (N.of_nat (S (length bs)) =? 0) eqn:E; [lia|reflexivity].
  - intros i. apply sd_get_write.
Qed.
Lemma sd_trunc_spec d sz0 sz :
  bf_eq {| bf_size := sz; bf_at := sd_get (sd_trunc d sz) |} (spec_trunc {| bf_size := sz0; bf_at := sd_get d |} sz).
Proof. split; [reflexivity|]. intros i. apply sd_get_trunc. Qed.
Lemma sd_read_is_spec d sz off n : sd_read d off (N.to_nat n) = spec_read {| bf_size := sz; bf_at := sd_get d |} off n.
Proof. apply sd_read_spec. Qed.

(* ====================================================================================================== *)
(* 2. the flat map                                                                                        *)
(* ====================================================================================================== *)
Lemma bytes_eqb_eq a : forall b, bytes_eqb a b = true <-> a = b.
Proof.
  induction a as [|x a IH]; intros [|y b]; cbn; split; try discriminate; try reflexivity.
  - intros H. apply andb_true_iff in H. destruct H as [H1 H2]. apply N.eqb_eq in H1. apply IH in H2. congruence.
  - intros [= -> ->]. rewrite N.eqb_refl. cbn. apply IH. reflexivity.
Qed.
Lemma path_eqb_eq a : forall b, path_eqb a b = true <-> a = b.
Proof.
  induction a as [|x a IH]; intros [|y b]; cbn; split; try discriminate; try reflexivity.
  - intros H. apply andb_true_iff in H. destruct H as [H1 H2]. apply bytes_eqb_eq in H1. apply IH in H2. congruence.
  - intros [= -> ->]. apply andb_true_iff. split; [apply bytes_eqb_eq|apply IH]; reflexivity.
Qed.
Lemma path_eqb_refl a : path_eqb a a = true. Proof. apply path_eqb_eq. reflexivity. Qed.
Lemma path_eqb_neq a b : path_eqb a b = false <-> a <> b.
Proof. rewrite <- path_eqb_eq. destruct (path_eqb a b); split; congruence. Qed.
Lemma path_eqb_sym a b : path_eqb a b = path_eqb b a.
Proof.
  destruct (path_eqb a b) eqn:E.
  - apply path_eqb_eq in E. subst. symmetry. apply path_eqb_refl.
  - symmetry. apply path_eqb_neq. apply path_eqb_neq in E. congruence.
Qed.

Lemma fs_get_upd fs q f p :
  fs_get (fs_upd fs q f) p = match fs_get fs p with Some o => Some (if path_eqb p q then f o else o) | None => None end.
Proof.
  induction fs as [|[k o] r IH]; [reflexivity|].
  unfold fs_upd in *. cbn [map fst snd fs_get].
  destruct (path_eqb q k) eqn:E; cbn [fs_get].
  - destruct (path_eqb p k) eqn:F; [|exact IH].
    apply path_eqb_eq in E, F. subst. rewrite path_eqb_refl. reflexivity.
  - destruct (path_eqb p k) eqn:F; [|exact IH].
    apply path_eqb_eq in F. subst. rewrite path_eqb_sym, E. reflexivity.
Qed.
Lemma fs_get_upd_same fs q f o : fs_get fs q = Some o -> fs_get (fs_upd fs q f) q = Some (f o).
Proof. intros H. rewrite fs_get_upd, H, path_eqb_refl. reflexivity. Qed.
Lemma fs_get_upd_other fs q f p : p <> q -> fs_get (fs_upd fs q f) p = fs_get fs p.
Proof. intros H. rewrite fs_get_upd. apply path_eqb_neq in H. rewrite H. destruct (fs_get fs p); reflexivity. Qed.

Lemma fs_get_del fs q p : fs_get (fs_del fs q) p = if path_eqb p q then None else fs_get fs p.
Proof.
  induction fs as [|[k o] r IH]; [cbn; destruct (path_eqb p q); reflexivity|].
  unfold fs_del in *. cbn [filter fst]. destruct (path_eqb q k) eqn:E; cbn [negb fs_get].
  - rewrite IH. destruct (path_eqb p q) eqn:F; [reflexivity|].
    destruct (path_eqb p k) eqn:G; [|reflexivity].
    apply path_eqb_eq in E, G. subst. rewrite path_eqb_refl in F. discriminate.
  - rewrite IH. destruct (path_eqb p k) eqn:G; [|reflexivity].
    destruct (path_eqb p q) eqn:F; [|reflexivity].
    apply path_eqb_eq in F, G. subst. rewrite path_eqb_refl in E. discriminate.
Qed.
Lemma fs_get_set fs q o p : fs_get (fs_set fs q o) p = if path_eqb p q then Some o else fs_get fs p.
Proof. unfold fs_set. cbn [fs_get]. rewrite fs_get_del. destruct (path_eqb p q); reflexivity. Qed.
Lemma fs_del_absent fs q : fs_get fs q = None -> fs_del fs q = fs.
Proof.
  induction fs as [|[k o] r IH]; [reflexivity|]. cbn [fs_get]. unfold fs_del in *. cbn [filter fst].
  destruct (path_eqb q k); [discriminate|]. intros H. cbn [negb]. rewrite IH by exact H. reflexivity.
Qed.
Lemma fs_get_touch fs d t p :
  fs_get (touch fs d t) p =
  match fs_get fs p with
  | Some o => Some (if path_eqb p d then set_meta o (o_perm o) (o_uid o) (o_gid o) t else o)
  | None => None end.
Proof. unfold touch. rewrite fs_get_upd. reflexivity. Qed.

(* no duplicate keys (part of the backend's well-formedness invariant) *)
Definition nodup_keys (fs : fsmap) : Prop := NoDup (map fst fs).
Lemma fs_get_in fs p o : fs_get fs p = Some o -> In (p, o) fs.
Proof.
  induction fs as [|[k x] r IH]; [discriminate|]. cbn [fs_get].
  destruct (path_eqb p k) eqn:E; [|intros H; right; apply IH; exact H].
  apply path_eqb_eq in E. intros [= ->]. left. congruence.
Qed.
(* under that invariant a constant update equals any update that agrees on the stored object *)
Lemma fs_upd_const fs q o o' g : nodup_keys fs -> fs_get fs q = Some o -> g o = o' ->
  fs_upd fs q (fun _ => o') = fs_upd fs q g.
Proof.
  unfold nodup_keys, fs_upd. intros N G E.
  apply map_ext_in. intros [k x] Hin. cbn [fst snd].
  destruct (path_eqb q k) eqn:F; [|reflexivity]. apply path_eqb_eq in F. subst k.
  apply fs_get_in in G.
  assert (x = o); [|subst; reflexivity].
  clear E. induction fs as [|[k y] r IH]; [destruct Hin|].
  cbn [map fst] in N. inversion N as [|? ? N1 N2]; subst.
  destruct Hin as [Hin|Hin], G as [G|G].
  - congruence.
  - inversion Hin; subst. exfalso. apply N1. apply (in_map fst) in G. exact G.
  - inversion G; subst. exfalso. apply N1. apply (in_map fst) in Hin. exact Hin.
  - apply IH; assumption.
Qed.
Lemma nodup_keys_upd fs q f : nodup_keys fs -> nodup_keys (fs_upd fs q f).
Proof.
  unfold nodup_keys, fs_upd. rewrite map_map.
  replace (map (fun x => fst (if path_eqb q (fst x) then (fst x, f (snd x)) else x)) fs) with (map fst fs); [auto|].
  apply map_ext. intros [k x]. cbn [fst snd]. destruct (path_eqb q k); reflexivity.
Qed.

(* ====================================================================================================== *)
(* 3. path resolution                                                                                     *)
(* ====================================================================================================== *)
(* a found object is the stored one *)
Lemma walk_found fuel : forall links fs canon todo fl q o,
  walk fuel links fs canon todo fl = WFound q o -> fs_get fs q = Some o.
Proof.
  induction fuel as [|fuel IH]; intros links fs canon todo fl q o; cbn [walk]; [discriminate|].
  destruct (fs_get fs canon) as [cur|] eqn:E; [|discriminate].
  destruct todo as [|c rest]; [intros [= <- <-]; exact E|].
  destruct (negb (kind_eqb (o_kind cur) KDir)); [discriminate|].
  destruct (is_dotdot c); [apply IH|].
  destruct (fs_get fs (canon ++ [c])) as [ch|] eqn:F; [|destruct rest; discriminate].
  destruct (kind_eqb (o_kind ch) KLink && (negb match rest with [] => true | _ => false end || fl)).
  - destruct links; [discriminate|apply IH].
  - destruct rest; [intros [= <- <-]; exact F|apply IH].
Qed.
Lemma resolve_found fs p fl q o : resolve fs p fl = WFound q o -> fs_get fs q = Some o.
Proof. apply walk_found. Qed.

(* an update that keeps kind and symlink target of every object does not change any resolution *)
Definition keeps_shape (f : obj -> obj) : Prop := forall o, o_kind (f o) = o_kind o /\ o_target (f o) = o_target o.
Definition upd_res (q : path) (f : obj -> obj) (r : walk_res) : walk_res :=
  match r with WFound p o => WFound p (if path_eqb p q then f o else o) | x => x end.

Lemma walk_upd q f (K : keeps_shape f) fuel : forall links fs canon todo fl,
  walk fuel links (fs_upd fs q f) canon todo fl = upd_res q f (walk fuel links fs canon todo fl).
Proof.
  induction fuel as [|fuel IH]; intros links fs canon todo fl; cbn [walk]; [reflexivity|].
  rewrite fs_get_upd. destruct (fs_get fs canon) as [cur|] eqn:E; [|reflexivity].
  destruct todo as [|c rest]; [reflexivity|].
  assert (Hk : o_kind (if path_eqb canon q then f cur else cur) = o_kind cur).
  { destruct (path_eqb canon q); [apply K|reflexivity]. }
  rewrite Hk. destruct (negb (kind_eqb (o_kind cur) KDir)); [reflexivity|].
  destruct (is_dotdot c); [apply IH|].
  rewrite fs_get_upd. destruct (fs_get fs (canon ++ [c])) as [ch|] eqn:F; [|destruct rest; reflexivity].
  assert (Hk2 : o_kind (if path_eqb (canon ++ [c]) q then f ch else ch) = o_kind ch).
  { destruct (path_eqb (canon ++ [c]) q); [apply K|reflexivity]. }
  assert (Ht2 : o_target (if path_eqb (canon ++ [c]) q then f ch else ch) = o_target ch).
  { destruct (path_eqb (canon ++ [c]) q); [apply K|reflexivity]. }
  rewrite Hk2, Ht2.
  destruct (kind_eqb (o_kind ch) KLink && (negb match rest with [] => true | _ => false end || fl)).
  - destruct links; [reflexivity|apply IH].
  - destruct rest; [reflexivity|apply IH].
Qed.
Lemma max_target_comps_upd q f (K : keeps_shape f) fs : max_target_comps (fs_upd fs q f) = max_target_comps fs.
Proof.
  unfold max_target_comps, fs_upd. induction fs as [|[k o] r IH]; [reflexivity|].
  cbn [map fold_right fst snd]. rewrite IH. destruct (path_eqb q k); cbn [snd]; [|reflexivity].
  destruct (K o) as [_ ->]. reflexivity.
Qed.
Lemma resolve_upd q f (K : keeps_shape f) fs p fl :
  resolve (fs_upd fs q f) p fl = upd_res q f (resolve fs p fl).
Proof.
  unfold resolve, walk_fuel. rewrite max_target_comps_upd by exact K. apply walk_upd. exact K.
Qed.

Lemma keeps_shape_set_data sz d t : keeps_shape (fun o => set_data o (sz o) (d o) t).
Proof. intros o. split; reflexivity. Qed.
Lemma keeps_shape_set_meta a b c d : keeps_shape (fun o => set_meta o (a o) (b o) (c o) (d o)).
Proof. intros o. split; reflexivity. Qed.
Lemma keeps_shape_sync : keeps_shape (fun o => match o_kind o with KFile => sync_obj o | _ => o end).
Proof. intros o. destruct (o_kind o) eqn:E; cbn; rewrite ?E; split; reflexivity. Qed.

(* ====================================================================================================== *)
(* 4. the backend operations on a plain regular file                                                      *)
(* ====================================================================================================== *)
(* p is an object reached without following a symlink at the last component *)
Definition plain (fs : fsmap) (p : path) (o : obj) : Prop :=
  resolve fs p true = WFound p o /\ resolve fs p false = WFound p o.
Definition plain_file (fs : fsmap) (p : path) (o : obj) : Prop := plain fs p o /\ o_kind o = KFile.
Definition plain_dir (fs : fsmap) (p : path) (o : obj) : Prop := plain fs p o /\ o_kind o = KDir.

Lemma plain_get fs p o : plain fs p o -> fs_get fs p = Some o.
Proof. intros [H _]. apply resolve_found in H. exact H. Qed.
Lemma plain_upd fs p o q f : keeps_shape f -> plain fs p o ->
  plain (fs_upd fs q f) p (if path_eqb p q then f o else o).
Proof. intros K [A B]. split; rewrite resolve_upd by exact K; [rewrite A|rewrite B]; reflexivity. Qed.

Lemma be_stat_plain fs p o fl : plain fs p o -> be_stat fs p fl = Ok (info_of o).
Proof. intros [A B]. unfold be_stat. destruct fl; [rewrite A|rewrite B]; reflexivity. Qed.
Lemma be_open_file fs p o w : plain fs p o -> o_kind o = KFile -> be_open fs p w = Ok p.
Proof. intros [A _] K. unfold be_open. rewrite A, K. reflexivity. Qed.

(* every backend operation used by WRITE and SETATTR updates objects in place: no key appears, disappears
   or moves, kinds stay, and sizes change only as [sz] allows *)
Definition upd_only (P : obj -> obj -> Prop) (fs fs' : fsmap) : Prop :=
  forall p, match fs_get fs' p with
            | Some o' => exists o, fs_get fs p = Some o /\ o_kind o' = o_kind o /\ P o o'
            | None => fs_get fs p = None
            end.
Lemma upd_only_refl (P : obj -> obj -> Prop) fs : (forall o, P o o) -> upd_only P fs fs.
Proof. intros R p. destruct (fs_get fs p) as [o|]; [exists o; auto|reflexivity]. Qed.
Lemma upd_only_trans (P : obj -> obj -> Prop) a b c :
  (forall x y z, o_kind y = o_kind x -> o_kind z = o_kind y -> P x y -> P y z -> P x z) ->
  upd_only P a b -> upd_only P b c -> upd_only P a c.
Proof.
  intros Tr A B p. specialize (A p). specialize (B p).
  destruct (fs_get c p) as [oc|].
  - destruct B as (ob & B1 & B2 & B3). rewrite B1 in A. destruct A as (oa & A1 & A2 & A3).
    exists oa. split; [exact A1|]. split; [congruence|]. eapply Tr; eauto.
  - rewrite B in A. exact A.
Qed.
Lemma upd_only_upd (P : obj -> obj -> Prop) fs q f :
  (forall o, P o o) -> (forall o, fs_get fs q = Some o -> o_kind (f o) = o_kind o /\ P o (f o)) ->
  upd_only P fs (fs_upd fs q f).
Proof.
  intros R H p. rewrite fs_get_upd. destruct (fs_get fs p) as [o|] eqn:E; [|reflexivity].
  exists o. split; [reflexivity|]. destruct (path_eqb p q) eqn:F; [|auto].
  apply path_eqb_eq in F. subst. apply H. exact E.
Qed.

Lemma be_meta_upd_only (P : obj -> obj -> Prop) fs p fl f :
  (forall o, P o o) -> (forall o, o_kind (f o) = o_kind o /\ P o (f o)) -> upd_only P fs (fst (be_meta fs p fl f)).
Proof.
  intros R H. unfold be_meta. destruct (resolve fs p fl); cbn [fst]; try (apply upd_only_refl; exact R).
  apply upd_only_upd; auto.
Qed.
Lemma be_sync_upd_only (P : obj -> obj -> Prop) fs q :
  (forall o, P o o) -> (forall o, P o (sync_obj o)) -> upd_only P fs (be_sync fs q).
Proof.
  intros R H. unfold be_sync. apply upd_only_upd; [exact R|]. intros o _.
  destruct (o_kind o) eqn:E; cbn; rewrite ?E; auto.
Qed.

(* WriteAt on the open file q: exactly the object at q changes, to spec_write of itself *)
Lemma be_writeat_ok fs q o off bs t :
  fs_get fs q = Some o -> o_kind o = KFile -> (0 <= off)%Z -> (off + Z.of_nat (length bs) < two63)%Z ->
  be_writeat fs q off bs t =
  (fs_upd fs q (fun _ => set_data o (match bs with [] => o_size o | _ => N.max (o_size o) (Z.to_N off + N.of_nat (length bs)) end)
                                   (sd_write (o_data o) (Z.to_N off) bs) t),
   Ok (N.of_nat (length bs))).
Proof.
  intros G K H0 H1. unfold be_writeat. rewrite G, K.
  destruct ((off <? 0)%Z || (two63 <=? off + Z.of_nat (length bs))%Z) eqn:E; [lia|reflexivity].
Qed.
Lemma be_writeat_einval fs q o off bs t :
  fs_get fs q = Some o -> o_kind o = KFile -> (two63 <= off + Z.of_nat (length bs))%Z ->
  be_writeat fs q off bs t = (fs, Err EINVAL).
Proof.
  intros G K H1. unfold be_writeat. rewrite G, K.
  destruct ((off <? 0)%Z || (two63 <=? off + Z.of_nat (length bs))%Z) eqn:E; [reflexivity|lia].
Qed.
(* in any state, on any path: in-place, and the new size is the old one or off + length *)
Lemma be_writeat_upd_only (P : obj -> obj -> Prop) fs q off bs t :
  (forall o, P o o) ->
  (forall o d, o_kind o = KFile -> (0 <= off)%Z ->
     P o (set_data o (match bs with [] => o_size o | _ => N.max (o_size o) (Z.to_N off + N.of_nat (length bs)) end) d t)) ->
  upd_only P fs (fst (be_writeat fs q off bs t)).
Proof.
  intros R H. unfold be_writeat. destruct (fs_get fs q) as [o|] eqn:G; [|apply upd_only_refl; exact R].
  destruct (o_kind o) eqn:K; try (apply upd_only_refl; exact R).
  destruct ((off <? 0)%Z || (two63 <=? off + Z.of_nat (length bs))%Z) eqn:E; [apply upd_only_refl; exact R|].
  cbn [fst]. apply upd_only_upd; [exact R|]. intros o1 G1. rewrite G in G1. injection G1 as <-.
  split; [reflexivity|]. apply H; [exact K|lia].
Qed.
Lemma be_truncate_upd_only (P : obj -> obj -> Prop) fs p sz t :
  (forall o, P o o) -> (forall o d, (0 <= sz)%Z -> P o (set_data o (Z.to_N sz) d t)) ->
  upd_only P fs (fst (be_truncate fs p sz t)).
Proof.
  intros R H. unfold be_truncate. destruct (resolve fs p true) as [q o| |]; try (apply upd_only_refl; exact R).
  destruct (o_kind o); try (apply upd_only_refl; exact R);
  (destruct (sz <? 0)%Z eqn:E; [apply upd_only_refl; exact R|]);
  cbn [fst]; (apply upd_only_upd; [exact R|]); intros o1 _; (split; [reflexivity|apply H; lia]).
Qed.

(* Truncate of a plain regular file *)
Lemma be_truncate_plain fs p o sz t : plain fs p o -> o_kind o = KFile -> (0 <= sz)%Z ->
  be_truncate fs p sz t =
  (fs_upd fs p (fun o => set_data o (Z.to_N sz) (sd_trunc (o_data o) (Z.to_N sz)) t), Ok tt).
Proof.
  intros [A _] K H. unfold be_truncate. rewrite A, K. destruct (sz <? 0)%Z eqn:E; [lia|reflexivity].
Qed.
Lemma be_chtimes_plain fs p o t : plain fs p o ->
  be_chtimes fs p t = (fs_upd fs p (fun o => set_meta o (o_perm o) (o_uid o) (o_gid o) t), Ok tt).
Proof. intros [A _]. unfold be_chtimes, be_meta. rewrite A. reflexivity. Qed.

(* ====================================================================================================== *)
(* 5. creating a new entry                                                                                *)
(* ====================================================================================================== *)
(* a missing last component is missing whether or not a final symlink would be followed *)
Lemma walk_missing_follow fuel : forall links fs canon todo q,
  walk fuel links fs canon todo false = WMissing q -> walk fuel links fs canon todo true = WMissing q.
Proof.
  induction fuel as [|fuel IH]; intros links fs canon todo q; cbn [walk]; [discriminate|].
  destruct (fs_get fs canon) as [cur|]; [|discriminate].
  destruct todo as [|c rest]; [discriminate|].
  destruct (negb (kind_eqb (o_kind cur) KDir)); [discriminate|].
  destruct (is_dotdot c); [apply IH|].
  destruct (fs_get fs (canon ++ [c])) as [ch|]; [|destruct rest; auto].
  destruct rest as [|c2 rest].
  - cbn [negb orb]. rewrite andb_false_r. discriminate.
  - cbn [negb orb]. rewrite !andb_true_r. destruct (kind_eqb (o_kind ch) KLink); [destruct links; [discriminate|apply IH]|apply IH].
Qed.
Lemma resolve_missing_follow fs p q : resolve fs p false = WMissing q -> resolve fs p true = WMissing q.
Proof. apply walk_missing_follow. Qed.

(* fs' is fs plus a new non-symlink object at p, other objects keeping kind and target *)
Definition shape_eq (a b : option obj) : Prop :=
  match a, b with
  | Some x, Some y => o_kind y = o_kind x /\ o_target y = o_target x
  | None, None => True
  | _, _ => False
  end.
Definition adds (fs fs' : fsmap) (p : path) (newo : obj) : Prop :=
  fs_get fs p = None /\ fs_get fs' p = Some newo /\ o_kind newo = KFile /\
  forall q, q <> p -> shape_eq (fs_get fs q) (fs_get fs' q).

Lemma walk_add fs fs' p newo (A : adds fs fs' p newo) fuel : forall links canon todo fl,
  match walk fuel links fs canon todo fl with
  | WFound q o => exists o', walk fuel links fs' canon todo fl = WFound q o' /\ fs_get fs' q = Some o'
  | WMissing q => walk fuel links fs' canon todo fl = if path_eqb q p then WFound p newo else WMissing q
  | WErr _ => True
  end.
Proof.
  destruct A as (A1 & A2 & A3 & A4).
  induction fuel as [|fuel IH]; intros links canon todo fl; cbn [walk]; [exact I|].
  destruct (fs_get fs canon) as [cur|] eqn:E; [|exact I].
  assert (Nc : canon <> p) by (intros ->; congruence).
  pose proof (A4 canon Nc) as S. rewrite E in S. destruct (fs_get fs' canon) as [cur'|] eqn:E'; [|destruct S].
  destruct S as [S1 S2].
  destruct todo as [|c rest]; [exists cur'; auto|].
  rewrite S1. destruct (negb (kind_eqb (o_kind cur) KDir)); [exact I|].
  destruct (is_dotdot c); [apply IH|].
  destruct (fs_get fs (canon ++ [c])) as [ch|] eqn:F.
  - assert (Nd : canon ++ [c] <> p) by (intros X; rewrite X in F; congruence).
    pose proof (A4 _ Nd) as T. rewrite F in T. destruct (fs_get fs' (canon ++ [c])) as [ch'|] eqn:F'; [|destruct T].
    destruct T as [T1 T2]. rewrite T1, T2.
    destruct (kind_eqb (o_kind ch) KLink && (negb match rest with [] => true | _ => false end || fl)).
    + destruct links; [exact I|apply IH].
    + destruct rest; [exists ch'; auto|apply IH].
  - destruct rest; [|exact I].
    destruct (path_eqb (canon ++ [c]) p) eqn:G.
    + apply path_eqb_eq in G. rewrite G, A2, A3. reflexivity.
    + apply path_eqb_neq in G. pose proof (A4 _ G) as T. rewrite F in T.
      destruct (fs_get fs' (canon ++ [c])); [destruct T|reflexivity].
Qed.

Lemma app_one_neq {A} (d : list A) n : d ++ [n] <> d.
Proof. intros H. apply (f_equal (@length A)) in H. rewrite app_length in H. cbn in H. lia. Qed.
Lemma parent_app d n : parent (d ++ [n]) = d.
Proof. unfold parent. apply removelast_last. Qed.

(* the tree right after Create of an absent name *)
Definition created_fs (fs : fsmap) (d : path) (n : name) (t : N) : fsmap :=
  touch (fs_set fs (d ++ [n]) (mk_file 438 t)) d t.
Definition touch_f (t : N) (o : obj) : obj := set_meta o (o_perm o) (o_uid o) (o_gid o) t.

Lemma created_fs_get fs d n t q : fs_get fs (d ++ [n]) = None ->
  fs_get (created_fs fs d n t) q =
  if path_eqb q (d ++ [n]) then Some (mk_file 438 t)
  else match fs_get fs q with Some o => Some (if path_eqb q d then touch_f t o else o) | None => None end.
Proof.
  intros H. unfold created_fs. rewrite fs_get_touch, fs_get_set.
  destruct (path_eqb q (d ++ [n])) eqn:E; [|reflexivity].
  apply path_eqb_eq in E. subst q.
  replace (path_eqb (d ++ [n]) d) with false; [reflexivity|]. symmetry. apply path_eqb_neq, app_one_neq.
Qed.
Lemma created_adds fs d n t : fs_get fs (d ++ [n]) = None -> adds fs (created_fs fs d n t) (d ++ [n]) (mk_file 438 t).
Proof.
  intros H. split; [exact H|]. split; [rewrite created_fs_get by exact H; rewrite path_eqb_refl; reflexivity|].
  split; [reflexivity|]. intros q Hq. rewrite created_fs_get by exact H.
  apply path_eqb_neq in Hq. rewrite Hq. unfold shape_eq. destruct (fs_get fs q) as [o|]; [|exact I].
  destruct (path_eqb q d); split; reflexivity.
Qed.
Lemma created_fuel fs d n t : fs_get fs (d ++ [n]) = None ->
  max_target_comps (created_fs fs d n t) = max_target_comps fs.
Proof.
  intros H. unfold created_fs, touch. rewrite max_target_comps_upd by (intros o; split; reflexivity).
  unfold fs_set. rewrite (fs_del_absent _ _ H). reflexivity.
Qed.

Lemma walk_missing_get fuel : forall links fs canon todo fl q,
  walk fuel links fs canon todo fl = WMissing q -> fs_get fs q = None.
Proof.
  induction fuel as [|fuel IH]; intros links fs canon todo fl q; cbn [walk]; [discriminate|].
  destruct (fs_get fs canon) as [cur|]; [|discriminate].
  destruct todo as [|c rest]; [discriminate|].
  destruct (negb (kind_eqb (o_kind cur) KDir)); [discriminate|].
  destruct (is_dotdot c); [apply IH|].
  destruct (fs_get fs (canon ++ [c])) as [ch|] eqn:F.
  - destruct (kind_eqb (o_kind ch) KLink && (negb match rest with [] => true | _ => false end || fl)).
    + destruct links; [discriminate|apply IH].
    + destruct rest; [discriminate|apply IH].
  - destruct rest; [|discriminate]. intros [= <-]. exact F.
Qed.
Lemma missing_get fs p fl q : resolve fs p fl = WMissing q -> fs_get fs q = None.
Proof. apply walk_missing_get. Qed.

(* Create of an absent name: the new empty file appears, the parent is touched, every resolution that
   succeeded before still succeeds at the same place *)
Definition absent (fs : fsmap) (d : path) (n : name) : Prop := resolve fs (d ++ [n]) false = WMissing (d ++ [n]).

Lemma be_create_absent fs d n t : absent fs d n ->
  be_create fs (d ++ [n]) t = (created_fs fs d n t, Ok (d ++ [n])).
Proof.
  intros H. unfold be_create. rewrite (resolve_missing_follow _ _ _ H), parent_app. reflexivity.
Qed.
Lemma created_plain_new fs d n t : absent fs d n -> plain (created_fs fs d n t) (d ++ [n]) (mk_file 438 t).
Proof.
  intros H. pose proof (missing_get _ _ _ _ H) as G. pose proof (created_adds fs d n t G) as A.
  assert (X : forall fl, resolve (created_fs fs d n t) (d ++ [n]) fl = WFound (d ++ [n]) (mk_file 438 t)).
  { intros fl. unfold resolve, walk_fuel. rewrite created_fuel by exact G.
    pose proof (walk_add _ _ _ _ A (S (length (d ++ [n]) + 41 * S (max_target_comps fs))) 40%nat [] (d ++ [n]) fl) as W.
    assert (R : resolve fs (d ++ [n]) fl = WMissing (d ++ [n])) by (destruct fl; [apply resolve_missing_follow|]; exact H).
    unfold resolve, walk_fuel in R. rewrite R, path_eqb_refl in W. exact W. }
  split; apply X.
Qed.
Lemma created_plain_old fs d n t q o : absent fs d n -> plain fs q o ->
  plain (created_fs fs d n t) q (if path_eqb q d then touch_f t o else o).
Proof.
  intros H [P1 P2]. pose proof (missing_get _ _ _ _ H) as G. pose proof (created_adds fs d n t G) as A.
  assert (Nq : path_eqb q (d ++ [n]) = false).
  { apply path_eqb_neq. intros ->. apply resolve_found in P1. congruence. }
  assert (X : forall fl, resolve fs q fl = WFound q o ->
              resolve (created_fs fs d n t) q fl = WFound q (if path_eqb q d then touch_f t o else o)).
  { intros fl R. pose proof (resolve_found _ _ _ _ _ R) as Gq. unfold resolve, walk_fuel in *. rewrite created_fuel by exact G.
    pose proof (walk_add _ _ _ _ A (S (length q + 41 * S (max_target_comps fs))) 40%nat [] q fl) as W.
    rewrite R in W. destruct W as (o' & W1 & W2). rewrite W1. f_equal.
    rewrite created_fs_get, Nq, Gq in W2 by exact G. congruence. }
  split; apply X; assumption.
Qed.

Lemma be_chmod_plain fs p o m : plain fs p o ->
  be_chmod fs p m = (fs_upd fs p (fun o => set_meta o (N.land m 511) (o_uid o) (o_gid o) (o_mtime o)), Ok tt).
Proof. intros [A _]. unfold be_chmod, be_meta. rewrite A. reflexivity. Qed.
Lemma be_chown_plain fs p o u g : plain fs p o ->
  be_chown fs p u g = (fs_upd fs p (fun o => set_meta o (o_perm o) u g (o_mtime o)), Ok tt).
Proof. intros [A _]. unfold be_chown, be_meta. rewrite A. reflexivity. Qed.

(* ====================================================================================================== *)
(* 6. crash: the volatile contents of every regular file are replaced by the durable ones                 *)
(* ====================================================================================================== *)
Lemma fs_get_crash fs p :
  fs_get (be_crash fs) p =
  match fs_get fs p with
  | Some o => Some (match o_kind o with KFile => crash_obj o | _ => o end)
  | None => None
  end.
Proof.
  induction fs as [|[k o] r IH]; [reflexivity|]. unfold be_crash in *. cbn [map fst snd fs_get].
  destruct (o_kind o) eqn:K; cbn [fs_get fst]; destruct (path_eqb p k); try exact IH; rewrite ?K; reflexivity.
Qed.
(* no key appears or disappears; directories and symlinks are untouched; a regular file keeps kind,
   permissions, owner, mtime and gets (size, bytes) := its durable (size, bytes) *)
Lemma be_crash_frame fs p :
  match fs_get fs p with
  | None => fs_get (be_crash fs) p = None
  | Some o => exists oc, fs_get (be_crash fs) p = Some oc /\
                o_kind oc = o_kind o /\ o_perm oc = o_perm o /\ o_uid oc = o_uid o /\ o_gid oc = o_gid o /\
                o_mtime oc = o_mtime o /\ o_target oc = o_target o /\
                (o_kind o <> KFile -> oc = o) /\ (o_kind o = KFile -> file_of oc = durable_of o /\ durable_of oc = durable_of o)
  end.
Proof.
  rewrite fs_get_crash. destruct (fs_get fs p) as [o|]; [|reflexivity].
  eexists. split; [reflexivity|]. destruct (o_kind o) eqn:K; cbn; rewrite ?K; repeat split; congruence.
Qed.
