(* Proofs/BytesProofs.v — lemmas about Model/Bytes.v: lengths, take/drop over appends, big-endian round trips. *)
From Coq Require Import List Arith NArith Bool Lia ZifyBool ZifyNat ZifyN.
From Verif Require Import Model.Bytes.
Import ListNotations.
Open Scope N_scope.

Lemma len_nil : len [] = 0. Proof. reflexivity. Qed.
Lemma len_cons b s : len (b :: s) = 1 + len s.
Proof. unfold len. cbn [length]. lia. Qed.
Lemma len_app a b : len (a ++ b) = len a + len b.
Proof. unfold len. rewrite app_length. lia. Qed.
Lemma len_zero_nil s : len s = 0 -> s = [].
Proof. destruct s; [reflexivity|]. rewrite len_cons. lia. Qed.

Lemma take_app_len a b : take (len a) (a ++ b) = a.
Proof.
  unfold take, len. rewrite Nnat.Nat2N.id.
  rewrite firstn_app, Nat.sub_diag, firstn_all. cbn. apply app_nil_r.
Qed.
Lemma drop_app_len a b : drop (len a) (a ++ b) = b.
Proof.
  unfold drop, len. rewrite Nnat.Nat2N.id.
  rewrite skipn_app, Nat.sub_diag, skipn_all. reflexivity.
Qed.
Lemma take_drop n s : take n s ++ drop n s = s.
Proof. apply firstn_skipn. Qed.
Lemma len_take n s : n <= len s -> len (take n s) = n.
Proof. intros H. unfold take, len in *. rewrite firstn_length. lia. Qed.
Lemma len_drop n s : len (drop n s) = len s - n.
Proof. unfold drop, len. rewrite skipn_length. lia. Qed.
Lemma take_all s : take (len s) s = s.
Proof. unfold take, len. rewrite Nnat.Nat2N.id. apply firstn_all. Qed.
Lemma drop_all s : drop (len s) s = [].
Proof. unfold drop, len. rewrite Nnat.Nat2N.id. apply skipn_all. Qed.
Lemma take_0 s : take 0 s = [].
Proof. reflexivity. Qed.
Lemma drop_0 s : drop 0 s = s.
Proof. reflexivity. Qed.
Lemma take_take_le n m s : n <= m -> take n (take m s) = take n s.
Proof. intros H. unfold take. rewrite firstn_firstn. f_equal. lia. Qed.

Lemma len_zeros n : len (zeros n) = n.
Proof. unfold len, zeros. rewrite repeat_length. lia. Qed.
Lemma bytesb_zeros n : bytesb (zeros n) = true.
Proof. unfold zeros. induction (N.to_nat n); cbn; auto. Qed.
Lemma bytesb_app a b : bytesb (a ++ b) = bytesb a && bytesb b.
Proof. apply forallb_app. Qed.
Lemma bytesb_take n s : bytesb s = true -> bytesb (take n s) = true.
Proof.
  unfold take. generalize (N.to_nat n) as k. intros k. revert s.
  induction k; intros [|b s] H; cbn in *; auto.
  apply andb_true_iff in H as [H1 H2]. rewrite H1. cbn. auto.
Qed.
Lemma bytesb_drop n s : bytesb s = true -> bytesb (drop n s) = true.
Proof.
  unfold drop. generalize (N.to_nat n) as k. intros k. revert s.
  induction k; intros [|b s] H; cbn in *; auto.
  apply andb_true_iff in H as [H1 H2]. auto.
Qed.

(* ---- little/big endian ---- *)
Lemma le_enc_length k v : length (le_enc k v) = k.
Proof. revert v. induction k; intros v; cbn; auto. Qed.
Lemma be_enc_length k v : length (be_enc k v) = k.
Proof. unfold be_enc. rewrite rev_length. apply le_enc_length. Qed.
Lemma be_enc_len k v : len (be_enc k v) = N.of_nat k.
Proof. unfold len. rewrite be_enc_length. reflexivity. Qed.

Lemma le_dec_enc k v : le_dec (le_enc k v) = v mod 256 ^ N.of_nat k.
Proof.
  revert v. induction k; intros v.
  - cbn. symmetry. apply N.mod_1_r.
  - cbn [le_enc le_dec]. rewrite IHk.
    replace (N.of_nat (S k)) with (N.succ (N.of_nat k)) by lia.
    rewrite N.pow_succ_r'. rewrite N.mod_mul_r; [reflexivity|lia|].
    apply N.pow_nonzero. lia.
Qed.
Lemma be_dec_enc k v : v < 256 ^ N.of_nat k -> be_dec (be_enc k v) = v.
Proof.
  intros H. unfold be_dec, be_enc. rewrite rev_involutive, le_dec_enc. apply N.mod_small. exact H.
Qed.
Lemma be_dec_enc_mod k v : be_dec (be_enc k v) = v mod 256 ^ N.of_nat k.
Proof. unfold be_dec, be_enc. rewrite rev_involutive. apply le_dec_enc. Qed.

Lemma forallb_rev {A} (f : A -> bool) l : forallb f (rev l) = forallb f l.
Proof.
  induction l; cbn; auto. rewrite forallb_app, IHl. cbn. rewrite andb_true_r. apply andb_comm.
Qed.
Lemma bytesb_le_enc k v : bytesb (le_enc k v) = true.
Proof.
  revert v. induction k; intros v; cbn; auto. rewrite IHk, andb_true_r.
  unfold byte_ok. apply N.ltb_lt. apply N.mod_lt. lia.
Qed.
Lemma bytesb_be_enc k v : bytesb (be_enc k v) = true.
Proof. unfold be_enc, bytesb. rewrite forallb_rev. apply bytesb_le_enc. Qed.

Lemma le_enc_dec s : bytesb s = true -> le_enc (length s) (le_dec s) = s.
Proof.
  induction s as [|b s IH]; intros H; [reflexivity|].
  cbn [bytesb forallb] in H. cbn [length le_dec le_enc].
  apply andb_true_iff in H as [Hb Hs]. unfold byte_ok in Hb. apply N.ltb_lt in Hb.
  assert (E1 : (b + 256 * le_dec s) mod 256 = b).
  { rewrite N.mul_comm, N.mod_add by lia. apply N.mod_small. exact Hb. }
  assert (E2 : (b + 256 * le_dec s) / 256 = le_dec s).
  { rewrite N.mul_comm, N.div_add by lia. rewrite N.div_small by exact Hb. reflexivity. }
  rewrite E1, E2, IH by exact Hs. reflexivity.
Qed.
Lemma be_enc_dec s : bytesb s = true -> be_enc (length s) (be_dec s) = s.
Proof.
  intros H. unfold be_enc, be_dec. rewrite <- (rev_length s).
  rewrite le_enc_dec by (unfold bytesb; rewrite forallb_rev; exact H). apply rev_involutive.
Qed.
Lemma le_dec_lt s : bytesb s = true -> le_dec s < 256 ^ len s.
Proof.
  induction s as [|b s IH]; intros H.
  - cbn. lia.
  - cbn in H. apply andb_true_iff in H as [Hb Hs]. unfold byte_ok in Hb. apply N.ltb_lt in Hb.
    specialize (IH Hs). rewrite len_cons. cbn [le_dec].
    replace (1 + len s) with (N.succ (len s)) by lia. rewrite N.pow_succ_r'. nia.
Qed.
Lemma be_dec_lt s : bytesb s = true -> be_dec s < 256 ^ len s.
Proof.
  intros H. unfold be_dec. replace (len s) with (len (rev s)) by (unfold len; rewrite rev_length; reflexivity).
  apply le_dec_lt. unfold bytesb. rewrite forallb_rev. exact H.
Qed.

Lemma bytes_eqb_eq a b : bytes_eqb a b = true <-> a = b.
Proof.
  revert b. induction a as [|x a IH]; intros [|y b]; cbn; split; intros H; try reflexivity; try discriminate.
  - apply andb_true_iff in H as [H1 H2]. apply N.eqb_eq in H1. apply IH in H2. subst. reflexivity.
  - injection H as -> ->. rewrite N.eqb_refl. cbn. apply IH. reflexivity.
Qed.
Lemma bytes_eqb_refl a : bytes_eqb a a = true.
Proof. apply bytes_eqb_eq. reflexivity. Qed.
