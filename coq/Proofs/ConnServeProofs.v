(* Proofs/ConnServeProofs.v — lemmas behind C15 (Model/Conn.v: one record-marking connection).
   (Proofs/ConnProofs.v is the C17 file about Model/ConnLTS.v; this file is independent of it.)

   Contents
     1. the record reader on an extended stream: a settled outcome (a record, or a limit rejection) is not
        changed by bytes that arrive later; a returned record consumed >= 4 bytes
     2. the loop: fuel independence, one-step unfolding of [serve_conn], the fuel is never exhausted
     3. the relational specification [decodes] of "the decodable prefix of a stream" (no fuel), its
        executable version [split_calls], determinism
     4. C15_order, C15_close, C15_prefix_determinism, C15_alloc lemmas
     5. well-formed pipelined calls under every fragmentation are all answered (extensional grounding)  *)
From Coq Require Import List Arith NArith ZArith Bool Lia ZifyBool ZifyNat ZifyN.
From Verif Require Import Gen.Facts Model.Bytes Model.Xdr Model.Rpc Model.RecordMark Model.Conn.
From Verif Require Import Proofs.BytesProofs Proofs.XdrProofs Proofs.RpcProofs Proofs.RecordMarkProofs.
Import ListNotations.
Open Scope N_scope.

Ltac Zify.zify_post_hook ::= Z.to_euclidean_division_equations.

(* ------------------------------------------------------------------------------------------------ *)
(* 1. the record reader and bytes that arrive later                                                  *)
(* ------------------------------------------------------------------------------------------------ *)

Lemma len_length s : len s = N.of_nat (length s). Proof. reflexivity. Qed.

Lemma take_app_le n s x : n <= len s -> take n (s ++ x) = take n s.
Proof.
  intros H. unfold take. rewrite firstn_app.
  replace (N.to_nat n - length s)%nat with 0%nat by (unfold len in H; lia).
  cbn [firstn]. apply app_nil_r.
Qed.
Lemma drop_app_le n s x : n <= len s -> drop n (s ++ x) = drop n s ++ x.
Proof.
  intros H. unfold drop. rewrite skipn_app.
  replace (N.to_nat n - length s)%nat with 0%nat by (unfold len in H; lia).
  reflexivity.
Qed.

(* an outcome is settled when it does not depend on what the client sends next *)
Definition settled {A} (r : res A) : Prop :=
  match r with Ok _ => True | Err e => e <> EShort /\ e <> EFuel end.

Lemma rr_ext emax x : forall fuel fuel' acc s r s' t,
  rr fuel emax acc s = (r, s', t) -> settled r -> (fuel <= fuel')%nat ->
  rr fuel' emax acc (s ++ x) = (r, s' ++ x, t).
Proof.
  induction fuel as [|fuel IH]; intros fuel' acc s r s' t H Hs Hf.
  - cbn in H. injection H as <- _ _. cbn in Hs. destruct Hs as [_ Hs]. congruence.
  - destruct fuel' as [|fuel']; [lia|].
    rewrite rr_S in H. rewrite rr_S.
    destruct (4 <=? len s) eqn:E4.
    2:{ injection H as <- _ _. cbn in Hs. destruct Hs as [Hs _]. congruence. }
    apply N.leb_le in E4.
    assert (E4' : 4 <=? len (s ++ x) = true) by (apply N.leb_le; rewrite len_app; lia).
    rewrite E4'. cbv zeta in *.
    rewrite (take_app_le 4 s x E4), (drop_app_le 4 s x E4).
    set (h := be_dec (take 4 s)) in *. set (flen := h mod last_flag) in *.
    destruct (max_fragment <? flen); [injection H as <- <- <-; reflexivity|].
    destruct (emax <? len acc + flen); [injection H as <- <- <-; reflexivity|].
    destruct (flen <=? len (drop 4 s)) eqn:E5.
    2:{ injection H as <- _ _. cbn in Hs. destruct Hs as [Hs _]. congruence. }
    apply N.leb_le in E5.
    assert (E5' : flen <=? len (drop 4 s ++ x) = true) by (apply N.leb_le; rewrite len_app; lia).
    rewrite E5'. rewrite (take_app_le flen _ x E5), (drop_app_le flen _ x E5).
    destruct (last_flag <=? h); [injection H as <- <- <-; reflexivity|].
    destruct (rr fuel emax (acc ++ take flen (drop 4 s)) (drop flen (drop 4 s))) as [[r2 s2] t2] eqn:Er.
    injection H as <- <- <-.
    rewrite (IH fuel' _ _ r2 s2 t2 Er Hs) by lia. reflexivity.
Qed.

Lemma read_record_ext mx s x r s' t :
  read_record mx s = (r, s', t) -> settled r -> read_record mx (s ++ x) = (r, s' ++ x, t).
Proof.
  unfold read_record. intros H Hs. eapply rr_ext; [exact H|exact Hs|]. rewrite app_length. lia.
Qed.

(* a returned record: the rest is a proper suffix, at least one header was consumed *)
Lemma rr_ok_suffix emax : forall fuel acc s r s' t,
  rr fuel emax acc s = (Ok r, s', t) -> exists p, s = p ++ s' /\ 4 <= len p.
Proof.
  induction fuel as [|fuel IH]; intros acc s r s' t H; [discriminate|].
  rewrite rr_S in H. destruct (4 <=? len s) eqn:E4; [|discriminate]. apply N.leb_le in E4.
  cbv zeta in H. set (h := be_dec (take 4 s)) in *. set (flen := h mod last_flag) in *.
  destruct (max_fragment <? flen); [discriminate|].
  destruct (emax <? len acc + flen); [discriminate|].
  destruct (flen <=? len (drop 4 s)) eqn:E5; [|discriminate]. apply N.leb_le in E5.
  assert (Hsplit : s = (take 4 s ++ take flen (drop 4 s)) ++ drop flen (drop 4 s)).
  { rewrite <- app_assoc, take_drop, take_drop. reflexivity. }
  assert (Hlen : 4 <= len (take 4 s ++ take flen (drop 4 s))).
  { rewrite len_app, len_take by exact E4. lia. }
  destruct (last_flag <=? h).
  - injection H as _ <- _. eexists. split; [exact Hsplit|exact Hlen].
  - destruct (rr fuel emax _ _) as [[r2 s2] t2] eqn:Er. injection H as -> -> _.
    destruct (IH _ _ _ _ _ Er) as (p & Hp & Hp4).
    exists ((take 4 s ++ take flen (drop 4 s)) ++ p). split.
    + rewrite <- app_assoc, <- Hp. exact Hsplit.
    + rewrite len_app. lia.
Qed.
Lemma read_record_ok_suffix mx s r s' t :
  read_record mx s = (Ok r, s', t) -> exists p, s = p ++ s' /\ 4 <= len p.
Proof. apply rr_ok_suffix. Qed.
Lemma read_record_ok_shorter mx s r s' t :
  read_record mx s = (Ok r, s', t) -> (length s' < length s)%nat.
Proof.
  intros H. destruct (read_record_ok_suffix _ _ _ _ _ H) as (p & -> & Hp).
  rewrite app_length. unfold len in Hp. lia.
Qed.

(* the only errors of the record reader *)
Lemma rr_errors emax : forall fuel acc s e s' t,
  rr fuel emax acc s = (Err e, s', t) -> e = EShort \/ e = ELimit \/ e = EFuel.
Proof.
  induction fuel as [|fuel IH]; intros acc s e s' t H.
  - cbn in H. injection H as <- _ _. auto.
  - rewrite rr_S in H. destruct (4 <=? len s); [|injection H as <- _ _; auto].
    cbv zeta in H.
    destruct (max_fragment <? _); [injection H as <- _ _; auto|].
    destruct (emax <? _); [injection H as <- _ _; auto|].
    destruct (_ <=? len (drop 4 s)); [|injection H as <- _ _; auto].
    destruct (last_flag <=? _); [discriminate|].
    destruct (rr fuel emax _ _) as [[r2 s2] t2] eqn:Er. injection H as -> _ _.
    eapply IH. exact Er.
Qed.
Lemma read_record_errors mx s e s' t :
  read_record mx s = (Err e, s', t) -> e = EShort \/ e = ELimit.
Proof.
  intros H. destruct (rr_errors _ _ _ _ _ _ _ H) as [E|[E|E]]; auto.
  exfalso. apply (read_record_no_fuel mx s). rewrite H. subst e. reflexivity.
Qed.

(* ------------------------------------------------------------------------------------------------ *)
(* 2. the loop                                                                                        *)
(* ------------------------------------------------------------------------------------------------ *)

Lemma sc_fuel_irrel {St} (d : dispatcher St) : forall f1 f2 st s,
  (length s < f1)%nat -> (length s < f2)%nat -> sc f1 d st s = sc f2 d st s.
Proof.
  induction f1 as [|f1 IH]; intros f2 st s H1 H2; [lia|]. destruct f2 as [|f2]; [lia|].
  cbn [sc]. destruct (read_record conn_max s) as [[[data|e] s1] t] eqn:Er; [|reflexivity].
  destruct (dec_call data) as [[[c|e] body] t2]; [|reflexivity].
  destruct (d st c body) as [st' [rb|]]; [|reflexivity].
  pose proof (read_record_ok_shorter _ _ _ _ _ Er) as Hsh.
  f_equal. apply IH; lia.
Qed.

(* one iteration of the connection loop, without fuel *)
Lemma serve_conn_eq {St} (d : dispatcher St) st s :
  serve_conn d st s =
  match read_record conn_max s with
  | (Err e, _, t) => [(Closed (if len s =? 0 then CEof else CRead e), t)]
  | (Ok data, s1, t) =>
    match dec_call data with
    | (Err e, _, t2) => [(Closed (CDecode e), t ++ t2)]
    | (Ok c, body, t2) =>
      match d st c body with
      | (_, None) => [(Closed CHandler, t ++ t2)]
      | (st', Some rb) => (Replied (c_xid c) rb, t ++ t2) :: serve_conn d st' s1
      end
    end
  end.
Proof.
  unfold serve_conn at 1. cbn [sc].
  destruct (read_record conn_max s) as [[[data|e] s1] t] eqn:Er; [|reflexivity].
  destruct (dec_call data) as [[[c|e] body] t2]; [|reflexivity].
  destruct (d st c body) as [st' [rb|]]; [|reflexivity].
  pose proof (read_record_ok_shorter _ _ _ _ _ Er) as Hsh.
  f_equal. unfold serve_conn. apply sc_fuel_irrel; lia.
Qed.

Lemma read_record_nil mx : exists t, read_record mx [] = (Err EShort, [], t).
Proof. exists [Rd 4]. reflexivity. Qed.

(* ------------------------------------------------------------------------------------------------ *)
(* 3. the decodable prefix of a stream: relational specification, executable version, determinism    *)
(* ------------------------------------------------------------------------------------------------ *)

Inductive decodes : bytes -> list (call * bytes) -> close_reason -> Prop :=
| Dec_eof : decodes [] [] CEof
| Dec_read s e s' t :
    s <> [] -> read_record conn_max s = (Err e, s', t) -> decodes s [] (CRead e)
| Dec_call_err s data s1 t e r2 t2 :
    read_record conn_max s = (Ok data, s1, t) -> dec_call data = (Err e, r2, t2) -> decodes s [] (CDecode e)
| Dec_call s data s1 t c body t2 cs r :
    read_record conn_max s = (Ok data, s1, t) -> dec_call data = (Ok c, body, t2) -> decodes s1 cs r ->
    decodes s ((c, body) :: cs) r.

Lemma len_eqb_0 s : (len s =? 0) = true <-> s = [].
Proof.
  rewrite N.eqb_eq. split; [apply len_zero_nil|intros ->; reflexivity].
Qed.

Lemma decodes_split_rec : forall fuel s, (length s < fuel)%nat ->
  decodes s (fst (split_calls_rec fuel s)) (snd (split_calls_rec fuel s)).
Proof.
  induction fuel as [|fuel IH]; intros s Hf; [lia|]. cbn [split_calls_rec].
  destruct (read_record conn_max s) as [[[data|e] s1] t] eqn:Er.
  - destruct (dec_call data) as [[[c|e] body] t2] eqn:Ec.
    + pose proof (read_record_ok_shorter _ _ _ _ _ Er) as Hsh.
      specialize (IH s1 ltac:(lia)).
      destruct (split_calls_rec fuel s1) as [cs r]. cbn [fst snd] in *.
      eapply Dec_call; eauto.
    + cbn [fst snd]. eapply Dec_call_err; eauto.
  - cbn [fst snd]. destruct (len s =? 0) eqn:E0.
    + apply len_eqb_0 in E0. subst s. constructor.
    + eapply Dec_read; [|exact Er]. intros ->. discriminate.
Qed.
Lemma decodes_split s : decodes s (fst (split_calls s)) (snd (split_calls s)).
Proof. apply decodes_split_rec. lia. Qed.
Lemma decodes_total s : exists cs r, decodes s cs r.
Proof. eexists. eexists. apply decodes_split. Qed.

Lemma decodes_fun s cs r : decodes s cs r -> forall cs' r', decodes s cs' r' -> cs = cs' /\ r = r'.
Proof.
  induction 1 as [|s e s' t Hne Hr|s data s1 t e r2 t2 Hr Hc|s data s1 t c body t2 cs r Hr Hc Hd IH];
    intros cs' r' H'.
  - inversion H' as [|? ? ? ? Hne' _|? ? ? ? ? ? ? Hr' _|? ? ? ? ? ? ? ? ? Hr' _ _]; subst; auto.
    + congruence.
    + destruct (read_record_nil conn_max) as [t0 E]. congruence.
    + destruct (read_record_nil conn_max) as [t0 E]. congruence.
  - inversion H' as [|? ? ? ? _ Hr'|? ? ? ? ? ? ? Hr' _|? ? ? ? ? ? ? ? ? Hr' _ _]; subst.
    + congruence.
    + rewrite Hr in Hr'. injection Hr' as <- _ _. auto.
    + congruence.
    + congruence.
  - inversion H' as [|? ? ? ? _ Hr'|? ? ? ? ? ? ? Hr' Hc'|? ? ? ? ? ? ? ? ? Hr' Hc' _]; subst.
    + destruct (read_record_nil conn_max) as [t0 E]. congruence.
    + congruence.
    + rewrite Hr in Hr'. injection Hr' as <- _ _. rewrite Hc in Hc'. injection Hc' as <- _ _. auto.
    + rewrite Hr in Hr'. injection Hr' as <- _ _. congruence.
  - inversion H' as [|? ? ? ? _ Hr'|? ? ? ? ? ? ? Hr' Hc'|? ? ? ? ? ? ? ? ? Hr' Hc' Hd']; subst.
    + destruct (read_record_nil conn_max) as [t0 E]. congruence.
    + congruence.
    + rewrite Hr in Hr'. injection Hr' as <- _ _. congruence.
    + rewrite Hr in Hr'. injection Hr' as <- <- _. rewrite Hc in Hc'. injection Hc' as <- <- _.
      destruct (IH _ _ Hd') as [-> ->]. auto.
Qed.

Lemma split_calls_spec s cs r : decodes s cs r <-> split_calls s = (cs, r).
Proof.
  split.
  - intros H. destruct (decodes_fun _ _ _ H _ _ (decodes_split s)) as [E1 E2].
    destruct (split_calls s). cbn in *. congruence.
  - intros E. pose proof (decodes_split s) as H. rewrite E in H. exact H.
Qed.

(* the reasons decoding can stop with *)
Lemma decodes_reason s cs r : decodes s cs r ->
  r = CEof \/ r = CRead EShort \/ r = CRead ELimit \/ exists e, r = CDecode e.
Proof.
  induction 1 as [|s e s' t Hne Hr|s data s1 t e r2 t2 Hr Hc|s data s1 t c body t2 cs r Hr Hc Hd IH]; auto.
  - destruct (read_record_errors _ _ _ _ _ Hr) as [->| ->]; auto.
  - right. right. right. eauto.
Qed.

(* ------------------------------------------------------------------------------------------------ *)
(* 4. order, closure, prefix determinism, allocation                                                  *)
(* ------------------------------------------------------------------------------------------------ *)

Definition reply_events (l : list (N * bytes)) : list event := map (fun xb => Replied (fst xb) (snd xb)) l.

Lemma replies_reply_events l r : replies (reply_events l ++ [Closed r]) = l.
Proof. unfold reply_events. induction l as [|[x b] l IH]; [reflexivity|]. cbn. f_equal. exact IH. Qed.
Lemma close_reason_reply_events l r : close_reason_of (reply_events l ++ [Closed r]) = Some r.
Proof. unfold close_reason_of. rewrite last_last. reflexivity. Qed.

(* events of the connection = replies to the decodable prefix (as far as the dispatcher answers), then Closed *)
Lemma order_lemma {St} (d : dispatcher St) s cs r : decodes s cs r -> forall st,
  events (serve_conn d st s) =
  reply_events (fst (answer d st cs)) ++ [Closed (if snd (answer d st cs) then r else CHandler)].
Proof.
  induction 1 as [|s e s' t Hne Hr|s data s1 t e r2 t2 Hr Hc|s data s1 t c body t2 cs r Hr Hc Hd IH]; intros st.
  - reflexivity.
  - rewrite serve_conn_eq, Hr. destruct (len s =? 0) eqn:E0; [apply len_eqb_0 in E0; congruence|]. reflexivity.
  - rewrite serve_conn_eq, Hr, Hc. reflexivity.
  - rewrite serve_conn_eq, Hr, Hc. cbn [answer].
    destruct (d st c body) as [st' [rb|]]; [|reflexivity].
    specialize (IH st'). destruct (answer d st' cs) as [l ok]. cbn [fst snd] in *.
    cbn [events map fst]. unfold events in IH. rewrite IH. reflexivity.
Qed.

(* ---- facts about [answer] ---- *)
Lemma answer_length {St} (d : dispatcher St) : forall cs st,
  (length (fst (answer d st cs)) <= length cs)%nat /\
  (snd (answer d st cs) = true -> length (fst (answer d st cs)) = length cs).
Proof.
  induction cs as [|[c body] cs IH]; intros st; [cbn; auto|].
  cbn [answer]. destruct (d st c body) as [st' [rb|]]; [|cbn; split; [lia|discriminate]].
  specialize (IH st'). destruct (answer d st' cs) as [l ok]. cbn [fst snd length] in *.
  destruct IH as [I1 I2]. split; [lia|]. intros H. rewrite (I2 H). reflexivity.
Qed.
Lemma answer_xids {St} (d : dispatcher St) : forall cs st,
  map fst (fst (answer d st cs)) =
  map (fun cb => c_xid (fst cb)) (firstn (length (fst (answer d st cs))) cs).
Proof.
  induction cs as [|[c body] cs IH]; intros st; [reflexivity|].
  cbn [answer]. destruct (d st c body) as [st' [rb|]]; [|reflexivity].
  specialize (IH st'). destruct (answer d st' cs) as [l ok]. cbn [fst snd length firstn map] in *.
  rewrite IH. reflexivity.
Qed.
Lemma answer_total {St} (d : dispatcher St) :
  (forall st c body, snd (d st c body) <> None) -> forall cs st, snd (answer d st cs) = true.
Proof.
  intros Ht. induction cs as [|[c body] cs IH]; intros st; [reflexivity|].
  cbn [answer]. specialize (Ht st c body). destruct (d st c body) as [st' [rb|]]; [|cbn in Ht; congruence].
  specialize (IH st'). destruct (answer d st' cs) as [l ok]. exact IH.
Qed.
Lemma answer_echo {St} (d : dispatcher St) : echoes_xid d -> forall cs st,
  Forall (fun xb => take 4 (snd xb) = enc_u32 (fst xb)) (fst (answer d st cs)).
Proof.
  intros He. induction cs as [|[c body] cs IH]; intros st; [constructor|].
  cbn [answer]. destruct (d st c body) as [st' [rb|]] eqn:Ed; [|constructor].
  specialize (IH st'). destruct (answer d st' cs) as [l ok]. cbn [fst snd] in *.
  constructor; [|exact IH]. cbn [fst snd]. eapply He. exact Ed.
Qed.
(* a longer list of calls: the replies to the earlier calls are the same, more may follow; after a call the
   dispatcher fails on nothing follows *)
Lemma answer_app {St} (d : dispatcher St) : forall cs cs' st,
  exists more,
    fst (answer d st (cs ++ cs')) = fst (answer d st cs) ++ more /\
    (snd (answer d st cs) = false -> more = [] /\ snd (answer d st (cs ++ cs')) = false).
Proof.
  induction cs as [|[c body] cs IH]; intros cs' st.
  - exists (fst (answer d st cs')). split; [reflexivity|]. cbn. discriminate.
  - cbn [app answer]. destruct (d st c body) as [st' [rb|]].
    + destruct (IH cs' st') as (more & E1 & E2). exists more.
      destruct (answer d st' cs) as [l ok]. destruct (answer d st' (cs ++ cs')) as [l2 ok2].
      cbn [fst snd] in *. split; [rewrite E1; reflexivity|exact E2].
    + exists []. cbn. auto.
Qed.

(* the real encoder starts every reply with the XID of the reply structure *)
Lemma enc_reply_xid r : take 4 (enc_reply r) = enc_u32 (r_xid r).
Proof.
  unfold enc_reply. pose proof (take_app_len (enc_u32 (r_xid r))) as X. rewrite enc_u32_len in X. apply X.
Qed.
Lemma encoding_dispatcher_echoes {St} (h : St -> call -> bytes -> St * option reply) :
  (forall st c body st' r, h st c body = (st', Some r) -> r_xid r = c_xid c) ->
  echoes_xid (encoding_dispatcher h).
Proof.
  intros Hh st c body st' rb. unfold encoding_dispatcher.
  destruct (h st c body) as [st1 [r|]] eqn:E; [|discriminate].
  intros H. injection H as <- <-. rewrite enc_reply_xid. f_equal. eapply Hh. exact E.
Qed.

(* ---- bytes that arrive later ---- *)
Lemma decodes_ext s1 cs r : decodes s1 cs r -> forall s2,
  if close_waits r then exists cs' r', decodes (s1 ++ s2) (cs ++ cs') r'
  else decodes (s1 ++ s2) cs r.
Proof.
  induction 1 as [|s e s' t Hne Hr|s data s1 t e r2 t2 Hr Hc|s data s1 t c body t2 cs r Hr Hc Hd IH]; intros s2.
  - cbn. apply decodes_total.
  - destruct (read_record_errors _ _ _ _ _ Hr) as [->| ->]; cbn [close_waits].
    + cbn [app]. apply decodes_total.
    + eapply Dec_read.
      * destruct s; [congruence|discriminate].
      * eapply read_record_ext; [exact Hr|]. cbn. split; discriminate.
  - cbn [close_waits]. eapply Dec_call_err; [|exact Hc].
    eapply read_record_ext; [exact Hr|exact I].
  - specialize (IH s2).
    assert (Hr' : read_record conn_max (s ++ s2) = (Ok data, s1 ++ s2, t))
      by (eapply read_record_ext; [exact Hr|exact I]).
    destruct (close_waits r).
    + destruct IH as (cs' & r' & IH). exists cs', r'. cbn [app]. eapply Dec_call; eauto.
    + eapply Dec_call; eauto.
Qed.

Lemma close_lemma {St} (d : dispatcher St) st s1 r :
  close_reason_of (events (serve_conn d st s1)) = Some r -> close_waits r = false ->
  forall s2, events (serve_conn d st (s1 ++ s2)) = events (serve_conn d st s1).
Proof.
  intros Hr Hw s2. destruct (decodes_total s1) as (cs & r0 & Hd).
  rewrite (order_lemma d _ _ _ Hd) in *. rewrite close_reason_reply_events in Hr. injection Hr as Hr.
  pose proof (decodes_ext _ _ _ Hd s2) as Hx.
  destruct (snd (answer d st cs)) eqn:Eok.
  - subst r0. rewrite Hw in Hx. rewrite (order_lemma d _ _ _ Hx), Eok. reflexivity.
  - assert (Hany : exists cs' r', decodes (s1 ++ s2) (cs ++ cs') r').
    { destruct (close_waits r0); [exact Hx|]. exists [], r0. rewrite app_nil_r. exact Hx. }
    destruct Hany as (cs' & r' & Hd').
    rewrite (order_lemma d _ _ _ Hd').
    destruct (answer_app d cs cs' st) as (more & E1 & E2). destruct (E2 Eok) as [-> E3].
    rewrite E1, E3, app_nil_r. reflexivity.
Qed.

Lemma prefix_lemma {St} (d : dispatcher St) st s1 s2 :
  exists reps more r1 r2,
    events (serve_conn d st s1) = reply_events reps ++ [Closed r1] /\
    events (serve_conn d st (s1 ++ s2)) = reply_events (reps ++ more) ++ [Closed r2].
Proof.
  destruct (decodes_total s1) as (cs & r0 & Hd).
  assert (Hany : exists cs' r', decodes (s1 ++ s2) (cs ++ cs') r').
  { pose proof (decodes_ext _ _ _ Hd s2) as Hx.
    destruct (close_waits r0); [exact Hx|]. exists [], r0. rewrite app_nil_r. exact Hx. }
  destruct Hany as (cs' & r' & Hd').
  destruct (answer_app d cs cs' st) as (more & E1 & _).
  exists (fst (answer d st cs)), more. eexists. eexists.
  split; [apply (order_lemma d _ _ _ Hd)|]. rewrite (order_lemma d _ _ _ Hd'), E1. reflexivity.
Qed.

(* ---- allocation while decoding one message ---- *)
Definition record_limit : N := eff_max conn_max.
Lemma record_limit_val : record_limit = 1048576. Proof. reflexivity. Qed.

Definition msg_trace_ok (t : list ev) : Prop :=
  exists tr tc, t = tr ++ tc /\ tr_le record_limit tr /\ tr_le cred_limit tc.

Lemma sc_alloc {St} (d : dispatcher St) : forall fuel st s, Forall msg_trace_ok (traces (sc fuel d st s)).
Proof.
  induction fuel as [|fuel IH]; intros st s.
  - repeat constructor. exists [], []. repeat split; constructor.
  - cbn [sc].
    pose proof (read_record_bounded conn_max s) as Br.
    destruct (read_record conn_max s) as [[[data|e] s1] t] eqn:Er; cbn [o_trace snd] in Br.
    + pose proof (call_bounds_lemma) as [Bc _]. specialize (Bc data).
      assert (Hmsg : forall t2, tr_le cred_limit t2 -> msg_trace_ok (t ++ t2)).
      { intros t2 H2. exists t, t2. split; [reflexivity|]. split; [|exact H2].
        eapply tr_le_mono; [|exact Br]. rewrite record_limit_val. unfold conn_max. cbn. lia. }
      destruct (dec_call data) as [[[c|e] body] t2]; cbn [o_trace snd] in Bc.
      * destruct (d st c body) as [st' [rb|]].
        -- cbn [traces map snd]. constructor; [apply Hmsg; exact Bc|apply IH].
        -- repeat constructor. apply Hmsg. exact Bc.
      * repeat constructor. apply Hmsg. exact Bc.
    + repeat constructor. exists t, []. split; [rewrite app_nil_r; reflexivity|]. split; [|constructor].
      eapply tr_le_mono; [|exact Br]. rewrite record_limit_val. unfold conn_max. cbn. lia.
Qed.
Lemma alloc_lemma {St} (d : dispatcher St) st s : Forall msg_trace_ok (traces (serve_conn d st s)).
Proof. apply sc_alloc. Qed.

Lemma msg_trace_ok_le t : msg_trace_ok t -> tr_le record_limit t.
Proof.
  intros (tr & tc & -> & H1 & H2). apply tr_le_app; [exact H1|].
  eapply tr_le_mono; [|exact H2]. rewrite record_limit_val, cred_limit_val. lia.
Qed.

(* the argument decoders the handlers run on the body of a call *)
Lemma bounded_dirop_args : bounded string_limit dec_dirop_args.
Proof.
  unfold dec_dirop_args. apply bounded_bind.
  - eapply bounded_mono; [|apply bounded_fh]. vm_compute. discriminate.
  - intros h. apply bounded_bind; [apply bounded_string|]. intros nm. apply bounded_ret.
Qed.
Lemma bounded_getattr_args : bounded fh_max_len dec_getattr_args.
Proof. exact bounded_fh. Qed.
Lemma bounded_mnt_args : bounded string_limit dec_mnt_args.
Proof. exact bounded_string. Qed.

(* total volume of the buffers ReadRecord allocates for one message: the number of allocations is not bounded
   by a constant (empty fragments cost a 4-byte header scratch each) but each of them is paid for by 4 bytes of
   input; the fragment buffers and the result copy are bounded by the record limit *)
Definition tsum (t : list ev) : N := fold_right (fun e a => ev_size e + a) 0 t.
Lemma tsum_app a b : tsum (a ++ b) = tsum a + tsum b.
Proof. unfold tsum. induction a as [|e a IH]; [reflexivity|]. cbn [app fold_right]. rewrite IH. lia. Qed.
Lemma tsum_rd n : tsum (rd n) = n.
Proof. unfold rd. destruct (n =? 0) eqn:E; cbn; lia. Qed.
Lemma tsum_al n : tsum (al n) = n.
Proof. unfold al. destruct (n =? 0) eqn:E; cbn; lia. Qed.

Lemma rr_alloc_total emax : forall fuel acc s, len acc <= emax ->
  tsum (o_trace (rr fuel emax acc s)) <= (emax - len acc) + emax + len s + 4.
Proof.
  induction fuel as [|fuel IH]; intros acc s Hacc; [cbn; lia|].
  rewrite rr_S. destruct (4 <=? len s) eqn:E4; [|cbn; lia]. apply N.leb_le in E4. cbv zeta.
  set (flen := be_dec (take 4 s) mod last_flag) in *.
  destruct (max_fragment <? flen); [cbn; lia|].
  destruct (emax <? len acc + flen) eqn:E2; [cbn; lia|]. apply N.ltb_ge in E2.
  assert (T4 : tsum [Rd 4] = 4) by reflexivity.
  destruct (flen <=? len (drop 4 s)) eqn:E5.
  2:{ cbn [o_trace snd]. rewrite tsum_app, tsum_rd, T4. lia. }
  apply N.leb_le in E5.
  assert (La : len (acc ++ take flen (drop 4 s)) = len acc + flen) by (rewrite len_app, len_take by exact E5; reflexivity).
  destruct (last_flag <=? _).
  - cbn [o_trace snd]. rewrite !tsum_app, tsum_rd, tsum_al, La, T4. change (tsum []) with 0. lia.
  - specialize (IH (acc ++ take flen (drop 4 s)) (drop flen (drop 4 s)) ltac:(lia)).
    destruct (rr fuel emax _ _) as [[r s2] t2]. cbn [o_trace snd] in *.
    rewrite !tsum_app, tsum_rd, T4. rewrite La, !len_drop in IH. lia.
Qed.
Lemma read_record_alloc_total mx s : tsum (o_trace (read_record mx s)) <= 2 * eff_max mx + len s + 4.
Proof.
  unfold read_record. pose proof (rr_alloc_total (eff_max mx) (S (length s)) [] s) as H.
  change (len []) with 0 in H. specialize (H ltac:(lia)). lia.
Qed.

(* ------------------------------------------------------------------------------------------------ *)
(* 5. well-formed pipelined calls, every fragmentation                                                *)
(* ------------------------------------------------------------------------------------------------ *)

(* (header, argument bytes, the way the client fragments the record) *)
Definition item := (call * bytes * list bytes)%type.
Definition item_ok (it : item) : Prop :=
  call_ok (fst (fst it)) /\ snd it <> [] /\ concat (snd it) = enc_call (fst (fst it)) ++ snd (fst it) /\
  len (enc_call (fst (fst it)) ++ snd (fst it)) <= record_limit.
Definition wire_in (items : list item) : bytes := concat (map (fun it => enc_frags (snd it)) items).

Lemma decodes_valid items tail cs r :
  Forall item_ok items -> decodes tail cs r -> decodes (wire_in items ++ tail) (map fst items ++ cs) r.
Proof.
  intros Hok Ht. induction Hok as [|[[c body] frs] items (Hc & Hne & Hcat & Hlen) _ IH]; [exact Ht|].
  cbn [fst snd] in *. unfold wire_in in *. cbn [map concat fst snd]. rewrite <- app_assoc.
  pose proof (fragments_small_lemma conn_max (enc_call c ++ body) frs
                (concat (map (fun it : item => enc_frags (snd it)) items) ++ tail)) as F.
  specialize (F ltac:(vm_compute; reflexivity) Hne Hcat Hlen).
  unfold dec_ok, o_res, o_rest in F.
  destruct (read_record conn_max _) as [[[data|e] s1] t] eqn:Er; cbn [fst snd] in F; [|discriminate].
  injection F as -> ->.
  destruct (call_roundtrip_lemma c body Hc) as [Hd _].
  eapply Dec_call; [exact Er|exact Hd|exact IH].
Qed.

Lemma valid_stream_lemma {St} (d : dispatcher St) st items :
  Forall item_ok items ->
  (forall st c body, snd (d st c body) <> None) ->
  exists reps,
    events (serve_conn d st (wire_in items)) = reply_events reps ++ [Closed CEof] /\
    map fst reps = map (fun it => c_xid (fst (fst it))) items.
Proof.
  intros Hok Htot. pose proof (decodes_valid items [] [] CEof Hok Dec_eof) as Hd.
  rewrite !app_nil_r in Hd. exists (fst (answer d st (map fst items))). split.
  - rewrite (order_lemma d _ _ _ Hd), (answer_total d Htot). reflexivity.
  - rewrite answer_xids. destruct (answer_length d (map fst items) st) as [_ HL].
    rewrite (HL (answer_total d Htot _ _)), firstn_all, map_map. reflexivity.
Qed.

(* the reply stream can be read back record by record: whatever the payloads, the client's record reader
   (any limit mx that admits them) returns exactly the reply payloads, in order *)
Lemma wire_readback mx mf : forall (l : list bytes) rest,
  Forall (fun b => len b <= eff_max mx) l ->
  dec_ok (read_records mx (length l) (concat (map (write_record mf) l) ++ rest)) = Some (l, rest).
Proof.
  induction l as [|b l IH]; intros rest Hl; [reflexivity|].
  inversion Hl as [|? ? Hb Hl']; subst. cbn [length read_records map concat]. rewrite <- app_assoc.
  pose proof (write_read_lemma mx mf b (concat (map (write_record mf) l) ++ rest) Hb) as W.
  specialize (IH rest Hl').
  unfold dec_ok, o_res, o_rest, bind in *.
  destruct (read_record mx _) as [[[data|e] s1] t]; cbn [fst snd] in W; [|discriminate].
  injection W as -> ->.
  destruct (read_records mx (length l) _) as [[[rs|e] s2] t2]; cbn [fst snd] in IH; [|discriminate].
  injection IH as -> ->. reflexivity.
Qed.
Lemma wire_out_readback {St} (d : dispatcher St) st s mx :
  let evs := events (serve_conn d st s) in
  Forall (fun xb => len (snd xb) <= eff_max mx) (replies evs) ->
  dec_ok (read_records mx (length (replies evs)) (wire_out evs)) = Some (map snd (replies evs), []).
Proof.
  intros evs Hl. unfold wire_out.
  pose proof (wire_readback mx conn_frag (map snd (replies evs)) []) as W.
  rewrite map_length, map_map, app_nil_r in W. apply W.
  apply Forall_map. exact Hl.
Qed.

(* ------------------------------------------------------------------------------------------------ *)
(* theorem-shaped corollaries (cited by Properties/C15.v)                                             *)
(* ------------------------------------------------------------------------------------------------ *)
Lemma C15_order_lemma : forall St (d : dispatcher St) st s cs r, decodes s cs r ->
  let reps := fst (answer d st cs) in
  let ok := snd (answer d st cs) in
  events (serve_conn d st s) = reply_events reps ++ [Closed (if ok then r else CHandler)] /\
  (length reps <= length cs)%nat /\
  (ok = true -> length reps = length cs) /\
  map fst reps = map (fun cb => c_xid (fst cb)) (firstn (length reps) cs) /\
  (echoes_xid d -> Forall (fun xb => take 4 (snd xb) = enc_u32 (fst xb)) reps) /\
  ((forall st c body, snd (d st c body) <> None) -> ok = true).
Proof.
  intros St d st s cs r Hd reps ok. split; [apply order_lemma; exact Hd|].
  destruct (answer_length d cs st) as [L1 L2]. split; [exact L1|]. split; [exact L2|].
  split; [apply answer_xids|]. split; [intros He; apply answer_echo; exact He|].
  intros Ht. apply answer_total. exact Ht.
Qed.

Lemma C15_prefix_spec_lemma : forall s,
  (exists cs r, decodes s cs r) /\
  (forall cs r cs' r', decodes s cs r -> decodes s cs' r' -> cs = cs' /\ r = r') /\
  (forall cs r, decodes s cs r <-> split_calls s = (cs, r)).
Proof.
  intros s. split; [apply decodes_total|]. split.
  - intros cs r cs' r' H1 H2. eapply decodes_fun; eauto.
  - intros cs r. apply split_calls_spec.
Qed.

Lemma C15_close_lemma : forall St (d : dispatcher St) st s,
  (exists reps r,
     events (serve_conn d st s) = reply_events reps ++ [Closed r] /\
     (r = CEof \/ r = CRead EShort \/ r = CRead ELimit \/ (exists e, r = CDecode e) \/ r = CHandler)) /\
  (forall r, close_reason_of (events (serve_conn d st s)) = Some r -> close_waits r = false ->
     forall s2, events (serve_conn d st (s ++ s2)) = events (serve_conn d st s)).
Proof.
  intros St d st s. split; [|intros r; apply close_lemma].
  destruct (decodes_total s) as (cs & r & Hd). eexists. eexists. split; [apply (order_lemma d _ _ _ Hd)|].
  destruct (snd (answer d st cs)); [|tauto].
  destruct (decodes_reason _ _ _ Hd) as [H|[H|[H|H]]]; tauto.
Qed.

Lemma C15_alloc_lemma : forall St (d : dispatcher St) st s,
  Forall (fun t => msg_trace_ok t /\ tr_le record_limit t) (traces (serve_conn d st s)).
Proof.
  intros. eapply Forall_impl; [|apply alloc_lemma]. intros t H. split; [exact H|apply msg_trace_ok_le; exact H].
Qed.
