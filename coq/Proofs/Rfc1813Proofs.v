(* Proofs/Rfc1813Proofs.v — the RFC 1813 / RFC 1831 grammar of Model/Rfc1813.v: every encoder output parses back,
   consuming exactly the encoding (so nothing may follow it), for all values; p_u32 / p_u64 agree with the codec group's
   decoders of Model/Xdr.v. *)
From Coq Require Import List NArith ZArith Bool Lia.
From Verif Require Import Model.Bytes Model.Xdr Model.Rpc Proofs.BytesProofs Proofs.XdrProofs Model.Rfc1813.
Import ListNotations.
Open Scope N_scope.

(* ---------------- monad ---------------- *)
Lemma pbind_ok {A B} (p : P A) (f : A -> P B) s v r : p s = Some (v, r) -> pbind p f s = f v r.
Proof. intros H. unfold pbind. rewrite H. reflexivity. Qed.
Lemma pret_eq {A} (a : A) s : pret a s = Some (a, s). Proof. reflexivity. Qed.

(* ---------------- integers ---------------- *)
Lemma p_u32_be l r : length l = 4%nat -> p_u32 (l ++ r) = Some (be_dec l, r).
Proof.
  destruct l as [|a [|b [|c [|d [|e l]]]]]; try discriminate. intros _.
  cbn [app p_u32]. f_equal. f_equal. unfold be_dec. cbn [rev app le_dec]. lia.
Qed.
Lemma p_u64_be l r : length l = 8%nat -> p_u64 (l ++ r) = Some (be_dec l, r).
Proof.
  destruct l as [|a [|b [|c [|d [|e [|f [|g [|h [|i l]]]]]]]]]; try discriminate. intros _.
  cbn [app p_u64]. f_equal. f_equal. unfold be_dec. cbn [rev app le_dec]. lia.
Qed.
Lemma p_u32_enc v r : p_u32 (e_u32 v ++ r) = Some (n32 v, r).
Proof.
  unfold e_u32, enc_u32. rewrite p_u32_be by apply be_enc_length. rewrite be_dec_enc_mod. reflexivity.
Qed.
Lemma p_u64_enc v r : p_u64 (e_u64 v ++ r) = Some (n64 v, r).
Proof.
  unfold e_u64, enc_u64. rewrite p_u64_be by apply be_enc_length. rewrite be_dec_enc_mod. reflexivity.
Qed.
(* agreement with the codec model's stream decoders *)
Lemma p_u32_dec s : p_u32 s = dec_ok (dec_u32 s).
Proof.
  destruct s as [|a [|b [|c [|d r]]]]; try reflexivity.
  rewrite dec_u32_ok by (rewrite !len_cons; lia).
  unfold dec_ok, o_res, o_rest. cbn [fst snd].
  change (take 4 (a :: b :: c :: d :: r)) with [a; b; c; d].
  change (drop 4 (a :: b :: c :: d :: r)) with r.
  cbn [p_u32]. f_equal. f_equal. unfold be_dec. cbn [rev app le_dec]. lia.
Qed.

Lemma n32_small v : v < two32 -> n32 v = v. Proof. intros H. unfold n32. apply N.mod_small. exact H. Qed.
Lemma n64_small v : v < two64 -> n64 v = v. Proof. intros H. unfold n64. apply N.mod_small. exact H. Qed.
Lemma n32_lt v : n32 v < two32. Proof. unfold n32, two32. apply N.mod_lt. discriminate. Qed.

Lemma p_bool_enc b r : p_bool (e_bool b ++ r) = Some (b, r).
Proof.
  unfold p_bool, e_bool. erewrite pbind_ok by apply p_u32_enc. destruct b; reflexivity.
Qed.

(* ---------------- fixed and variable opaque ---------------- *)
Lemma split_n_0 s : split_n 0 s = Some ([], s). Proof. destruct s; reflexivity. Qed.
Lemma split_n_cons k b s : k <> 0 ->
  split_n k (b :: s) = match split_n (N.pred k) s with Some (x, y) => Some (b :: x, y) | None => None end.
Proof. intros H. cbn [split_n]. apply N.eqb_neq in H. rewrite H. reflexivity. Qed.
Lemma split_n_app a r : split_n (len a) (a ++ r) = Some (a, r).
Proof.
  induction a as [|b a IH]; [apply split_n_0|].
  cbn [app]. rewrite split_n_cons by (rewrite len_cons; lia).
  replace (N.pred (len (b :: a))) with (len a) by (rewrite len_cons; lia). rewrite IH. reflexivity.
Qed.
Lemma p_fixed_enc k a r : len a = k -> p_fixed k (a ++ r) = Some (a, r).
Proof. intros <-. apply split_n_app. Qed.
Lemma all_zero_zeros k : all_zero (zeros k) = true.
Proof. unfold all_zero, zeros. induction (N.to_nat k); cbn; auto. Qed.
Lemma p_opaque_enc max b r : len b <= max -> len b < two32 -> p_opaque max (e_opaque b ++ r) = Some (b, r).
Proof.
  intros Hm H32. unfold p_opaque, e_opaque, enc_opaque. rewrite <- !app_assoc.
  erewrite pbind_ok by apply p_u32_enc. rewrite (n32_small _ H32).
  replace (max <? len b) with false by (symmetry; apply N.ltb_ge; exact Hm).
  erewrite pbind_ok by (apply p_fixed_enc; reflexivity).
  erewrite pbind_ok by (apply p_fixed_enc; apply len_zeros).
  rewrite all_zero_zeros. reflexivity.
Qed.

(* ---------------- options, chains, arrays ---------------- *)
Lemma p_opt_enc {A B} (p : P B) (e : A -> bytes) (nrm : A -> B) (ok : A -> bool) :
  (forall a r, ok a = true -> p (e a ++ r) = Some (nrm a, r)) ->
  forall o r, opt_ok ok o = true -> p_opt p (e_opt e o ++ r) = Some (option_map nrm o, r).
Proof.
  intros H o r Ho. unfold p_opt, e_opt. destruct o as [a|]; cbn [opt_ok option_map] in *.
  - rewrite <- app_assoc. erewrite pbind_ok by apply p_bool_enc. cbv beta iota.
    erewrite pbind_ok by (apply H; exact Ho). reflexivity.
  - erewrite pbind_ok by apply p_bool_enc. reflexivity.
Qed.
Lemma p_chain_enc {A B} (p : P B) (e : A -> bytes) (nrm : A -> B) (ok : A -> bool) :
  (forall a r, ok a = true -> p (e a ++ r) = Some (nrm a, r)) ->
  forall l fuel r, forallb ok l = true -> (length l < fuel)%nat ->
  p_chain fuel p (e_chain e l ++ r) = Some (map nrm l, r).
Proof.
  intros H l. induction l as [|a l IH]; intros fuel r Hok Hf.
  - destruct fuel as [|k]; [inversion Hf|]. cbn [p_chain e_chain map].
    erewrite pbind_ok by apply p_bool_enc. reflexivity.
  - destruct fuel as [|k]; [inversion Hf|]. cbn [p_chain e_chain map]. cbn [forallb] in Hok.
    apply andb_prop in Hok as [Ha Hl]. rewrite <- !app_assoc.
    erewrite pbind_ok by apply p_bool_enc. cbv beta iota.
    erewrite pbind_ok by (apply H; exact Ha).
    erewrite pbind_ok by (apply IH; [exact Hl|cbn [length] in Hf; lia]). reflexivity.
Qed.
Lemma p_count_u32_enc l r : p_count (length l) p_u32 (concat (map e_u32 l) ++ r) = Some (map n32 l, r).
Proof.
  induction l as [|a l IH]; [reflexivity|]. cbn [length p_count map concat]. rewrite <- app_assoc.
  erewrite pbind_ok by apply p_u32_enc. erewrite pbind_ok by apply IH. reflexivity.
Qed.
Lemma e_bool_length b : length (e_bool b) = 4%nat. Proof. apply be_enc_length. Qed.
Lemma e_chain_length {A} (e : A -> bytes) l : (length l < length (e_chain e l))%nat.
Proof.
  induction l as [|a l IH]; cbn [e_chain length].
  - rewrite e_bool_length. lia.
  - rewrite !app_length, e_bool_length. lia.
Qed.

(* ---------------- RFC 1813 basic types ---------------- *)
Lemma p_time_enc t r : p_time (e_time t ++ r) = Some (norm_time t, r).
Proof.
  unfold p_time, e_time. rewrite <- app_assoc.
  erewrite pbind_ok by apply p_u32_enc. erewrite pbind_ok by apply p_u32_enc. reflexivity.
Qed.
Lemma ftype3_ok_n32 t : ftype3_ok t = true -> n32 t = t.
Proof.
  unfold ftype3_ok. intros H. apply andb_prop in H as [_ H]. apply N.leb_le in H. apply n32_small. unfold two32. lia.
Qed.
Ltac u32 := erewrite pbind_ok by apply p_u32_enc.
Ltac u64 := erewrite pbind_ok by apply p_u64_enc.
Ltac tm := erewrite pbind_ok by apply p_time_enc.
Lemma p_fattr3_enc a r : attr_ok a = true -> p_fattr3 (e_fattr3 a ++ r) = Some (norm_fattr a, r).
Proof.
  intros H. unfold attr_ok in H. unfold p_fattr3, e_fattr3. rewrite <- !app_assoc.
  u32. rewrite (ftype3_ok_n32 _ H), H. cbv beta iota. cbn [negb].
  u32. u32. u32. u32. u64. u64. u32. u32. u64. u64. tm. tm. tm.
  unfold norm_fattr. rewrite (ftype3_ok_n32 _ H). reflexivity.
Qed.
Lemma p_wcc_attr_enc w r : p_wcc_attr (e_wcc_attr w ++ r) = Some (norm_wcc w, r).
Proof. unfold p_wcc_attr, e_wcc_attr. rewrite <- !app_assoc. u64. tm. tm. reflexivity. Qed.
Lemma p_post_op_attr_enc o r : opt_ok attr_ok o = true ->
  p_post_op_attr (e_post_op_attr o ++ r) = Some (option_map norm_fattr o, r).
Proof. apply (p_opt_enc p_fattr3 e_fattr3 norm_fattr attr_ok). intros; apply p_fattr3_enc; assumption. Qed.
Lemma p_pre_op_attr_enc o r : p_pre_op_attr (e_pre_op_attr o ++ r) = Some (option_map norm_wcc o, r).
Proof.
  apply (p_opt_enc p_wcc_attr e_wcc_attr norm_wcc (fun _ => true)); [intros; apply p_wcc_attr_enc|].
  destruct o; reflexivity.
Qed.
Lemma p_wcc_data_enc pre post r : opt_ok attr_ok post = true ->
  p_wcc_data (e_wcc_data pre post ++ r) = Some ((option_map norm_wcc pre, option_map norm_fattr post), r).
Proof.
  intros H. unfold p_wcc_data, e_wcc_data. rewrite <- app_assoc.
  erewrite pbind_ok by apply p_pre_op_attr_enc. erewrite pbind_ok by (apply p_post_op_attr_enc; exact H). reflexivity.
Qed.
Lemma fh_ok_bounds h : fh_ok h = true -> len h <= NFS3_FHSIZE /\ len h < two32.
Proof. unfold fh_ok, NFS3_FHSIZE, two32. intros H. apply N.leb_le in H. lia. Qed.
Lemma p_fh3_enc h r : fh_ok h = true -> p_fh3 (e_opaque h ++ r) = Some (h, r).
Proof. intros H. destruct (fh_ok_bounds h H). apply p_opaque_enc; assumption. Qed.
Lemma p_post_op_fh3_enc o r : opt_ok fh_ok o = true -> p_post_op_fh3 (e_post_op_fh3 o ++ r) = Some (o, r).
Proof.
  intros H. unfold p_post_op_fh3, e_post_op_fh3.
  rewrite (p_opt_enc p_fh3 e_opaque (fun h => h) fh_ok) by (auto using p_fh3_enc). destruct o; reflexivity.
Qed.
Lemma p_name_enc b r : len b <= U32MAX -> p_name (e_opaque b ++ r) = Some (b, r).
Proof. intros H. apply p_opaque_enc; [exact H|unfold U32MAX, two32 in *; lia]. Qed.
Definition name_ok (e : wentry) : bool := len (we_name e) <=? U32MAX.
Lemma p_entry3_enc e r : ent_plain e && name_ok e = true -> p_entry3 (e_entry3 e ++ r) = Some (norm_entry e, r).
Proof.
  intros H. apply andb_prop in H as [Hp Hn]. apply N.leb_le in Hn.
  unfold p_entry3, e_entry3. rewrite <- !app_assoc. u64.
  erewrite pbind_ok by (apply p_name_enc; exact Hn). u64.
  unfold ent_plain in Hp. unfold norm_entry. destruct (we_attr e); [discriminate|]. destruct (we_fh e); [discriminate|]. reflexivity.
Qed.
Lemma p_entryplus3_enc e r : ent_plus e && name_ok e = true -> p_entryplus3 (e_entryplus3 e ++ r) = Some (norm_entry e, r).
Proof.
  intros H. apply andb_prop in H as [Hp Hn]. apply N.leb_le in Hn. apply andb_prop in Hp as [Ha Hf].
  unfold p_entryplus3, e_entryplus3, e_entry3. rewrite <- !app_assoc. u64.
  erewrite pbind_ok by (apply p_name_enc; exact Hn). u64.
  erewrite pbind_ok by (apply p_post_op_attr_enc; exact Ha).
  erewrite pbind_ok by (apply p_post_op_fh3_enc; exact Hf). reflexivity.
Qed.

(* ---------------- results by procedure ---------------- *)
Lemma pf_check_inv pf t : pf_check pf t = true ->
  Nat.eqb (length (rt_attrs t)) (pf_attrs pf) = true /\ forallb (opt_ok attr_ok) (rt_attrs t) = true /\
  Nat.eqb (length (rt_wcc t)) (pf_wcc pf) = true /\
  (match pf_fh pf, rt_fh t with
   | FhNone, None => true | FhReq, Some h => fh_ok h | FhOpt, None => true | FhOpt, Some h => fh_ok h | _, _ => false end) = true /\
  (match pf_nums pf with Some k => Nat.eqb (length (rt_nums t)) k | None => true end) = true /\
  (pf_data pf || isnil (rt_data t)) = true /\
  (if pf_verf pf then len (rt_verf t) =? 8 else isnil (rt_verf t)) = true /\
  (match pf_ents pf with EntNone => isnil (rt_entries t) | EntPlain => forallb ent_plain (rt_entries t)
                       | EntPlus => forallb ent_plus (rt_entries t) end) = true /\
  (pf_eof pf || negb (rt_eof t)) = true /\ (pf_list pf || isnil (rt_list t)) = true.
Proof.
  unfold pf_check. intros H. repeat (apply andb_prop in H; destruct H as [H ?]). repeat split; assumption.
Qed.

Ltac pfc := cbn [pf_attrs pf_wcc pf_fh pf_nums pf_data pf_verf pf_ents pf_eof pf_list pf_ok pf_fail pf_plain pf_void fail_shape
                 rt_status rt_attrs rt_wcc rt_fh rt_nums rt_data rt_verf rt_entries rt_eof rt_list orb negb] in *.
Ltac lists :=
  repeat match goal with
  | H : true = true |- _ => clear H
  | H : false = true |- _ => discriminate H
  | H : Nat.eqb (length ?l) _ = true |- _ => is_var l; destruct l; cbn [length Nat.eqb] in H
  | H : Nat.eqb (length []) _ = true |- _ => cbn [length Nat.eqb] in H
  | H : isnil ?l = true |- _ => is_var l; destruct l; cbn [isnil] in H
  | H : negb ?b = true |- _ => is_var b; destruct b; cbn [negb] in H
  | H : forallb _ (_ :: _) = true |- _ => cbn [forallb] in H
  | H : _ && _ = true |- _ => apply andb_prop in H; destruct H
  | H : match ?x with _ => _ end = true |- _ => is_var x; destruct x
  | H : forallb _ [] = true |- _ => clear H
  end.

Lemma n32_0 : n32 0 = 0. Proof. reflexivity. Qed.

Ltac pstep :=
  lazymatch goal with
  | |- pbind p_u32 _ _ = _ => erewrite pbind_ok by apply p_u32_enc
  | |- pbind p_u64 _ _ = _ => erewrite pbind_ok by apply p_u64_enc
  | |- pbind p_bool _ (e_bool _ ++ _) = _ => erewrite pbind_ok by apply p_bool_enc
  | |- pbind p_time _ (e_time _ ++ _) = _ => erewrite pbind_ok by apply p_time_enc
  | |- pbind p_post_op_attr _ _ = _ => erewrite pbind_ok by (apply p_post_op_attr_enc; assumption)
  | |- pbind p_wcc_data _ _ = _ => erewrite pbind_ok by (apply p_wcc_data_enc; assumption)
  | |- pbind p_fh3 _ _ = _ => erewrite pbind_ok by (apply p_fh3_enc; assumption)
  | |- pbind (p_opaque NFS3_FHSIZE) _ _ = _ => erewrite pbind_ok by (apply p_fh3_enc; assumption)
  | |- pbind p_post_op_fh3 _ _ = _ => erewrite pbind_ok by (apply p_post_op_fh3_enc; assumption)
  | |- pbind p_fattr3 _ _ = _ => erewrite pbind_ok by (apply p_fattr3_enc; assumption)
  | |- pbind (p_fixed _) _ _ = _ => erewrite pbind_ok by (apply p_fixed_enc; apply N.eqb_eq; assumption)
  end; cbv beta iota.

Lemma p_fail_enc f t st rest : pf_check (pf_fail f) t = true ->
  p_fail f st (e_fail f t ++ rest) =
  Some (mkRT (Some st) (map (option_map norm_fattr) (rt_attrs t)) (map (option_map norm_wcc) (rt_wcc t)) None [] [] [] [] false [], rest).
Proof.
  intros H. apply pf_check_inv in H. destruct H as (A1 & A2 & A3 & A4 & A5 & A6 & A7 & A8 & A9 & A10).
  destruct t as [st0 attrs wcc fh nums data verf ents eof lst].
  destruct f; pfc; lists; cbn [p_fail e_fail nth_attr nth_wcc nth rt_attrs rt_wcc map e_wcc_data];
  unfold rt_st; rewrite <- ?app_assoc; repeat pstep; try reflexivity.

Qed.

Definition fuel_ok (fuel : nat) (t : result_tree) : Prop :=
  (length (rt_entries t) < fuel)%nat /\ (length (rt_list t) < fuel)%nat /\
  forallb (fun e => Nat.ltb (length (snd e)) fuel) (rt_list t) = true.

Lemma p_results_status extra fuel p : has_status p = true ->
  p_results extra fuel p = (st <- p_u32 ;; if st =? 0 then p_ok fuel p
                            else if stat_member p st || extra st then p_fail (fail_shape p) st else pfail).
Proof. destruct p; intros H; try discriminate H; reflexivity. Qed.
Lemma enc_tree_status p t : has_status p = true ->
  enc_tree p t = e_u32 (st_of t) ++ (if st_of t =? 0 then e_ok p t else e_fail (fail_shape p) t).
Proof. destruct p; intros H; try discriminate H; reflexivity. Qed.


Lemma p_time_enc2 a b r : p_time (e_u32 a ++ e_u32 b ++ r) = Some ((n32 a, n32 b), r).
Proof. apply (p_time_enc (a, b) r). Qed.
Lemma le1_cases n : (n <=? 1) = true -> n = 0 \/ n = 1.
Proof. intros H. apply N.leb_le in H. lia. Qed.
Lemma p_bool_num n r : (n <=? 1) = true -> p_bool (e_u32 n ++ r) = Some (n =? 1, r).
Proof. intros H. destruct (le1_cases n H); subst; [apply (p_bool_enc false)|apply (p_bool_enc true)]. Qed.
Lemma bool_num n : (n <=? 1) = true -> (if n =? 1 then 1 else 0) = n32 n.
Proof. intros H. destruct (le1_cases n H); subst; reflexivity. Qed.
Lemma stable_how_n32 n : stable_how_ok n = true -> n32 n = n.
Proof. unfold stable_how_ok. intros H. apply N.leb_le in H. apply n32_small. unfold two32. lia. Qed.
Lemma forallb_and {A} (f g : A -> bool) l : forallb f l = true -> forallb g l = true -> forallb (fun x => f x && g x) l = true.
Proof. induction l; cbn; intros H1 H2; [reflexivity|]. apply andb_prop in H1 as [? ?]. apply andb_prop in H2 as [? ?]. rewrite H, H1. cbn. auto. Qed.
Lemma u32max_two32 n : (n <=? U32MAX) = true -> n < two32.
Proof. unfold U32MAX, two32. intros H. apply N.leb_le in H. lia. Qed.
Definition mark (p : rproc) : Prop := True.

Ltac pstep2 :=
  lazymatch goal with
  | |- pbind p_time _ (e_u32 _ ++ _) = _ => erewrite pbind_ok by apply p_time_enc2; cbv beta iota
  | |- pbind p_name _ _ = _ => erewrite pbind_ok by (apply p_name_enc; apply N.leb_le; assumption); cbv beta iota
  | |- pbind (p_opaque U32MAX) _ _ = _ =>
      erewrite pbind_ok by (apply p_opaque_enc; [apply N.leb_le; assumption|apply u32max_two32; assumption]); cbv beta iota
  | |- pbind p_bool _ (e_u32 _ ++ _) = _ => erewrite pbind_ok by (apply p_bool_num; assumption); cbv beta iota
  | |- pbind (p_chain _ p_entry3) _ _ = _ =>
      erewrite pbind_ok by (apply (p_chain_enc p_entry3 e_entry3 norm_entry (fun e => ent_plain e && name_ok e));
                            [intros; apply p_entry3_enc; assumption | apply forallb_and; assumption | assumption]); cbv beta iota
  | |- pbind (p_chain _ p_entryplus3) _ _ = _ =>
      erewrite pbind_ok by (apply (p_chain_enc p_entryplus3 e_entryplus3 norm_entry (fun e => ent_plus e && name_ok e));
                            [intros; apply p_entryplus3_enc; assumption | apply forallb_and; assumption | assumption]); cbv beta iota
  | |- _ => pstep
  end.

Lemma len_concat_u32 l : len (concat (map e_u32 l)) = 4 * len l.
Proof.
  induction l as [|a l IH]; [reflexivity|]. cbn [map concat]. rewrite len_app, IH, len_cons.
  unfold e_u32. rewrite enc_u32_len. lia.
Qed.
Lemma p_u32_array_enc l r : len l < 1073741824 -> p_u32_array (e_u32_array l ++ r) = Some (map n32 l, r).
Proof.
  intros H. unfold p_u32_array, e_u32_array. rewrite <- app_assoc. erewrite pbind_ok by apply p_u32_enc.
  rewrite n32_small by (unfold two32; lia).
  replace (4 * len l <=? len (concat (map e_u32 l) ++ r)) with true
    by (symmetry; apply N.leb_le; rewrite len_app, len_concat_u32; lia).
  unfold len. rewrite Nnat.Nat2N.id. apply p_count_u32_enc.
Qed.

Lemma p_ok_enc p t fuel rest :
  has_status p = true -> rt_status t = Some 0 -> pf_check (pf_ok p) t = true -> ok_extra p t = true -> tree_sizes t = true ->
  (length (rt_entries t) < fuel)%nat ->
  p_ok fuel p (e_ok p t ++ rest) = Some (norm_tree p t, rest).
Proof.
  intros Hs Hst H Hx Hz Hf. apply pf_check_inv in H. destruct H as (A1 & A2 & A3 & A4 & A5 & A6 & A7 & A8 & A9 & A10).
  destruct t as [st0 attrs wcc fh nums data verf ents eof lst]. cbn [rt_status] in Hst. subst st0.
  unfold tree_sizes in Hz. cbn [rt_data rt_entries rt_nums] in Hz. apply andb_prop in Hz as [Hz Hz3]. apply andb_prop in Hz as [Hz1 Hz2].
  change (fun e : wentry => len (we_name e) <=? U32MAX) with name_ok in Hz2. apply N.ltb_lt in Hz3.
  assert (M : mark p) by exact I.
  destruct p; try discriminate Hs; pfc; lists;
  cbn [ok_extra nth_attr nth_num nth rt_attrs rt_nums rt_data rt_fh] in Hx; lists;
  cbn [p_ok p_fail e_ok e_fail e_fh nth_attr nth_wcc nth_num nth rt_attrs rt_wcc rt_nums rt_fh rt_data rt_verf rt_eof rt_entries map e_wcc_data];
  unfold norm_tree, rt_st; cbn [rt_status rt_attrs rt_wcc rt_fh rt_nums rt_data rt_verf rt_entries rt_eof rt_list map option_map norm_nums];
  rewrite <- ?app_assoc.
  all: try match goal with M : mark NfsRead |- _ => apply N.eqb_eq in Hx; subst end.
  all: try match goal with M : mark Mnt1Mnt |- _ => apply N.eqb_eq in Hx end.
  all: repeat pstep2.
  all: try match goal with M : mark NfsRead |- _ => rewrite (n32_small _ (u32max_two32 _ Hz1)), N.eqb_refl end.
  all: try match goal with M : mark NfsWrite |- _ => rewrite (stable_how_n32 _ Hx), Hx; cbn [negb]; repeat pstep2 end.
  all: try match goal with M : mark NfsPathconf |- _ => rewrite !bool_num by assumption end.
  all: try match goal with M : mark MntMnt |- _ => erewrite pbind_ok by (apply p_u32_array_enc; assumption) end.
  all: try match goal with M : mark Mnt1Mnt |- _ => erewrite pbind_ok by (apply p_fixed_enc; assumption) end.
  all: try reflexivity.
Qed.

(* ---------------- MOUNT lists ---------------- *)
Lemma p_dump_entry_enc e r : list_ok MntDump e = true -> p_dump_entry (e_dump_entry e ++ r) = Some (e, r).
Proof.
  destruct e as [h ds]. unfold list_ok. cbn [fst snd]. intros H. apply andb_prop in H as [H1 H2].
  destruct ds as [|d [|d2 ds]]; try discriminate H2. apply N.leb_le in H1, H2.
  unfold p_dump_entry, e_dump_entry. cbn [fst snd hd]. rewrite <- app_assoc.
  erewrite pbind_ok by (apply p_opaque_enc; [exact H1|unfold MNTNAMLEN, two32 in *; lia]).
  erewrite pbind_ok by (apply p_opaque_enc; [exact H2|unfold MNTPATHLEN, two32 in *; lia]). reflexivity.
Qed.
Lemma map_id_fun {A} (l : list A) : map (fun x => x) l = l. Proof. apply map_id. Qed.
Lemma p_export_entry_enc fuel e r : list_ok MntExport e && Nat.ltb (length (snd e)) fuel = true ->
  p_export_entry fuel (e_export_entry e ++ r) = Some (e, r).
Proof.
  destruct e as [d gs]. unfold list_ok. cbn [fst snd]. intros H. apply andb_prop in H as [H Hf]. apply andb_prop in H as [H1 H2].
  apply N.leb_le in H1. apply Nat.ltb_lt in Hf.
  unfold p_export_entry, e_export_entry. cbn [fst snd]. rewrite <- app_assoc.
  erewrite pbind_ok by (apply p_opaque_enc; [exact H1|unfold MNTPATHLEN, two32 in *; lia]).
  erewrite pbind_ok by (apply (p_chain_enc (p_opaque MNTNAMLEN) e_opaque (fun x => x) (fun g => len g <=? MNTNAMLEN));
    [intros a r0 Ha; apply N.leb_le in Ha; apply p_opaque_enc; [exact Ha|unfold MNTNAMLEN, two32 in *; lia]|exact H2|exact Hf]).
  rewrite map_id_fun. reflexivity.
Qed.

(* ---------------- every result: enc_tree parses back to norm_tree, consuming exactly the encoding ---------------- *)
Theorem p_results_enc extra p t fuel rest :
  tree_form_x extra p t = true -> tree_sizes t = true -> fuel_ok fuel t ->
  p_results extra fuel p (enc_tree p t ++ rest) = Some (norm_tree p t, rest).
Proof.
  intros Hform Hz (Fe & Fl & Fg). unfold tree_form_x in Hform. destruct (rt_status t) as [st|] eqn:Est.
  - apply andb_prop in Hform as [Hform Hbody]. apply andb_prop in Hform as [Hs H32]. apply N.ltb_lt in H32.
    rewrite (p_results_status extra fuel p Hs), (enc_tree_status p t Hs). unfold st_of. rewrite Est.
    rewrite <- app_assoc. erewrite pbind_ok by apply p_u32_enc. rewrite (n32_small _ H32).
    destruct (st =? 0) eqn:E0.
    + apply N.eqb_eq in E0. subst st. apply andb_prop in Hbody as [Hpf Hx]. apply p_ok_enc; assumption.
    + apply andb_prop in Hbody as [Hmem Hpf]. rewrite Hmem. rewrite (p_fail_enc _ _ _ _ Hpf).
      apply pf_check_inv in Hpf. destruct Hpf as (A1 & A2 & A3 & A4 & A5 & A6 & A7 & A8 & A9 & A10).
      destruct t as [st0 attrs wcc fh nums data verf ents eof lst]. cbn [rt_status] in Est. subst st0.
      destruct (fail_shape p); pfc; lists; unfold norm_tree; cbn [rt_status rt_attrs rt_wcc rt_fh rt_nums rt_data rt_verf rt_entries rt_eof rt_list
        map option_map]; rewrite (n32_small _ H32); destruct p; reflexivity.
  - apply andb_prop in Hform as [Hform Hl]. apply andb_prop in Hform as [Hs Hpf]. apply negb_true_iff in Hs.
    apply pf_check_inv in Hpf. destruct Hpf as (A1 & A2 & A3 & A4 & A5 & A6 & A7 & A8 & A9 & A10).
    destruct t as [st0 attrs wcc fh nums data verf ents eof lst]. cbn [rt_status] in Est. subst st0.
    cbn [rt_list rt_entries] in *.
    destruct p; try discriminate Hs; pfc; lists; cbn [p_results enc_tree rt_list]; unfold norm_tree, rt_void;
    cbn [rt_status rt_attrs rt_wcc rt_fh rt_nums rt_data rt_verf rt_entries rt_eof rt_list map option_map norm_nums]; try reflexivity.
    + erewrite pbind_ok by (apply (p_chain_enc p_dump_entry e_dump_entry (fun x => x) (list_ok MntDump));
        [intros; apply p_dump_entry_enc; assumption|exact Hl|exact Fl]).
      rewrite map_id_fun. reflexivity.
    + erewrite pbind_ok by (apply (p_chain_enc (p_export_entry fuel) e_export_entry (fun x => x)
                                    (fun e => list_ok MntExport e && Nat.ltb (length (snd e)) fuel));
        [intros; apply p_export_entry_enc; assumption|apply forallb_and; assumption|exact Fl]).
      rewrite map_id_fun. reflexivity.
Qed.

(* ---------------- fuel: the input length always suffices ---------------- *)
Lemma e_chain_elem_length {A} (e : A -> bytes) l a : In a l -> (length (e a) <= length (e_chain e l))%nat.
Proof.
  induction l as [|b l IH]; intros H; [destruct H|]. cbn [e_chain]. rewrite !app_length.
  destruct H as [<-|H]; [lia|]. specialize (IH H). lia.
Qed.
Lemma fuel_ok_mono f1 f2 t : (f1 <= f2)%nat -> fuel_ok f1 t -> fuel_ok f2 t.
Proof.
  intros Hle (A & B & C). repeat split; try lia.
  rewrite forallb_forall in *. intros e He. specialize (C e He). apply Nat.ltb_lt in C. apply Nat.ltb_lt. lia.
Qed.
Lemma fuel_ok_nil fuel t : rt_entries t = [] -> rt_list t = [] -> fuel_ok (S fuel) t.
Proof. intros E1 E2. unfold fuel_ok. rewrite E1, E2. cbn. repeat split; lia. Qed.

Lemma fuel_ok_enc extra p t : tree_form_x extra p t = true -> fuel_ok (S (length (enc_tree p t))) t.
Proof.
  intros Hform. unfold tree_form_x in Hform. destruct (rt_status t) as [st|] eqn:Est.
  - apply andb_prop in Hform as [Hform Hbody]. apply andb_prop in Hform as [Hs H32].
    rewrite (enc_tree_status p t Hs). unfold st_of. rewrite Est.
    destruct (st =? 0) eqn:E0.
    + apply andb_prop in Hbody as [Hpf Hx]. apply pf_check_inv in Hpf. destruct Hpf as (A1 & A2 & A3 & A4 & A5 & A6 & A7 & A8 & A9 & A10).
      destruct t as [st0 attrs wcc fh nums data verf ents eof lst].
      destruct p; try discriminate Hs; pfc; lists; try (apply fuel_ok_nil; reflexivity).
      all: unfold fuel_ok; cbn [rt_entries rt_list length forallb]; repeat split; try lia.
      all: cbn [e_ok rt_entries]; rewrite !app_length;
           match goal with |- context [e_chain ?e ?l] => pose proof (e_chain_length e l) end; lia.
    + apply andb_prop in Hbody as [Hmem Hpf]. apply pf_check_inv in Hpf. destruct Hpf as (A1 & A2 & A3 & A4 & A5 & A6 & A7 & A8 & A9 & A10).
      destruct t as [st0 attrs wcc fh nums data verf ents eof lst].
      destruct (fail_shape p); pfc; lists; apply fuel_ok_nil; reflexivity.
  - apply andb_prop in Hform as [Hform Hl]. apply andb_prop in Hform as [Hs Hpf]. apply negb_true_iff in Hs.
    apply pf_check_inv in Hpf. destruct Hpf as (A1 & A2 & A3 & A4 & A5 & A6 & A7 & A8 & A9 & A10).
    destruct t as [st0 attrs wcc fh nums data verf ents eof lst]. cbn [rt_list rt_entries] in *.
    destruct p; try discriminate Hs; pfc; lists; try (apply fuel_ok_nil; reflexivity).
    + unfold fuel_ok. cbn [rt_entries rt_list length enc_tree]. pose proof (e_chain_length e_dump_entry lst) as L.
      repeat split; try lia. rewrite forallb_forall in *. intros e He. specialize (Hl e He). unfold list_ok in Hl.
      apply andb_prop in Hl as [_ Hl]. destruct (snd e) as [|d [|d2 ds]]; try discriminate Hl. apply Nat.ltb_lt. cbn [length]. lia.
    + unfold fuel_ok. cbn [rt_entries rt_list length enc_tree]. pose proof (e_chain_length e_export_entry lst) as L.
      repeat split; try lia. rewrite forallb_forall. intros e He. apply Nat.ltb_lt.
      pose proof (e_chain_elem_length e_export_entry lst e He) as L2. unfold e_export_entry at 1 in L2. rewrite app_length in L2.
      pose proof (e_chain_length e_opaque (snd e)) as L3. lia.
Qed.

Theorem parse_results_enc extra prog vers proc p t :
  rproc_of prog vers proc = Some p -> tree_form_x extra p t = true -> tree_sizes t = true ->
  parse_results_x extra prog vers proc (enc_tree p t) = Some (norm_tree p t).
Proof.
  intros Hp Hf Hz. unfold parse_results_x, pall. rewrite Hp.
  rewrite <- (app_nil_r (enc_tree p t)) at 2.
  rewrite (p_results_enc extra p t _ [] Hf Hz (fuel_ok_enc extra p t Hf)). reflexivity.
Qed.

(* ---------------- RFC 1831 replies ---------------- *)
Lemma p_null_verf r : p_opaque AUTH_BODY_MAX (e_opaque [] ++ r) = Some ([], r).
Proof. apply p_opaque_enc; [unfold AUTH_BODY_MAX; cbn; lia|unfold two32; cbn; lia]. Qed.

Definition acc_body (acc : N) (body : bytes) : bytes := e_u32 RS_MSG_ACCEPTED ++ e_u32 0 ++ e_opaque [] ++ e_u32 acc ++ body.
Ltac acc_steps :=
  unfold p_reply_body, acc_body; rewrite <- ?app_assoc;
  erewrite pbind_ok by apply p_u32_enc;
  change (n32 RS_MSG_ACCEPTED =? RS_MSG_ACCEPTED) with true; cbv beta iota;
  erewrite pbind_ok by apply p_u32_enc; change (negb (auth_flavor_ok (n32 0))) with false; cbv beta iota;
  erewrite pbind_ok by apply p_null_verf; erewrite pbind_ok by apply p_u32_enc.

Lemma p_body_success extra prog vers proc fuel p t r :
  rproc_of prog vers proc = Some p -> tree_form_x extra p t = true -> tree_sizes t = true -> fuel_ok fuel t ->
  p_reply_body extra prog vers proc fuel (acc_body AS_SUCCESS (enc_tree p t) ++ r) = Some (KSuccess (norm_tree p t), r).
Proof.
  intros Hp Hf Hz Hfu. acc_steps. change (n32 AS_SUCCESS =? AS_SUCCESS) with true. cbv beta iota. rewrite Hp.
  erewrite pbind_ok by (apply p_results_enc; eassumption). reflexivity.
Qed.
Definition kind_of_accept (acc : N) : option reply_kind :=
  if acc =? AS_PROG_UNAVAIL then Some KProgUnavail else if acc =? AS_PROC_UNAVAIL then Some KProcUnavail
  else if acc =? AS_GARBAGE_ARGS then Some KGarbageArgs else if acc =? AS_SYSTEM_ERR then Some KSystemErr else None.
Lemma p_body_accept_stat extra prog vers proc fuel acc k r :
  kind_of_accept acc = Some k ->
  p_reply_body extra prog vers proc fuel (acc_body acc [] ++ r) = Some (k, r).
Proof.
  intros Hk. acc_steps. unfold kind_of_accept in Hk. cbn [app].
  destruct (acc =? AS_PROG_UNAVAIL) eqn:E1; [apply N.eqb_eq in E1; subst; inversion Hk; reflexivity|].
  destruct (acc =? AS_PROC_UNAVAIL) eqn:E3; [apply N.eqb_eq in E3; subst; inversion Hk; reflexivity|].
  destruct (acc =? AS_GARBAGE_ARGS) eqn:E4; [apply N.eqb_eq in E4; subst; inversion Hk; reflexivity|].
  destruct (acc =? AS_SYSTEM_ERR) eqn:E5; [apply N.eqb_eq in E5; subst; inversion Hk; reflexivity|discriminate].
Qed.
Lemma p_range_enc lo hi r : lo <= hi -> hi < two32 -> p_range (e_u32 lo ++ e_u32 hi ++ r) = Some ((lo, hi), r).
Proof.
  intros H1 H2. unfold p_range. erewrite pbind_ok by apply p_u32_enc. erewrite pbind_ok by apply p_u32_enc.
  rewrite !n32_small by (unfold two32 in *; lia). apply N.leb_le in H1. rewrite H1. reflexivity.
Qed.
Lemma p_body_mismatch extra prog vers proc fuel lo hi r :
  lo <= hi -> hi < two32 ->
  p_reply_body extra prog vers proc fuel (acc_body AS_PROG_MISMATCH (e_u32 lo ++ e_u32 hi) ++ r) = Some (KProgMismatch lo hi, r).
Proof.
  intros H1 H2. acc_steps.
  change (n32 AS_PROG_MISMATCH =? AS_SUCCESS) with false. change (n32 AS_PROG_MISMATCH =? AS_PROG_UNAVAIL) with false.
  change (n32 AS_PROG_MISMATCH =? AS_PROG_MISMATCH) with true. cbv beta iota.
  erewrite pbind_ok by (apply p_range_enc; assumption). reflexivity.
Qed.
Lemma p_body_denied extra prog vers proc fuel why r :
  auth_stat_ok why = true ->
  p_reply_body extra prog vers proc fuel (e_u32 RS_MSG_DENIED ++ e_u32 RJ_AUTH_ERROR ++ e_u32 why ++ r) = Some (KAuthError why, r).
Proof.
  intros H. unfold p_reply_body. erewrite pbind_ok by apply p_u32_enc.
  change (n32 RS_MSG_DENIED =? RS_MSG_ACCEPTED) with false. change (n32 RS_MSG_DENIED =? RS_MSG_DENIED) with true. cbv beta iota.
  erewrite pbind_ok by apply p_u32_enc.
  change (n32 RJ_AUTH_ERROR =? RJ_RPC_MISMATCH) with false. change (n32 RJ_AUTH_ERROR =? RJ_AUTH_ERROR) with true. cbv beta iota.
  erewrite pbind_ok by apply p_u32_enc.
  assert (Hw : n32 why = why) by (apply n32_small; unfold auth_stat_ok in H; apply N.leb_le in H; unfold two32; lia).
  rewrite Hw, H. reflexivity.
Qed.

Lemma enc_accepted_eq xid acc body : enc_accepted xid acc body = e_u32 xid ++ e_u32 RPC_MSG_REPLY ++ acc_body acc body ++ [].
Proof. unfold enc_accepted, enc_reply_hdr, acc_body. rewrite <- !app_assoc, app_nil_r. reflexivity. Qed.
Ltac hdr_steps :=
  unfold parse_reply_x, pall, p_reply;
  erewrite pbind_ok by apply p_u32_enc; erewrite pbind_ok by apply p_u32_enc;
  change (negb (n32 RPC_MSG_REPLY =? RPC_MSG_REPLY)) with false; cbv beta iota.

Theorem parse_reply_success extra prog vers proc p t xid :
  rproc_of prog vers proc = Some p -> tree_form_x extra p t = true -> tree_sizes t = true ->
  parse_reply_x extra prog vers proc (enc_accepted xid AS_SUCCESS (enc_tree p t)) = Some (n32 xid, KSuccess (norm_tree p t)).
Proof.
  intros Hp Hf Hz. rewrite enc_accepted_eq. hdr_steps.
  erewrite pbind_ok.
  2:{ apply p_body_success; try eassumption. eapply fuel_ok_mono; [|apply (fuel_ok_enc extra p t Hf)].
      unfold acc_body. rewrite !app_length. lia. }
  reflexivity.
Qed.
Theorem parse_reply_accept_stat extra prog vers proc xid acc k :
  kind_of_accept acc = Some k ->
  parse_reply_x extra prog vers proc (enc_accepted xid acc []) = Some (n32 xid, k).
Proof. intros Hk. rewrite enc_accepted_eq. hdr_steps. erewrite pbind_ok by (apply p_body_accept_stat; exact Hk). reflexivity. Qed.
Theorem parse_reply_prog_mismatch extra prog vers proc xid lo hi :
  lo <= hi -> hi < two32 ->
  parse_reply_x extra prog vers proc (enc_accepted xid AS_PROG_MISMATCH (e_u32 lo ++ e_u32 hi)) = Some (n32 xid, KProgMismatch lo hi).
Proof. intros H1 H2. rewrite enc_accepted_eq. hdr_steps. erewrite pbind_ok by (apply p_body_mismatch; assumption). reflexivity. Qed.
Theorem parse_reply_denied_auth extra prog vers proc xid why :
  auth_stat_ok why = true ->
  parse_reply_x extra prog vers proc (enc_denied_auth xid why) = Some (n32 xid, KAuthError why).
Proof.
  intros H. unfold enc_denied_auth, enc_reply_hdr. rewrite <- !app_assoc. rewrite <- (app_nil_r (e_u32 why)). hdr_steps.
  erewrite pbind_ok by (apply p_body_denied; exact H). reflexivity.
Qed.

(* the encoders above are EncodeRPCReply (Model/Rpc.v, the codec group's model of it) with the null verifier *)
Lemma enc_reply_accepted xid acc body :
  acc <> accept_prog_mismatch ->
  enc_reply (mkReply xid msg_accepted acc 0 [] (if acc =? accept_success then DBytes body else DNone)) =
  enc_accepted xid acc (if acc =? accept_success then body else []).
Proof.
  intros H. unfold enc_reply, enc_accepted, enc_reply_hdr. cbn [r_xid r_status r_accept r_verf_flavor r_verf_body r_data].
  apply N.eqb_neq in H. rewrite H. change (msg_accepted =? msg_accepted) with true. cbv iota.
  change (0 <? len []) with false. cbv iota. unfold e_u32, e_opaque, enc_opaque. change (len []) with 0.
  change (zeros (pad_len 0)) with (@nil N). rewrite <- !app_assoc. cbn [app].
  destruct (acc =? accept_success); reflexivity.
Qed.
Lemma enc_reply_mismatch xid :
  enc_reply (mkReply xid msg_accepted accept_prog_mismatch 0 [] DNone) = enc_accepted xid AS_PROG_MISMATCH (e_u32 3 ++ e_u32 3).
Proof. unfold enc_reply, enc_accepted, enc_reply_hdr. cbn [r_xid r_status r_accept r_verf_flavor r_verf_body r_data]. rewrite <- !app_assoc. reflexivity. Qed.
Lemma enc_reply_denied xid acc d :
  enc_reply (mkReply xid (Z.to_N Gen.Facts.c_MSG_DENIED) acc 0 [] d) = enc_denied_auth xid 1.
Proof. unfold enc_reply, enc_denied_auth, enc_reply_hdr. cbn [r_xid r_status]. rewrite <- !app_assoc. reflexivity. Qed.
