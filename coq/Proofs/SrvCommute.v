(* Proofs/SrvCommute.v — property C29, spec side: why "some serial order" is a meaningful, checkable notion.

   A linearization is a total order of the completed requests; when two requests overlap in real time either order
   is admissible, so the check is only meaningful if requests that do not interfere COMMUTE on the observable
   projection.  This file proves, for the sequential model Model/Srv.step (under the invariant Good of
   Proofs/SrvCoh.v: well-formed link-free tree, good handle paths, coherent caches):

   1. [reader_no_disturb]   a read-only request r1 (GETATTR ACCESS READLINK READ READDIR FSSTAT FSINFO PATHCONF COMMIT
                            NULL) placed before ANY request r2 changes neither r2's projected reply nor - up to
                            cache contents and call log - the state r2 leaves: it touches caches only.
   2. [attr_reader_frame]   the reply of GETATTR/ACCESS/FSSTAT/FSINFO/PATHCONF depends only on the path the handle
                            names and on kind/perm/size of that path AND OF ITS PREFIXES (its footprint):
                            two Good states that agree there give the same projected reply.
   3. [commute_attr_reader] hence such a reader commutes with any request r2 that leaves its handle and its footprint
                            alone: same two projected replies and the same final state (up to caches) in both orders.
   4. [commute_reader_remove] the syntactic instance: REMOVE / RMDIR of name n in directory d against a reader
                            whose path is not at or below d/n - no further hypothesis (the directory's own
                            attributes may be read: only its mtime changes, which the projection excludes).
   5. [be_ns_commute]       at the backend: two successful or failed creations/removals of names p1, p2 that are
                            neither equal nor parent of one another give, in both orders, the same results and
                            the same tree up to the mtime of the parents (exactly the same when done at the same instant).

   NOT proved here (kept as [commute_distinct_statement]): the handler-level commutation of two ALLOCATING
   requests (CREATE/MKDIR/LOOKUP against CREATE/MKDIR/LOOKUP): the two orders issue different handle NUMBERS and
   build the association lists of the tree, the handle table and the node attributes in different ORDERS, so the
   statement needs an equivalence up to handle renaming and list permutation through every handler.  The
   run-time check compares handles through the paths they name for exactly this reason. *)
From Coq Require Import List NArith ZArith Bool Lia.
From Verif Require Import Gen.Facts Model.Handles Model.Backend Model.Srv Proofs.BackendWF Proofs.SrvPaths Proofs.SrvRO Proofs.SrvCoh.
Import ListNotations.
Open Scope N_scope.

(* ====================================================================================================== *)
(* 1. read-only requests touch caches and the call log only                                              *)
(* ====================================================================================================== *)
Definition reader (r : req) : bool :=
  match r with
  | RNull | RGetattr _ | RAccess _ _ | RReadlink _ | RRead _ _ _ | RReaddir _ _ _
  | RFsstat _ | RFsinfo _ | RPathconf _ | RCommit _ _ _ => true
  | _ => false
  end.
Lemma reader_c02 r : reader r = true -> c02_req r = true.
Proof. destruct r; cbn; congruence. Qed.

Lemma core_clear s : core s (clear_log s). Proof. repeat split. Qed.
Lemma core_logc s c : core s (logc s c). Proof. repeat split. Qed.
Lemma node_nodd s h p a : Good s -> lookup_node s h = Some (p, a) -> nodd p.
Proof. intros G L. apply gpath_nodd. apply lookup_node_get in L. exact (g_hok s G h p L). Qed.

(* after getattr_h: the state is a core-variant of the one before, whatever the result *)
Ltac ga_out G ND :=
  match goal with |- context [getattr_h ?s ?h ?p] =>
    let C := fresh "C" in let G1 := fresh "G1" in
    destruct (getattr_h_out s h p G ND) as [C G1];
    destruct (getattr_h s h p) as [? [?|?]]; cbn [fst snd] in *
  end.

Lemma handle_getattr_core s h : Good s -> core s (fst (handle_getattr s h)).
Proof.
  intros G. unfold handle_getattr. destruct (lookup_node s h) as [[p a]|] eqn:L; [|apply core_refl].
  pose proof (node_nodd s h p a G L) as ND. ga_out G ND; exact C.
Qed.
Lemma handle_access_core s c h m : Good s -> core s (fst (handle_access s c h m)).
Proof.
  intros G. unfold handle_access. destruct (lookup_node s h) as [[p a]|] eqn:L; [|apply core_refl].
  pose proof (node_nodd s h p a G L) as ND. ga_out G ND; exact C.
Qed.
Lemma handle_fsx_core s h f : Good s -> core s (fst (handle_fsx s h f)).
Proof.
  intros G. unfold handle_fsx. destruct (lookup_node s h) as [[p a]|] eqn:L; [|apply core_refl].
  pose proof (node_nodd s h p a G L) as ND. ga_out G ND; exact C.
Qed.
Lemma handle_commit_core s h : Good s -> core s (fst (handle_commit s h)).
Proof.
  intros G. unfold handle_commit. destruct (ro (conf s)); [apply core_refl|].
  destruct (lookup_node s h) as [[p a]|] eqn:L; [|apply core_refl].
  pose proof (node_nodd s h p a G L) as ND. ga_out G ND; exact C.
Qed.
Lemma handle_readlink_core s h : Good s -> core s (fst (handle_readlink s h)).
Proof.
  intros G. unfold handle_readlink. destruct (lookup_node s h) as [[p a]|] eqn:L; [|apply core_refl].
  pose proof (node_nodd s h p a G L) as ND.
  destruct (negb (kind_eqb (na_kind a) KLink)); [apply core_refl|].
  cbn [fs logc]. destruct (be_readlink (fs s) p) as [t|e]; [|apply core_logc].
  destruct (negb (is_abs t) && target_has_dotdot t); [apply core_logc|].
  pose proof (Good_logc s (bc BReadlink p) G) as GL.
  ga_out GL ND; (eapply core_trans; [apply core_logc|exact C]).
Qed.
Lemma handle_read_core s h off cnt : Good s -> core s (fst (handle_read s h off cnt)).
Proof.
  intros G. unfold handle_read. destruct (two64 - 1 - cnt <? off); [apply core_refl|].
  destruct (lookup_node s h) as [[p a]|] eqn:L; [|apply core_refl].
  pose proof (node_nodd s h p a G L) as ND.
  destruct (kind_eqb (na_kind a) KLink); [apply core_refl|].
  destruct (two63N <=? off); [apply core_refl|]. cbv zeta. cbn [fs logc].
  destruct (be_open (fs s) p false) as [q|e]; [|apply core_logc].
  destruct (fs_get (fs s) q) as [o|]; [|apply core_logc].
  pose proof (Good_logc s (bc BOpenR p) G) as GL.
  destruct (stat_size o <=? off); cbn [fst snd].
  - ga_out GL ND; (eapply core_trans; [apply core_logc|exact C]).
  - cbn [fs logc].
    destruct (be_readat (fs s) q off (N.min (N.min cnt (tsize (conf s))) (stat_size o - off))) as [data|e];
      [|eapply core_trans; apply core_logc].
    match goal with |- context [getattr_h ?s2 h p] => assert (GL2 : Good s2) by (apply Good_logc; exact GL) end.
    ga_out GL2 ND; (eapply core_trans; [apply core_logc|eapply core_trans; [apply core_logc|exact C]]).
Qed.
Lemma handle_readdir_core s h ck cnt : Good s -> core s (fst (handle_readdir s h ck cnt)).
Proof.
  intros G. unfold handle_readdir. destruct (lookup_node s h) as [[d a]|] eqn:L; [|apply core_refl].
  assert (GD : gpath d) by (apply lookup_node_get in L; exact (g_hok s G h d L)).
  pose proof (gpath_nodd d GD) as ND.
  destruct (negb (kind_eqb (na_kind a) KDir)); [apply core_refl|].
  destruct (srv_readdir_spec s d G GD) as (C1 & G1 & _).
  destruct (srv_readdir s d) as [s1 [ents|e]]; cbn [fst snd] in *; [|exact C1].
  ga_out G1 ND.
  - destruct (page false cnt 0 ck 0 dir_header_len ents) as [pg lim]. cbn [fst]. eapply core_trans; eassumption.
  - eapply core_trans; eassumption.
Qed.

Theorem reader_core s c r : Good s -> reader r = true -> core s (fst (step s c r)).
Proof.
  intros G R. pose proof (Good_clear s G) as G0. unfold step.
  destruct r; try discriminate; cbn [garbage_reply]; (eapply core_trans; [apply core_clear|]).
  - apply core_refl.
  - apply handle_getattr_core; exact G0.
  - apply handle_access_core; exact G0.
  - apply handle_readlink_core; exact G0.
  - apply handle_read_core; exact G0.
  - apply handle_readdir_core; exact G0.
  - apply handle_fsx_core; exact G0.
  - apply handle_fsx_core; exact G0.
  - apply handle_fsx_core; exact G0.
  - apply handle_commit_core; exact G0.
Qed.

Lemma core_sim s s' : core s s' -> sim s' s.
Proof. intros (A & B & C & D & E). split; congruence. Qed.
Lemma sim_sym s t : sim s t -> sim t s.
Proof. intros [A B C D E]. split; congruence. Qed.
Lemma sim_trans a b c : sim a b -> sim b c -> sim a c.
Proof. intros [A1 A2 A3 A4 A5] [B1 B2 B3 B4 B5]. split; congruence. Qed.

(* a read-only request placed before r2 is invisible to r2 *)
Theorem reader_no_disturb s c1 r1 c2 r2 : Good s -> reader r1 = true -> c02_req r2 = true ->
  HREL (step (fst (step s c1 r1)) c2 r2) (step s c2 r2).
Proof.
  intros G R OK. apply step_rel; [|exact OK]. split; [apply core_sim; apply reader_core; assumption|].
  split; [apply Good_step; [exact G|apply reader_c02; exact R]|exact G].
Qed.

(* ====================================================================================================== *)
(* 2. the footprint of an attribute reader: the path and the kinds along it                              *)
(* ====================================================================================================== *)
(* f2 agrees with f on kind/perm/size of p and of every prefix of p *)
Definition same_above (f f2 : fsmap) (p : path) : Prop := forall q, is_prefix q p = true -> pk f2 q = pk f q.
Lemma same_above_refl f p : same_above f f p. Proof. intros q _. reflexivity. Qed.
Lemma pk_none f q : pk f q = None <-> fs_get f q = None.
Proof. unfold pk. destruct (fs_get f q); cbn; split; congruence. Qed.

(* Lstat of an absent path fails the same way in both trees *)
Lemma be_stat_frame f f2 p : WF f -> nolinks f -> WF f2 -> nolinks f2 -> nodd p -> same_above f f2 p ->
  fs_get f p = None -> be_stat f2 p false = be_stat f p false.
Proof.
  intros W NL W2 NL2 ND SA Gp. unfold be_stat. rewrite !resolve_rwalk by assumption.
  rewrite (rwalk_ext f f2 p []); [reflexivity| |].
  - intros q Pq _. cbn [app] in Pq. pose proof (SA q Pq) as E. split; [apply pk_kd; exact E|].
    rewrite <- !pk_none. rewrite E. tauto.
  - cbn [app]. pose proof (SA p (is_prefix_refl p)) as E. pose proof (proj2 (pk_none f p) Gp) as Gk. rewrite Gk in E.
    apply pk_none in E. congruence.
Qed.

Lemma getattr_h_frame s s2 h p : Good s -> Good s2 -> nodd p -> same_above (fs s) (fs s2) p ->
  rres (snd (getattr_h s h p)) (snd (getattr_h s2 h p)).
Proof.
  intros G G2 ND SA. pose proof (getattr_h_res s h p G ND) as R. pose proof (getattr_h_res s2 h p G2 ND) as R2.
  pose proof (SA p (is_prefix_refl p)) as Ep. unfold pk in Ep.
  destruct (snd (getattr_h s h p)) as [a|e], (snd (getattr_h s2 h p)) as [a2|e2]; cbn [getattr_res rres] in *.
  - destruct R as [o [A1 A2]], R2 as [o2 [B1 B2]]. rewrite A1, B1 in Ep. cbn in Ep. injection Ep as E1 E2 E3.
    rewrite A2, B2. congruence.
  - destruct R as [o [A1 _]]. destruct (be_stat_err_inv (fs s2) (g_wf _ G2) (g_nl _ G2) p false e2 ND R2) as [B _].
    rewrite A1, B in Ep. discriminate.
  - destruct R2 as [o2 [B1 _]]. destruct (be_stat_err_inv (fs s) (g_wf _ G) (g_nl _ G) p false e ND R) as [A _].
    rewrite A, B1 in Ep. discriminate.
  - destruct (be_stat_err_inv (fs s) (g_wf _ G) (g_nl _ G) p false e ND R) as [A _].
    rewrite (be_stat_frame (fs s) (fs s2) p (g_wf _ G) (g_nl _ G) (g_wf _ G2) (g_nl _ G2) ND SA A) in R2. congruence.
Qed.

Definition attr_reader (r : req) : option N :=
  match r with
  | RGetattr h | RAccess h _ | RFsstat h | RFsinfo h | RPathconf h => Some h
  | _ => None
  end.
Lemma attr_reader_reader r h : attr_reader r = Some h -> reader r = true.
Proof. destruct r; cbn; congruence. Qed.

Ltac ga_frame G G2 ND SA :=
  match goal with |- context [getattr_h ?s ?h ?p] =>
    match goal with |- context [getattr_h ?s2 h p] =>
      tryif constr_eq s s2 then fail else
      (let R := fresh "R" in pose proof (getattr_h_frame s s2 h p G G2 ND SA) as R;
       destruct (getattr_h s h p) as [? [?|?]], (getattr_h s2 h p) as [? [?|?]]; cbn [fst snd rres] in R; try contradiction)
    end
  end.

(* two Good states in which the handle names the same path and which agree on the footprint answer alike *)
Theorem attr_reader_frame s s2 c r h p a a2 : Good s -> Good s2 -> attr_reader r = Some h ->
  lookup_node s h = Some (p, a) -> lookup_node s2 h = Some (p, a2) -> same_above (fs s) (fs s2) p ->
  proj (snd (step s c r)) = proj (snd (step s2 c r)).
Proof.
  intros G G2 AR L L2 SA. pose proof (Good_clear s G) as G0. pose proof (Good_clear s2 G2) as G02.
  pose proof (node_nodd s h p a G L) as ND.
  assert (SA0 : same_above (fs (clear_log s)) (fs (clear_log s2)) p) by exact SA.
  rewrite <- (lookup_node_clear s h) in L. rewrite <- (lookup_node_clear s2 h) in L2.
  unfold step. destruct r; try discriminate; cbn [garbage_reply attr_reader] in *; injection AR as ->.
  - unfold handle_getattr. rewrite L, L2. ga_frame G0 G02 ND SA0; cbn [snd].
    + unfold proj, ob_mk, sf. cbn. rewrite (pfa_pn _ _ R). reflexivity.
    + subst. reflexivity.
  - unfold handle_access. rewrite L, L2. ga_frame G0 G02 ND SA0; cbn [snd].
    + unfold proj, ob_mk, sf. cbn. rewrite (pfa_pn _ _ R). reflexivity.
    + subst. reflexivity.
  - unfold handle_fsx. rewrite L, L2. ga_frame G0 G02 ND SA0; cbn [snd].
    + unfold proj, ob_mk, sf. cbn. rewrite (pfa_pn _ _ R). reflexivity.
    + subst. reflexivity.
  - unfold handle_fsx. rewrite L, L2. ga_frame G0 G02 ND SA0; cbn [snd].
    + unfold proj, ob_mk, sf. cbn. rewrite (pfa_pn _ _ R). reflexivity.
    + subst. reflexivity.
  - unfold handle_fsx. rewrite L, L2. ga_frame G0 G02 ND SA0; cbn [snd].
    + unfold proj, ob_mk, sf. cbn. rewrite (pfa_pn _ _ R). reflexivity.
    + subst. reflexivity.
Qed.

(* ====================================================================================================== *)
(* 3. an attribute reader commutes with every request that leaves its handle and its footprint alone      *)
(* ====================================================================================================== *)
Theorem commute_attr_reader s c1 r1 c2 r2 h p a a2 :
  Good s -> attr_reader r1 = Some h -> c02_req r2 = true ->
  lookup_node s h = Some (p, a) ->
  lookup_node (fst (step s c2 r2)) h = Some (p, a2) ->          (* r2 leaves the handle's binding alone *)
  same_above (fs s) (fs (fst (step s c2 r2))) p ->              (* ... and kind/perm/size along the path *)
  let s1 := fst (step s c1 r1) in let s2 := fst (step s c2 r2) in
  proj (snd (step s c1 r1)) = proj (snd (step s2 c1 r1)) /\     (* r1 answers the same before and after r2 *)
  proj (snd (step s1 c2 r2)) = proj (snd (step s c2 r2)) /\     (* r2 answers the same after r1 and without it *)
  sim (fst (step s1 c2 r2)) (fst (step s2 c1 r1)) /\            (* both orders end in the same state up to caches *)
  fs (fst (step s1 c2 r2)) = fs (fst (step s2 c1 r1)).          (* in particular in the same tree *)
Proof.
  intros G AR OK L L2 SA. cbv zeta.
  pose proof (attr_reader_reader r1 h AR) as RD.
  pose proof (Good_step s c2 r2 G OK) as G2.
  destruct (reader_no_disturb s c1 r1 c2 r2 G RD OK) as [(S12 & _ & _) P12].
  pose proof (reader_core (fst (step s c2 r2)) c1 r1 G2 RD) as C21.
  assert (S : sim (fst (step (fst (step s c1 r1)) c2 r2)) (fst (step (fst (step s c2 r2)) c1 r1))).
  { eapply sim_trans; [exact S12|]. apply sim_sym. apply core_sim. exact C21. }
  split; [eapply attr_reader_frame; eassumption|]. split; [exact P12|]. split; [exact S|exact (sim_fs _ _ S)].
Qed.

(* ====================================================================================================== *)
(* 4. the syntactic instance: REMOVE / RMDIR of d/n against an attribute reader elsewhere                *)
(* ====================================================================================================== *)
(* REMOVE and RMDIR never touch the handle table or the per-handle node attributes *)
Definition HN (s s' : srv) : Prop := hm s' = hm s /\ nodes s' = nodes s.
Lemma HN_refl s : HN s s. Proof. split; reflexivity. Qed.
Lemma HN_trans a b c : HN a b -> HN b c -> HN a c.
Proof. intros [A1 A2] [B1 B2]. split; congruence. Qed.
Lemma ac_get_hn s p : HN s (fst (ac_get s p)).
Proof. unfold ac_get. des; cbn; split; reflexivity. Qed.
Lemma srv_getattr_hn s p u g : HN s (fst (srv_getattr s p u g)).
Proof.
  unfold srv_getattr. pose proof (ac_get_hn s p) as H. destruct (ac_get s p) as [s1 x]. cbn [fst] in H.
  unfold do_lstat. cbn [fst snd fs logc]. destruct (be_stat (fs s1) p false); cbn [fst];
    (eapply HN_trans; [exact H|split; reflexivity]).
Qed.
Lemma getattr_h_hn s h p : HN s (fst (getattr_h s h p)).
Proof. unfold getattr_h. destruct (node_get s h); apply srv_getattr_hn. Qed.
Lemma dc_invalidate_hn s q : HN s (dc_invalidate s q).
Proof. unfold dc_invalidate. destruct (dir_on (conf s)); split; reflexivity. Qed.
Lemma dc_invalidate_tree_hn s q : HN s (dc_invalidate_tree s q).
Proof. unfold dc_invalidate_tree. destruct (dir_on (conf s)); split; reflexivity. Qed.

Ltac hn :=
  cbn [fst snd];
  repeat match goal with
  | |- HN ?a ?a => apply HN_refl
  | |- HN ?a (logc ?b _) => apply HN_trans with b; [|split; reflexivity]
  | |- HN ?a (with_fs ?b _) => apply HN_trans with b; [|split; reflexivity]
  | |- HN ?a (ac_invalidate ?b _) => apply HN_trans with b; [|split; reflexivity]
  | |- HN ?a (ac_invalidate_tree ?b _) => apply HN_trans with b; [|split; reflexivity]
  | |- HN ?a (dc_invalidate ?b _) => apply HN_trans with b; [|apply dc_invalidate_hn]
  | |- HN ?a (dc_invalidate_tree ?b _) => apply HN_trans with b; [|apply dc_invalidate_tree_hn]
  | E : getattr_h ?b ?h ?p = (?c, _) |- HN ?a ?c =>
      apply HN_trans with b; [|let H := fresh in pose proof (getattr_h_hn b h p) as H; rewrite E in H; exact H]
  end.

Lemma failed_reply_hn s h d st_ a : HN s (fst (failed_reply s h d st_ a)).
Proof. unfold failed_reply. destruct (getattr_h s h d) as [s1 r] eqn:E. hn. Qed.
Lemma handle_remove_hn s h n : HN s (fst (handle_remove s h n)).
Proof.
  unfold handle_remove. cbv zeta. unfold lift_unit.
  destruct (ro (conf s)); [apply HN_refl|]. destruct (negb (validate_name n =? st_ok)); [apply HN_refl|].
  destruct (lookup_node s h) as [[d da]|]; [|apply HN_refl].
  destruct (negb (kind_eqb (na_kind da) KDir)); [apply HN_refl|].
  destruct (getattr_h s h d) as [s1 [dpre|e]] eqn:E1; [|hn].
  destruct (negb (sanitize_ok d n)).
  { eapply HN_trans; [|apply failed_reply_hn]. hn. }
  cbn [fst snd]. destruct (snd (be_remove (fs s1) (d ++ [n]) (now s1))).
  - match goal with |- context [getattr_h ?b h d] => destruct (getattr_h b h d) as [s3 [dp|e]] eqn:E3 end; hn.
  - eapply HN_trans; [|apply failed_reply_hn]. hn.
Qed.
Lemma handle_rmdir_hn s h n : HN s (fst (handle_rmdir s h n)).
Proof.
  unfold handle_rmdir. cbv zeta. unfold lift_unit.
  destruct (ro (conf s)); [apply HN_refl|]. destruct (negb (validate_name n =? st_ok)); [apply HN_refl|].
  destruct (lookup_node s h) as [[d da]|]; [|apply HN_refl].
  destruct (negb (kind_eqb (na_kind da) KDir)); [apply HN_refl|].
  destruct (getattr_h s h d) as [s1 [dpre|e]] eqn:E1; [|hn].
  unfold do_stat. cbn [fst snd fs logc]. destruct (be_stat (fs s1) (d ++ [n]) true) as [fi|e]; [|hn].
  destruct (negb (kind_eqb (fi_kind fi) KDir)); [hn|].
  cbn [fst snd fs logc now]. destruct (snd (be_remove (fs s1) (d ++ [n]) (now s1))) as [u|e].
  - match goal with |- context [getattr_h ?b h d] => destruct (getattr_h b h d) as [s3 [dp|e]] eqn:E3 end; hn.
  - eapply HN_trans; [|apply failed_reply_hn]. hn.
Qed.
Lemma HN_lookup_node s s' h : HN s s' -> lookup_node s' h = lookup_node s h.
Proof. intros [A B]. unfold lookup_node, node_get. rewrite A, B. reflexivity. Qed.

Definition is_rm (r : req) : option (N * name) :=
  match r with RRemove h n | RRmdir h n => Some (h, n) | _ => None end.
Lemma rm_keeps_handles s c r hn_ : is_rm r = Some hn_ -> forall h, lookup_node (fst (step s c r)) h = lookup_node s h.
Proof.
  intros R h. unfold step. destruct (garbage_reply (clear_log s) r) as [o|]; [apply lookup_node_clear|].
  rewrite <- (lookup_node_clear s h). apply HN_lookup_node.
  destruct r; try discriminate; [apply handle_remove_hn|apply handle_rmdir_hn].
Qed.

(* the tree after REMOVE / RMDIR of d/n agrees with the tree before on every path that is not at or below d/n *)
Lemma rm_same_above s c r hd n d da p :
  Good s -> is_rm r = Some (hd, n) -> vname n -> sanitize_ok d n = true ->
  lookup_node s hd = Some (d, da) -> na_kind da = KDir -> ro (conf s) = false -> kd (fs s) d = true ->
  is_prefix (d ++ [n]) p = false -> same_above (fs s) (fs (fst (step s c r))) p.
Proof.
  intros G R V SAN L K RO KD NP.
  assert (X : fs (fst (step s c r)) = fs_rm (fs s) (d ++ [n]) (now s) \/ fs (fst (step s c r)) = fs s).
  { destruct r; try discriminate; cbn [is_rm] in R; injection R as -> ->.
    - destruct (posix_remove s c hd n d da G V L K RO KD SAN) as (_ & A & B).
      destruct (N.eq_dec (ob_status (snd (step s c (RRemove hd n)))) 0) as [E|E]; [left; apply A; exact E|right; apply B; exact E].
    - destruct (posix_rmdir s c hd n d da G V L K RO KD) as (_ & A & B).
      destruct (N.eq_dec (ob_status (snd (step s c (RRmdir hd n)))) 0) as [E|E]; [left; apply A; exact E|right; apply B; exact E]. }
  destruct X as [-> | ->]; [|apply same_above_refl].
  intros q Pq. apply pk_del; [apply snoc_nonnil|].
  intros ->. (* q = d ++ [n] would make d ++ [n] a prefix of p *)
  rewrite Pq in NP. discriminate.
Qed.

Theorem commute_reader_remove s c1 r1 c2 r2 h p a hd n d da :
  Good s -> attr_reader r1 = Some h -> is_rm r2 = Some (hd, n) ->
  lookup_node s h = Some (p, a) ->
  vname n -> sanitize_ok d n = true -> lookup_node s hd = Some (d, da) -> na_kind da = KDir ->
  ro (conf s) = false -> kd (fs s) d = true ->
  is_prefix (d ++ [n]) p = false ->                              (* the reader's path is not at or below d/n *)
  let s1 := fst (step s c1 r1) in let s2 := fst (step s c2 r2) in
  proj (snd (step s c1 r1)) = proj (snd (step s2 c1 r1)) /\
  proj (snd (step s1 c2 r2)) = proj (snd (step s c2 r2)) /\
  sim (fst (step s1 c2 r2)) (fst (step s2 c1 r1)) /\
  fs (fst (step s1 c2 r2)) = fs (fst (step s2 c1 r1)).
Proof.
  intros G AR R L V SAN Ld K RO KD NP.
  assert (OK : c02_req r2 = true) by (destruct r2; try discriminate; reflexivity).
  apply (commute_attr_reader s c1 r1 c2 r2 h p a a G AR OK L).
  - rewrite (rm_keeps_handles s c2 r2 (hd, n) R h). exact L.
  - eapply rm_same_above; eassumption.
Qed.

(* ====================================================================================================== *)
(* 5. the backend: creating / removing different names commutes up to the parents' mtime                  *)
(* ====================================================================================================== *)
(* the two point updates of the namespace: put object x at p (Some) or delete p (None); the parent is touched *)
Definition pt (f : fsmap) (p : path) (x : option obj) (t : N) : fsmap :=
  match x with Some o => fs_add f p o t | None => fs_rm f p t end.
Lemma fs_get_pt f p x t q : p <> [] ->
  fs_get (pt f p x t) q =
  if path_eqb q p then x else if path_eqb q (parent p) then option_map (touch_o t) (fs_get f q) else fs_get f q.
Proof. intros NE. destruct x; cbn [pt]; [apply fs_get_add|apply fs_get_del']; exact NE. Qed.

(* p1 and p2 are different names and neither is the directory the other lives in *)
Definition indep (p1 p2 : path) : Prop := p1 <> [] /\ p2 <> [] /\ p1 <> p2 /\ parent p1 <> p2 /\ parent p2 <> p1.
Lemma indep_sym p1 p2 : indep p1 p2 -> indep p2 p1.
Proof. intros (A & B & C & D & E). repeat split; auto. Qed.

Lemma touch_touch t1 t2 o : touch_o t1 (touch_o t2 o) = touch_o t1 o.
Proof. reflexivity. Qed.
Lemma touch0_touch t o : touch_o 0 (touch_o t o) = touch_o 0 o.
Proof. reflexivity. Qed.

(* exact equality everywhere except (when the two names share their directory and the instants differ) at that
   directory, where only the mtime can differ *)
Theorem pt_commute f p1 x1 t1 p2 x2 t2 q : indep p1 p2 ->
  let f12 := pt (pt f p1 x1 t1) p2 x2 t2 in let f21 := pt (pt f p2 x2 t2) p1 x1 t1 in
  option_map (touch_o 0) (fs_get f12 q) = option_map (touch_o 0) (fs_get f21 q) /\
  (parent p1 <> parent p2 \/ q <> parent p1 \/ t1 = t2 -> fs_get f12 q = fs_get f21 q).
Proof.
  intros (N1 & N2 & D & A & B). cbv zeta. rewrite !fs_get_pt by assumption.
  peq q p2; [subst q|].
  - (* q = p2 *)
    peq p2 p1; [congruence|]. peq p2 (parent p1); [congruence|]. rewrite ?peqb_refl. split; [reflexivity|intros _; reflexivity].
  - peq q p1; [subst q|].
    + peq p1 (parent p2); [congruence|]. rewrite ?peqb_refl. split; [reflexivity|intros _; reflexivity].
    + peq q (parent p2); peq q (parent p1).
      * (* the common parent *)
        destruct (fs_get f q) as [o|]; cbn [option_map]; [|split; [reflexivity|intros _; reflexivity]].
        split; [reflexivity|]. intros [H|[H|H]]; [congruence|congruence|subst t2; reflexivity].
      * split; [reflexivity|intros _; reflexivity].
      * split; [reflexivity|intros _; reflexivity].
      * split; [reflexivity|intros _; reflexivity].
Qed.

(* whether a name can be created / removed does not depend on an independent point update *)
Lemma kd_pt f p x t q : p <> [] -> q <> p -> kd (pt f p x t) q = kd f q.
Proof.
  intros NE Q. apply pk_kd. destruct x; cbn [pt]; [apply pk_add|apply pk_del]; assumption.
Qed.
Lemma get_none_pt f p x t q : p <> [] -> q <> p -> (fs_get (pt f p x t) q = None <-> fs_get f q = None).
Proof.
  intros NE Q. rewrite fs_get_pt by exact NE. apply peqb_neq in Q. rewrite Q.
  destruct (path_eqb q (parent p)); [|tauto]. destruct (fs_get f q); cbn; split; congruence.
Qed.
Lemma creatable_pt f p1 x t p2 : indep p1 p2 -> creatable (pt f p1 x t) p2 = creatable f p2.
Proof.
  intros (N1 & N2 & D & A & B). unfold creatable.
  pose proof (get_none_pt f p1 x t p2 N1 (not_eq_sym D)) as H.
  rewrite (kd_pt f p1 x t (parent p2) N1 B).
  destruct (fs_get (pt f p1 x t) p2), (fs_get f p2); try reflexivity.
  - destruct H as [_ H]. specialize (H eq_refl). discriminate.
  - destruct H as [H _]. specialize (H eq_refl). discriminate.
Qed.
Lemma has_children_pt f p1 x t p2 : indep p1 p2 -> has_children (pt f p1 x t) p2 = has_children f p2.
Proof.
  intros (N1 & N2 & D & A & B).
  destruct (has_children f p2) eqn:H.
  - apply has_children_true in H. destruct H as [n [o H]]. apply has_children_true.
    assert (Q : p2 ++ [n] <> p1) by (intros F; apply A; rewrite <- F; apply parent_snoc).
    destruct (fs_get (pt f p1 x t) (p2 ++ [n])) as [o'|] eqn:G; [exists n, o'; exact G|].
    apply (get_none_pt f p1 x t _ N1 Q) in G. congruence.
  - apply has_children_false. intros n. rewrite has_children_false in H.
    assert (Q : p2 ++ [n] <> p1) by (intros F; apply A; rewrite <- F; apply parent_snoc).
    apply (get_none_pt f p1 x t _ N1 Q). apply H.
Qed.
Lemma removable_pt f p1 x t p2 : indep p1 p2 -> removable (pt f p1 x t) p2 = removable f p2.
Proof.
  intros I. pose proof I as (N1 & N2 & D & A & B). unfold removable. rewrite (has_children_pt f p1 x t p2 I).
  rewrite fs_get_pt by exact N1. apply not_eq_sym in D. apply peqb_neq in D. rewrite D.
  destruct (path_eqb p2 (parent p1)); [|reflexivity]. destruct (fs_get f p2); reflexivity.
Qed.

(* MKDIR and REMOVE as the backend performs them *)
Inductive nsop := NsMkdir (p : path) (perm : N) | NsRemove (p : path).
Definition ns_path (o : nsop) : path := match o with NsMkdir p _ | NsRemove p => p end.
Definition ns_run (f : fsmap) (o : nsop) (t : N) : fsmap * bool :=
  match o with
  | NsMkdir p perm => (fst (be_mkdir f p perm t), match snd (be_mkdir f p perm t) with Ok _ => true | Err _ => false end)
  | NsRemove p => (fst (be_remove f p t), match snd (be_remove f p t) with Ok _ => true | Err _ => false end)
  end.
(* closed form: a point update when enabled, nothing otherwise *)
Definition ns_enabled (f : fsmap) (o : nsop) : bool :=
  match o with NsMkdir p _ => creatable f p | NsRemove p => removable f p end.
Definition ns_obj (o : nsop) (t : N) : option obj :=
  match o with NsMkdir _ perm => Some (mk_dir (N.land perm 511) t) | NsRemove _ => None end.
Lemma ns_run_spec f o t : WF f -> nolinks f -> nodd (ns_path o) ->
  ns_run f o t = if ns_enabled f o then (pt f (ns_path o) (ns_obj o t) t, true) else (f, false).
Proof.
  intros W NL ND. destruct o as [p perm|p]; cbn [ns_run ns_enabled ns_obj ns_path pt] in *.
  - destruct (be_mkdir_spec f W NL p perm t ND) as [e S]. rewrite S. destruct (creatable f p); reflexivity.
  - destruct (be_remove_spec f W NL p t ND) as [e S]. rewrite S. destruct (removable f p); reflexivity.
Qed.
Lemma ns_enabled_pt f p1 x t o : indep p1 (ns_path o) -> ns_enabled (pt f p1 x t) o = ns_enabled f o.
Proof. destruct o; cbn [ns_enabled ns_path]; intros I; [apply creatable_pt|apply removable_pt]; exact I. Qed.
Lemma ns_run_wf f o t : WF f -> nolinks f -> nodd (ns_path o) -> WF (fst (ns_run f o t)) /\ nolinks (fst (ns_run f o t)).
Proof.
  intros W NL ND. rewrite (ns_run_spec f o t W NL ND). destruct (ns_enabled f o) eqn:E; cbn [fst]; [|split; assumption].
  destruct o as [p perm|p]; cbn [ns_enabled ns_obj ns_path pt] in *.
  - split; [apply WF_add; assumption|apply nolinks_add; [exact NL|discriminate]].
  - destruct (removable_spec f W p E) as (NE & _ & NC). split; [apply WF_del; assumption|apply nolinks_del; exact NL].
Qed.

(* MKDIR / REMOVE of independent names: the same outcomes in both orders, and the same tree up to the mtime of a
   shared parent directory (exactly the same tree when both happen at the same instant) *)
Theorem be_ns_commute f o1 t1 o2 t2 : WF f -> nolinks f -> nodd (ns_path o1) -> nodd (ns_path o2) ->
  indep (ns_path o1) (ns_path o2) ->
  let r1 := ns_run f o1 t1 in let r12 := ns_run (fst r1) o2 t2 in
  let r2 := ns_run f o2 t2 in let r21 := ns_run (fst r2) o1 t1 in
  snd r1 = snd r21 /\ snd r2 = snd r12 /\
  forall q, option_map (touch_o 0) (fs_get (fst r12) q) = option_map (touch_o 0) (fs_get (fst r21) q) /\
            (parent (ns_path o1) <> parent (ns_path o2) \/ q <> parent (ns_path o1) \/ t1 = t2 ->
             fs_get (fst r12) q = fs_get (fst r21) q).
Proof.
  intros W NL ND1 ND2 I. cbv zeta.
  destruct (ns_run_wf f o1 t1 W NL ND1) as [W1 NL1]. destruct (ns_run_wf f o2 t2 W NL ND2) as [W2 NL2].
  rewrite (ns_run_spec (fst (ns_run f o1 t1)) o2 t2 W1 NL1 ND2), (ns_run_spec (fst (ns_run f o2 t2)) o1 t1 W2 NL2 ND1).
  rewrite (ns_run_spec f o1 t1 W NL ND1), (ns_run_spec f o2 t2 W NL ND2).
  destruct (ns_enabled f o1) eqn:E1, (ns_enabled f o2) eqn:E2; cbn [fst snd].
  - rewrite (ns_enabled_pt f _ _ _ o2 I), (ns_enabled_pt f _ _ _ o1 (indep_sym _ _ I)), E1, E2. cbn [fst snd].
    split; [reflexivity|]. split; [reflexivity|]. intros q. apply pt_commute. exact I.
  - rewrite (ns_enabled_pt f _ _ _ o2 I), E1, E2. cbn [fst snd]. repeat split; reflexivity.
  - rewrite (ns_enabled_pt f _ _ _ o1 (indep_sym _ _ I)), E1, E2. cbn [fst snd]. repeat split; reflexivity.
  - rewrite E1, E2. cbn [fst snd]. repeat split; reflexivity.
Qed.

(* ====================================================================================================== *)
(* 6. what is NOT proved: commutation of two allocating requests at the handler level                    *)
(* ====================================================================================================== *)
(* states equal up to handle numbering, list order, caches, call log and directory mtimes: the trees agree up to
   mtime at every path, and a handle exists for a path in one state iff one exists in the other *)
Definition fs_equiv (f g : fsmap) : Prop := forall q, option_map (touch_o 0) (fs_get f q) = option_map (touch_o 0) (fs_get g q).
Definition handles_equiv (s t : srv) : Prop :=
  forall p, (exists h, get (hm s) h = Some p) <-> (exists h, get (hm t) h = Some p).
(* the projected reply with the returned handle replaced by the path it names *)
Definition proj_path (s' : srv) (o : obs) :=
  (ob_rpc o, ob_status o, match ob_fh o with Some h => get (hm s') h | None => None end,
   match ob_attrs o with x :: _ => option_map pfa x | [] => None end, ob_bytes o).
Definition creates_in (r : req) (h : N) (n : name) : Prop :=
  (exists how sa, r = RCreate h n how sa) \/ (exists sa, r = RMkdir h n sa) \/ r = RLookup h n.
Definition commute_distinct_statement : Prop :=
  forall s c1 r1 c2 r2 h1 n1 h2 n2 d1 da1 d2 da2,
    Good s -> creates_in r1 h1 n1 -> creates_in r2 h2 n2 ->
    lookup_node s h1 = Some (d1, da1) -> lookup_node s h2 = Some (d2, da2) ->
    indep (d1 ++ [n1]) (d2 ++ [n2]) ->
    (N.of_nat (length (handles (hm s))) + 2 <= eff_max (hm s)) ->          (* no eviction *)
    let s1 := fst (step s c1 r1) in let s2 := fst (step s c2 r2) in
    let a := step s1 c2 r2 in let b := step s2 c1 r1 in
    proj_path s1 (snd (step s c1 r1)) = proj_path (fst b) (snd b) /\
    proj_path s2 (snd (step s c2 r2)) = proj_path (fst a) (snd a) /\
    fs_equiv (fs (fst a)) (fs (fst b)) /\ handles_equiv (fst a) (fst b).

(* ====================================================================================================== *)
(* 7. non-vacuity: the hypotheses of the commutation theorems are met by a concrete reachable state       *)
(* ====================================================================================================== *)
(* MNT "/" (handle 1); CREATE a (handle 2); CREATE b (handle 3), caches on *)
Definition cm_hist : list hstep := ex_steps [RMnt [47]; RCreate 1 [97] 0 ex_sattr2; RCreate 1 [98] 0 ex_sattr2].
Definition cm_state : srv := hfinal ex_init cm_hist.
Lemma cm_state_good : Good cm_state.
Proof. apply Good_hfinal; [apply Good_ex_init|apply c02_hist_b_spec; vm_compute; reflexivity]. Qed.
(* GETATTR of /a against REMOVE of /b through the root handle *)
Example commute_hyps_met : exists a da,
  Good cm_state /\ attr_reader (RGetattr 2) = Some 2 /\ is_rm (RRemove 1 [98]) = Some (1, [98]) /\
  lookup_node cm_state 2 = Some ([[97]], a) /\ vname [98] /\ sanitize_ok [] [98] = true /\
  lookup_node cm_state 1 = Some ([], da) /\ na_kind da = KDir /\ ro (conf cm_state) = false /\
  kd (fs cm_state) [] = true /\ is_prefix ([] ++ [[98]]) [[97]] = false.
Proof.
  eexists. eexists. split; [exact cm_state_good|]. split; [reflexivity|]. split; [reflexivity|].
  split; [vm_compute; reflexivity|]. split; [vm_compute; reflexivity|]. split; [vm_compute; reflexivity|].
  split; [vm_compute; reflexivity|]. split; [vm_compute; reflexivity|]. split; [vm_compute; reflexivity|].
  split; vm_compute; reflexivity.
Qed.
(* ... and the two orders really give the same two replies and the same tree (the theorem, computed on this state) *)
Example commute_instance :
  let s1 := fst (step cm_state ex_cred2 (RGetattr 2)) in let s2 := fst (step cm_state ex_cred2 (RRemove 1 [98])) in
  proj (snd (step cm_state ex_cred2 (RGetattr 2))) = proj (snd (step s2 ex_cred2 (RGetattr 2))) /\
  ob_status (snd (step cm_state ex_cred2 (RRemove 1 [98]))) = 0 /\
  fs (fst (step s1 ex_cred2 (RRemove 1 [98]))) = fs (fst (step s2 ex_cred2 (RGetattr 2))) /\
  fs s2 <> fs cm_state.
Proof. cbv zeta. split; [vm_compute; reflexivity|]. split; [vm_compute; reflexivity|]. split; [vm_compute; reflexivity|]. vm_compute. discriminate. Qed.
(* backend commutation: MKDIR /a and REMOVE /b on a tree where /b exists, at different instants *)
Example be_commute_hyps_met :
  WF (fs cm_state) /\ nolinks (fs cm_state) /\ nodd (ns_path (NsMkdir [[99]] 493)) /\ nodd (ns_path (NsRemove [[98]])) /\
  indep (ns_path (NsMkdir [[99]] 493)) (ns_path (NsRemove [[98]])) /\
  snd (ns_run (fs cm_state) (NsMkdir [[99]] 493) 7) = true /\ snd (ns_run (fs cm_state) (NsRemove [[98]]) 9) = true.
Proof.
  split; [exact (g_wf _ cm_state_good)|]. split; [exact (g_nl _ cm_state_good)|].
  split; [repeat constructor|]. split; [repeat constructor|].
  split; [repeat split; cbn; discriminate|]. split; vm_compute; reflexivity.
Qed.
