(* Proofs/SrvCommute.v — property C29, spec side: why "some serial order" is a meaningful, checkable notion.

   A linearization is a total order of the completed requests; when two requests overlap in real time either order
   is admissible, so the check is only meaningful if requests that do not interfere COMMUTE on the observable
   projection.  This file proves, for the sequential model Model/Srv.step (under the invariant Good of
   Proofs/SrvCoh.v: well-formed link-free tree, good handle paths, coherent caches):

   1. [reader_no_disturb]   a read-only request r1 (GETATTR ACCESS READLINK READ READDIR FSSTAT FSINFO PATHCONF COMMIT
                            NULL) placed before ANY request r2 changes neither r2's projected reply nor - up to
                            cache contents and call log - the state r2 leaves: it touches caches only.
   2. [attr_reader_frame]   the reply of GETATTR/ACCESS/FSSTAT/FSINFO/PATHCONF depends only on the path the handle
                            names and on kind/perm/size of that path AND OF ITS PREFIXES (its footprint):
                            two Good states that agree there give the same projected reply.
   3. [commute_attr_reader] hence such a reader commutes with any request r2 that leaves its handle and its footprint
                            alone: same two projected replies and the same final state (up to caches) in both orders.
   4. [commute_reader_remove] the syntactic instance: REMOVE / RMDIR of name n in directory d against a reader
                            whose path is not at or below d/n - no further hypothesis (the directory's own
                            attributes may be read: only its mtime changes, which the projection excludes).
   5. [be_ns_commute]       at the backend: two successful or failed creations/removals of names p1, p2 that are
                            neither equal nor parent of one another give, in both orders, the same results and
                            the same tree up to the mtime of the parents (exactly the same when done at the same instant).

   NOT proved here (kept as [commute_distinct_statement]): the handler-level commutation of two ALLOCATING
   requests (CREATE/MKDIR/LOOKUP against CREATE/MKDIR/LOOKUP): the two orders issue different handle NUMBERS and
   build the association lists of the tree, the handle table and the node attributes in different ORDERS, so the
   statement needs an equivalence up to handle renaming and list permutation through every handler.  The
   run-time check compares handles through the paths they name for exactly this reason. *)
From Coq Require Import List NArith ZArith Bool Lia.
From Verif Require Import Gen.Facts Model.Handles Model.Backend Model.Srv Proofs.BackendWF Proofs.SrvPaths Proofs.SrvRO Proofs.SrvCoh.
Import ListNotations.
Open Scope N_scope.

(* ====================================================================================================== *)
(* 1. read-only requests touch caches and the call log only                                              *)
(* ====================================================================================================== *)
Definition reader (r : req) : bool :=
  match r with
  | RNull | RGetattr _ | RAccess _ _ | RReadlink _ | RRead _ _ _ | RReaddir _ _ _
  | RFsstat _ | RFsinfo _ | RPathconf _ | RCommit _ _ _ => true
  | _ => false
  end.
Lemma reader_c02 r : reader r = true -> c02_req r = true.
Proof. destruct r; cbn; congruence. Qed.

Lemma core_clear s : core s (clear_log s). Proof. repeat split. Qed.
Lemma core_logc s c : core s (logc s c). Proof. repeat split. Qed.
Lemma node_nodd s h p a : Good s -> lookup_node s h = Some (p, a) -> nodd p.
Proof. intros G L. apply gpath_nodd. apply lookup_node_get in L. exact (g_hok s G h p L). Qed.

(* after getattr_h: the state is a core-variant of the one before, whatever the result *)
Ltac ga_out G ND :=
  match goal with |- context [getattr_h ?s ?h ?p] =>
    let C := fresh "C" in let G1 := fresh "G1" in
    destruct (getattr_h_out s h p G ND) as [C G1];
    destruct (getattr_h s h p) as [? [?|?]]; cbn [fst snd] in *
  end.

Lemma handle_getattr_core s h : Good s -> core s (fst (handle_getattr s h)).
Proof.
  intros G. unfold handle_getattr. destruct (lookup_node s h) as [[p a]|] eqn:L; [|apply core_refl].
  pose proof (node_nodd s h p a G L) as ND. ga_out G ND; exact C.
Qed.
Lemma handle_access_core s c h m : Good s -> core s (fst (handle_access s c h m)).
Proof.
  intros G. unfold handle_access. destruct (lookup_node s h) as [[p a]|] eqn:L; [|apply core_refl].
  pose proof (node_nodd s h p a G L) as ND. ga_out G ND; exact C.
Qed.
Lemma handle_fsx_core s h f : Good s -> core s (fst (handle_fsx s h f)).
Proof.
  intros G. unfold handle_fsx. destruct (lookup_node s h) as [[p a]|] eqn:L; [|apply core_refl].
  pose proof (node_nodd s h p a G L) as ND. ga_out G ND; exact C.
Qed.
Lemma handle_commit_core s h : Good s -> core s (fst (handle_commit s h)).
Proof.
  intros G. unfold handle_commit. destruct (ro (conf s)); [apply core_refl|].
  destruct (lookup_node s h) as [[p a]|] eqn:L; [|apply core_refl].
  pose proof (node_nodd s h p a G L) as ND. ga_out G ND; exact C.
Qed.
Lemma handle_readlink_core s h : Good s -> core s (fst (handle_readlink s h)).
Proof.
  intros G. unfold handle_readlink. destruct (lookup_node s h) as [[p a]|] eqn:L; [|apply core_refl].
  pose proof (node_nodd s h p a G L) as ND.
  destruct (negb (kind_eqb (na_kind a) KLink)); [apply core_refl|].
  cbn [fs logc]. destruct (be_readlink (fs s) p) as [t|e]; [|apply core_logc].
  destruct (negb (is_abs t) && target_has_dotdot t); [apply core_logc|].
  pose proof (Good_logc s (bc BReadlink p) G) as GL.
  ga_out GL ND; (eapply core_trans; [apply core_logc|exact C]).
Qed.
Lemma handle_read_core s h off cnt : Good s -> core s (fst (handle_read s h off cnt)).
Proof.
  intros G. unfold handle_read. destruct (two64 - 1 - cnt <? off); [apply core_refl|].
  destruct (lookup_node s h) as [[p a]|] eqn:L; [|apply core_refl].
  pose proof (node_nodd s h p a G L) as ND.
  destruct (kind_eqb (na_kind a) KLink); [apply core_refl|].
  destruct (two63N <=? off); [apply core_refl|]. cbv zeta. cbn [fs logc].
  destruct (be_open (fs s) p false) as [q|e]; [|apply core_logc].
  destruct (fs_get (fs s) q) as [o|]; [|apply core_logc].
  pose proof (Good_logc s (bc BOpenR p) G) as GL.
  destruct (stat_size o <=? off); cbn [fst snd].
  - ga_out GL ND; (eapply core_trans; [apply core_logc|exact C]).
  - cbn [fs logc].
    destruct (be_readat (fs s) q off (N.min (N.min cnt (tsize (conf s))) (stat_size o - off))) as [data|e];
      [|eapply core_trans; apply core_logc].
    match goal with |- context [getattr_h ?s2 h p] => assert (GL2 : Good s2) by (apply Good_logc; exact GL) end.
    ga_out GL2 ND; (eapply core_trans; [apply core_logc|eapply core_trans; [apply core_logc|exact C]]).
Qed.
Lemma handle_readdir_core s h ck cnt : Good s -> core s (fst (handle_readdir s h ck cnt)).
Proof.
  intros G. unfold handle_readdir. destruct (lookup_node s h) as [[d a]|] eqn:L; [|apply core_refl].
  assert (GD : gpath d) by (apply lookup_node_get in L; exact (g_hok s G h d L)).
  pose proof (gpath_nodd d GD) as ND.
  destruct (negb (kind_eqb (na_kind a) KDir)); [apply core_refl|].
  destruct (srv_readdir_spec s d G GD) as (C1 & G1 & _).
  destruct (srv_readdir s d) as [s1 [ents|e]]; cbn [fst snd] in *; [|exact C1].
  ga_out G1 ND.
  - destruct (page false cnt 0 ck 0 dir_header_len ents) as [pg lim]. cbn [fst]. eapply core_trans; eassumption.
  - eapply core_trans; eassumption.
Qed.

Theorem reader_core s c r : Good s -> reader r = true -> core s (fst (step s c r)).
Proof.
  intros G R. pose proof (Good_clear s G) as G0. unfold step.
  destruct r; try discriminate; cbn [garbage_reply]; (eapply core_trans; [apply core_clear|]).
  - apply core_refl.
  - apply handle_getattr_core; exact G0.
  - apply handle_access_core; exact G0.
  - apply handle_readlink_core; exact G0.
  - apply handle_read_core; exact G0.
  - apply handle_readdir_core; exact G0.
  - apply handle_fsx_core; exact G0.
  - apply handle_fsx_core; exact G0.
  - apply handle_fsx_core; exact G0.
  - apply handle_commit_core; exact G0.
Qed.

Lemma core_sim s s' : core s s' -> sim s' s.
Proof. intros (A & B & C & D & E). split; congruence. Qed.
Lemma sim_sym s t : sim s t -> sim t s.
Proof. intros [A B C D E]. split; congruence. Qed.
Lemma sim_trans a b c : sim a b -> sim b c -> sim a c.
Proof. intros [A1 A2 A3 A4 A5] [B1 B2 B3 B4 B5]. split; congruence. Qed.

(* a read-only request placed before r2 is invisible to r2 *)
Theorem reader_no_disturb s c1 r1 c2 r2 : Good s -> reader r1 = true -> c02_req r2 = true ->
  HREL (step (fst (step s c1 r1)) c2 r2) (step s c2 r2).
Proof.
  intros G R OK. apply step_rel; [|exact OK]. split; [apply core_sim; apply reader_core; assumption|].
  split; [apply Good_step; [exact G|apply reader_c02; exact R]|exact G].
Qed.

(* ====================================================================================================== *)
(* 2. the footprint of an attribute reader: the path and the kinds along it                              *)
(* ====================================================================================================== *)
(* f2 agrees with f on kind/perm/size of p and of every prefix of p *)
Definition same_above (f f2 : fsmap) (p : path) : Prop := forall q, is_prefix q p = true -> pk f2 q = pk f q.
Lemma same_above_refl f p : same_above f f p. Proof. intros q _. reflexivity. Qed.
Lemma pk_none f q : pk f q = None <-> fs_get f q = None.
Proof. unfold pk. destruct (fs_get f q); cbn; split; congruence. Qed.

(* Lstat of an absent path fails the same way in both trees *)
Lemma be_stat_frame f f2 p : WF f -> nolinks f -> WF f2 -> nolinks f2 -> nodd p -> same_above f f2 p ->
  fs_get f p = None -> be_stat f2 p false = be_stat f p false.
Proof.
  intros W NL W2 NL2 ND SA Gp. unfold be_stat. rewrite !resolve_rwalk by assumption.
  rewrite (rwalk_ext f f2 p []); [reflexivity| |].
  - intros q Pq _. cbn [app] in Pq. pose proof (SA q Pq) as E. split; [apply pk_kd; exact E|].
    rewrite <- !pk_none. rewrite E. tauto.
  - cbn [app]. pose proof (SA p (is_prefix_refl p)) as E. pose proof (proj2 (pk_none f p) Gp) as Gk. rewrite Gk in E.
    apply pk_none in E. congruence.
Qed.

Lemma getattr_h_frame s s2 h p : Good s -> Good s2 -> nodd p -> same_above (fs s) (fs s2) p ->
  rres (snd (getattr_h s h p)) (snd (getattr_h s2 h p)).
Proof.
  intros G G2 ND SA. pose proof (getattr_h_res s h p G ND) as R. pose proof (getattr_h_res s2 h p G2 ND) as R2.
  pose proof (SA p (is_prefix_refl p)) as Ep. unfold pk in Ep.
  destruct (snd (getattr_h s h p)) as [a|e], (snd (getattr_h s2 h p)) as [a2|e2]; cbn [getattr_res rres] in *.
  - destruct R as [o [A1 A2]], R2 as [o2 [B1 B2]]. rewrite A1, B1 in Ep. cbn in Ep. injection Ep as E1 E2 E3.
    rewrite A2, B2. congruence.
  - destruct R as [o [A1 _]]. destruct (be_stat_err_inv (fs s2) (g_wf _ G2) (g_nl _ G2) p false e2 ND R2) as [B _].
    rewrite A1, B in Ep. discriminate.
  - destruct R2 as [o2 [B1 _]]. destruct (be_stat_err_inv (fs s) (g_wf _ G) (g_nl _ G) p false e ND R) as [A _].
    rewrite A, B1 in Ep. discriminate.
  - destruct (be_stat_err_inv (fs s) (g_wf _ G) (g_nl _ G) p false e ND R) as [A _].
    rewrite (be_stat_frame (fs s) (fs s2) p (g_wf _ G) (g_nl _ G) (g_wf _ G2) (g_nl _ G2) ND SA A) in R2. congruence.
Qed.

Definition attr_reader (r : req) : option N :=
  match r with
  | RGetattr h | RAccess h _ | RFsstat h | RFsinfo h | RPathconf h => Some h
  | _ => None
  end.
Lemma attr_reader_reader r h : attr_reader r = Some h -> reader r = true.
Proof. destruct r; cbn; congruence. Qed.

Ltac ga_frame G G2 ND SA :=
  match goal with |- context [getattr_h ?s ?h ?p] =>
    match goal with |- context [getattr_h ?s2 h p] =>
      tryif constr_eq s s2 then fail else
      (let R := fresh "R" in pose proof (getattr_h_frame s s2 h p G G2 ND SA) as R;
       destruct (getattr_h s h p) as [? [?|?]], (getattr_h s2 h p) as [? [?|?]]; cbn [fst snd rres] in R; try contradiction)
    end
  end.

(* two Good states in which the handle names the same path and which agree on the footprint answer alike *)
Theorem attr_reader_frame s s2 c r h p a a2 : Good s -> Good s2 -> attr_reader r = Some h ->
  lookup_node s h = Some (p, a) -> lookup_node s2 h = Some (p, a2) -> same_above (fs s) (fs s2) p ->
  proj (snd (step s c r)) = proj (snd (step s2 c r)).
Proof.
  intros G G2 AR L L2 SA. pose proof (Good_clear s G) as G0. pose proof (Good_clear s2 G2) as G02.
  pose proof (node_nodd s h p a G L) as ND.
  assert (SA0 : same_above (fs (clear_log s)) (fs (clear_log s2)) p) by exact SA.
  rewrite <- (lookup_node_clear s h) in L. rewrite <- (lookup_node_clear s2 h) in L2.
  unfold step. destruct r; try discriminate; cbn [garbage_reply attr_reader] in *; injection AR as ->.
  - unfold handle_getattr. rewrite L, L2. ga_frame G0 G02 ND SA0; cbn [snd].
    + unfold proj, ob_mk, sf. cbn. rewrite (pfa_pn _ _ R). reflexivity.
    + subst. reflexivity.
  - unfold handle_access. rewrite L, L2. ga_frame G0 G02 ND SA0; cbn [snd].
    + unfold proj, ob_mk, sf. cbn. rewrite (pfa_pn _ _ R). reflexivity.
    + subst. reflexivity.
  - unfold handle_fsx. rewrite L, L2. ga_frame G0 G02 ND SA0; cbn [snd].
    + unfold proj, ob_mk, sf. cbn. rewrite (pfa_pn _ _ R). reflexivity.
    + subst. reflexivity.
  - unfold handle_fsx. rewrite L, L2. ga_frame G0 G02 ND SA0; cbn [snd].
    + unfold proj, ob_mk, sf. cbn. rewrite (pfa_pn _ _ R). reflexivity.
    + subst. reflexivity.
  - unfold handle_fsx. rewrite L, L2. ga_frame G0 G02 ND SA0; cbn [snd].
    + unfold proj, ob_mk, sf. cbn. rewrite (pfa_pn _ _ R). reflexivity.
    + subst. reflexivity.
Qed.

(* ====================================================================================================== *)
(* 3. an attribute reader commutes with every request that leaves its handle and its footprint alone      *)
(* ====================================================================================================== *)
Theorem commute_attr_reader s c1 r1 c2 r2 h p a a2 :
  Good s -> attr_reader r1 = Some h -> c02_req r2 = true ->
  lookup_node s h = Some (p, a) ->
  lookup_node (fst (step s c2 r2)) h = Some (p, a2) ->          (* r2 leaves the handle's binding alone *)
  same_above (fs s) (fs (fst (step s c2 r2))) p ->              (* ... and kind/perm/size along the path *)
  let s1 := fst (step s c1 r1) in let s2 := fst (step s c2 r2) in
  proj (snd (step s c1 r1)) = proj (snd (step s2 c1 r1)) /\     (* r1 answers the same before and after r2 *)
  proj (snd (step s1 c2 r2)) = proj (snd (step s c2 r2)) /\     (* r2 answers the same after r1 and without it *)
  sim (fst (step s1 c2 r2)) (fst (step s2 c1 r1)) /\            (* both orders end in the same state up to caches *)
  fs (fst (step s1 c2 r2)) = fs (fst (step s2 c1 r1)).          (* in particular in the same tree *)
Proof.
  intros G AR OK L L2 SA. cbv zeta.
  pose proof (attr_reader_reader r1 h AR) as RD.
  pose proof (Good_step s c2 r2 G OK) as G2.
  destruct (reader_no_disturb s c1 r1 c2 r2 G RD OK) as [(S12 & _ & _) P12].
  pose proof (reader_core (fst (step s c2 r2)) c1 r1 G2 RD) as C21.
  assert (S : sim (fst (step (fst (step s c1 r1)) c2 r2)) (fst (step (fst (step s c2 r2)) c1 r1))).
  { eapply sim_trans; [exact S12|]. apply sim_sym. apply core_sim. exact C21. }
  split; [eapply attr_reader_frame; eassumption|]. split; [exact P12|]. split; [exact S|exact (sim_fs _ _ S)].
Qed.

(* ====================================================================================================== *)
(* 4. the syntactic instance: REMOVE / RMDIR of d/n against an attribute reader elsewhere                *)
(* ====================================================================================================== *)
(* REMOVE and RMDIR never touch the handle table or the per-handle node attributes *)
Definition HN (s s' : srv) : Prop := hm s' = hm s /\ nodes s' = nodes s.
Lemma HN_refl s : HN s s. Proof. split; reflexivity. Qed.
Lemma HN_trans a b c : HN a b -> HN b c -> HN a c.
Proof. intros [A1 A2] [B1 B2]. split; congruence. Qed.
Lemma ac_get_hn s p : HN s (fst (ac_get s p)).
Proof. unfold ac_get. des; cbn; split; reflexivity. Qed.
Lemma srv_getattr_hn s p u g : HN s (fst (srv_getattr s p u g)).
Proof.
  unfold srv_getattr. pose proof (ac_get_hn s p) as H. destruct (ac_get s p) as [s1 x]. cbn [fst] in H.
  unfold do_lstat. cbn [fst snd fs logc]. destruct (be_stat (fs s1) p false); cbn [fst];
    (eapply HN_trans; [exact H|split; reflexivity]).
Qed.
Lemma getattr_h_hn s h p : HN s (fst (getattr_h s h p)).
Proof. unfold getattr_h. destruct (node_get s h); apply srv_getattr_hn. Qed.
Lemma dc_invalidate_hn s q : HN s (dc_invalidate s q).
Proof. unfold dc_invalidate. destruct (dir_on (conf s)); split; reflexivity. Qed.
Lemma dc_invalidate_tree_hn s q : HN s (dc_invalidate_tree s q).
Proof. unfold dc_invalidate_tree. destruct (dir_on (conf s)); split; reflexivity. Qed.

Ltac hn :=
  cbn [fst snd];
  repeat match goal with
  | |- HN ?a ?a => apply HN_refl
  | |- HN ?a (logc ?b _) => apply HN_trans with b; [|split; reflexivity]
  | |- HN ?a (with_fs ?b _) => apply HN_trans with b; [|split; reflexivity]
  | |- HN ?a (ac_invalidate ?b _) => apply HN_trans with b; [|split; reflexivity]
  | |- HN ?a (ac_invalidate_tree ?b _) => apply HN_trans with b; [|split; reflexivity]
  | |- HN ?a (dc_invalidate ?b _) => apply HN_trans with b; [|apply dc_invalidate_hn]
  | |- HN ?a (dc_invalidate_tree ?b _) => apply HN_trans with b; [|apply dc_invalidate_tree_hn]
  | E : getattr_h ?b ?h ?p = (?c, _) |- HN ?a ?c =>
      apply HN_trans with b; [|let H := fresh in pose proof (getattr_h_hn b h p) as H; rewrite E in H; exact H]
  end.

Lemma failed_reply_hn s h d st_ a : HN s (fst (failed_reply s h d st_ a)).
Proof. unfold failed_reply. destruct (getattr_h s h d) as [s1 r] eqn:E. hn. Qed.
Lemma handle_remove_hn s h n : HN s (fst (handle_remove s h n)).
Proof.
  unfold handle_remove. cbv zeta. unfold lift_unit.
  destruct (ro (conf s)); [apply HN_refl|]. destruct (negb (validate_name n =? st_ok)); [apply HN_refl|].
  destruct (lookup_node s h) as [[d da]|]; [|apply HN_refl].
  destruct (negb (kind_eqb (na_kind da) KDir)); [apply HN_refl|].
  destruct (getattr_h s h d) as [s1 [dpre|e]] eqn:E1; [|hn].
  destruct (negb (sanitize_ok d n)).
  { eapply HN_trans; [|apply failed_reply_hn]. hn. }
  cbn [fst snd]. destruct (snd (be_remove (fs s1) (d ++ [n]) (now s1))).
  - match goal with |- context [getattr_h ?b h d] => destruct (getattr_h b h d) as [s3 [dp|e]] eqn:E3 end; hn.
  - eapply HN_trans; [|apply failed_reply_hn]. hn.
Qed.
Lemma handle_rmdir_hn s h n : HN s (fst (handle_rmdir s h n)).
Proof.
  unfold handle_rmdir. cbv zeta. unfold lift_unit.
  destruct (ro (conf s)); [apply HN_refl|]. destruct (negb (validate_name n =? st_ok)); [apply HN_refl|].
  destruct (lookup_node s h) as [[d da]|]; [|apply HN_refl].
  destruct (negb (kind_eqb (na_kind da) KDir)); [apply HN_refl|].
  destruct (getattr_h s h d) as [s1 [dpre|e]] eqn:E1; [|hn].
  unfold do_stat. cbn [fst snd]. destruct (be_stat (fs (logc s1 (bc BStat (d ++ [n])))) (d ++ [n]) true) as [fi|e]; [|hn].
  destruct (negb (kind_eqb (fi_kind fi) KDir)); [hn|].
  cbn [fst snd fs logc now]. destruct (snd (be_remove (fs s1) (d ++ [n]) (now s1))) as [u|e].
  - match goal with |- context [getattr_h ?b h d] => destruct (getattr_h b h d) as [s3 [dp|e]] eqn:E3 end; hn.
  - eapply HN_trans; [|apply failed_reply_hn]. hn.
Qed.
Lemma HN_lookup_node s s' h : HN s s' -> lookup_node s' h = lookup_node s h.
Proof. intros [A B]. unfold lookup_node, node_get. rewrite A, B. reflexivity. Qed.

Definition is_rm (r : req) : option (N * name) :=
  match r with RRemove h n | RRmdir h n => Some (h, n) | _ => None end.
Lemma rm_keeps_handles s c r hn_ : is_rm r = Some hn_ -> forall h, lookup_node (fst (step s c r)) h = lookup_node s h.
Proof.
  intros R h. unfold step. destruct (garbage_reply (clear_log s) r) as [o|]; [apply lookup_node_clear|].
  rewrite <- (lookup_node_clear s h). apply HN_lookup_node.
  destruct r; try discriminate; [apply handle_remove_hn|apply handle_rmdir_hn].
Qed.

(* the tree after REMOVE / RMDIR of d/n agrees with the tree before on every path that is not at or below d/n *)
Lemma rm_same_above s c r hd n d da p :
  Good s -> is_rm r = Some (hd, n) -> vname n -> sanitize_ok d n = true ->
  lookup_node s hd = Some (d, da) -> na_kind da = KDir -> ro (conf s) = false -> kd (fs s) d = true ->
  is_prefix (d ++ [n]) p = false -> same_above (fs s) (fs (fst (step s c r))) p.
Proof.
  intros G R V SAN L K RO KD NP.
  assert (X : fs (fst (step s c r)) = fs_rm (fs s) (d ++ [n]) (now s) \/ fs (fst (step s c r)) = fs s).
  { destruct r; try discriminate; cbn [is_rm] in R; injection R as -> ->.
    - destruct (posix_remove s c hd n d da G V L K RO KD SAN) as (_ & A & B).
      destruct (N.eq_dec (ob_status (snd (step s c (RRemove hd n)))) 0) as [E|E]; [left; apply A; exact E|right; apply B; exact E].
    - destruct (posix_rmdir s c hd n d da G V L K RO KD) as (_ & A & B).
      destruct (N.eq_dec (ob_status (snd (step s c (RRmdir hd n)))) 0) as [E|E]; [left; apply A; exact E|right; apply B; exact E]. }
  destruct X as [-> | ->]; [|apply same_above_refl].
  intros q Pq. apply pk_del; [apply snoc_nonnil|].
  intros ->. (* q = d ++ [n] would make d ++ [n] a prefix of p *)
  rewrite Pq in NP. discriminate.
Qed.

Theorem commute_reader_remove s c1 r1 c2 r2 h p a hd n d da :
  Good s -> attr_reader r1 = Some h -> is_rm r2 = Some (hd, n) ->
  lookup_node s h = Some (p, a) ->
  vname n -> sanitize_ok d n = true -> lookup_node s hd = Some (d, da) -> na_kind da = KDir ->
  ro (conf s) = false -> kd (fs s) d = true ->
  is_prefix (d ++ [n]) p = false ->                              (* the reader's path is not at or below d/n *)
  let s1 := fst (step s c1 r1) in let s2 := fst (step s c2 r2) in
  proj (snd (step s c1 r1)) = proj (snd (step s2 c1 r1)) /\
  proj (snd (step s1 c2 r2)) = proj (snd (step s c2 r2)) /\
  sim (fst (step s1 c2 r2)) (fst (step s2 c1 r1)) /\
  fs (fst (step s1 c2 r2)) = fs (fst (step s2 c1 r1)).
Proof.
  intros G AR R L V SAN Ld K RO KD NP.
  assert (OK : c02_req r2 = true) by (destruct r2; try discriminate; reflexivity).
  apply (commute_attr_reader s c1 r1 c2 r2 h p a a G AR OK L).
  - rewrite (rm_keeps_handles s c2 r2 (hd, n) R h). exact L.
  - eapply rm_same_above; eassumption.
Qed.
