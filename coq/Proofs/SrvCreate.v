(* Proofs/SrvCreate.v — lemmas for C03 (CREATE never destroys or silently reuses an existing object) and
   C11 (only an effective root identity can assign ownership) on the server model Model/Srv.v.

   Part 1: the backend map (fs_get / fs_upd / fs_set / walk / resolve / be_truncate / be_chown).
   Part 2: C03 — a walk through handle_create when an object exists at the target name.
   Part 3: C11 — a pre/post relation on the backend log ("every call added satisfies Q"), one lemma per
           primitive, a walk through EVERY handler, then step; SETATTR's uid/gid are ignored for non-root.
   Part 4: C11 — the owner fields of the tree: who ends up owning a new object. *)
From Coq Require Import List NArith ZArith Bool Lia ZifyBool ZifyNat ZifyN.
From Verif Require Import Gen.Facts Model.Handles Model.Backend Model.Srv Proofs.SrvRO.
Import ListNotations.
Open Scope N_scope.

(* ====================================================================================================== *)
(* 1. the backend map                                                                                     *)
(* ====================================================================================================== *)
Lemma bytes_eqb_eq a : forall b, bytes_eqb a b = true <-> a = b.
Proof.
  induction a as [|x a IH]; intros [|y b]; cbn; split; try discriminate; try reflexivity.
  - intros H. apply andb_true_iff in H. destruct H as [H1 H2]. apply N.eqb_eq in H1. apply IH in H2. congruence.
  - intros [= -> ->]. rewrite N.eqb_refl. cbn. apply IH. reflexivity.
Qed.
Lemma path_eqb_eq a : forall b, path_eqb a b = true <-> a = b.
Proof.
  induction a as [|x a IH]; intros [|y b]; cbn; split; try discriminate; try reflexivity.
  - intros H. apply andb_true_iff in H. destruct H as [H1 H2]. apply bytes_eqb_eq in H1. apply IH in H2. congruence.
  - intros [= -> ->]. apply andb_true_iff. split; [apply bytes_eqb_eq|apply IH]; reflexivity.
Qed.
Lemma path_eqb_refl a : path_eqb a a = true.
Proof. apply path_eqb_eq. reflexivity. Qed.
Lemma path_eqb_neq a b : path_eqb a b = false <-> a <> b.
Proof. rewrite <- path_eqb_eq. destruct (path_eqb a b); split; congruence. Qed.

(* reading after an in-place update *)
Lemma fs_get_upd f q g q' :
  fs_get (fs_upd f q g) q' = if path_eqb q' q then option_map g (fs_get f q') else fs_get f q'.
Proof.
  induction f as [|[k o] r IH]; cbn [fs_upd map fs_get fst snd]; [destruct (path_eqb q' q); reflexivity|].
  fold (fs_upd r q g). destruct (path_eqb q k) eqn:E1; cbn [fs_get].
  - apply path_eqb_eq in E1. subst k. destruct (path_eqb q' q) eqn:E2; [reflexivity|]. rewrite IH, ?E2. reflexivity.
  - destruct (path_eqb q' k) eqn:E2.
    + apply path_eqb_eq in E2. subst k. apply path_eqb_neq in E1.
      assert (E3 : path_eqb q' q = false) by (apply path_eqb_neq; congruence). rewrite E3. reflexivity.
    + exact IH.
Qed.
Lemma fs_get_upd_same f q g : fs_get (fs_upd f q g) q = option_map g (fs_get f q).
Proof. rewrite fs_get_upd, path_eqb_refl. reflexivity. Qed.
Lemma fs_get_upd_other f q g q' : q' <> q -> fs_get (fs_upd f q g) q' = fs_get f q'.
Proof. intros H. apply path_eqb_neq in H. rewrite fs_get_upd, H. reflexivity. Qed.

Lemma fs_get_del f q q' : fs_get (fs_del f q) q' = if path_eqb q' q then None else fs_get f q'.
Proof.
  induction f as [|[k o] r IH]; cbn [fs_del filter fs_get fst]; [destruct (path_eqb q' q); reflexivity|].
  fold (fs_del r q). destruct (path_eqb q k) eqn:E1; cbn [negb fs_get].
  - apply path_eqb_eq in E1. subst k. rewrite IH. destruct (path_eqb q' q); reflexivity.
  - destruct (path_eqb q' k) eqn:E2; [|exact IH].
    apply path_eqb_eq in E2. subst k. apply path_eqb_neq in E1.
    assert (E3 : path_eqb q' q = false) by (apply path_eqb_neq; congruence). rewrite E3. reflexivity.
Qed.
Lemma fs_get_set f q o q' : fs_get (fs_set f q o) q' = if path_eqb q' q then Some o else fs_get f q'.
Proof. unfold fs_set. cbn [fs_get]. destruct (path_eqb q' q) eqn:E; [reflexivity|]. rewrite fs_get_del, E. reflexivity. Qed.

(* a resolution that finds (q, o) finds what the map holds under q *)
Lemma walk_found_get f follow : forall fuel links canon todo q o,
  walk fuel links f canon todo follow = WFound q o -> fs_get f q = Some o.
Proof.
  induction fuel as [|fuel IH]; intros links canon todo q o; cbn [walk]; [discriminate|].
  destruct (fs_get f canon) as [cur|] eqn:Ec; [|discriminate].
  destruct todo as [|c rest]; [intros [= <- <-]; exact Ec|].
  destruct (negb (kind_eqb (o_kind cur) KDir)); [discriminate|].
  destruct (is_dotdot c); [apply IH|].
  destruct (fs_get f (canon ++ [c])) as [ch|] eqn:Ep; [|destruct rest; discriminate].
  destruct (kind_eqb (o_kind ch) KLink && (negb match rest with [] => true | _ => false end || follow)).
  - destruct links; [discriminate|apply IH].
  - destruct rest; [intros [= <- <-]; exact Ep|apply IH].
Qed.
Lemma resolve_found_get f p follow q o : resolve f p follow = WFound q o -> fs_get f q = Some o.
Proof. apply walk_found_get. Qed.

(* a non-following resolution that ends on something other than a symlink is also the following one *)
Lemma walk_nofollow_follow f : forall fuel links canon todo q o,
  walk fuel links f canon todo false = WFound q o -> o_kind o <> KLink ->
  walk fuel links f canon todo true = WFound q o.
Proof.
  induction fuel as [|fuel IH]; intros links canon todo q o; cbn [walk]; [discriminate|].
  destruct (fs_get f canon) as [cur|] eqn:Ec; [|discriminate].
  destruct todo as [|c rest]; [auto|].
  destruct (negb (kind_eqb (o_kind cur) KDir)); [discriminate|].
  destruct (is_dotdot c); [apply IH|].
  destruct (fs_get f (canon ++ [c])) as [ch|] eqn:Ep; [|destruct rest; discriminate].
  destruct rest as [|c2 rest].
  - cbn [negb orb]. rewrite andb_false_r, andb_true_r.
    intros [= <- <-] Hk. destruct (kind_eqb (o_kind ch) KLink) eqn:Ek; [|reflexivity].
    exfalso. apply Hk. destruct (o_kind ch); try discriminate Ek. reflexivity.
  - cbn [negb orb]. destruct (kind_eqb (o_kind ch) KLink && true).
    + destruct links; [discriminate|apply IH].
    + apply IH.
Qed.
Lemma resolve_nofollow_follow f p q o :
  resolve f p false = WFound q o -> o_kind o <> KLink -> resolve f p true = WFound q o.
Proof. apply walk_nofollow_follow. Qed.

Lemma be_stat_found f p follow fi :
  be_stat f p follow = Ok fi -> exists q o, resolve f p follow = WFound q o /\ fi = info_of o.
Proof. unfold be_stat. destruct (resolve f p follow) as [q o| |]; try discriminate. intros [= <-]. eauto. Qed.

(* what Truncate does to a regular file *)
Definition trunc_obj (sz t : N) (o : obj) : obj := set_data o sz (sd_trunc (o_data o) sz) t.
Lemma be_truncate_file f p sz t q o :
  resolve f p false = WFound q o -> o_kind o = KFile ->
  be_truncate f p (Z.of_N sz) t = (fs_upd f q (trunc_obj sz t), Ok tt).
Proof.
  intros R K. unfold be_truncate. rewrite (resolve_nofollow_follow f p q o R) by (rewrite K; discriminate).
  rewrite K. assert (E : (Z.of_N sz <? 0)%Z = false) by lia. rewrite E, N2Z.id. reflexivity.
Qed.

(* what Chown / Lchown do: the object the resolution finds gets exactly the given owner and group; nothing
   else about it and no other path changes *)
Definition chown_obj (u g : N) (o : obj) : obj := set_meta o (o_perm o) u g (o_mtime o).
Lemma be_meta_found f p follow g q o : resolve f p follow = WFound q o -> be_meta f p follow g = (fs_upd f q g, Ok tt).
Proof. intros R. unfold be_meta. rewrite R. reflexivity. Qed.
Lemma be_meta_err f p follow g e : snd (be_meta f p follow g) = Err e -> fst (be_meta f p follow g) = f.
Proof. unfold be_meta. destruct (resolve f p follow); cbn; [discriminate|reflexivity|reflexivity]. Qed.

(* ====================================================================================================== *)
(* 2. C03: CREATE of a name that exists                                                                   *)
(* ====================================================================================================== *)
Lemma RO_fs a b : RO a b -> fs b = fs a.
Proof. intros (H & _). exact H. Qed.
Lemma RO_conf a b : RO a b -> conf b = conf a.
Proof. intros (_ & H & _). exact H. Qed.

(* the clock is not touched by GetAttr *)
Lemma ac_get_now s p : now (fst (ac_get s p)) = now s.
Proof. unfold ac_get. des; reflexivity. Qed.
Lemma srv_getattr_now s p u g : now (fst (srv_getattr s p u g)) = now s.
Proof.
  unfold srv_getattr. destruct (ac_get s p) as [s1 x] eqn:E. pose proof (ac_get_now s p) as H. rewrite E in H.
  cbn [fst] in H. unfold do_lstat. destruct (be_stat (fs s1) p false); cbn; exact H.
Qed.
Lemma getattr_h_now s h p : now (fst (getattr_h s h p)) = now s.
Proof. unfold getattr_h. des; apply srv_getattr_now. Qed.

(* GetAttr succeeds exactly when Lstat does *)
Lemma srv_getattr_ok s p u g fi : be_stat (fs s) p false = Ok fi -> exists a, snd (srv_getattr s p u g) = Ok a.
Proof.
  intros H. unfold srv_getattr. destruct (ac_get s p) as [s1 x] eqn:E.
  pose proof (ac_get_ro s p) as R. rewrite E in R. apply RO_fs in R. cbn [fst] in R.
  unfold do_lstat. rewrite R, H. eexists. reflexivity.
Qed.
Lemma getattr_h_ok s h p fi : be_stat (fs s) p false = Ok fi -> exists a, snd (getattr_h s h p) = Ok a.
Proof. intros H. unfold getattr_h. des; eapply srv_getattr_ok; exact H. Qed.

Lemma failed_reply_ro s h d st_ dpre : RO s (fst (failed_reply s h d st_ dpre)).
Proof. unfold failed_reply. des; collect2; chain. Qed.
Lemma created_reply_ro s h d p a dpre : RO s (fst (created_reply s h d p a dpre)).
Proof. unfold created_reply. des; collect2; chain. Qed.
Lemma failed_reply_obs s h d st_ dpre :
  ob_rpc (snd (failed_reply s h d st_ dpre)) = 0 /\ ob_status (snd (failed_reply s h d st_ dpre)) = st_.
Proof. unfold failed_reply. destruct (getattr_h s h d). cbn. auto. Qed.
Lemma created_reply_rpc s h d p a dpre : ob_rpc (snd (created_reply s h d p a dpre)) = 0.
Proof. unfold created_reply. des; reflexivity. Qed.

Definition create_mode (how : N) (sa : sattr) : N :=
  if (how =? 0) || (how =? 1) then match s_mode sa with Some m => m | None => 420 end else 420.
Definition within_limit (s : srv) (sz : N) : Prop := maxfile (conf s) = 0 \/ sz <= maxfile (conf s).

Section CreateExists.
Variables (s0 : srv) (c : cred) (h : N) (n : name) (how : N) (sa : sattr) (d : path) (da : nattrs) (di fi : finfo).
Hypothesis Hro : ro (conf s0) = false.
Hypothesis Hn : validate_name n = st_ok.
Hypothesis Hl : lookup_node s0 h = Some (d, da).
Hypothesis Hdir : na_kind da = KDir.
Hypothesis Hd : be_stat (fs s0) d false = Ok di.
Hypothesis Hp : be_stat (fs s0) (d ++ [n]) false = Ok fi.

(* the common prefix: the request reaches the existence test with an unchanged tree *)
Ltac prefix :=
  unfold handle_create; rewrite Hro;
  replace (negb (validate_name n =? st_ok)) with false by (rewrite Hn; reflexivity);
  cbv zeta; fold (create_mode how sa).
Ltac reach s1 s2 dpre R1 R2 N2 :=
  rewrite Hl; replace (negb (kind_eqb (na_kind da) KDir)) with false by (rewrite Hdir; reflexivity);
  let pre := fresh "pre" in let E1 := fresh "E1" in let E2 := fresh "E2" in let ex := fresh "ex" in
  destruct (getattr_h s0 h d) as [s1 pre] eqn:E1;
  pose proof (getattr_h_ro s0 h d) as R1; rewrite E1 in R1; cbn [fst] in R1;
  pose proof (getattr_h_now s0 h d) as N2; rewrite E1 in N2; cbn [fst] in N2;
  destruct (getattr_h_ok s0 h d di Hd) as [dpre Hpre]; rewrite E1 in Hpre; cbn [snd] in Hpre; subst pre;
  destruct (do_lstat s1 (d ++ [n])) as [s2 ex] eqn:E2;
  assert (R2 : RO s0 s2) by (eapply RO_trans; [exact R1|]; pose proof (do_lstat_ro s1 (d ++ [n])) as X; rewrite E2 in X; exact X);
  assert (Hex : ex = Ok fi) by (unfold do_lstat in E2; injection E2 as _ <-; rewrite (RO_fs _ _ R1); exact Hp);
  assert (N2' : now s2 = now s0) by (unfold do_lstat in E2; injection E2 as <- _; exact N2);
  clear N2; rename N2' into N2; subst ex; clear E1 E2.

(* the one situation in which CREATE changes the tree although the name exists: UNCHECKED over a regular file
   with an explicit size below 2^63 and within MaxFileSize (and a valid mode) *)
Definition truncating (sz : N) : Prop :=
  how = 0 /\ fi_kind fi = KFile /\ validate_mode (create_mode how sa) = st_ok /\
  s_size sa = Some sz /\ sz < two63N /\ within_limit s0 sz.

Lemma create_exists_fs :
  let s' := fst (handle_create s0 c h n how sa) in
  (fs s' = fs s0 /\ forall sz, ~ truncating sz) \/
  (exists sz, truncating sz /\ fs s' = fst (be_truncate (fs s0) (d ++ [n]) (Z.of_N sz) (now s0))).
Proof.
  cbv zeta. prefix.
  destruct (negb (validate_mode (create_mode how sa) =? st_ok)) eqn:Em.
  { left. split; [reflexivity|]. intros sz (_ & _ & F & _). rewrite F in Em. vm_compute in Em. discriminate Em. }
  apply negb_false_iff, N.eqb_eq in Em.
  reach s1 s2 dpre R1 R2 N2.
  destruct (how =? 2) eqn:H2.
  { left. split; [|intros sz (F & _); rewrite F in H2; discriminate H2].
    apply RO_fs. apply RO_trans with s2; [exact R2|]. unfold failed_reply. des; collect2; chain. }
  destruct ((how =? 1) || negb (kind_eqb (fi_kind fi) KFile)) eqn:H1.
  { left. split; [apply RO_fs; apply RO_trans with s2; [exact R2|]; apply failed_reply_ro|].
    intros sz (F0 & Fk & _). rewrite F0, Fk in H1. discriminate H1. }
  apply orb_false_iff in H1. destruct H1 as [H1 Hk]. apply negb_false_iff in Hk.
  assert (Hkf : fi_kind fi = KFile) by (destruct (fi_kind fi); try discriminate Hk; reflexivity).
  destruct ((how =? 0) || (how =? 1)) eqn:Hws.
  2:{ left. split; [|intros sz (F & _); rewrite F in Hws; discriminate Hws].
      apply RO_fs. apply RO_trans with s2; [exact R2|]. cbn [fst snd]. unfold failed_reply, created_reply. des; collect2; chain. }
  rewrite H1, orb_false_r in Hws. apply N.eqb_eq in Hws.
  destruct (s_size sa) as [sz|] eqn:Hsz.
  2:{ left. split; [|intros sz (_ & _ & _ & F & _); rewrite Hsz in F; discriminate F].
      apply RO_fs. apply RO_trans with s2; [exact R2|]. cbn [fst snd]. unfold failed_reply, created_reply. des; collect2; chain. }
  destruct (two63N <=? sz) eqn:H63.
  { left. split; [|intros sz' (_ & _ & _ & F & F2 & _); rewrite Hsz in F; injection F as <-; apply N.leb_le in H63; lia].
    apply RO_fs. apply RO_trans with s2; [exact R2|]. cbn [fst snd]. unfold failed_reply, created_reply. des; collect2; chain. }
  destruct ((0 <? maxfile (conf s2)) && (maxfile (conf s2) <? sz)) eqn:Hmax; rewrite (RO_conf _ _ R2) in Hmax.
  { left. split; [|intros sz' (_ & _ & _ & F & _ & F2); rewrite Hsz in F; injection F as <-; unfold within_limit in F2; lia].
    apply RO_fs. apply RO_trans with s2; [exact R2|]. cbn [fst snd]. apply failed_reply_ro. }
  right. exists sz. split.
  { split; [exact Hws|]. split; [exact Hkf|]. split; [exact Em|]. split; [exact Hsz|].
    split; [apply N.leb_gt in H63; exact H63|]. unfold within_limit. lia. }
  rewrite (RO_fs _ _ R2), N2. unfold lift_unit. cbn [fst snd].
  set (tr := be_truncate (fs s0) (d ++ [n]) (Z.of_N sz) (now s0)).
  set (sT := ac_invalidate (logc (with_fs s2 (fst tr)) (bc2 BTruncate (d ++ [n]) [] sz 0)) (d ++ [n])).
  change (fst tr) with (fs sT).
  apply RO_fs. unfold failed_reply, created_reply. des; collect2; chain.
Qed.

Definition exists_status_spec (o : obs) : Prop :=
  (how = 2 -> ob_status o = st_ok \/ ob_status o = NFSERR_EXIST) /\
  (how <> 2 -> how = 1 \/ fi_kind fi <> KFile -> ob_status o = NFSERR_EXIST) /\
  (how = 0 -> fi_kind fi = KFile -> forall sz, s_size sa = Some sz -> sz < two63N -> ~ within_limit s0 sz ->
   ob_status o = NFSERR_FBIG).

Lemma create_exists_status :
  let o := snd (handle_create s0 c h n how sa) in
  ob_rpc o = 0 /\
  (validate_mode (create_mode how sa) <> st_ok -> ob_status o = NFSERR_INVAL) /\
  (validate_mode (create_mode how sa) = st_ok -> exists_status_spec o).
Proof.
  cbv zeta. prefix.
  destruct (negb (validate_mode (create_mode how sa) =? st_ok)) eqn:Em.
  { apply negb_true_iff, N.eqb_neq in Em. cbn [snd]. split; [reflexivity|]. split; [reflexivity|]. intros F. contradiction. }
  apply negb_false_iff, N.eqb_eq in Em.
  reach s1 s2 dpre R1 R2 N2.
  assert (K : forall o : obs, ob_rpc o = 0 -> exists_status_spec o ->
     ob_rpc o = 0 /\ (validate_mode (create_mode how sa) <> st_ok -> ob_status o = NFSERR_INVAL) /\
     (validate_mode (create_mode how sa) = st_ok -> exists_status_spec o)).
  { intros o A B. split; [exact A|]. split; [intros F; contradiction|intros _; exact B]. }
  destruct (how =? 2) eqn:H2.
  { apply N.eqb_eq in H2.
    assert (X : forall o : obs, ob_status o = st_ok \/ ob_status o = NFSERR_EXIST -> exists_status_spec o).
    { intros o B. split; [intros _; exact B|]. split; [intros F; contradiction|].
      intros F. rewrite F in H2. discriminate H2. }
    destruct (srv_lookup s2 (d ++ [n])) as [s3 [a|e]].
    - destruct (getattr_h s3 h d) as [s4 dpost]. destruct (alloc s4 (d ++ [n]) a) as [s5 fh]. cbn [snd].
      apply K; [reflexivity|]. apply X. left; reflexivity.
    - destruct (failed_reply_obs s3 h d NFSERR_EXIST dpre) as [A B]. apply K; [exact A|]. apply X. right; exact B. }
  apply N.eqb_neq in H2.
  destruct ((how =? 1) || negb (kind_eqb (fi_kind fi) KFile)) eqn:H1.
  { destruct (failed_reply_obs s2 h d NFSERR_EXIST dpre) as [A B]. apply K; [exact A|].
    split; [intros F; contradiction|]. split; [intros _ _; exact B|].
    intros F0 Fk. exfalso. apply orb_true_iff in H1. destruct H1 as [H1|H1].
    - apply N.eqb_eq in H1. rewrite F0 in H1. discriminate H1.
    - rewrite Fk in H1. discriminate H1. }
  apply orb_false_iff in H1. destruct H1 as [H1 Hk]. apply negb_false_iff in Hk.
  assert (Hkf : fi_kind fi = KFile) by (destruct (fi_kind fi); try discriminate Hk; reflexivity).
  apply N.eqb_neq in H1.
  assert (X : forall o : obs,
     (how = 0 -> forall sz, s_size sa = Some sz -> sz < two63N -> ~ within_limit s0 sz -> ob_status o = NFSERR_FBIG) ->
     exists_status_spec o).
  { intros o B. split; [intros F; contradiction|]. split.
    - intros _ [F|F]; contradiction.
    - intros F0 _. exact (B F0). }
  assert (RPC : forall r : srv * res nattrs, ob_rpc (snd (match r with
                 | (s3, Ok a0) => created_reply s3 h d (d ++ [n]) a0 dpre
                 | (s3, Err e) => failed_reply s3 h d (map_error e) dpre end)) = 0).
  { intros [s3 [a0|e]]; [apply created_reply_rpc|apply failed_reply_obs]. }
  destruct ((how =? 0) || (how =? 1)) eqn:Hws.
  2:{ cbn [fst snd]. apply K; [apply RPC|]. apply X. intros F0. rewrite F0 in Hws. discriminate Hws. }
  destruct (s_size sa) as [sz|] eqn:Hsz.
  2:{ cbn [fst snd]. apply K; [apply RPC|]. apply X. intros _ sz F. discriminate F. }
  destruct (two63N <=? sz) eqn:H63.
  { cbn [fst snd]. apply K; [apply RPC|]. apply X. intros _ sz' [= <-] F. apply N.leb_le in H63. lia. }
  destruct ((0 <? maxfile (conf s2)) && (maxfile (conf s2) <? sz)) eqn:Hmax.
  { cbn [fst snd]. destruct (failed_reply_obs s2 h d (map_error EFBIG) dpre) as [A B]. apply K; [exact A|]. apply X.
    intros _ sz' _ _ _. exact B. }
  rewrite (RO_conf _ _ R2) in Hmax.
  assert (WL : within_limit s0 sz) by (unfold within_limit; lia).
  cbn [fst snd].
  match goal with |- context [match ?r with Ok _ => _ | Err _ => _ end] => destruct r as [u|e] end.
  - apply K; [apply RPC|]. apply X. intros _ sz' [= <-] _ F. contradiction.
  - match goal with |- context [failed_reply ?a ?b ?c ?d ?e] => destruct (failed_reply_obs a b c d e) as [A B] end.
    apply K; [exact A|]. apply X. intros _ sz' [= <-] _ F. contradiction.
Qed.
End CreateExists.

(* ---------- C03 at the level of [step] ---------- *)
Lemma step_create_eq s c h n how sa :
  str_ok n = true -> step s c (RCreate h n how sa) = handle_create (clear_log s) c h n how sa.
Proof. intros H. unfold step. cbn [garbage_reply]. rewrite H. reflexivity. Qed.

Lemma valid_mode_default : validate_mode 420 = st_ok.
Proof. vm_compute. reflexivity. Qed.

Section StepCreate.
Variables (s : srv) (c : cred) (h : N) (n : name) (d : path) (da : nattrs) (di fi : finfo).
Hypothesis Hro : ro (conf s) = false.
Hypothesis Hn : validate_name n = st_ok.
Hypothesis Hs : str_ok n = true.
Hypothesis Hl : lookup_node s h = Some (d, da).
Hypothesis Hdir : na_kind da = KDir.
Hypothesis Hd : be_stat (fs s) d false = Ok di.
Hypothesis Hp : be_stat (fs s) (d ++ [n]) false = Ok fi.

Let FS how sa := create_exists_fs (clear_log s) c h n how sa d da di fi Hro Hn Hl Hdir Hd Hp.
Let ST how sa := create_exists_status (clear_log s) c h n how sa d da di fi Hro Hn Hl Hdir Hd Hp.

Lemma step_create_guarded sa :
  let r := step s c (RCreate h n 1 sa) in
  fs (fst r) = fs s /\ ob_rpc (snd r) = 0 /\
  (validate_mode (create_mode 1 sa) = st_ok -> ob_status (snd r) = NFSERR_EXIST) /\
  (validate_mode (create_mode 1 sa) <> st_ok -> ob_status (snd r) = NFSERR_INVAL).
Proof.
  cbv zeta. rewrite step_create_eq by exact Hs.
  destruct (FS 1 sa) as [[A _]|[sz [(F & _) _]]]; [|discriminate F].
  destruct (ST 1 sa) as (B & C & D). cbv zeta in *. split; [exact A|]. split; [exact B|]. split; [|exact C].
  intros V. destruct (D V) as (_ & E & _). apply E; [discriminate|left; reflexivity].
Qed.

Lemma mode_excl sa : validate_mode (create_mode 2 sa) = st_ok.
Proof. exact valid_mode_default. Qed.

Lemma step_create_exclusive_untouched sa : fs (fst (step s c (RCreate h n 2 sa))) = fs s.
Proof.
  rewrite step_create_eq by exact Hs.
  destruct (FS 2 sa) as [[A _]|[sz [(F & _) _]]]; [exact A|discriminate F].
Qed.
Lemma step_create_exclusive_partial sa :
  let o := snd (step s c (RCreate h n 2 sa)) in
  ob_rpc o = 0 /\ (ob_status o = st_ok \/ ob_status o = NFSERR_EXIST).
Proof.
  cbv zeta. rewrite step_create_eq by exact Hs.
  destruct (ST 2 sa) as (B & _ & D). cbv zeta in *. split; [exact B|].
  destruct (D (mode_excl sa)) as (E & _). apply E. reflexivity.
Qed.

(* UNCHECKED *)
Lemma step_create_unchecked_keep sa :
  fi_kind fi = KFile -> s_size sa = None -> fs (fst (step s c (RCreate h n 0 sa))) = fs s.
Proof.
  intros _ Hz. rewrite step_create_eq by exact Hs.
  destruct (FS 0 sa) as [[A _]|[sz [(_ & _ & _ & F & _) _]]]; [exact A|]. rewrite Hz in F. discriminate F.
Qed.
Lemma step_create_unchecked_nonfile sa :
  fi_kind fi <> KFile ->
  let r := step s c (RCreate h n 0 sa) in
  fs (fst r) = fs s /\ ob_rpc (snd r) = 0 /\
  (validate_mode (create_mode 0 sa) = st_ok -> ob_status (snd r) = NFSERR_EXIST) /\
  (validate_mode (create_mode 0 sa) <> st_ok -> ob_status (snd r) = NFSERR_INVAL).
Proof.
  intros Hk. cbv zeta. rewrite step_create_eq by exact Hs.
  destruct (FS 0 sa) as [[A _]|[sz [(_ & F & _) _]]]; [|contradiction].
  destruct (ST 0 sa) as (B & C & D). cbv zeta in *. split; [exact A|]. split; [exact B|]. split; [|exact C].
  intros V. destruct (D V) as (_ & E & _). apply E; [discriminate|right; exact Hk].
Qed.

(* UNCHECKED over a regular file with a size: exactly Truncate(size) of the resolved target, or nothing *)
Lemma step_create_unchecked_size sa sz :
  fi_kind fi = KFile -> s_size sa = Some sz ->
  let r := step s c (RCreate h n 0 sa) in
  exists q o, resolve (fs s) (d ++ [n]) false = WFound q o /\ fs_get (fs s) q = Some o /\ o_kind o = KFile /\
    (validate_mode (create_mode 0 sa) = st_ok -> sz < two63N -> within_limit s sz ->
       fs (fst r) = fs_upd (fs s) q (trunc_obj sz (now s))) /\
    (validate_mode (create_mode 0 sa) <> st_ok \/ two63N <= sz \/ ~ within_limit s sz -> fs (fst r) = fs s) /\
    (validate_mode (create_mode 0 sa) = st_ok -> sz < two63N -> ~ within_limit s sz -> ob_status (snd r) = NFSERR_FBIG).
Proof.
  intros Hk Hz. cbv zeta. rewrite step_create_eq by exact Hs.
  destruct (be_stat_found _ _ _ _ Hp) as (q & o & Rq & Hfi).
  assert (Ko : o_kind o = KFile) by (rewrite Hfi in Hk; exact Hk).
  exists q, o. split; [exact Rq|]. split; [apply (resolve_found_get _ _ _ _ _ Rq)|]. split; [exact Ko|].
  change (fs s) with (fs (clear_log s)) in Rq. change (now s) with (now (clear_log s)).
  destruct (FS 0 sa) as [[A NT]|[sz' [T A]]].
  - split; [|split; [intros _; exact A|]].
    + intros V L W. exfalso. apply (NT sz). repeat split; assumption.
    + intros V L W. destruct (ST 0 sa) as (_ & _ & D). destruct (D V) as (_ & _ & E). apply (E eq_refl Hk sz Hz L W).
  - destruct T as (_ & _ & V & F & L & W). rewrite Hz in F. injection F as <-.
    rewrite (be_truncate_file _ _ _ _ _ _ Rq Ko) in A. cbn [fst] in A.
    split; [intros _ _ _; exact A|]. split.
    + intros [X|[X|X]]; [contradiction|lia|contradiction].
    + intros _ _ X. contradiction.
Qed.

(* ... hence every other path is untouched, and the target keeps everything but size, data and mtime *)
Lemma step_create_unchecked_frame sa :
  fi_kind fi = KFile ->
  let s' := fst (step s c (RCreate h n 0 sa)) in
  exists q o, resolve (fs s) (d ++ [n]) false = WFound q o /\ fs_get (fs s) q = Some o /\
    (forall q', q' <> q -> fs_get (fs s') q' = fs_get (fs s) q') /\
    exists o', fs_get (fs s') q = Some o' /\
      o_kind o' = o_kind o /\ o_perm o' = o_perm o /\ o_uid o' = o_uid o /\ o_gid o' = o_gid o /\
      o_target o' = o_target o /\ o_dsize o' = o_dsize o /\ o_ddata o' = o_ddata o /\
      (o' = o \/ exists sz, s_size sa = Some sz /\ o_size o' = sz /\ o_data o' = sd_trunc (o_data o) sz).
Proof.
  intros Hk. cbv zeta.
  destruct (s_size sa) as [sz|] eqn:Hz.
  - destruct (step_create_unchecked_size sa sz Hk Hz) as (q & o & Rq & G & Ko & T & U & _). cbv zeta in *.
    exists q, o. split; [exact Rq|]. split; [exact G|].
    destruct (N.ltb_spec sz two63N) as [L|L].
    2:{ rewrite (U (or_intror (or_introl L))). split; [reflexivity|]. exists o. repeat split; auto. }
    assert (WD : within_limit s sz \/ ~ within_limit s sz) by (unfold within_limit; lia).
    destruct WD as [W|W].
    2:{ rewrite (U (or_intror (or_intror W))). split; [reflexivity|]. exists o. repeat split; auto. }
    destruct (N.eq_dec (validate_mode (create_mode 0 sa)) st_ok) as [V|V].
    2:{ rewrite (U (or_introl V)). split; [reflexivity|]. exists o. repeat split; auto. }
    rewrite (T V L W). split; [intros q' Hq; apply fs_get_upd_other; exact Hq|].
    exists (trunc_obj sz (now s) o). rewrite fs_get_upd_same, G. cbn [option_map].
    repeat split. right. exists sz. repeat split.
  - destruct (be_stat_found _ _ _ _ Hp) as (q & o & Rq & Hfi).
    rewrite (step_create_unchecked_keep sa Hk Hz). exists q, o. split; [exact Rq|].
    split; [apply (resolve_found_get _ _ _ _ _ Rq)|]. split; [reflexivity|].
    exists o. split; [apply (resolve_found_get _ _ _ _ _ Rq)|]. repeat split; auto.
Qed.

(* no mode truncates without an explicit size *)
Lemma step_create_no_size how sa : s_size sa = None -> fs (fst (step s c (RCreate h n how sa))) = fs s.
Proof.
  intros Hz. rewrite step_create_eq by exact Hs.
  destruct (FS how sa) as [[A _]|[sz [(_ & _ & _ & F & _) _]]]; [exact A|]. rewrite Hz in F. discriminate F.
Qed.
(* ... and whatever the request, either nothing changes or it is the UNCHECKED truncation *)
Lemma step_create_exists_fs how sa :
  let s' := fst (step s c (RCreate h n how sa)) in
  fs s' = fs s \/ (how = 0 /\ fi_kind fi = KFile /\ exists sz, s_size sa = Some sz /\ sz < two63N /\ within_limit s sz /\
                   fs s' = fst (be_truncate (fs s) (d ++ [n]) (Z.of_N sz) (now s))).
Proof.
  cbv zeta. rewrite step_create_eq by exact Hs.
  destruct (FS how sa) as [[A _]|[sz [(F0 & Fk & _ & Fz & L & W) A]]]; [left; exact A|].
  right. split; [exact F0|]. split; [exact Fk|]. exists sz. repeat split; assumption.
Qed.
End StepCreate.

(* ====================================================================================================== *)
(* 3. C11: the Chown / Lchown calls of every procedure                                                    *)
(* ====================================================================================================== *)
Definition is_chown (b : bcall) : bool := match b_op b with BChown | BLchown => true | _ => false end.
Definition chown_like (b : bcall) : Prop := b_op b = BChown \/ b_op b = BLchown.
Lemma is_chown_iff b : is_chown b = true <-> chown_like b.
Proof. unfold is_chown, chown_like. destruct (b_op b); split; intros H; try discriminate H; try destruct H as [H|H]; try discriminate H; auto. Qed.

(* same backend log *)
Definition SB (s s' : srv) : Prop := blog s' = blog s.

Ltac ldes :=
  repeat (cbn [fst snd]; match goal with
  | |- context [match ?x with _ => _ end] =>
      lazymatch x with context [match _ with _ => _ end] => fail | _ => destruct x eqn:? end
  end).

Lemma SB_ac_get s p : SB s (fst (ac_get s p)). Proof. unfold SB, ac_get. ldes; reflexivity. Qed.
Lemma SB_ac_put_negative s p : SB s (ac_put_negative s p). Proof. unfold SB, ac_put_negative. ldes; reflexivity. Qed.
Lemma SB_dc_get s p : SB s (fst (dc_get s p)). Proof. unfold SB, dc_get. ldes; reflexivity. Qed.
Lemma SB_dc_put s p n : SB s (dc_put s p n). Proof. unfold SB, dc_put. ldes; reflexivity. Qed.
Lemma SB_dc_invalidate s p : SB s (dc_invalidate s p). Proof. unfold SB, dc_invalidate. ldes; reflexivity. Qed.
Lemma SB_dc_invalidate_tree s p : SB s (dc_invalidate_tree s p). Proof. unfold SB, dc_invalidate_tree. ldes; reflexivity. Qed.
Lemma SB_node_upd s h f : SB s (node_upd s h f). Proof. unfold SB, node_upd. ldes; reflexivity. Qed.
Lemma SB_alloc s p a : SB s (fst (alloc s p a)).
Proof. unfold SB, alloc. destruct (allocate path_eqb (hm s) p). reflexivity. Qed.

Section Log.
Variable Q : bcall -> Prop.
Hypothesis HQ : forall b, is_chown b = false -> Q b.

(* every backend call added between s and s' satisfies Q *)
Definition LG (s s' : srv) : Prop := forall b, In b (blog s') -> In b (blog s) \/ Q b.
Lemma LG_refl s : LG s s. Proof. intros b H. left. exact H. Qed.
Lemma LG_trans a b c : LG a b -> LG b c -> LG a c.
Proof. intros A B x Hx. destruct (B x Hx) as [H|H]; [apply A; exact H|right; exact H]. Qed.
Lemma LG_SB s s' : SB s s' -> LG s s'. Proof. intros E b H. left. rewrite <- E. exact H. Qed.
Lemma LG_logc s c : Q c -> LG s (logc s c).
Proof. intros H b [<-|Hb]; [right; exact H|left; exact Hb]. Qed.
Lemma LG_lift_unit s c r : Q c -> LG s (fst (lift_unit s c r)).
Proof. intros H b [<-|Hb]; [right; exact H|left; exact Hb]. Qed.
Lemma LG_do_lstat s p : LG s (fst (do_lstat s p)). Proof. apply LG_logc, HQ. reflexivity. Qed.
Lemma LG_do_stat s p : LG s (fst (do_stat s p)). Proof. apply LG_logc, HQ. reflexivity. Qed.

Ltac lfact E stmt tac := let H := fresh "R" in assert (H : stmt) by tac; rewrite E in H; cbn [fst] in H.
Ltac lcollect :=
  repeat match goal with
  | E : ac_get ?s ?p = (_, _) |- _ => lfact E (LG s (fst (ac_get s p))) ltac:(apply LG_SB, SB_ac_get); clear E
  | E : dc_get ?s ?p = (_, _) |- _ => lfact E (LG s (fst (dc_get s p))) ltac:(apply LG_SB, SB_dc_get); clear E
  | E : alloc ?s ?p ?a = (_, _) |- _ => lfact E (LG s (fst (alloc s p a))) ltac:(apply LG_SB, SB_alloc); clear E
  | E : do_lstat ?s ?p = (_, _) |- _ => lfact E (LG s (fst (do_lstat s p))) ltac:(apply LG_do_lstat); clear E
  | E : do_stat ?s ?p = (_, _) |- _ => lfact E (LG s (fst (do_stat s p))) ltac:(apply LG_do_stat); clear E
  end.
Ltac qside := first [ assumption | apply HQ; reflexivity | solve [auto] ].
Ltac lchain :=
  cbn [fst snd];
  repeat match goal with
  | |- LG ?a ?a => apply LG_refl
  | H : LG ?a ?b |- LG ?a ?b => exact H
  | |- LG ?a (ac_put ?b _ _) => apply LG_trans with b; [|apply LG_SB; reflexivity]
  | |- LG ?a (ac_put_negative ?b _) => apply LG_trans with b; [|apply LG_SB, SB_ac_put_negative]
  | |- LG ?a (ac_invalidate ?b _) => apply LG_trans with b; [|apply LG_SB; reflexivity]
  | |- LG ?a (ac_invalidate_tree ?b _) => apply LG_trans with b; [|apply LG_SB; reflexivity]
  | |- LG ?a (ac_invalidate_neg_in_dir ?b _) => apply LG_trans with b; [|apply LG_SB; reflexivity]
  | |- LG ?a (dc_put ?b _ _) => apply LG_trans with b; [|apply LG_SB, SB_dc_put]
  | |- LG ?a (dc_invalidate ?b _) => apply LG_trans with b; [|apply LG_SB, SB_dc_invalidate]
  | |- LG ?a (dc_invalidate_tree ?b _) => apply LG_trans with b; [|apply LG_SB, SB_dc_invalidate_tree]
  | |- LG ?a (node_set ?b _ _) => apply LG_trans with b; [|apply LG_SB; reflexivity]
  | |- LG ?a (node_upd ?b _ _) => apply LG_trans with b; [|apply LG_SB, SB_node_upd]
  | |- LG ?a (with_fs ?b _) => apply LG_trans with b; [|apply LG_SB; reflexivity]
  | |- LG ?a (with_conf ?b _) => apply LG_trans with b; [|apply LG_SB; reflexivity]
  | |- LG ?a (invalidate_for_new ?b _ _) => unfold invalidate_for_new
  | |- LG ?a (logc ?b ?c) => apply LG_trans with b; [|apply LG_logc; qside]
  | |- LG ?a (fst (lift_unit ?b ?c ?r)) => apply LG_trans with b; [|apply LG_lift_unit; qside]
  | H : LG ?b ?c |- LG ?a ?c => apply LG_trans with b; [|exact H]
  end.

Lemma LG_srv_lookup s p : LG s (fst (srv_lookup s p)).
Proof. unfold srv_lookup. ldes; lcollect; lchain. Qed.
Lemma LG_srv_getattr s p u g : LG s (fst (srv_getattr s p u g)).
Proof. unfold srv_getattr. ldes; lcollect; lchain. Qed.
Lemma LG_getattr_h s h p : LG s (fst (getattr_h s h p)).
Proof. unfold getattr_h. ldes; apply LG_srv_getattr. Qed.

Ltac lcollect2 :=
  repeat match goal with
  | E : srv_lookup ?s ?p = (_, _) |- _ => lfact E (LG s (fst (srv_lookup s p))) ltac:(apply LG_srv_lookup); clear E
  | E : getattr_h ?s ?h ?p = (_, _) |- _ => lfact E (LG s (fst (getattr_h s h p))) ltac:(apply LG_getattr_h); clear E
  | E : srv_getattr ?s ?p ?u ?g = (_, _) |- _ => lfact E (LG s (fst (srv_getattr s p u g))) ltac:(apply LG_srv_getattr); clear E
  end; lcollect.

Lemma LG_failed_reply s h d st_ dpre : LG s (fst (failed_reply s h d st_ dpre)).
Proof. unfold failed_reply. ldes; lcollect2; lchain. Qed.
Lemma LG_created_reply s h d p a dpre : LG s (fst (created_reply s h d p a dpre)).
Proof. unfold created_reply. ldes; lcollect2; lchain. Qed.

Ltac lchain2 :=
  cbn [fst snd];
  repeat first
  [ match goal with
    | |- LG ?a (fst (failed_reply ?b _ _ _ _)) => apply LG_trans with b; [|apply LG_failed_reply]
    | |- LG ?a (fst (created_reply ?b _ _ _ _ _)) => apply LG_trans with b; [|apply LG_created_reply]
    | |- LG ?a (fst (srv_lookup ?b _)) => apply LG_trans with b; [|apply LG_srv_lookup]
    | |- LG ?a (fst (getattr_h ?b _ _)) => apply LG_trans with b; [|apply LG_getattr_h]
    end
  | progress lchain ].
Ltac lhandler := cbv zeta; ldes; lcollect2; lchain2.

Lemma LG_lookup_all d names : forall s, LG s (fst (lookup_all s d names)).
Proof.
  induction names as [|n r IH]; intros s; cbn [lookup_all]; [apply LG_refl|].
  destruct (is_dot n || is_dotdot n || negb (sanitize_ok d n)); [apply IH|].
  destruct (srv_lookup s (d ++ [n])) as [s1 lr] eqn:E.
  pose proof (IH s1) as H1. destruct (lookup_all s1 d r) as [s2 rest]. cbn [fst] in H1.
  lcollect2. destruct lr; cbn [fst]; lchain.
Qed.
Lemma LG_refresh_all l : forall s, LG s (fst (refresh_all s l)).
Proof.
  induction l as [|[p a] r IH]; intros s; cbn [refresh_all]; [apply LG_refl|].
  destruct (ac_get s p) as [s0 x] eqn:E0. destruct (do_lstat s0 p) as [s1 li] eqn:E1.
  lcollect2. destruct li as [fi|e].
  - pose proof (IH (ac_put s1 p (attrs_of_info fi (na_fileid a) (na_uid a) (na_gid a)))) as H.
    destruct (refresh_all _ r) as [s2 rest]. cbn [fst] in *. lchain.
  - pose proof (IH s1) as H. destruct (refresh_all s1 r) as [s2 rest]. cbn [fst] in *. lchain.
Qed.
Lemma LG_alloc_all pg : forall s, LG s (fst (alloc_all s pg)).
Proof.
  induction pg as [|[ck [p a]] r IH]; intros s; cbn [alloc_all]; [apply LG_refl|].
  destruct (alloc s p a) as [s1 fh] eqn:E. pose proof (IH s1) as H. destruct (alloc_all s1 r) as [s2 rest].
  lcollect. cbn [fst] in *. lchain.
Qed.
Lemma LG_srv_readdir s d : LG s (fst (srv_readdir s d)).
Proof.
  unfold srv_readdir.
  assert (Hhit : LG s (fst (if dir_on (conf s) then dc_get s d else (s, None)))).
  { destruct (dir_on (conf s)); [apply LG_SB, SB_dc_get|apply LG_refl]. }
  destruct (if dir_on (conf s) then dc_get s d else (s, None)) as [s0 hit]. cbn [fst snd] in *.
  destruct hit as [names|].
  - pose proof (LG_lookup_all d names s0) as H. destruct (lookup_all s0 d names) as [s1 l]. cbn [fst] in *. lchain.
  - destruct (be_open (fs (logc s0 (bc BOpenR d))) d false) as [q|e]; cbn [fst]; [|lchain].
    destruct (be_readdir _ q) as [ents|e]; cbn [fst]; [|lchain].
    match goal with |- context [lookup_all ?st d ?nm] =>
      pose proof (LG_lookup_all d nm st) as H; destruct (lookup_all st d nm) as [s4 l] end.
    cbn [fst] in *. eapply LG_trans; [|exact H].
    destruct (dir_on (conf (logc (logc s0 (bc BOpenR d)) (bc BReaddir d)))); lchain.
Qed.

(* ---------- the handlers without any Chown ---------- *)
Lemma LG_handle_getattr s h : LG s (fst (handle_getattr s h)).
Proof. unfold handle_getattr. lhandler. Qed.
Lemma LG_handle_access s c h m : LG s (fst (handle_access s c h m)).
Proof. unfold handle_access. lhandler. Qed.
Lemma LG_handle_lookup s h n : LG s (fst (handle_lookup s h n)).
Proof. unfold handle_lookup, current_attrs. lhandler. Qed.
Lemma LG_handle_readlink s h : LG s (fst (handle_readlink s h)).
Proof. unfold handle_readlink. lhandler. Qed.
Lemma LG_handle_fsx s h f : LG s (fst (handle_fsx s h f)).
Proof. unfold handle_fsx. lhandler. Qed.
Lemma LG_mnt_prefix_check fuel : forall s pre, LG s (fst (mnt_prefix_check s pre fuel)).
Proof.
  induction fuel as [|k IH]; intros s pre; cbn [mnt_prefix_check]; [destruct pre; apply LG_refl|].
  destruct pre as [|c r]; [apply LG_refl|].
  destruct (do_lstat s (c :: r)) as [s1 res] eqn:E.
  assert (H1 : LG s s1) by (pose proof (LG_do_lstat s (c :: r)) as H; rewrite E in H; exact H).
  destruct res as [fi|e]; [destruct (kind_eqb (fi_kind fi) KLink)|]; cbn [fst]; try exact H1;
  (eapply LG_trans; [exact H1|apply IH]).
Qed.
Lemma LG_handle_mnt s p : LG s (fst (handle_mnt s p)).
Proof.
  unfold handle_mnt. cbv zeta. destruct (negb (is_abs p)); [apply LG_refl|].
  destruct (mnt_prefix_check s _ _) as [s0 linked] eqn:E.
  assert (H0 : LG s s0) by (match type of E with mnt_prefix_check ?a ?b ?c = _ => pose proof (LG_mnt_prefix_check c a b) as H; rewrite E in H; exact H end).
  destruct linked; cbn [fst]; [exact H0|].
  eapply LG_trans; [exact H0|]. ldes; lcollect2; lchain2.
Qed.
Lemma LG_handle_commit s h : LG s (fst (handle_commit s h)).
Proof. unfold handle_commit. lhandler. Qed.
Lemma LG_handle_read s h off cnt : LG s (fst (handle_read s h off cnt)).
Proof. unfold handle_read. lhandler. Qed.
Lemma LG_handle_readdir s h ck cnt : LG s (fst (handle_readdir s h ck cnt)).
Proof.
  unfold handle_readdir. cbv zeta. ldes; lcollect2;
  repeat match goal with E : srv_readdir ?s ?d = (_, _) |- _ => lfact E (LG s (fst (srv_readdir s d))) ltac:(apply LG_srv_readdir); clear E end;
  lchain2.
Qed.
Lemma LG_handle_readdirplus s h ck mc : LG s (fst (handle_readdirplus s h ck mc)).
Proof.
  unfold handle_readdirplus. cbv zeta. ldes; lcollect2;
  repeat match goal with
  | E : srv_readdir ?s ?d = (_, _) |- _ => lfact E (LG s (fst (srv_readdir s d))) ltac:(apply LG_srv_readdir); clear E
  | E : refresh_all ?s ?l = (_, _) |- _ => lfact E (LG s (fst (refresh_all s l))) ltac:(apply LG_refresh_all); clear E
  | E : alloc_all ?s ?l = (_, _) |- _ => lfact E (LG s (fst (alloc_all s l))) ltac:(apply LG_alloc_all); clear E
  end; lchain2.
Qed.
Lemma LG_handle_write s h off cnt stable data : LG s (fst (handle_write s h off cnt stable data)).
Proof. unfold handle_write. lhandler. Qed.
Lemma LG_handle_remove s h n : LG s (fst (handle_remove s h n)).
Proof. unfold handle_remove. lhandler. Qed.
Lemma LG_handle_rmdir s h n : LG s (fst (handle_rmdir s h n)).
Proof. unfold handle_rmdir. lhandler. Qed.
Lemma LG_handle_rename s h1 n1 h2 n2 : LG s (fst (handle_rename s h1 n1 h2 n2)).
Proof. unfold handle_rename. lhandler. Qed.

(* ---------- SETATTR: no Chown when the recorded owner and group do not change ---------- *)
Lemma LG_srv_setattr s h p cur new :
  (na_uid new =? na_uid cur) && (na_gid new =? na_gid cur) = true -> LG s (fst (srv_setattr s h p cur new)).
Proof. intros H. unfold srv_setattr. cbv zeta. rewrite H. ldes; lcollect2; lchain2. Qed.

Lemma LG_handle_setattr s c h sa g : (c_uid c =? 0) = false -> LG s (fst (handle_setattr s c h sa g)).
Proof.
  intros Hnr. unfold handle_setattr.
  destruct (ro (conf s)); [apply LG_refl|].
  destruct (match s_mode sa with Some m => N.testbit m 15 | None => false end); [apply LG_refl|].
  destruct (lookup_node s h) as [[p a0]|]; [|apply LG_refl].
  destruct (kind_eqb (na_kind a0) KLink); [apply LG_refl|].
  destruct (getattr_h s h p) as [s1 pre] eqn:E1. lcollect2. destruct pre as [prea|e]; [|lchain].
  match goal with |- context [if ?b then (s1, fail_wcc NFSERR_NOT_SYNC) else _] => destruct b; [lchain|] end.
  cbv zeta.
  match goal with |- context [match snd ?rs with Some _ => _ | None => _ end] =>
    assert (RS : LG s1 (fst rs)) by (ldes; lcollect2; lchain2); destruct rs as [s4 o] end.
  cbn [fst snd] in *. destruct o as [e|]; [lchain|].
  destruct (node_get s4 h) as [cur|]; [|lchain].
  rewrite Hnr.
  match goal with |- context [srv_setattr ?s ?h ?p ?cur ?new] =>
    assert (RA : LG s (fst (srv_setattr s h p cur new)))
      by (apply LG_srv_setattr; cbn [na_uid na_gid]; destruct (s_uid sa); destruct (s_gid sa); rewrite !N.eqb_refl; reflexivity);
    destruct (srv_setattr s h p cur new) as [s5 r] end.
  cbn [fst] in RA. ldes; lcollect2; lchain2.
Qed.

(* ---------- CREATE / MKDIR / SYMLINK: one Chown / Lchown, with these arguments ---------- *)
Lemma LG_srv_create s d n perm uid gid :
  Q (bc2 BChown (d ++ [n]) [] uid gid) -> LG s (fst (srv_create s d n perm uid gid)).
Proof. intros H. unfold srv_create. cbv zeta. ldes; lcollect2; lchain2. Qed.

Definition eff_uid (c : cred) (use : bool) (sa : sattr) : N :=
  if use then match s_uid sa with Some u => if c_uid c =? 0 then u else c_uid c | None => c_uid c end else c_uid c.
Definition eff_gid (c : cred) (use : bool) (sa : sattr) : N :=
  if use then match s_gid sa with Some g => if c_uid c =? 0 then g else c_gid c | None => c_gid c end else c_gid c.

Lemma LG_handle_create s c h n how sa :
  (forall p, Q (bc2 BChown p [] (eff_uid c ((how =? 0) || (how =? 1)) sa) (eff_gid c ((how =? 0) || (how =? 1)) sa))) ->
  LG s (fst (handle_create s c h n how sa)).
Proof.
  intros H. unfold handle_create. cbv zeta.
  fold (eff_uid c ((how =? 0) || (how =? 1)) sa). fold (eff_gid c ((how =? 0) || (how =? 1)) sa). ldes; lcollect2;
  repeat match goal with
  | E : srv_create ?s ?d ?n ?perm ?uid ?gid = (_, _) |- _ =>
      lfact E (LG s (fst (srv_create s d n perm uid gid))) ltac:(apply LG_srv_create; apply H); clear E
  end; lchain2.
Qed.
Lemma LG_handle_mkdir s c h n sa :
  (forall p, Q (bc2 BChown p [] (eff_uid c true sa) (eff_gid c true sa))) -> LG s (fst (handle_mkdir s c h n sa)).
Proof.
  intros H. unfold handle_mkdir. cbv zeta. fold (eff_uid c true sa). fold (eff_gid c true sa).
  ldes; lcollect2; lchain2.
Qed.
Lemma LG_handle_symlink s c h n sa t :
  (forall p, Q (bc2 BLchown p [] (eff_uid c true sa) (eff_gid c true sa))) -> LG s (fst (handle_symlink s c h n sa t)).
Proof.
  intros H. unfold handle_symlink. cbv zeta. fold (eff_uid c true sa). fold (eff_gid c true sa).
  ldes; lcollect2; lchain2.
Qed.
End Log.

(* ---------- step ---------- *)
Definition no_chown (b : bcall) : Prop := is_chown b = false.
Definition chown_args (u g : N) (b : bcall) : Prop := is_chown b = true -> b_a b = u /\ b_b b = g.
Lemma no_chown_HQ : forall b, is_chown b = false -> no_chown b.
Proof. intros b H. exact H. Qed.
Lemma chown_args_HQ u g : forall b, is_chown b = false -> chown_args u g b.
Proof. intros b H F. rewrite H in F. discriminate F. Qed.
Lemma chown_args_bc2 o p u g : chown_args u g (bc2 o p [] u g).
Proof. intros _. split; reflexivity. Qed.

(* what a Chown / Lchown call in the log of a request looks like *)
Definition chown_spec (c : cred) (r : req) (b : bcall) : Prop :=
  match r with
  | RCreate _ _ how sa =>
      b_a b = eff_uid c ((how =? 0) || (how =? 1)) sa /\ b_b b = eff_gid c ((how =? 0) || (how =? 1)) sa
  | RMkdir _ _ sa | RSymlink _ _ sa _ => b_a b = eff_uid c true sa /\ b_b b = eff_gid c true sa
  | RSetattr _ _ _ => c_uid c = 0
  | _ => False
  end.

Lemma step_chown s c r b : In b (blog (fst (step s c r))) -> chown_like b -> chown_spec c r b.
Proof.
  intros Hin Hc. apply is_chown_iff in Hc.
  assert (K1 : forall s', LG no_chown (clear_log s) s' -> In b (blog s') -> False).
  { intros s' L Hi. destruct (L b Hi) as [F|F]; [destruct F|]. unfold no_chown in F. rewrite F in Hc. discriminate Hc. }
  assert (K2 : forall u g s', LG (chown_args u g) (clear_log s) s' -> In b (blog s') -> b_a b = u /\ b_b b = g).
  { intros u g s' L Hi. destruct (L b Hi) as [F|F]; [destruct F|]. exact (F Hc). }
  unfold step in Hin. destruct (garbage_reply (clear_log s) r) as [o|]; [destruct Hin|].
  destruct r; cbn [chown_spec]; cbn [fst] in Hin;
    try (destruct Hin; fail);
    try (exfalso; eapply K1; [|exact Hin]; first
      [ apply LG_handle_getattr | apply LG_handle_lookup | apply LG_handle_access | apply LG_handle_readlink
      | apply LG_handle_read | apply LG_handle_write | apply LG_handle_remove | apply LG_handle_rmdir
      | apply LG_handle_rename | apply LG_handle_readdir | apply LG_handle_readdirplus | apply LG_handle_fsx
      | apply LG_handle_commit | apply LG_handle_mnt ]; exact no_chown_HQ).
  - (* SETATTR *) destruct (c_uid c =? 0) eqn:E; [apply N.eqb_eq in E; exact E|].
    exfalso. eapply K1; [|exact Hin]. apply LG_handle_setattr; [exact no_chown_HQ|exact E].
  - (* CREATE *) eapply K2; [|exact Hin]. apply LG_handle_create; [apply chown_args_HQ|]. intros p. apply chown_args_bc2.
  - (* MKDIR *) eapply K2; [|exact Hin]. apply LG_handle_mkdir; [apply chown_args_HQ|]. intros p. apply chown_args_bc2.
  - (* SYMLINK *) eapply K2; [|exact Hin]. apply LG_handle_symlink; [apply chown_args_HQ|]. intros p. apply chown_args_bc2.
Qed.

Lemma eff_uid_nonroot c use sa : c_uid c <> 0 -> eff_uid c use sa = c_uid c.
Proof. intros H. apply N.eqb_neq in H. unfold eff_uid. rewrite H. destruct use, (s_uid sa); reflexivity. Qed.
Lemma eff_gid_nonroot c use sa : c_uid c <> 0 -> eff_gid c use sa = c_gid c.
Proof. intros H. apply N.eqb_neq in H. unfold eff_gid. rewrite H. destruct use, (s_gid sa); reflexivity. Qed.

(* a non-root caller: every Chown / Lchown carries the caller's own ids; SETATTR issues none *)
Lemma step_chown_nonroot s c r b :
  c_uid c <> 0 -> In b (blog (fst (step s c r))) -> chown_like b -> b_a b = c_uid c /\ b_b b = c_gid c.
Proof.
  intros Hnr Hin Hc. pose proof (step_chown s c r b Hin Hc) as S.
  destruct r; cbn [chown_spec] in S; try contradiction;
    rewrite ?eff_uid_nonroot, ?eff_gid_nonroot in S by exact Hnr; exact S.
Qed.
Lemma step_setattr_nochown s c h sa g b :
  c_uid c <> 0 -> In b (blog (fst (step s c (RSetattr h sa g)))) -> ~ chown_like b.
Proof. intros Hnr Hin Hc. exact (Hnr (step_chown s c _ b Hin Hc)). Qed.
(* nothing but SETATTR / CREATE / MKDIR / SYMLINK ever calls Chown or Lchown, whoever asks *)
Lemma step_chown_only s c r b : In b (blog (fst (step s c r))) -> chown_like b ->
  match r with RSetattr _ _ _ | RCreate _ _ _ _ | RMkdir _ _ _ | RSymlink _ _ _ _ => True | _ => False end.
Proof. intros Hin Hc. pose proof (step_chown s c r b Hin Hc) as S. destruct r; cbn [chown_spec] in S; auto. Qed.

(* root: the sattr3 ids when given (CREATE: only UNCHECKED / GUARDED carry a sattr3), else root's own *)
Definition root_uid (c : cred) (sa : sattr) : N := match s_uid sa with Some u => u | None => c_uid c end.
Definition root_gid (c : cred) (sa : sattr) : N := match s_gid sa with Some g => g | None => c_gid c end.
Lemma step_chown_root s c r b :
  c_uid c = 0 -> In b (blog (fst (step s c r))) -> chown_like b ->
  match r with
  | RCreate _ _ how sa =>
      if (how =? 0) || (how =? 1) then b_a b = root_uid c sa /\ b_b b = root_gid c sa else b_a b = c_uid c /\ b_b b = c_gid c
  | RMkdir _ _ sa | RSymlink _ _ sa _ => b_a b = root_uid c sa /\ b_b b = root_gid c sa
  | _ => True
  end.
Proof.
  intros Hr Hin Hc. pose proof (step_chown s c r b Hin Hc) as S.
  destruct r; cbn [chown_spec] in S; auto; unfold eff_uid, eff_gid, root_uid, root_gid in *; rewrite Hr in *;
    cbn [N.eqb] in S; try destruct ((how =? 0) || (how =? 1)); exact S.
Qed.

(* SETATTR of a non-root caller does not depend on the uid / gid fields of the request at all *)
Definition drop_ids (sa : sattr) : sattr :=
  {| s_mode := s_mode sa; s_uid := None; s_gid := None; s_size := s_size sa;
     s_atime := s_atime sa; s_atime_v := s_atime_v sa; s_mtime := s_mtime sa; s_mtime_v := s_mtime_v sa |}.
Lemma step_setattr_ids_ignored s c h sa g :
  c_uid c <> 0 -> step s c (RSetattr h sa g) = step s c (RSetattr h (drop_ids sa) g).
Proof.
  intros Hnr. apply N.eqb_neq in Hnr. unfold step. cbn [garbage_reply]. unfold handle_setattr.
  cbn [drop_ids s_mode s_uid s_gid s_size s_atime s_atime_v s_mtime s_mtime_v]. rewrite Hnr.
  destruct (s_uid sa), (s_gid sa); reflexivity.
Qed.

(* ====================================================================================================== *)
(* 4. C11: the owner fields of the tree                                                                   *)
(* ====================================================================================================== *)
(* in-place updates that keep kind and symlink target do not change any resolution *)
Definition keeps_shape (g : obj -> obj) : Prop := forall o, o_kind (g o) = o_kind o /\ o_target (g o) = o_target o.
Definition upd_res (k : path) (g : obj -> obj) (r : walk_res) : walk_res :=
  match r with WFound q o => WFound q (if path_eqb q k then g o else o) | _ => r end.

Lemma fs_get_upd' f k g q :
  fs_get (fs_upd f k g) q = option_map (fun o => if path_eqb q k then g o else o) (fs_get f q).
Proof. rewrite fs_get_upd. destruct (path_eqb q k); [reflexivity|]. destruct (fs_get f q); reflexivity. Qed.

Lemma walk_upd f k g : keeps_shape g -> forall fuel links canon todo follow,
  walk fuel links (fs_upd f k g) canon todo follow = upd_res k g (walk fuel links f canon todo follow).
Proof.
  intros K. induction fuel as [|fuel IH]; intros links canon todo follow; cbn [walk]; [reflexivity|].
  rewrite fs_get_upd'. destruct (fs_get f canon) as [cur|]; cbn [option_map]; [|reflexivity].
  destruct todo as [|c rest]; [reflexivity|].
  assert (Ek : o_kind (if path_eqb canon k then g cur else cur) = o_kind cur).
  { destruct (path_eqb canon k); [apply K|reflexivity]. }
  rewrite Ek. destruct (negb (kind_eqb (o_kind cur) KDir)); [reflexivity|].
  destruct (is_dotdot c); [apply IH|].
  rewrite fs_get_upd'. destruct (fs_get f (canon ++ [c])) as [ch|]; cbn [option_map]; [|destruct rest; reflexivity].
  assert (Ec : o_kind (if path_eqb (canon ++ [c]) k then g ch else ch) = o_kind ch
            /\ o_target (if path_eqb (canon ++ [c]) k then g ch else ch) = o_target ch).
  { destruct (path_eqb (canon ++ [c]) k); [apply K|split; reflexivity]. }
  destruct Ec as [Ec Et]. rewrite Ec, Et.
  destruct (kind_eqb (o_kind ch) KLink && (negb match rest with [] => true | _ => false end || follow)).
  - destruct links; [reflexivity|apply IH].
  - destruct rest; [reflexivity|apply IH].
Qed.
Lemma mtc_upd f k g : keeps_shape g -> max_target_comps (fs_upd f k g) = max_target_comps f.
Proof.
  intros K. induction f as [|[q o] r IH]; [reflexivity|]. unfold max_target_comps in *. cbn [fs_upd map fold_right fst snd].
  fold (fs_upd r k g). rewrite IH. destruct (path_eqb k q); cbn [snd]; [rewrite (proj2 (K o))|]; reflexivity.
Qed.
Lemma resolve_upd f k g p follow : keeps_shape g -> resolve (fs_upd f k g) p follow = upd_res k g (resolve f p follow).
Proof. intros K. unfold resolve, walk_fuel. rewrite (mtc_upd f k g K). apply walk_upd. exact K. Qed.

Lemma chown_obj_shape u g : keeps_shape (chown_obj u g). Proof. intros o. split; reflexivity. Qed.

(* after a successful Chown / Lchown, Stat / Lstat of the same path reports exactly that owner and group *)
Lemma be_meta_chown_stat f p follow u g :
  snd (be_meta f p follow (chown_obj u g)) = Ok tt ->
  exists fi, be_stat (fst (be_meta f p follow (chown_obj u g))) p follow = Ok fi /\ fi_uid fi = u /\ fi_gid fi = g.
Proof.
  unfold be_meta. destruct (resolve f p follow) as [q o| |] eqn:R; cbn [fst snd]; try discriminate. intros _.
  unfold be_stat. rewrite (resolve_upd f q (chown_obj u g) p follow (chown_obj_shape u g)), R. cbn [upd_res].
  rewrite path_eqb_refl. eexists. split; [reflexivity|]. split; reflexivity.
Qed.

Lemma invalidate_for_new_fs s d p : fs (invalidate_for_new s d p) = fs s.
Proof. unfold invalidate_for_new, dc_invalidate. destruct (dir_on _); reflexivity. Qed.

Lemma unit_res_ok (r : res unit) u : r = Ok u -> r = Ok tt.
Proof. destruct u. auto. Qed.

(* the log only grows *)
Definition MON (s s' : srv) : Prop := forall b, In b (blog s) -> In b (blog s').
Lemma MON_refl s : MON s s. Proof. intros b H. exact H. Qed.
Lemma MON_trans a b c : MON a b -> MON b c -> MON a c. Proof. intros A B x H. apply B, A, H. Qed.
Lemma MON_SB s s' : SB s s' -> MON s s'. Proof. intros E b H. rewrite E. exact H. Qed.
Lemma MON_logc s c : MON s (logc s c). Proof. intros b H. right. exact H. Qed.
Lemma MON_srv_lookup s p : MON s (fst (srv_lookup s p)).
Proof.
  unfold srv_lookup. destruct (ac_get s p) as [s1 x] eqn:E.
  assert (M1 : MON s s1) by (pose proof (SB_ac_get s p) as H; rewrite E in H; apply MON_SB; exact H).
  destruct x as [[a|]|]; cbn [fst]; try exact M1.
  unfold do_lstat. destruct (be_stat (fs s1) p false) as [fi|e]; cbn [fst].
  - eapply MON_trans; [exact M1|]. eapply MON_trans; [apply MON_logc|]. apply MON_SB. reflexivity.
  - eapply MON_trans; [exact M1|]. eapply MON_trans; [apply MON_logc|]. destruct e; try apply MON_refl.
    apply MON_SB, SB_ac_put_negative.
Qed.
Lemma MON_srv_getattr s p u g : MON s (fst (srv_getattr s p u g)).
Proof.
  unfold srv_getattr. destruct (ac_get s p) as [s1 x] eqn:E.
  assert (M1 : MON s s1) by (pose proof (SB_ac_get s p) as H; rewrite E in H; apply MON_SB; exact H).
  unfold do_lstat. destruct (be_stat (fs s1) p false) as [fi|e]; cbn [fst].
  - eapply MON_trans; [exact M1|]. eapply MON_trans; [apply MON_logc|]. apply MON_SB. reflexivity.
  - eapply MON_trans; [exact M1|]. apply MON_logc.
Qed.
Lemma MON_getattr_h s h p : MON s (fst (getattr_h s h p)).
Proof. unfold getattr_h. destruct (node_get s h); apply MON_srv_getattr. Qed.
Lemma MON_created_reply s h d p a dpre : MON s (fst (created_reply s h d p a dpre)).
Proof.
  unfold created_reply. pose proof (MON_getattr_h s h d) as M. destruct (getattr_h s h d) as [s1 [dp|e]]; cbn [fst] in *; [|exact M].
  pose proof (SB_alloc s1 p a) as A. destruct (alloc s1 p a) as [s2 fh]. cbn [fst] in *.
  eapply MON_trans; [exact M|apply MON_SB; exact A].
Qed.
Lemma MON_invalidate_for_new s d p : MON s (invalidate_for_new s d p).
Proof. apply MON_SB. unfold SB, invalidate_for_new, dc_invalidate. destruct (dir_on _); reflexivity. Qed.

(* AbsfsNFS.Create: when it succeeds, a Chown with the given ids is in the log and Stat of the new path reports
   exactly that owner and group *)
Lemma srv_create_owner s d n perm uid gid s' a :
  srv_create s d n perm uid gid = (s', Ok a) ->
  In (bc2 BChown (d ++ [n]) [] uid gid) (blog s') /\
  exists fi, be_stat (fs s') (d ++ [n]) true = Ok fi /\ fi_uid fi = uid /\ fi_gid fi = gid.
Proof.
  unfold srv_create. destruct (ro (conf s)); [discriminate|]. destruct (negb (sanitize_ok d n)); [discriminate|].
  cbv zeta. destruct (snd (be_create (fs s) (d ++ [n]) (now s))) as [q|e]; [|discriminate].
  match goal with |- context [match snd ?r with Ok _ => _ | Err _ => _ end] => destruct (snd r) as [u1|e] eqn:E2; [|discriminate] end.
  match goal with |- context [match snd ?r with Ok _ => _ | Err _ => _ end] => destruct (snd r) as [u2|e] eqn:E3; [|discriminate] end.
  intros E.
  match type of E with srv_lookup (invalidate_for_new ?s3 _ _) _ = _ => set (sx := s3) in * end.
  pose proof (srv_lookup_ro (invalidate_for_new sx d (d ++ [n])) (d ++ [n])) as R. rewrite E in R. cbn [fst] in R.
  pose proof (MON_srv_lookup (invalidate_for_new sx d (d ++ [n])) (d ++ [n])) as M. rewrite E in M. cbn [fst] in M.
  split.
  - apply M, MON_invalidate_for_new. unfold sx, lift_unit. cbn [fst blog logc]. left. reflexivity.
  - rewrite (RO_fs _ _ R), invalidate_for_new_fs. unfold sx, lift_unit. cbn [fst snd fs logc].
    unfold lift_unit in E3. cbn [snd] in E3. apply unit_res_ok in E3. apply be_meta_chown_stat in E3. exact E3.
Qed.

Lemma map_error_nonzero e : map_error e <> st_ok.
Proof. destruct e; vm_compute; discriminate. Qed.

(* CREATE of a name that does not exist yet: on NFS3_OK the Chown with the effective ids is in the log and
   Stat of the new path reports them *)
Lemma step_create_owner s c h (n : name) how sa d da e :
  str_ok n = true -> lookup_node s h = Some (d, da) -> be_stat (fs s) (d ++ [n]) false = Err e ->
  let r := step s c (RCreate h n how sa) in
  let u := eff_uid c ((how =? 0) || (how =? 1)) sa in
  let g := eff_gid c ((how =? 0) || (how =? 1)) sa in
  ob_status (snd r) = st_ok ->
  In (bc2 BChown (d ++ [n]) [] u g) (blog (fst r)) /\
  exists fi, be_stat (fs (fst r)) (d ++ [n]) true = Ok fi /\ fi_uid fi = u /\ fi_gid fi = g.
Proof.
  intros Hs Hl Hp. cbv zeta. rewrite step_create_eq by exact Hs. unfold handle_create.
  destruct (ro (conf (clear_log s))); [intros F; exfalso; revert F; vm_compute; discriminate|].
  destruct (negb (validate_name n =? st_ok)) eqn:Hn.
  { intros F. exfalso. apply negb_true_iff, N.eqb_neq in Hn. exact (Hn F). }
  cbv zeta. fold (eff_uid c ((how =? 0) || (how =? 1)) sa). fold (eff_gid c ((how =? 0) || (how =? 1)) sa).
  match goal with |- context [if ?b then (_, fail_wcc NFSERR_INVAL) else _] => destruct b end;
    [intros F; exfalso; revert F; vm_compute; discriminate|].
  change (lookup_node (clear_log s) h) with (lookup_node s h). rewrite Hl.
  destruct (negb (kind_eqb (na_kind da) KDir)); [intros F; exfalso; revert F; vm_compute; discriminate|].
  destruct (getattr_h (clear_log s) h d) as [s1 pre] eqn:E1.
  pose proof (getattr_h_ro (clear_log s) h d) as R1. rewrite E1 in R1. cbn [fst] in R1.
  destruct pre as [dpre|e1]; [|intros F; exfalso; exact (map_error_nonzero _ F)].
  unfold do_lstat. rewrite (RO_fs _ _ R1). change (fs (clear_log s)) with (fs s). rewrite Hp.
  match goal with |- context [srv_create ?a ?b ?c ?d ?e ?f] => destruct (srv_create a b c d e f) as [s3 [a0|e3]] eqn:E3 end.
  2:{ intros F. exfalso. destruct (failed_reply_obs s3 h d (map_error e3) dpre) as [_ B]. rewrite B in F.
      exact (map_error_nonzero _ F). }
  intros _. destruct (srv_create_owner _ _ _ _ _ _ _ _ E3) as [I (fi & A & B & C)].
  split.
  - apply MON_created_reply. exact I.
  - rewrite (RO_fs _ _ (created_reply_ro s3 h d (d ++ [n]) a0 dpre)). exists fi. auto.
Qed.

(* ---------- adding a new entry: the path that was missing now resolves to it ---------- *)
Lemma fs_del_absent f q : fs_get f q = None -> fs_del f q = f.
Proof.
  induction f as [|[k o] r IH]; [reflexivity|]. cbn [fs_get fs_del filter fst].
  destruct (path_eqb q k); [discriminate|]. intros H. cbn [negb]. f_equal. apply IH. exact H.
Qed.
Lemma fs_get_set_other f q o p x : fs_get f q = None -> fs_get f p = Some x -> fs_get (fs_set f q o) p = Some x.
Proof.
  intros A B. rewrite fs_get_set. destruct (path_eqb p q) eqn:E; [|exact B].
  apply path_eqb_eq in E. subst p. rewrite A in B. discriminate B.
Qed.
Lemma walk_missing_get f follow : forall fuel links canon todo q,
  walk fuel links f canon todo follow = WMissing q -> fs_get f q = None.
Proof.
  induction fuel as [|fuel IH]; intros links canon todo q; cbn [walk]; [discriminate|].
  destruct (fs_get f canon) as [cur|] eqn:Ec; [|discriminate].
  destruct todo as [|c rest]; [discriminate|].
  destruct (negb (kind_eqb (o_kind cur) KDir)); [discriminate|].
  destruct (is_dotdot c); [apply IH|].
  destruct (fs_get f (canon ++ [c])) as [ch|] eqn:Ep.
  - destruct (kind_eqb (o_kind ch) KLink && (negb match rest with [] => true | _ => false end || follow)).
    + destruct links; [discriminate|apply IH].
    + destruct rest; [discriminate|apply IH].
  - destruct rest; [|discriminate]. intros [= <-]. exact Ep.
Qed.
Lemma walk_add f q o fl : fs_get f q = None -> (o_kind o <> KLink \/ fl = false) ->
  forall fuel links canon todo,
  walk fuel links f canon todo false = WMissing q -> walk fuel links (fs_set f q o) canon todo fl = WFound q o.
Proof.
  intros Hq Ho. induction fuel as [|fuel IH]; intros links canon todo; cbn [walk]; [discriminate|].
  destruct (fs_get f canon) as [cur|] eqn:Ec; [|discriminate].
  rewrite (fs_get_set_other f q o canon cur Hq Ec).
  destruct todo as [|c rest]; [discriminate|].
  destruct (negb (kind_eqb (o_kind cur) KDir)); [discriminate|].
  destruct (is_dotdot c); [apply IH|].
  destruct (fs_get f (canon ++ [c])) as [ch|] eqn:Ep.
  - rewrite (fs_get_set_other f q o _ ch Hq Ep).
    destruct rest as [|c2 rest].
    + cbn [negb orb]. rewrite andb_false_r. discriminate.
    + cbn [negb orb]. destruct (kind_eqb (o_kind ch) KLink && true).
      * destruct links; [discriminate|apply IH].
      * apply IH.
  - destruct rest; [|discriminate]. intros [= <-]. rewrite fs_get_set, path_eqb_refl. cbn [negb orb].
    assert (E : kind_eqb (o_kind o) KLink && fl = false).
    { destruct Ho as [Ho| ->]; [|apply andb_false_r]. destruct (o_kind o); try reflexivity. exfalso. apply Ho. reflexivity. }
    rewrite E. reflexivity.
Qed.
Lemma walk_more_fuel f follow : forall fuel fuel' links canon todo r,
  walk fuel links f canon todo follow = r -> r <> WErr EFUEL -> (fuel <= fuel')%nat ->
  walk fuel' links f canon todo follow = r.
Proof.
  induction fuel as [|fuel IH]; intros fuel' links canon todo r; cbn [walk]; [intros <- F; contradiction|].
  intros H Hr Hle. destruct fuel' as [|fuel']; [lia|]. cbn [walk].
  destruct (fs_get f canon) as [cur|] eqn:Ec; [|exact H].
  destruct todo as [|c rest]; [exact H|].
  destruct (negb (kind_eqb (o_kind cur) KDir)); [exact H|].
  destruct (is_dotdot c); [apply (IH fuel' _ _ _ _ H Hr); lia|].
  destruct (fs_get f (canon ++ [c])) as [ch|] eqn:Ep; [|exact H].
  destruct (kind_eqb (o_kind ch) KLink && (negb match rest with [] => true | _ => false end || follow)).
  - destruct links; [exact H|apply (IH fuel' _ _ _ _ H Hr); lia].
  - destruct rest; [exact H|apply (IH fuel' _ _ _ _ H Hr); lia].
Qed.
Lemma resolve_add f q o p fl : (o_kind o <> KLink \/ fl = false) ->
  resolve f p false = WMissing q -> resolve (fs_set f q o) p fl = WFound q o.
Proof.
  intros Ho R. pose proof (walk_missing_get _ _ _ _ _ _ _ R) as Hq. unfold resolve in *.
  apply (walk_more_fuel _ _ (walk_fuel f p)).
  - apply walk_add; assumption.
  - discriminate.
  - unfold walk_fuel, fs_set. rewrite (fs_del_absent f q Hq). unfold max_target_comps. cbn [fold_right]. lia.
Qed.

Lemma touch_shape t : keeps_shape (fun o => {| o_kind := o_kind o; o_perm := o_perm o; o_uid := o_uid o; o_gid := o_gid o; o_mtime := t;
                           o_size := o_size o; o_data := o_data o; o_dsize := o_dsize o; o_ddata := o_ddata o;
                           o_target := o_target o |}).
Proof. intros o. split; reflexivity. Qed.
Lemma resolve_touch f d t p fl q o : resolve f p fl = WFound q o -> exists o', resolve (touch f d t) p fl = WFound q o'.
Proof. intros R. unfold touch. rewrite resolve_upd by apply touch_shape. rewrite R. cbn [upd_res]. eexists. reflexivity. Qed.

(* Mkdir then Chown of the same path, Symlink then Lchown of the same path: the second call finds the new object *)
Lemma be_mkdir_then_chown f p perm t u g :
  snd (be_mkdir f p perm t) = Ok tt -> snd (be_chown (fst (be_mkdir f p perm t)) p u g) = Ok tt.
Proof.
  unfold be_mkdir. destruct (resolve f p false) as [q o|q|e] eqn:R; cbn [fst snd]; try discriminate. intros _.
  assert (Ho : o_kind (mk_dir (N.land perm 511) t) <> KLink \/ true = false) by (left; discriminate).
  pose proof (resolve_add f q (mk_dir (N.land perm 511) t) p true Ho R) as R1.
  destruct (resolve_touch _ (parent q) t p true q _ R1) as [o' R'].
  unfold be_chown. rewrite (be_meta_found _ _ _ _ _ _ R'). reflexivity.
Qed.
Lemma be_symlink_then_lchown f tg p t u g :
  snd (be_symlink f tg p t) = Ok tt -> snd (be_lchown (fst (be_symlink f tg p t)) p u g) = Ok tt.
Proof.
  unfold be_symlink. destruct (resolve f p false) as [q o|q|e] eqn:R; cbn [fst snd]; try discriminate. intros _.
  assert (Ho : o_kind (mk_link tg t) <> KLink \/ false = false) by (right; reflexivity).
  pose proof (resolve_add f q (mk_link tg t) p false Ho R) as R1.
  destruct (resolve_touch _ (parent q) t p false q _ R1) as [o' R'].
  unfold be_lchown. rewrite (be_meta_found _ _ _ _ _ _ R'). reflexivity.
Qed.

Lemma step_mkdir_eq s c h n sa : str_ok n = true -> step s c (RMkdir h n sa) = handle_mkdir (clear_log s) c h n sa.
Proof. intros H. unfold step. cbn [garbage_reply]. rewrite H. reflexivity. Qed.

(* MKDIR: on NFS3_OK the Chown with the effective ids is in the log, it found the new directory, and Stat of
   the new path reports them (the handler itself ignores Chown's result) *)
Lemma step_mkdir_owner s c h (n : name) sa d da :
  str_ok n = true -> lookup_node s h = Some (d, da) ->
  let r := step s c (RMkdir h n sa) in
  let u := eff_uid c true sa in
  let g := eff_gid c true sa in
  ob_status (snd r) = st_ok ->
  In (bc2 BChown (d ++ [n]) [] u g) (blog (fst r)) /\
  exists fi, be_stat (fs (fst r)) (d ++ [n]) true = Ok fi /\ fi_uid fi = u /\ fi_gid fi = g.
Proof.
  intros Hs Hl. cbv zeta. rewrite step_mkdir_eq by exact Hs. unfold handle_mkdir.
  destruct (ro (conf (clear_log s))); [intros F; exfalso; revert F; vm_compute; discriminate|].
  destruct (negb (validate_name n =? st_ok)) eqn:Hn.
  { intros F. exfalso. apply negb_true_iff, N.eqb_neq in Hn. exact (Hn F). }
  cbv zeta. fold (eff_uid c true sa). fold (eff_gid c true sa).
  match goal with |- context [if ?b then (_, fail_wcc NFSERR_INVAL) else _] => destruct b end;
    [intros F; exfalso; revert F; vm_compute; discriminate|].
  change (lookup_node (clear_log s) h) with (lookup_node s h). rewrite Hl.
  destruct (negb (kind_eqb (na_kind da) KDir)); [intros F; exfalso; revert F; vm_compute; discriminate|].
  destruct (getattr_h (clear_log s) h d) as [s1 pre].
  destruct pre as [dpre|e1]; [|intros F; exfalso; exact (map_error_nonzero _ F)].
  unfold lift_unit. cbn [fst snd].
  set (mode := match s_mode sa with Some m => m | None => 493 end).
  destruct (snd (be_mkdir (fs s1) (d ++ [n]) mode (now s1))) as [u1|e2] eqn:Em.
  2:{ intros F. exfalso.
      match type of F with context [failed_reply ?a ?b ?c ?d ?e] => destruct (failed_reply_obs a b c d e) as [_ B] end.
      rewrite B in F. exact (map_error_nonzero _ F). }
  apply unit_res_ok in Em.
  set (fm := fst (be_mkdir (fs s1) (d ++ [n]) mode (now s1))) in *.
  set (sm := logc (with_fs s1 fm) (bc2 BMkdir (d ++ [n]) [] mode 0)).
  change (fs sm) with fm.
  set (sc := logc (with_fs sm (fst (be_chown fm (d ++ [n]) (eff_uid c true sa) (eff_gid c true sa))))
                   (bc2 BChown (d ++ [n]) [] (eff_uid c true sa) (eff_gid c true sa))).
  destruct (srv_lookup (invalidate_for_new sc d (d ++ [n])) (d ++ [n])) as [s4 lr] eqn:E4.
  pose proof (srv_lookup_ro (invalidate_for_new sc d (d ++ [n])) (d ++ [n])) as R. rewrite E4 in R. cbn [fst] in R.
  pose proof (MON_srv_lookup (invalidate_for_new sc d (d ++ [n])) (d ++ [n])) as M. rewrite E4 in M. cbn [fst] in M.
  destruct lr as [a|e4]; [|intros F; exfalso; exact (map_error_nonzero _ F)].
  intros _. split.
  - apply MON_created_reply, M, MON_invalidate_for_new. unfold sc. cbn [blog logc]. left. reflexivity.
  - rewrite (RO_fs _ _ (created_reply_ro s4 h d (d ++ [n]) a dpre)), (RO_fs _ _ R), invalidate_for_new_fs.
    unfold sc. cbn [fs logc with_fs].
    apply be_meta_chown_stat. apply (be_mkdir_then_chown (fs s1) (d ++ [n]) mode (now s1)). exact Em.
Qed.

Lemma step_symlink_eq s c h n sa t :
  str_ok n = true -> str_ok t = true -> step s c (RSymlink h n sa t) = handle_symlink (clear_log s) c h n sa t.
Proof. intros H1 H2. unfold step. cbn [garbage_reply]. rewrite H1, H2. reflexivity. Qed.

(* SYMLINK: on NFS3_OK the Lchown with the effective ids is in the log, it found the new link, and Lstat of
   the new path reports them *)
Lemma step_symlink_owner s c h (n : name) sa t d da :
  str_ok n = true -> str_ok t = true -> lookup_node s h = Some (d, da) ->
  let r := step s c (RSymlink h n sa t) in
  let u := eff_uid c true sa in
  let g := eff_gid c true sa in
  ob_status (snd r) = st_ok ->
  In (bc2 BLchown (d ++ [n]) [] u g) (blog (fst r)) /\
  exists fi, be_stat (fs (fst r)) (d ++ [n]) false = Ok fi /\ fi_uid fi = u /\ fi_gid fi = g.
Proof.
  intros Hs Ht Hl. cbv zeta. rewrite step_symlink_eq by assumption. unfold handle_symlink.
  destruct (ro (conf (clear_log s))); [intros F; exfalso; revert F; vm_compute; discriminate|].
  destruct (negb (validate_name n =? st_ok)) eqn:Hn.
  { intros F. exfalso. apply negb_true_iff, N.eqb_neq in Hn. exact (Hn F). }
  destruct t as [|t0 t']; [intros F; exfalso; revert F; vm_compute; discriminate|]. set (t := t0 :: t') in *.
  destruct (is_abs t || target_has_dotdot t); [intros F; exfalso; revert F; vm_compute; discriminate|].
  change (lookup_node (clear_log s) h) with (lookup_node s h). rewrite Hl.
  destruct (negb (kind_eqb (na_kind da) KDir)); [intros F; exfalso; revert F; vm_compute; discriminate|].
  destruct (getattr_h (clear_log s) h d) as [s1 pre].
  destruct pre as [dpre|e1]; [|intros F; exfalso; exact (map_error_nonzero _ F)].
  destruct (negb (sanitize_ok d n)).
  { intros F. exfalso. destruct (failed_reply_obs s1 h d NFSERR_IO dpre) as [_ B]. rewrite B in F. revert F. vm_compute. discriminate. }
  cbv zeta. fold (eff_uid c true sa). fold (eff_gid c true sa).
  unfold lift_unit. cbn [fst snd].
  destruct (snd (be_symlink (fs s1) t (d ++ [n]) (now s1))) as [u1|e2] eqn:Em.
  2:{ intros F. exfalso.
      match type of F with context [failed_reply ?a ?b ?c ?d ?e] => destruct (failed_reply_obs a b c d e) as [_ B] end.
      rewrite B in F. exact (map_error_nonzero _ F). }
  apply unit_res_ok in Em.
  set (fm := fst (be_symlink (fs s1) t (d ++ [n]) (now s1))) in *.
  set (sm := logc (with_fs s1 fm) (bc2 BSymlink (d ++ [n]) t 0 0)).
  destruct (srv_lookup (invalidate_for_new sm d (d ++ [n])) (d ++ [n])) as [s2 lr] eqn:E2.
  pose proof (srv_lookup_ro (invalidate_for_new sm d (d ++ [n])) (d ++ [n])) as R. rewrite E2 in R. cbn [fst] in R.
  destruct lr as [a|e4].
  2:{ intros F. exfalso.
      match type of F with context [failed_reply ?a ?b ?c ?d ?e] => destruct (failed_reply_obs a b c d e) as [_ B] end.
      rewrite B in F. exact (map_error_nonzero _ F). }
  intros _.
  assert (F2 : fs s2 = fm) by (rewrite (RO_fs _ _ R), invalidate_for_new_fs; reflexivity).
  rewrite F2.
  set (sc := logc (with_fs s2 (fst (be_lchown fm (d ++ [n]) (eff_uid c true sa) (eff_gid c true sa))))
                   (bc2 BLchown (d ++ [n]) [] (eff_uid c true sa) (eff_gid c true sa))).
  split.
  - apply MON_created_reply. unfold sc. cbn [blog logc]. left. reflexivity.
  - rewrite (RO_fs _ _ (created_reply_ro sc h d (d ++ [n]) a dpre)).
    unfold sc. cbn [fs logc with_fs].
    apply be_meta_chown_stat. apply (be_symlink_then_lchown (fs s1) t (d ++ [n]) (now s1)). exact Em.
Qed.

(* ---------- the backend: only Chown / Lchown change the owner or group of an object ---------- *)
(* every object of f' sits where an object with the same owner and group sat in f, or is new and owned 0:0 *)
Definition owner_kept (f f' : fsmap) : Prop :=
  forall q o', fs_get f' q = Some o' ->
    (exists o, fs_get f q = Some o /\ o_uid o' = o_uid o /\ o_gid o' = o_gid o) \/
    (fs_get f q = None /\ o_uid o' = 0 /\ o_gid o' = 0).
Definition keeps_owner (g : obj -> obj) : Prop := forall o, o_uid (g o) = o_uid o /\ o_gid (g o) = o_gid o.

Lemma owner_kept_refl f : owner_kept f f.
Proof. intros q o H. left. exists o. auto. Qed.
Lemma owner_kept_upd f f1 k g : owner_kept f f1 -> keeps_owner g -> owner_kept f (fs_upd f1 k g).
Proof.
  intros A G q o'. rewrite fs_get_upd'. destruct (fs_get f1 q) as [o1|] eqn:E; cbn [option_map]; [|discriminate].
  intros [= <-]. assert (I : o_uid (if path_eqb q k then g o1 else o1) = o_uid o1 /\ o_gid (if path_eqb q k then g o1 else o1) = o_gid o1).
  { destruct (path_eqb q k); [apply G|split; reflexivity]. }
  destruct I as [I1 I2]. rewrite I1, I2. apply (A q o1 E).
Qed.
Lemma owner_kept_set f q o : fs_get f q = None -> o_uid o = 0 -> o_gid o = 0 -> owner_kept f (fs_set f q o).
Proof.
  intros Hq U G p o'. rewrite fs_get_set. destruct (path_eqb p q) eqn:E.
  - apply path_eqb_eq in E. subst p. intros [= <-]. right. auto.
  - intros H. left. exists o'. auto.
Qed.
Lemma owner_kept_del f q : owner_kept f (fs_del f q).
Proof. intros p o'. rewrite fs_get_del. destruct (path_eqb p q); [discriminate|]. intros H. left. exists o'. auto. Qed.

Lemma touch_owner t : keeps_owner (fun o => {| o_kind := o_kind o; o_perm := o_perm o; o_uid := o_uid o; o_gid := o_gid o; o_mtime := t;
                           o_size := o_size o; o_data := o_data o; o_dsize := o_dsize o; o_ddata := o_ddata o;
                           o_target := o_target o |}).
Proof. intros o. split; reflexivity. Qed.
Lemma owner_kept_touch f f1 d t : owner_kept f f1 -> owner_kept f (touch f1 d t).
Proof. intros A. unfold touch. apply owner_kept_upd; [exact A|apply touch_owner]. Qed.

Lemma be_mkdir_owner f p perm t : owner_kept f (fst (be_mkdir f p perm t)).
Proof.
  unfold be_mkdir. destruct (resolve f p false) as [q o|q|e] eqn:R; cbn [fst]; try apply owner_kept_refl.
  apply owner_kept_touch, owner_kept_set; [apply (walk_missing_get _ _ _ _ _ _ _ R)|reflexivity|reflexivity].
Qed.
Lemma be_symlink_owner f tg p t : owner_kept f (fst (be_symlink f tg p t)).
Proof.
  unfold be_symlink. destruct (resolve f p false) as [q o|q|e] eqn:R; cbn [fst]; try apply owner_kept_refl.
  apply owner_kept_touch, owner_kept_set; [apply (walk_missing_get _ _ _ _ _ _ _ R)|reflexivity|reflexivity].
Qed.
Lemma be_create_owner f p t : owner_kept f (fst (be_create f p t)).
Proof.
  unfold be_create. destruct (resolve f p true) as [q o|q|e] eqn:R; cbn [fst]; try apply owner_kept_refl.
  - destruct (o_kind o); cbn [fst]; try apply owner_kept_refl.
    apply owner_kept_upd; [apply owner_kept_refl|]. intros x. split; reflexivity.
  - apply owner_kept_touch, owner_kept_set; [apply (walk_missing_get _ _ _ _ _ _ _ R)|reflexivity|reflexivity].
Qed.
Lemma be_meta_owner f p follow g : keeps_owner g -> owner_kept f (fst (be_meta f p follow g)).
Proof.
  intros G. unfold be_meta. destruct (resolve f p follow); cbn [fst]; try apply owner_kept_refl.
  apply owner_kept_upd; [apply owner_kept_refl|exact G].
Qed.
Lemma be_chmod_owner f p m : owner_kept f (fst (be_chmod f p m)).
Proof. apply be_meta_owner. intros o. split; reflexivity. Qed.
Lemma be_chtimes_owner f p m : owner_kept f (fst (be_chtimes f p m)).
Proof. apply be_meta_owner. intros o. split; reflexivity. Qed.
Lemma be_truncate_owner f p sz t : owner_kept f (fst (be_truncate f p sz t)).
Proof.
  unfold be_truncate. destruct (resolve f p true) as [q o|q|e]; cbn [fst]; try apply owner_kept_refl.
  destruct (o_kind o); cbn [fst]; try apply owner_kept_refl;
    (destruct (sz <? 0)%Z; cbn [fst]; [apply owner_kept_refl|]; apply owner_kept_upd; [apply owner_kept_refl|]; intros x; split; reflexivity).
Qed.
Lemma be_writeat_owner f q off bs t : owner_kept f (fst (be_writeat f q off bs t)).
Proof.
  unfold be_writeat. destruct (fs_get f q) as [o|] eqn:E; cbn [fst]; [|apply owner_kept_refl].
  destruct (o_kind o); cbn [fst]; try apply owner_kept_refl.
  match goal with |- context [if ?b then _ else _] => destruct b end; cbn [fst]; [apply owner_kept_refl|].
  intros p o'. rewrite fs_get_upd. destruct (path_eqb p q) eqn:Ep.
  - apply path_eqb_eq in Ep. subst p. rewrite E. cbn [option_map]. intros [= <-]. left. exists o. auto.
  - intros H. left. exists o'. auto.
Qed.
Lemma be_sync_owner f q : owner_kept f (be_sync f q).
Proof. unfold be_sync. apply owner_kept_upd; [apply owner_kept_refl|]. intros o. destruct (o_kind o); split; reflexivity. Qed.
Lemma be_remove_owner f p t : owner_kept f (fst (be_remove f p t)).
Proof.
  unfold be_remove. destruct (resolve f p false) as [q o|q|e]; cbn [fst]; try apply owner_kept_refl.
  destruct q as [|c q']; cbn [fst]; [apply owner_kept_refl|].
  match goal with |- context [if ?b then _ else _] => destruct b end; cbn [fst]; [apply owner_kept_refl|].
  apply owner_kept_touch, owner_kept_del.
Qed.
(* Rename moves objects together with their owner and group *)
Lemma fs_get_In f q o : fs_get f q = Some o -> exists k, In (k, o) f.
Proof.
  induction f as [|[k x] r IH]; cbn [fs_get]; [discriminate|].
  destruct (path_eqb q k); [intros [= <-]; exists k; left; reflexivity|].
  intros H. destruct (IH H) as [k' I]. exists k'. right. exact I.
Qed.
Lemma In_upd f k g q o' : In (q, o') (fs_upd f k g) -> exists o, In (q, o) f /\ (o' = o \/ o' = g o).
Proof.
  unfold fs_upd. intros H. apply in_map_iff in H. destruct H as [[k0 x] [E I]]. cbn [fst snd] in E.
  destruct (path_eqb k k0); injection E as <- <-; exists x; auto.
Qed.
Lemma be_rename_owner f a b t : forall q o', In (q, o') (fst (be_rename f a b t)) ->
  exists q0 o, In (q0, o) f /\ o_uid o' = o_uid o /\ o_gid o' = o_gid o.
Proof.
  assert (Same : forall q o', In (q, o') f -> exists q0 o, In (q0, o) f /\ o_uid o' = o_uid o /\ o_gid o' = o_gid o).
  { intros q o' H. exists q, o'. auto. }
  assert (Mv : forall oc nc f1, (forall e, In e f1 -> In e f) -> forall q o',
     In (q, o') (touch (touch (map (fun e => if is_prefix oc (fst e) then (rekey oc nc (fst e), snd e) else e) f1) (parent oc) t) (parent nc) t) ->
     exists q0 o, In (q0, o) f /\ o_uid o' = o_uid o /\ o_gid o' = o_gid o).
  { intros oc nc f1 Sub q o' H. unfold touch in H.
    apply In_upd in H. destruct H as (o1 & H & E1). apply In_upd in H. destruct H as (o2 & H & E2).
    apply in_map_iff in H. destruct H as [[k0 x] [E I]]. cbn [fst snd] in E.
    assert (X : x = o2) by (destruct (is_prefix oc k0); injection E as _ <-; reflexivity). subst x.
    exists k0, o2. split; [apply Sub; exact I|].
    destruct E1 as [-> | ->]; destruct E2 as [-> | ->]; split; reflexivity. }
  unfold be_rename. destruct (resolve f a false) as [oc o|q|e]; cbn [fst]; try exact Same.
  destruct oc as [|c0 oc']; cbn [fst]; [exact Same|]. set (oc := c0 :: oc').
  destruct (resolve f b false) as [nc m|nc|e]; cbn [fst]; try exact Same.
  - destruct nc as [|c1 nc']; cbn [fst]; [exact Same|]. set (nc := c1 :: nc').
    repeat (match goal with |- context [if ?b then _ else _] => destruct b end; cbn [fst]; [exact Same|]).
    apply Mv. intros e H. unfold fs_del in H. apply filter_In in H. tauto.
  - match goal with |- context [if ?b then _ else _] => destruct b end; cbn [fst]; [exact Same|].
    apply Mv. auto.
Qed.

(* ---------- non-root callers: the new object is the caller's ---------- *)
Lemma step_create_owner_nonroot s c h (n : name) how sa d da e :
  c_uid c <> 0 -> str_ok n = true -> lookup_node s h = Some (d, da) -> be_stat (fs s) (d ++ [n]) false = Err e ->
  let r := step s c (RCreate h n how sa) in
  ob_status (snd r) = st_ok ->
  exists fi, be_stat (fs (fst r)) (d ++ [n]) true = Ok fi /\ fi_uid fi = c_uid c /\ fi_gid fi = c_gid c.
Proof.
  intros Hnr Hs Hl Hp. cbv zeta. intros Hok.
  destruct (step_create_owner s c h n how sa d da e Hs Hl Hp Hok) as [_ (fi & A & B & C)].
  rewrite eff_uid_nonroot in B by exact Hnr. rewrite eff_gid_nonroot in C by exact Hnr. exists fi. auto.
Qed.
Lemma step_mkdir_owner_nonroot s c h (n : name) sa d da :
  c_uid c <> 0 -> str_ok n = true -> lookup_node s h = Some (d, da) ->
  let r := step s c (RMkdir h n sa) in
  ob_status (snd r) = st_ok ->
  exists fi, be_stat (fs (fst r)) (d ++ [n]) true = Ok fi /\ fi_uid fi = c_uid c /\ fi_gid fi = c_gid c.
Proof.
  intros Hnr Hs Hl. cbv zeta. intros Hok.
  destruct (step_mkdir_owner s c h n sa d da Hs Hl Hok) as [_ (fi & A & B & C)].
  rewrite eff_uid_nonroot in B by exact Hnr. rewrite eff_gid_nonroot in C by exact Hnr. exists fi. auto.
Qed.
Lemma step_symlink_owner_nonroot s c h (n : name) sa t d da :
  c_uid c <> 0 -> str_ok n = true -> str_ok t = true -> lookup_node s h = Some (d, da) ->
  let r := step s c (RSymlink h n sa t) in
  ob_status (snd r) = st_ok ->
  exists fi, be_stat (fs (fst r)) (d ++ [n]) false = Ok fi /\ fi_uid fi = c_uid c /\ fi_gid fi = c_gid c.
Proof.
  intros Hnr Hs Ht Hl. cbv zeta. intros Hok.
  destruct (step_symlink_owner s c h n sa t d da Hs Ht Hl Hok) as [_ (fi & A & B & C)].
  rewrite eff_uid_nonroot in B by exact Hnr. rewrite eff_gid_nonroot in C by exact Hnr. exists fi. auto.
Qed.
