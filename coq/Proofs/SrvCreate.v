(* Proofs/SrvCreate.v — lemmas for C03 (CREATE never destroys or silently reuses an existing object) and
   C11 (only an effective root identity can assign ownership) on the server model Model/Srv.v.

   Part 1: the backend map (fs_get / fs_upd / fs_set / walk / resolve / be_truncate / be_chown).
   Part 2: C03 — a walk through handle_create when an object exists at the target name.
   Part 3: C11 — a pre/post relation on the backend log ("every call added satisfies Q"), one lemma per
           primitive, a walk through EVERY handler, then step; SETATTR's uid/gid are ignored for non-root.
   Part 4: C11 — the owner fields of the tree: who ends up owning a new object. *)
From Coq Require Import List NArith ZArith Bool Lia ZifyBool ZifyNat ZifyN.
From Verif Require Import Gen.Facts Model.Handles Model.Backend Model.Srv Proofs.SrvRO.
Import ListNotations.
Open Scope N_scope.

(* ====================================================================================================== *)
(* 1. the backend map                                                                                     *)
(* ====================================================================================================== *)
Lemma bytes_eqb_eq a : forall b, bytes_eqb a b = true <-> a = b.
Proof.
  induction a as [|x a IH]; intros [|y b]; cbn; split; try discriminate; try reflexivity.
  - intros H. apply andb_true_iff in H. destruct H as [H1 H2]. apply N.eqb_eq in H1. apply IH in H2. congruence.
  - intros [= -> ->]. rewrite N.eqb_refl. cbn. apply IH. reflexivity.
Qed.
Lemma path_eqb_eq a : forall b, path_eqb a b = true <-> a = b.
Proof.
  induction a as [|x a IH]; intros [|y b]; cbn; split; try discriminate; try reflexivity.
  - intros H. apply andb_true_iff in H. destruct H as [H1 H2]. apply bytes_eqb_eq in H1. apply IH in H2. congruence.
  - intros [= -> ->]. apply andb_true_iff. split; [apply bytes_eqb_eq|apply IH]; reflexivity.
Qed.
Lemma path_eqb_refl a : path_eqb a a = true.
Proof. apply path_eqb_eq. reflexivity. Qed.
Lemma path_eqb_neq a b : path_eqb a b = false <-> a <> b.
Proof. rewrite <- path_eqb_eq. destruct (path_eqb a b); split; congruence. Qed.

(* reading after an in-place update *)
Lemma fs_get_upd f q g q' :
  fs_get (fs_upd f q g) q' = if path_eqb q' q then option_map g (fs_get f q') else fs_get f q'.
Proof.
  induction f as [|[k o] r IH]; cbn [fs_upd map fs_get fst snd]; [destruct (path_eqb q' q); reflexivity|].
  fold (fs_upd r q g). destruct (path_eqb q k) eqn:E1; cbn [fs_get].
  - apply path_eqb_eq in E1. subst k. destruct (path_eqb q' q) eqn:E2; [reflexivity|]. rewrite IH, ?E2. reflexivity.
  - destruct (path_eqb q' k) eqn:E2.
    + apply path_eqb_eq in E2. subst k. apply path_eqb_neq in E1.
      assert (E3 : path_eqb q' q = false) by (apply path_eqb_neq; congruence). rewrite E3. reflexivity.
    + exact IH.
Qed.
Lemma fs_get_upd_same f q g : fs_get (fs_upd f q g) q = option_map g (fs_get f q).
Proof. rewrite fs_get_upd, path_eqb_refl. reflexivity. Qed.
Lemma fs_get_upd_other f q g q' : q' <> q -> fs_get (fs_upd f q g) q' = fs_get f q'.
Proof. intros H. apply path_eqb_neq in H. rewrite fs_get_upd, H. reflexivity. Qed.

Lemma fs_get_del f q q' : fs_get (fs_del f q) q' = if path_eqb q' q then None else fs_get f q'.
Proof.
  induction f as [|[k o] r IH]; cbn [fs_del filter fs_get fst]; [destruct (path_eqb q' q); reflexivity|].
  fold (fs_del r q). destruct (path_eqb q k) eqn:E1; cbn [negb fs_get].
  - apply path_eqb_eq in E1. subst k. rewrite IH. destruct (path_eqb q' q); reflexivity.
  - destruct (path_eqb q' k) eqn:E2; [|exact IH].
    apply path_eqb_eq in E2. subst k. apply path_eqb_neq in E1.
    assert (E3 : path_eqb q' q = false) by (apply path_eqb_neq; congruence). rewrite E3. reflexivity.
Qed.
Lemma fs_get_set f q o q' : fs_get (fs_set f q o) q' = if path_eqb q' q then Some o else fs_get f q'.
Proof. unfold fs_set. cbn [fs_get]. destruct (path_eqb q' q) eqn:E; [reflexivity|]. rewrite fs_get_del, E. reflexivity. Qed.

(* a resolution that finds (q, o) finds what the map holds under q *)
Lemma walk_found_get f follow : forall fuel links canon todo q o,
  walk fuel links f canon todo follow = WFound q o -> fs_get f q = Some o.
Proof.
  induction fuel as [|fuel IH]; intros links canon todo q o; cbn [walk]; [discriminate|].
  destruct (fs_get f canon) as [cur|] eqn:Ec; [|discriminate].
  destruct todo as [|c rest]; [intros [= <- <-]; exact Ec|].
  destruct (negb (kind_eqb (o_kind cur) KDir)); [discriminate|].
  destruct (is_dotdot c); [apply IH|].
  destruct (fs_get f (canon ++ [c])) as [ch|] eqn:Ep; [|destruct rest; discriminate].
  destruct (kind_eqb (o_kind ch) KLink && (negb match rest with [] => true | _ => false end || follow)).
  - destruct links; [discriminate|apply IH].
  - destruct rest; [intros [= <- <-]; exact Ep|apply IH].
Qed.
Lemma resolve_found_get f p follow q o : resolve f p follow = WFound q o -> fs_get f q = Some o.
Proof. apply walk_found_get. Qed.

(* a non-following resolution that ends on something other than a symlink is also the following one *)
Lemma walk_nofollow_follow f : forall fuel links canon todo q o,
  walk fuel links f canon todo false = WFound q o -> o_kind o <> KLink ->
  walk fuel links f canon todo true = WFound q o.
Proof.
  induction fuel as [|fuel IH]; intros links canon todo q o; cbn [walk]; [discriminate|].
  destruct (fs_get f canon) as [cur|] eqn:Ec; [|discriminate].
  destruct todo as [|c rest]; [auto|].
  destruct (negb (kind_eqb (o_kind cur) KDir)); [discriminate|].
  destruct (is_dotdot c); [apply IH|].
  destruct (fs_get f (canon ++ [c])) as [ch|] eqn:Ep; [|destruct rest; discriminate].
  destruct rest as [|c2 rest].
  - cbn [negb orb]. rewrite andb_false_r, andb_true_r.
    intros [= <- <-] Hk. destruct (kind_eqb (o_kind ch) KLink) eqn:Ek; [|reflexivity].
    exfalso. apply Hk. destruct (o_kind ch); try discriminate Ek. reflexivity.
  - cbn [negb orb]. destruct (kind_eqb (o_kind ch) KLink && true).
    + destruct links; [discriminate|apply IH].
    + apply IH.
Qed.
Lemma resolve_nofollow_follow f p q o :
  resolve f p false = WFound q o -> o_kind o <> KLink -> resolve f p true = WFound q o.
Proof. apply walk_nofollow_follow. Qed.

Lemma be_stat_found f p follow fi :
  be_stat f p follow = Ok fi -> exists q o, resolve f p follow = WFound q o /\ fi = info_of o.
Proof. unfold be_stat. destruct (resolve f p follow) as [q o| |]; try discriminate. intros [= <-]. eauto. Qed.

(* what Truncate does to a regular file *)
Definition trunc_obj (sz t : N) (o : obj) : obj := set_data o sz (sd_trunc (o_data o) sz) t.
Lemma be_truncate_file f p sz t q o :
  resolve f p false = WFound q o -> o_kind o = KFile ->
  be_truncate f p (Z.of_N sz) t = (fs_upd f q (trunc_obj sz t), Ok tt).
Proof.
  intros R K. unfold be_truncate. rewrite (resolve_nofollow_follow f p q o R) by (rewrite K; discriminate).
  rewrite K. assert (E : (Z.of_N sz <? 0)%Z = false) by lia. rewrite E, N2Z.id. reflexivity.
Qed.

(* what Chown / Lchown do: the object the resolution finds gets exactly the given owner and group; nothing
   else about it and no other path changes *)
Definition chown_obj (u g : N) (o : obj) : obj := set_meta o (o_perm o) u g (o_mtime o).
Lemma be_meta_found f p follow g q o : resolve f p follow = WFound q o -> be_meta f p follow g = (fs_upd f q g, Ok tt).
Proof. intros R. unfold be_meta. rewrite R. reflexivity. Qed.
Lemma be_meta_err f p follow g e : snd (be_meta f p follow g) = Err e -> fst (be_meta f p follow g) = f.
Proof. unfold be_meta. destruct (resolve f p follow); cbn; [discriminate|reflexivity|reflexivity]. Qed.

(* ====================================================================================================== *)
(* 2. C03: CREATE of a name that exists                                                                   *)
(* ====================================================================================================== *)
Lemma RO_fs a b : RO a b -> fs b = fs a.
Proof. intros (H & _). exact H. Qed.
Lemma RO_conf a b : RO a b -> conf b = conf a.
Proof. intros (_ & H & _). exact H. Qed.

(* the clock is not touched by GetAttr *)
Lemma ac_get_now s p : now (fst (ac_get s p)) = now s.
Proof. unfold ac_get. des; reflexivity. Qed.
Lemma srv_getattr_now s p u g : now (fst (srv_getattr s p u g)) = now s.
Proof.
  unfold srv_getattr. destruct (ac_get s p) as [s1 x] eqn:E. pose proof (ac_get_now s p) as H. rewrite E in H.
  cbn [fst] in H. unfold do_lstat. destruct (be_stat (fs s1) p false); cbn; exact H.
Qed.
Lemma getattr_h_now s h p : now (fst (getattr_h s h p)) = now s.
Proof. unfold getattr_h. des; apply srv_getattr_now. Qed.

(* GetAttr succeeds exactly when Lstat does *)
Lemma srv_getattr_ok s p u g fi : be_stat (fs s) p false = Ok fi -> exists a, snd (srv_getattr s p u g) = Ok a.
Proof.
  intros H. unfold srv_getattr. destruct (ac_get s p) as [s1 x] eqn:E.
  pose proof (ac_get_ro s p) as R. rewrite E in R. apply RO_fs in R. cbn [fst] in R.
  unfold do_lstat. rewrite R, H. eexists. reflexivity.
Qed.
Lemma getattr_h_ok s h p fi : be_stat (fs s) p false = Ok fi -> exists a, snd (getattr_h s h p) = Ok a.
Proof. intros H. unfold getattr_h. des; eapply srv_getattr_ok; exact H. Qed.

Lemma failed_reply_ro s h d st_ dpre : RO s (fst (failed_reply s h d st_ dpre)).
Proof. unfold failed_reply. des; collect2; chain. Qed.
Lemma created_reply_ro s h d p a dpre : RO s (fst (created_reply s h d p a dpre)).
Proof. unfold created_reply. des; collect2; chain. Qed.
Lemma failed_reply_obs s h d st_ dpre :
  ob_rpc (snd (failed_reply s h d st_ dpre)) = 0 /\ ob_status (snd (failed_reply s h d st_ dpre)) = st_.
Proof. unfold failed_reply. destruct (getattr_h s h d). cbn. auto. Qed.
Lemma created_reply_rpc s h d p a dpre : ob_rpc (snd (created_reply s h d p a dpre)) = 0.
Proof. unfold created_reply. des; reflexivity. Qed.

Definition create_mode (how : N) (sa : sattr) : N :=
  if (how =? 0) || (how =? 1) then match s_mode sa with Some m => m | None => 420 end else 420.
Definition within_limit (s : srv) (sz : N) : Prop := maxfile (conf s) = 0 \/ sz <= maxfile (conf s).

Section CreateExists.
Variables (s0 : srv) (c : cred) (h : N) (n : name) (how : N) (sa : sattr) (d : path) (da : nattrs) (di fi : finfo).
Hypothesis Hro : ro (conf s0) = false.
Hypothesis Hn : validate_name n = st_ok.
Hypothesis Hl : lookup_node s0 h = Some (d, da).
Hypothesis Hdir : na_kind da = KDir.
Hypothesis Hd : be_stat (fs s0) d false = Ok di.
Hypothesis Hp : be_stat (fs s0) (d ++ [n]) false = Ok fi.

(* the common prefix: the request reaches the existence test with an unchanged tree *)
Ltac prefix :=
  unfold handle_create; rewrite Hro;
  replace (negb (validate_name n =? st_ok)) with false by (rewrite Hn; reflexivity);
  cbv zeta; fold (create_mode how sa).
Ltac reach s1 s2 dpre R1 R2 N2 :=
  rewrite Hl; replace (negb (kind_eqb (na_kind da) KDir)) with false by (rewrite Hdir; reflexivity);
  let pre := fresh "pre" in let E1 := fresh "E1" in let E2 := fresh "E2" in let ex := fresh "ex" in
  destruct (getattr_h s0 h d) as [s1 pre] eqn:E1;
  pose proof (getattr_h_ro s0 h d) as R1; rewrite E1 in R1; cbn [fst] in R1;
  pose proof (getattr_h_now s0 h d) as N2; rewrite E1 in N2; cbn [fst] in N2;
  destruct (getattr_h_ok s0 h d di Hd) as [dpre Hpre]; rewrite E1 in Hpre; cbn [snd] in Hpre; subst pre;
  destruct (do_lstat s1 (d ++ [n])) as [s2 ex] eqn:E2;
  assert (R2 : RO s0 s2) by (eapply RO_trans; [exact R1|]; pose proof (do_lstat_ro s1 (d ++ [n])) as X; rewrite E2 in X; exact X);
  assert (Hex : ex = Ok fi) by (unfold do_lstat in E2; injection E2 as _ <-; rewrite (RO_fs _ _ R1); exact Hp);
  assert (N2' : now s2 = now s0) by (unfold do_lstat in E2; injection E2 as <- _; exact N2);
  clear N2; rename N2' into N2; subst ex; clear E1 E2.

(* the one situation in which CREATE changes the tree although the name exists: UNCHECKED over a regular file
   with an explicit size below 2^63 and within MaxFileSize (and a valid mode) *)
Definition truncating (sz : N) : Prop :=
  how = 0 /\ fi_kind fi = KFile /\ validate_mode (create_mode how sa) = st_ok /\
  s_size sa = Some sz /\ sz < two63N /\ within_limit s0 sz.

Lemma create_exists_fs :
  let s' := fst (handle_create s0 c h n how sa) in
  (fs s' = fs s0 /\ forall sz, ~ truncating sz) \/
  (exists sz, truncating sz /\ fs s' = fst (be_truncate (fs s0) (d ++ [n]) (Z.of_N sz) (now s0))).
Proof.
  cbv zeta. prefix.
  destruct (negb (validate_mode (create_mode how sa) =? st_ok)) eqn:Em.
  { left. split; [reflexivity|]. intros sz (_ & _ & F & _). rewrite F in Em. vm_compute in Em. discriminate Em. }
  apply negb_false_iff, N.eqb_eq in Em.
  reach s1 s2 dpre R1 R2 N2.
  destruct (how =? 2) eqn:H2.
  { left. split; [|intros sz (F & _); rewrite F in H2; discriminate H2].
    apply RO_fs. apply RO_trans with s2; [exact R2|]. unfold failed_reply. des; collect2; chain. }
  destruct ((how =? 1) || negb (kind_eqb (fi_kind fi) KFile)) eqn:H1.
  { left. split; [apply RO_fs; apply RO_trans with s2; [exact R2|]; apply failed_reply_ro|].
    intros sz (F0 & Fk & _). rewrite F0, Fk in H1. discriminate H1. }
  apply orb_false_iff in H1. destruct H1 as [H1 Hk]. apply negb_false_iff in Hk.
  assert (Hkf : fi_kind fi = KFile) by (destruct (fi_kind fi); try discriminate Hk; reflexivity).
  destruct ((how =? 0) || (how =? 1)) eqn:Hws.
  2:{ left. split; [|intros sz (F & _); rewrite F in Hws; discriminate Hws].
      apply RO_fs. apply RO_trans with s2; [exact R2|]. cbn [fst snd]. unfold failed_reply, created_reply. des; collect2; chain. }
  rewrite H1, orb_false_r in Hws. apply N.eqb_eq in Hws.
  destruct (s_size sa) as [sz|] eqn:Hsz.
  2:{ left. split; [|intros sz (_ & _ & _ & F & _); rewrite Hsz in F; discriminate F].
      apply RO_fs. apply RO_trans with s2; [exact R2|]. cbn [fst snd]. unfold failed_reply, created_reply. des; collect2; chain. }
  destruct (two63N <=? sz) eqn:H63.
  { left. split; [|intros sz' (_ & _ & _ & F & F2 & _); rewrite Hsz in F; injection F as <-; apply N.leb_le in H63; lia].
    apply RO_fs. apply RO_trans with s2; [exact R2|]. cbn [fst snd]. unfold failed_reply, created_reply. des; collect2; chain. }
  destruct ((0 <? maxfile (conf s2)) && (maxfile (conf s2) <? sz)) eqn:Hmax; rewrite (RO_conf _ _ R2) in Hmax.
  { left. split; [|intros sz' (_ & _ & _ & F & _ & F2); rewrite Hsz in F; injection F as <-; unfold within_limit in F2; lia].
    apply RO_fs. apply RO_trans with s2; [exact R2|]. cbn [fst snd]. apply failed_reply_ro. }
  right. exists sz. split.
  { split; [exact Hws|]. split; [exact Hkf|]. split; [exact Em|]. split; [exact Hsz|].
    split; [apply N.leb_gt in H63; exact H63|]. unfold within_limit. lia. }
  rewrite (RO_fs _ _ R2), N2. unfold lift_unit. cbn [fst snd].
  set (tr := be_truncate (fs s0) (d ++ [n]) (Z.of_N sz) (now s0)).
  set (sT := ac_invalidate (logc (with_fs s2 (fst tr)) (bc2 BTruncate (d ++ [n]) [] sz 0)) (d ++ [n])).
  change (fst tr) with (fs sT).
  apply RO_fs. unfold failed_reply, created_reply. des; collect2; chain.
Qed.

Definition exists_status_spec (o : obs) : Prop :=
  (how = 2 -> ob_status o = st_ok \/ ob_status o = NFSERR_EXIST) /\
  (how <> 2 -> how = 1 \/ fi_kind fi <> KFile -> ob_status o = NFSERR_EXIST) /\
  (how = 0 -> fi_kind fi = KFile -> forall sz, s_size sa = Some sz -> sz < two63N -> ~ within_limit s0 sz ->
   ob_status o = NFSERR_FBIG).

Lemma create_exists_status :
  let o := snd (handle_create s0 c h n how sa) in
  ob_rpc o = 0 /\
  (validate_mode (create_mode how sa) <> st_ok -> ob_status o = NFSERR_INVAL) /\
  (validate_mode (create_mode how sa) = st_ok -> exists_status_spec o).
Proof.
  cbv zeta. prefix.
  destruct (negb (validate_mode (create_mode how sa) =? st_ok)) eqn:Em.
  { apply negb_true_iff, N.eqb_neq in Em. cbn [snd]. split; [reflexivity|]. split; [reflexivity|]. intros F. contradiction. }
  apply negb_false_iff, N.eqb_eq in Em.
  reach s1 s2 dpre R1 R2 N2.
  assert (K : forall o : obs, ob_rpc o = 0 -> exists_status_spec o ->
     ob_rpc o = 0 /\ (validate_mode (create_mode how sa) <> st_ok -> ob_status o = NFSERR_INVAL) /\
     (validate_mode (create_mode how sa) = st_ok -> exists_status_spec o)).
  { intros o A B. split; [exact A|]. split; [intros F; contradiction|intros _; exact B]. }
  destruct (how =? 2) eqn:H2.
  { apply N.eqb_eq in H2.
    assert (X : forall o : obs, ob_status o = st_ok \/ ob_status o = NFSERR_EXIST -> exists_status_spec o).
    { intros o B. split; [intros _; exact B|]. split; [intros F; contradiction|].
      intros F. rewrite F in H2. discriminate H2. }
    destruct (srv_lookup s2 (d ++ [n])) as [s3 [a|e]].
    - destruct (getattr_h s3 h d) as [s4 dpost]. destruct (alloc s4 (d ++ [n]) a) as [s5 fh]. cbn [snd].
      apply K; [reflexivity|]. apply X. left; reflexivity.
    - destruct (failed_reply_obs s3 h d NFSERR_EXIST dpre) as [A B]. apply K; [exact A|]. apply X. right; exact B. }
  apply N.eqb_neq in H2.
  destruct ((how =? 1) || negb (kind_eqb (fi_kind fi) KFile)) eqn:H1.
  { destruct (failed_reply_obs s2 h d NFSERR_EXIST dpre) as [A B]. apply K; [exact A|].
    split; [intros F; contradiction|]. split; [intros _ _; exact B|].
    intros F0 Fk. exfalso. apply orb_true_iff in H1. destruct H1 as [H1|H1].
    - apply N.eqb_eq in H1. rewrite F0 in H1. discriminate H1.
    - rewrite Fk in H1. discriminate H1. }
  apply orb_false_iff in H1. destruct H1 as [H1 Hk]. apply negb_false_iff in Hk.
  assert (Hkf : fi_kind fi = KFile) by (destruct (fi_kind fi); try discriminate Hk; reflexivity).
  apply N.eqb_neq in H1.
  assert (X : forall o : obs,
     (how = 0 -> forall sz, s_size sa = Some sz -> sz < two63N -> ~ within_limit s0 sz -> ob_status o = NFSERR_FBIG) ->
     exists_status_spec o).
  { intros o B. split; [intros F; contradiction|]. split.
    - intros _ [F|F]; contradiction.
    - intros F0 _. exact (B F0). }
  assert (RPC : forall r : srv * res nattrs, ob_rpc (snd (match r with
                 | (s3, Ok a0) => created_reply s3 h d (d ++ [n]) a0 dpre
                 | (s3, Err e) => failed_reply s3 h d (map_error e) dpre end)) = 0).
  { intros [s3 [a0|e]]; [apply created_reply_rpc|apply failed_reply_obs]. }
  destruct ((how =? 0) || (how =? 1)) eqn:Hws.
  2:{ cbn [fst snd]. apply K; [apply RPC|]. apply X. intros F0. rewrite F0 in Hws. discriminate Hws. }
  destruct (s_size sa) as [sz|] eqn:Hsz.
  2:{ cbn [fst snd]. apply K; [apply RPC|]. apply X. intros _ sz F. discriminate F. }
  destruct (two63N <=? sz) eqn:H63.
  { cbn [fst snd]. apply K; [apply RPC|]. apply X. intros _ sz' [= <-] F. apply N.leb_le in H63. lia. }
  destruct ((0 <? maxfile (conf s2)) && (maxfile (conf s2) <? sz)) eqn:Hmax.
  { cbn [fst snd]. destruct (failed_reply_obs s2 h d (map_error EFBIG) dpre) as [A B]. apply K; [exact A|]. apply X.
    intros _ sz' _ _ _. exact B. }
  rewrite (RO_conf _ _ R2) in Hmax.
  assert (WL : within_limit s0 sz) by (unfold within_limit; lia).
  cbn [fst snd].
  match goal with |- context [match ?r with Ok _ => _ | Err _ => _ end] => destruct r as [u|e] end.
  - apply K; [apply RPC|]. apply X. intros _ sz' [= <-] _ F. contradiction.
  - match goal with |- context [failed_reply ?a ?b ?c ?d ?e] => destruct (failed_reply_obs a b c d e) as [A B] end.
    apply K; [exact A|]. apply X. intros _ sz' [= <-] _ F. contradiction.
Qed.
End CreateExists.

(* ---------- C03 at the level of [step] ---------- *)
Lemma step_create_eq s c h n how sa :
  str_ok n = true -> step s c (RCreate h n how sa) = handle_create (clear_log s) c h n how sa.
Proof. intros H. unfold step. cbn [garbage_reply]. rewrite H. reflexivity. Qed.

Lemma valid_mode_default : validate_mode 420 = st_ok.
Proof. vm_compute. reflexivity. Qed.

Section StepCreate.
Variables (s : srv) (c : cred) (h : N) (n : name) (d : path) (da : nattrs) (di fi : finfo).
Hypothesis Hro : ro (conf s) = false.
Hypothesis Hn : validate_name n = st_ok.
Hypothesis Hs : str_ok n = true.
Hypothesis Hl : lookup_node s h = Some (d, da).
Hypothesis Hdir : na_kind da = KDir.
Hypothesis Hd : be_stat (fs s) d false = Ok di.
Hypothesis Hp : be_stat (fs s) (d ++ [n]) false = Ok fi.

Let FS how sa := create_exists_fs (clear_log s) c h n how sa d da di fi Hro Hn Hl Hdir Hd Hp.
Let ST how sa := create_exists_status (clear_log s) c h n how sa d da di fi Hro Hn Hl Hdir Hd Hp.

Lemma step_create_guarded sa :
  let r := step s c (RCreate h n 1 sa) in
  fs (fst r) = fs s /\ ob_rpc (snd r) = 0 /\
  (validate_mode (create_mode 1 sa) = st_ok -> ob_status (snd r) = NFSERR_EXIST) /\
  (validate_mode (create_mode 1 sa) <> st_ok -> ob_status (snd r) = NFSERR_INVAL).
Proof.
  cbv zeta. rewrite step_create_eq by exact Hs.
  destruct (FS 1 sa) as [[A _]|[sz [(F & _) _]]]; [|discriminate F].
  destruct (ST 1 sa) as (B & C & D). cbv zeta in *. split; [exact A|]. split; [exact B|]. split; [|exact C].
  intros V. destruct (D V) as (_ & E & _). apply E; [discriminate|left; reflexivity].
Qed.

Lemma mode_excl sa : validate_mode (create_mode 2 sa) = st_ok.
Proof. exact valid_mode_default. Qed.

Lemma step_create_exclusive_untouched sa : fs (fst (step s c (RCreate h n 2 sa))) = fs s.
Proof.
  rewrite step_create_eq by exact Hs.
  destruct (FS 2 sa) as [[A _]|[sz [(F & _) _]]]; [exact A|discriminate F].
Qed.
Lemma step_create_exclusive_partial sa :
  let o := snd (step s c (RCreate h n 2 sa)) in
  ob_rpc o = 0 /\ (ob_status o = st_ok \/ ob_status o = NFSERR_EXIST).
Proof.
  cbv zeta. rewrite step_create_eq by exact Hs.
  destruct (ST 2 sa) as (B & _ & D). cbv zeta in *. split; [exact B|].
  destruct (D (mode_excl sa)) as (E & _). apply E. reflexivity.
Qed.

(* UNCHECKED *)
Lemma step_create_unchecked_keep sa :
  fi_kind fi = KFile -> s_size sa = None -> fs (fst (step s c (RCreate h n 0 sa))) = fs s.
Proof.
  intros _ Hz. rewrite step_create_eq by exact Hs.
  destruct (FS 0 sa) as [[A _]|[sz [(_ & _ & _ & F & _) _]]]; [exact A|]. rewrite Hz in F. discriminate F.
Qed.
Lemma step_create_unchecked_nonfile sa :
  fi_kind fi <> KFile ->
  let r := step s c (RCreate h n 0 sa) in
  fs (fst r) = fs s /\ ob_rpc (snd r) = 0 /\
  (validate_mode (create_mode 0 sa) = st_ok -> ob_status (snd r) = NFSERR_EXIST) /\
  (validate_mode (create_mode 0 sa) <> st_ok -> ob_status (snd r) = NFSERR_INVAL).
Proof.
  intros Hk. cbv zeta. rewrite step_create_eq by exact Hs.
  destruct (FS 0 sa) as [[A _]|[sz [(_ & F & _) _]]]; [|contradiction].
  destruct (ST 0 sa) as (B & C & D). cbv zeta in *. split; [exact A|]. split; [exact B|]. split; [|exact C].
  intros V. destruct (D V) as (_ & E & _). apply E; [discriminate|right; exact Hk].
Qed.

(* UNCHECKED over a regular file with a size: exactly Truncate(size) of the resolved target, or nothing *)
Lemma step_create_unchecked_size sa sz :
  fi_kind fi = KFile -> s_size sa = Some sz ->
  let r := step s c (RCreate h n 0 sa) in
  exists q o, resolve (fs s) (d ++ [n]) false = WFound q o /\ fs_get (fs s) q = Some o /\ o_kind o = KFile /\
    (validate_mode (create_mode 0 sa) = st_ok -> sz < two63N -> within_limit s sz ->
       fs (fst r) = fs_upd (fs s) q (trunc_obj sz (now s))) /\
    (validate_mode (create_mode 0 sa) <> st_ok \/ two63N <= sz \/ ~ within_limit s sz -> fs (fst r) = fs s) /\
    (validate_mode (create_mode 0 sa) = st_ok -> sz < two63N -> ~ within_limit s sz -> ob_status (snd r) = NFSERR_FBIG).
Proof.
  intros Hk Hz. cbv zeta. rewrite step_create_eq by exact Hs.
  destruct (be_stat_found _ _ _ _ Hp) as (q & o & Rq & Hfi).
  assert (Ko : o_kind o = KFile) by (rewrite Hfi in Hk; exact Hk).
  exists q, o. split; [exact Rq|]. split; [apply (resolve_found_get _ _ _ _ _ Rq)|]. split; [exact Ko|].
  change (fs s) with (fs (clear_log s)) in Rq. change (now s) with (now (clear_log s)).
  destruct (FS 0 sa) as [[A NT]|[sz' [T A]]].
  - split; [|split; [intros _; exact A|]].
    + intros V L W. exfalso. apply (NT sz). repeat split; assumption.
    + intros V L W. destruct (ST 0 sa) as (_ & _ & D). destruct (D V) as (_ & _ & E). apply (E eq_refl Hk sz Hz L W).
  - destruct T as (_ & _ & V & F & L & W). rewrite Hz in F. injection F as <-.
    rewrite (be_truncate_file _ _ _ _ _ _ Rq Ko) in A. cbn [fst] in A.
    split; [intros _ _ _; exact A|]. split.
    + intros [X|[X|X]]; [contradiction|lia|contradiction].
    + intros _ _ X. contradiction.
Qed.

(* ... hence every other path is untouched, and the target keeps everything but size, data and mtime *)
Lemma step_create_unchecked_frame sa :
  fi_kind fi = KFile ->
  let s' := fst (step s c (RCreate h n 0 sa)) in
  exists q o, resolve (fs s) (d ++ [n]) false = WFound q o /\ fs_get (fs s) q = Some o /\
    (forall q', q' <> q -> fs_get (fs s') q' = fs_get (fs s) q') /\
    exists o', fs_get (fs s') q = Some o' /\
      o_kind o' = o_kind o /\ o_perm o' = o_perm o /\ o_uid o' = o_uid o /\ o_gid o' = o_gid o /\
      o_target o' = o_target o /\ o_dsize o' = o_dsize o /\ o_ddata o' = o_ddata o /\
      (o' = o \/ exists sz, s_size sa = Some sz /\ o_size o' = sz /\ o_data o' = sd_trunc (o_data o) sz).
Proof.
  intros Hk. cbv zeta.
  destruct (s_size sa) as [sz|] eqn:Hz.
  - destruct (step_create_unchecked_size sa sz Hk Hz) as (q & o & Rq & G & Ko & T & U & _). cbv zeta in *.
    exists q, o. split; [exact Rq|]. split; [exact G|].
    destruct (N.ltb_spec sz two63N) as [L|L].
    2:{ rewrite (U (or_intror (or_introl L))). split; [reflexivity|]. exists o. repeat split; auto. }
    assert (WD : within_limit s sz \/ ~ within_limit s sz) by (unfold within_limit; lia).
    destruct WD as [W|W].
    2:{ rewrite (U (or_intror (or_intror W))). split; [reflexivity|]. exists o. repeat split; auto. }
    destruct (N.eq_dec (validate_mode (create_mode 0 sa)) st_ok) as [V|V].
    2:{ rewrite (U (or_introl V)). split; [reflexivity|]. exists o. repeat split; auto. }
    rewrite (T V L W). split; [intros q' Hq; apply fs_get_upd_other; exact Hq|].
    exists (trunc_obj sz (now s) o). rewrite fs_get_upd_same, G. cbn [option_map].
    repeat split. right. exists sz. repeat split.
  - destruct (be_stat_found _ _ _ _ Hp) as (q & o & Rq & Hfi).
    rewrite (step_create_unchecked_keep sa Hk Hz). exists q, o. split; [exact Rq|].
    split; [apply (resolve_found_get _ _ _ _ _ Rq)|]. split; [reflexivity|].
    exists o. split; [apply (resolve_found_get _ _ _ _ _ Rq)|]. repeat split; auto.
Qed.

(* no mode truncates without an explicit size *)
Lemma step_create_no_size how sa : s_size sa = None -> fs (fst (step s c (RCreate h n how sa))) = fs s.
Proof.
  intros Hz. rewrite step_create_eq by exact Hs.
  destruct (FS how sa) as [[A _]|[sz [(_ & _ & _ & F & _) _]]]; [exact A|]. rewrite Hz in F. discriminate F.
Qed.
(* ... and whatever the request, either nothing changes or it is the UNCHECKED truncation *)
Lemma step_create_exists_fs how sa :
  let s' := fst (step s c (RCreate h n how sa)) in
  fs s' = fs s \/ (how = 0 /\ fi_kind fi = KFile /\ exists sz, s_size sa = Some sz /\ sz < two63N /\ within_limit s sz /\
                   fs s' = fst (be_truncate (fs s) (d ++ [n]) (Z.of_N sz) (now s))).
Proof.
  cbv zeta. rewrite step_create_eq by exact Hs.
  destruct (FS how sa) as [[A _]|[sz [(F0 & Fk & _ & Fz & L & W) A]]]; [left; exact A|].
  right. split; [exact F0|]. split; [exact Fk|]. exists sz. repeat split; assumption.
Qed.
End StepCreate.
