(* Proofs/TlsProofs.v — lemmas about Model/Tls.v (C30). *)
From Coq Require Import List ZArith NArith Bool String Lia PeanoNat.
From Verif Require Import Gen.Facts Model.Tls.
Import ListNotations.
Open Scope Z_scope.

(* ================= Part 1 ================= *)
(* Validate with the checks in the order they have in the source NOW *)
Lemma validate_eq : forall t,
  validate t =
  if negb (t_enabled t) then None
  else if negb (t_cert_given t) then Some ECertMissing
  else if negb (t_key_given t) then Some EKeyMissing
  else if negb (t_cert_exists t) then Some ECertNotFound
  else if negb (t_key_exists t) then Some EKeyNotFound
  else if ((cfg_tls_ca_auth_threshold <=? t_client_auth t) && t_ca_given t && negb (t_ca_exists t))%bool then Some ECANotFound
  else if t_max t <? t_min t then Some EMinGtMax
  else if (negb (t_min t =? 0) && (t_min t <? cfg_tls_floor))%bool then Some EBelowFloor
  else None.
Proof.
  intros t. unfold validate, cfg_tls_validate_steps. cbn [validate_steps].
  unfold validate_step. cbn [String.eqb Ascii.eqb Bool.eqb].
  destruct (t_enabled t), (t_cert_given t), (t_key_given t), (t_cert_exists t), (t_key_exists t); cbn [negb]; try reflexivity.
  destruct ((cfg_tls_ca_auth_threshold <=? t_client_auth t) && t_ca_given t && negb (t_ca_exists t))%bool; [reflexivity|].
  destruct (t_max t <? t_min t); [reflexivity|].
  destruct (negb (t_min t =? 0) && (t_min t <? cfg_tls_floor))%bool; reflexivity.
Qed.

Lemma validate_ok_floor : forall t, t_enabled t = true -> validate t = None ->
  (t_min t = 0 \/ TLS12 <= t_min t) /\ t_min t <= t_max t.
Proof.
  intros t He H. rewrite validate_eq, He in H. cbn [negb] in H.
  destruct (negb (t_cert_given t)); [discriminate|]. destruct (negb (t_key_given t)); [discriminate|].
  destruct (negb (t_cert_exists t)); [discriminate|]. destruct (negb (t_key_exists t)); [discriminate|].
  destruct ((cfg_tls_ca_auth_threshold <=? t_client_auth t) && t_ca_given t && negb (t_ca_exists t))%bool; [discriminate|].
  destruct (t_max t <? t_min t) eqn:E1; [discriminate|].
  destruct (negb (t_min t =? 0) && (t_min t <? cfg_tls_floor))%bool eqn:E2; [discriminate|].
  apply Z.ltb_ge in E1. split; [|exact E1].
  apply andb_false_iff in E2. destruct E2 as [E2|E2].
  - left. apply negb_false_iff, Z.eqb_eq in E2. exact E2.
  - right. apply Z.ltb_ge in E2. exact E2.
Qed.

Lemma build_config_some : forall t r, build_config t = Some r ->
  validate t = None /\ t_pair_loads t = true /\ r_min r = t_min t /\ r_max r = t_max t /\ r_auth r = t_client_auth t /\
  r_ca_loaded r = ((cfg_tls_ca_auth_threshold <=? t_client_auth t) && t_ca_given t)%bool /\
  (r_ca_loaded r = true -> t_ca_exists t = true /\ t_ca_parses t = true).
Proof.
  intros t r H. unfold build_config in H. change cfg_tls_build_validates_first with true in H. cbn [andb] in H.
  destruct (validate t); [discriminate|]. destruct (t_pair_loads t); [|discriminate]. cbn [negb] in H.
  destruct ((cfg_tls_ca_auth_threshold <=? t_client_auth t) && t_ca_given t)%bool eqn:E.
  - cbn [andb] in H. destruct (t_ca_exists t), (t_ca_parses t); cbn in H; try discriminate.
    injection H as <-. cbn. repeat split; reflexivity.
  - cbn [andb] in H. injection H as <-. cbn. repeat split; try reflexivity; discriminate.
Qed.

Lemma negotiate_some : forall g r c v, negotiate g r c = Some v ->
  server_version_ok g r v = true /\ cl_min c <= v <= cl_max c.
Proof.
  intros g r c v H. unfold negotiate in H. apply find_some in H. destruct H as [_ H].
  apply andb_prop in H. destruct H as [H H3]. apply andb_prop in H. destruct H as [H1 H2].
  apply Z.leb_le in H2, H3. split; [exact H1 | lia].
Qed.

(* every configuration Validate accepts has effective minimum >= TLS 1.2: no handshake completes below it *)
Lemma floor_lemma : forall g, TLS12 <= g -> forall t c v, handshake g t c = Some v -> TLS12 <= v.
Proof.
  intros g Hg t c v H. unfold handshake in H. destruct (t_enabled t) eqn:He; [|discriminate]. cbn [negb] in H.
  destruct (build_config t) as [r|] eqn:Hb; [|discriminate].
  destruct (negotiate g r c) as [v'|] eqn:Hn; [|discriminate].
  destruct (auth_ok r (cl_cert c) && ((TLS13 <=? v') || r_suites12 r))%bool; [|discriminate]. injection H as <-.
  apply build_config_some in Hb. destruct Hb as (Hv & _ & Hmin & _).
  apply negotiate_some in Hn. destruct Hn as [Hs _].
  unfold server_version_ok in Hs. apply andb_prop in Hs. destruct Hs as [Hs _]. apply andb_prop in Hs. destruct Hs as [_ Hs].
  apply Z.leb_le in Hs. rewrite Hmin in Hs.
  destruct (validate_ok_floor t He Hv) as [[E|E] _].
  - rewrite E in Hs. cbn in Hs. lia.
  - destruct (t_min t =? 0) eqn:E0; [apply Z.eqb_eq in E0; unfold TLS12 in *; lia | lia].
Qed.

(* accepted versions are bounded above by MaxVersion too, and lie in the client's range *)
Lemma range_lemma : forall g t c v, handshake g t c = Some v ->
  cl_min c <= v <= cl_max c /\ (t_max t = 0 \/ v <= t_max t).
Proof.
  intros g t c v H. unfold handshake in H. destruct (t_enabled t); [|discriminate]. cbn [negb] in H.
  destruct (build_config t) as [r|] eqn:Hb; [|discriminate].
  destruct (negotiate g r c) as [v'|] eqn:Hn; [|discriminate].
  destruct (auth_ok r (cl_cert c) && ((TLS13 <=? v') || r_suites12 r))%bool; [|discriminate]. injection H as <-.
  apply build_config_some in Hb. destruct Hb as (_ & _ & _ & Hmax & _).
  apply negotiate_some in Hn. destruct Hn as [Hs Hc]. split; [exact Hc|].
  unfold server_version_ok in Hs. apply andb_prop in Hs. destruct Hs as [_ Hs]. rewrite Hmax in Hs.
  apply orb_prop in Hs. destruct Hs as [Hs|Hs]; [left; apply Z.eqb_eq; exact Hs | right; apply Z.leb_le; exact Hs].
Qed.

(* RequireAndVerifyClientCert: only clients whose certificate chains to the configured CA get through *)
Lemma client_auth_lemma : forall g t c v, handshake g t c = Some v -> t_client_auth t = 4 ->
  cl_cert c = CASigned /\ t_ca_given t = true /\ t_ca_exists t = true /\ t_ca_parses t = true.
Proof.
  intros g t c v H Ha. unfold handshake in H. destruct (t_enabled t); [|discriminate]. cbn [negb] in H.
  destruct (build_config t) as [r|] eqn:Hb; [|discriminate].
  destruct (negotiate g r c) as [v'|]; [|discriminate].
  destruct (auth_ok r (cl_cert c)) eqn:Hauth; [|discriminate].
  apply build_config_some in Hb. destruct Hb as (_ & _ & _ & _ & Hauth' & Hca & Hfiles).
  unfold auth_ok in Hauth. rewrite Hauth', Ha in Hauth. cbn in Hauth.
  apply andb_prop in Hauth. destruct Hauth as [H1 H2].
  destruct (cl_cert c); try discriminate. split; [reflexivity|].
  rewrite H2 in Hca. symmetry in Hca. apply andb_prop in Hca. destruct Hca as [_ Hg].
  destruct (Hfiles H2) as [Hx Hy]. repeat split; assumption.
Qed.
(* VerifyClientCertIfGiven: a certificate that is presented must chain to the configured CA *)
Lemma verify_if_given_lemma : forall g t c v, handshake g t c = Some v -> t_client_auth t = 3 ->
  cl_cert c = NoCert \/ (cl_cert c = CASigned /\ t_ca_given t = true).
Proof.
  intros g t c v H Ha. unfold handshake in H. destruct (t_enabled t); [|discriminate]. cbn [negb] in H.
  destruct (build_config t) as [r|] eqn:Hb; [|discriminate].
  destruct (negotiate g r c) as [v'|]; [|discriminate].
  destruct (auth_ok r (cl_cert c)) eqn:Hauth; [|discriminate].
  apply build_config_some in Hb. destruct Hb as (_ & _ & _ & _ & Hauth' & Hca & _).
  unfold auth_ok in Hauth. rewrite Hauth', Ha in Hauth. cbn in Hauth.
  destruct (cl_cert c); cbn in Hauth; try discriminate; [left; reflexivity|].
  right. split; [reflexivity|]. rewrite Hauth in Hca. symmetry in Hca. apply andb_prop in Hca. apply Hca.
Qed.

(* ================= Part 2 ================= *)
Lemma length_set_nth : forall A n (x : A) l, List.length (set_nth n x l) = List.length l.
Proof. intros A n x l. revert n. induction l as [|y r IH]; intros [|n]; cbn; try reflexivity. rewrite IH. reflexivity. Qed.
Lemma nth_set_nth : forall A n (x d : A) l, (n < List.length l)%nat -> nth n (set_nth n x l) d = x.
Proof.
  intros A n x d l. revert n. induction l as [|y r IH]; intros [|n] H; cbn in *; try lia; [reflexivity|].
  apply IH. lia.
Qed.

(* after boot every settings object is enabled, points at the files [p] and shares the listener's cell [L] *)
Record rinv (p : N) (L : nat) (w : world) : Prop := {
  ri_objs : Forall (fun o => o = mkObj true p (Some L)) (objs w);
  ri_L : (L < List.length (cells w))%nat;
  ri_listener : listener w = Some L;
  ri_policy : exists k, policy w = Some k /\ (k < List.length (objs w))%nat }.

Lemma boot_eq : forall p c0,
  boot p c0 = mkWorld [mkObj true p (Some 0%nat); mkObj true p (Some 0%nat)] [Some c0] [(p, c0)] (Some 1%nat) (Some 0%nat).
Proof.
  intros p c0. unfold boot, new_server, listen, clone, cert_cell. unfold cfg_tls_clone_shares_cell, cfg_tls_listener_reads_cell.
  cbn. rewrite N.eqb_refl. cbn. reflexivity.
Qed.
Lemma boot_rinv : forall p c0, rinv p 0 (boot p c0).
Proof.
  intros p c0. rewrite boot_eq. split; cbn.
  - repeat constructor.
  - lia.
  - reflexivity.
  - exists 1%nat. split; [reflexivity | lia].
Qed.

Lemma rinv_nth : forall p L w i o, rinv p L w -> nth_error (objs w) i = Some o -> o = mkObj true p (Some L).
Proof.
  intros p L w i o I H. apply nth_error_In in H. destruct I as [F _ _ _].
  rewrite Forall_forall in F. apply F. exact H.
Qed.
Lemma cert_cell_rinv : forall p L w i o, rinv p L w -> nth_error (objs w) i = Some o -> cert_cell w i = (w, Some L).
Proof.
  intros p L w i o I H. unfold cert_cell. rewrite H. rewrite (rinv_nth p L w i o I H). reflexivity.
Qed.
Lemma clone_rinv : forall p L w i o, rinv p L w -> nth_error (objs w) i = Some o ->
  clone w i = (mkWorld (objs w ++ [mkObj true p (Some L)]) (cells w) (files w) (policy w) (listener w), Some (List.length (objs w))).
Proof.
  intros p L w i o I H. unfold clone. rewrite H. unfold cfg_tls_clone_shares_cell.
  rewrite (cert_cell_rinv p L w i o I H). rewrite (rinv_nth p L w i o I H). reflexivity.
Qed.
Lemma rinv_add_obj : forall p L w pol,
  rinv p L w -> (exists k, pol = Some k /\ (k < S (List.length (objs w)))%nat) ->
  rinv p L (mkWorld (objs w ++ [mkObj true p (Some L)]) (cells w) (files w) pol (listener w)).
Proof.
  intros p L w pol [F HL Hl Hp] Hpol. split; cbn.
  - apply Forall_app. split; [exact F | repeat constructor].
  - exact HL.
  - exact Hl.
  - destruct Hpol as (k & -> & Hk). exists k. split; [reflexivity|]. rewrite app_length. cbn. lia.
Qed.
Lemma rinv_policy_keep : forall p L w, rinv p L w -> exists k, policy w = Some k /\ (k < S (List.length (objs w)))%nat.
Proof. intros p L w [_ _ _ (k & E & Hk)]. exists k. split; [exact E | lia]. Qed.

Lemma hstep_rinv : forall p L w h, rinv p L w ->
  match h with HUpdateNil | HFresh _ _ => True | _ => rinv p L (hstep w h) end.
Proof.
  intros p L w h I. destruct h as [|i|i|q c|i| |e q]; cbn [hstep]; try exact Logic.I.
  - (* HGet *)
    unfold get_tls. destruct (ri_policy p L w I) as (k & Ek & Hk). rewrite Ek. cbn [clone_opt].
    destruct (nth_error (objs w) k) as [o|] eqn:En; [|apply nth_error_None in En; lia].
    rewrite (clone_rinv p L w k o I En). cbn [fst]. apply rinv_add_obj; [exact I | apply (rinv_policy_keep p L w I)].
  - (* HClone *)
    destruct (nth_error (objs w) i) as [o|] eqn:En.
    + rewrite (clone_rinv p L w i o I En). cbn [fst]. apply rinv_add_obj; [exact I | apply (rinv_policy_keep p L w I)].
    + unfold clone. rewrite En. exact I.
  - (* HReload *)
    unfold reload. destruct (nth_error (objs w) i) as [o|] eqn:En; [|exact I].
    rewrite (rinv_nth p L w i o I En). cbn [o_enabled o_path negb].
    destruct (lookup_file (files w) p) as [crt|]; [|exact I].
    unfold cfg_tls_reload_stores_cell. rewrite (cert_cell_rinv p L w i o I En). cbn [fst].
    destruct I as [F HL Hl Hp]. split; cbn; try assumption. rewrite length_set_nth. exact HL.
  - (* HWrite *)
    destruct I as [F HL Hl Hp]. split; cbn; assumption.
  - (* HUpdate *)
    destruct (nth_error (objs w) i) as [o|] eqn:En; [|exact I].
    unfold update_tls. cbn [clone_opt]. rewrite (clone_rinv p L w i o I En). cbn [clone_opt].
    assert (I1 : rinv p L (mkWorld (objs w ++ [mkObj true p (Some L)]) (cells w) (files w) (policy w) (listener w))).
    { apply rinv_add_obj; [exact I | apply (rinv_policy_keep p L w I)]. }
    assert (En1 : nth_error (objs w ++ [mkObj true p (Some L)]) (List.length (objs w)) = Some (mkObj true p (Some L))).
    { rewrite nth_error_app2; [|lia]. rewrite Nat.sub_diag. reflexivity. }
    rewrite (clone_rinv p L _ _ _ I1 En1). cbn [objs cells files policy listener].
    apply (rinv_add_obj p L (mkWorld (objs w ++ [mkObj true p (Some L)]) (cells w) (files w) (policy w) (listener w)));
      [exact I1|]. cbn [objs]. eexists. split; [reflexivity|]. rewrite app_length. cbn. lia.
Qed.

Lemma hrun_rinv : forall p L hs w, rinv p L w -> derived_only hs = true -> rinv p L (hrun w hs).
Proof.
  intros p L hs. induction hs as [|h hs IH]; intros w I D; [exact I|].
  cbn [derived_only forallb] in D. apply andb_prop in D. destruct D as [Dh D].
  cbn [hrun fold_left]. apply IH; [|exact D].
  pose proof (hstep_rinv p L w h I) as H. destruct h; try exact H; discriminate.
Qed.

(* the documented rotation step reaches the listener *)
Lemma rotate_rinv : forall p L w c', rinv p L w ->
  exists w', rotate w p c' = (w', true) /\ presented w' = Some c'.
Proof.
  intros p L w c' I. unfold rotate.
  assert (I1 : rinv p L (write_file w p c')). { destruct I as [F HL Hl Hp]. split; cbn; assumption. }
  unfold get_tls. destruct (ri_policy p L _ I1) as (k & Ek & Hk). rewrite Ek. cbn [clone_opt].
  destruct (nth_error (objs (write_file w p c')) k) as [o|] eqn:En; [|apply nth_error_None in En; lia].
  rewrite (clone_rinv p L _ k o I1 En).
  set (w2 := mkWorld (objs (write_file w p c') ++ [mkObj true p (Some L)]) (cells (write_file w p c'))
                     (files (write_file w p c')) (policy (write_file w p c')) (listener (write_file w p c'))).
  assert (I2 : rinv p L w2). { apply rinv_add_obj; [exact I1 | apply (rinv_policy_keep p L _ I1)]. }
  assert (En2 : nth_error (objs w2) (List.length (objs (write_file w p c'))) = Some (mkObj true p (Some L))).
  { unfold w2. cbn [objs]. rewrite nth_error_app2; [|lia]. rewrite Nat.sub_diag. reflexivity. }
  unfold reload. rewrite En2. cbn [o_enabled o_path negb].
  assert (Hf : lookup_file (files w2) p = Some c'). { unfold w2. cbn. rewrite N.eqb_refl. reflexivity. }
  rewrite Hf. unfold cfg_tls_reload_stores_cell. rewrite (cert_cell_rinv p L w2 _ _ I2 En2).
  eexists. split; [reflexivity|].
  unfold presented. cbn [listener cells]. rewrite (ri_listener p L w2 I2).
  apply nth_set_nth. apply (ri_L p L w2 I2).
Qed.
