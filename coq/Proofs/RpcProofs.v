(* Proofs/RpcProofs.v — call header, AUTH_SYS body and reply header: exactness (round trip + truncation),
   behaviour above the limits, trace bounds on arbitrary input. *)
From Coq Require Import List Arith NArith ZArith Bool Lia ZifyBool ZifyNat ZifyN.
From Verif Require Import Gen.Facts Model.Bytes Model.Xdr Model.Rpc Proofs.BytesProofs Proofs.XdrProofs.
Import ListNotations.
Open Scope N_scope.

Ltac Zify.zify_post_hook ::= Z.to_euclidean_division_equations.

Definition u32 (v : N) : Prop := v < 4294967296.

Lemma cred_limit_val : cred_limit = 400. Proof. reflexivity. Qed.
Lemma verf_limit_val : verf_limit = 400. Proof. reflexivity. Qed.
Lemma authsys_name_limit_val : authsys_name_limit = 8192. Proof. reflexivity. Qed.
Lemma authsys_max_gids_val : authsys_max_gids = 16. Proof. reflexivity. Qed.

(* ---- call header ---- *)
Definition call_ok (c : call) : Prop :=
  u32 (c_xid c) /\ u32 (c_rpcvers c) /\ u32 (c_prog c) /\ u32 (c_vers c) /\ u32 (c_proc c) /\
  u32 (c_cred_flavor c) /\ u32 (c_verf_flavor c) /\
  len (c_cred_body c) <= cred_limit /\ len (c_verf_body c) <= verf_limit.
Definition call_trace (c : call) : list ev :=
  [Rd 4] ++ [Rd 4] ++ [Rd 4] ++ [Rd 4] ++ [Rd 4] ++ [Rd 4] ++ [Rd 4] ++
  opaque_trace (len (c_cred_body c)) ++ [Rd 4] ++ opaque_trace (len (c_verf_body c)).

Lemma rpc_call_u32 : u32 rpc_call. Proof. unfold u32. reflexivity. Qed.

Lemma exact_call c : call_ok c -> exact dec_call (enc_call c) c (call_trace c).
Proof.
  destruct c as [xid rv prog vers proc cf cb vf vb].
  unfold call_ok, u32. cbn [c_xid c_rpcvers c_prog c_vers c_proc c_cred_flavor c_cred_body c_verf_flavor c_verf_body].
  intros (H1 & H2 & H3 & H4 & H5 & H6 & H7 & H8 & H9).
  rewrite cred_limit_val in H8. rewrite verf_limit_val in H9.
  unfold dec_call, enc_call, call_trace.
  cbn [c_xid c_rpcvers c_prog c_vers c_proc c_cred_flavor c_cred_body c_verf_flavor c_verf_body].
  apply exact_bind with (a := xid); [apply Rnil_ext|apply exact_u32; assumption|].
  apply exact_bind with (a := rpc_call); [apply Rnil_ext|apply exact_u32; apply rpc_call_u32|].
  rewrite N.eqb_refl. cbn [negb].
  apply exact_bind with (a := rv); [apply Rnil_ext|apply exact_u32; assumption|].
  apply exact_bind with (a := prog); [apply Rnil_ext|apply exact_u32; assumption|].
  apply exact_bind with (a := vers); [apply Rnil_ext|apply exact_u32; assumption|].
  apply exact_bind with (a := proc); [apply Rnil_ext|apply exact_u32; assumption|].
  apply exact_bind with (a := cf); [apply Rnil_ext|apply exact_u32; assumption|].
  apply exact_bind with (a := cb); [apply Rnil_ext|apply exact_opaque; rewrite ?cred_limit_val; lia|].
  apply exact_bind with (a := vf); [apply Rnil_ext|apply exact_u32; assumption|].
  apply (exact_map Rnil (dec_opaque verf_limit) (fun vb => mkCall xid rv prog vers proc cf cb vf vb) _ vb);
    [apply Rnil_ext|].
  apply exact_opaque; rewrite ?verf_limit_val; lia.
Qed.

(* declared credential length above the limit: rejected right behind the length word; only words were read *)
Lemma dec_call_cred_over xid rv prog vers proc cf n rest :
  u32 xid -> u32 rv -> u32 prog -> u32 vers -> u32 proc -> u32 cf -> u32 n -> cred_limit < n ->
  dec_call (enc_u32 xid ++ enc_u32 rpc_call ++ enc_u32 rv ++ enc_u32 prog ++ enc_u32 vers ++ enc_u32 proc ++
            enc_u32 cf ++ enc_u32 n ++ rest)
  = (Err ELimit, rest, [Rd 4] ++ [Rd 4] ++ [Rd 4] ++ [Rd 4] ++ [Rd 4] ++ [Rd 4] ++ [Rd 4] ++ [Rd 4]).
Proof.
  unfold u32. intros H1 H2 H3 H4 H5 H6 H7 Hn. unfold dec_call.
  eapply bind_ok; [apply (exact_ok Rnil); apply exact_u32; assumption|].
  eapply bind_ok; [apply (exact_ok Rnil); apply exact_u32; apply rpc_call_u32|].
  rewrite N.eqb_refl. cbn [negb].
  eapply bind_ok; [apply (exact_ok Rnil); apply exact_u32; assumption|].
  eapply bind_ok; [apply (exact_ok Rnil); apply exact_u32; assumption|].
  eapply bind_ok; [apply (exact_ok Rnil); apply exact_u32; assumption|].
  eapply bind_ok; [apply (exact_ok Rnil); apply exact_u32; assumption|].
  eapply bind_ok; [apply (exact_ok Rnil); apply exact_u32; assumption|].
  apply bind_err.
  assert (E4 : take 4 (enc_u32 n ++ rest) = enc_u32 n).
  { rewrite <- (enc_u32_len n) at 1. apply take_app_len. }
  assert (D4 : drop 4 (enc_u32 n ++ rest) = rest).
  { rewrite <- (enc_u32_len n) at 1. apply drop_app_len. }
  rewrite <- D4 at 2. apply dec_opaque_over.
  - rewrite len_app, enc_u32_len. lia.
  - rewrite E4. unfold enc_u32. rewrite be_dec_enc; [exact Hn|rewrite pow_256_4; exact H7].
Qed.
(* same for the verifier, behind a well-formed credential *)
Lemma dec_call_verf_over xid rv prog vers proc cf cb vf n rest :
  u32 xid -> u32 rv -> u32 prog -> u32 vers -> u32 proc -> u32 cf -> len cb <= cred_limit -> u32 vf ->
  u32 n -> verf_limit < n ->
  dec_call (enc_u32 xid ++ enc_u32 rpc_call ++ enc_u32 rv ++ enc_u32 prog ++ enc_u32 vers ++ enc_u32 proc ++
            enc_u32 cf ++ enc_opaque cb ++ enc_u32 vf ++ enc_u32 n ++ rest)
  = (Err ELimit, rest, [Rd 4] ++ [Rd 4] ++ [Rd 4] ++ [Rd 4] ++ [Rd 4] ++ [Rd 4] ++ [Rd 4] ++
                       opaque_trace (len cb) ++ [Rd 4] ++ [Rd 4]).
Proof.
  unfold u32. intros H1 H2 H3 H4 H5 H6 Hcb H7 H8 Hn. unfold dec_call.
  rewrite cred_limit_val in Hcb.
  eapply bind_ok; [apply (exact_ok Rnil); apply exact_u32; assumption|].
  eapply bind_ok; [apply (exact_ok Rnil); apply exact_u32; apply rpc_call_u32|].
  rewrite N.eqb_refl. cbn [negb].
  eapply bind_ok; [apply (exact_ok Rnil); apply exact_u32; assumption|].
  eapply bind_ok; [apply (exact_ok Rnil); apply exact_u32; assumption|].
  eapply bind_ok; [apply (exact_ok Rnil); apply exact_u32; assumption|].
  eapply bind_ok; [apply (exact_ok Rnil); apply exact_u32; assumption|].
  eapply bind_ok; [apply (exact_ok Rnil); apply exact_u32; assumption|].
  eapply bind_ok; [apply (exact_ok Rnil); apply exact_opaque; rewrite ?cred_limit_val; lia|].
  eapply bind_ok; [apply (exact_ok Rnil); apply exact_u32; assumption|].
  apply bind_err.
  assert (E4 : take 4 (enc_u32 n ++ rest) = enc_u32 n).
  { rewrite <- (enc_u32_len n) at 1. apply take_app_len. }
  assert (D4 : drop 4 (enc_u32 n ++ rest) = rest).
  { rewrite <- (enc_u32_len n) at 1. apply drop_app_len. }
  rewrite <- D4 at 2. apply dec_opaque_over.
  - rewrite len_app, enc_u32_len. lia.
  - rewrite E4. unfold enc_u32. rewrite be_dec_enc; [exact Hn|rewrite pow_256_4; exact H8].
Qed.
(* a message that is not a CALL is rejected after two words *)
Lemma dec_call_msgtype xid mt rest :
  u32 xid -> u32 mt -> mt <> rpc_call ->
  dec_call (enc_u32 xid ++ enc_u32 mt ++ rest) = (Err EMsgType, rest, [Rd 4] ++ [Rd 4] ++ []).
Proof.
  unfold u32. intros H1 H2 Hm. unfold dec_call.
  eapply bind_ok; [apply (exact_ok Rnil); apply exact_u32; assumption|].
  eapply bind_ok; [apply (exact_ok Rnil); apply exact_u32; assumption|].
  apply N.eqb_neq in Hm. rewrite Hm. reflexivity.
Qed.

Lemma bounded_call : bounded cred_limit dec_call.
Proof.
  assert (cred_limit = 400) by reflexivity. assert (verf_limit = 400) by reflexivity.
  unfold dec_call.
  apply bounded_bind; [apply bounded_u32; lia|]. intros xid.
  apply bounded_bind; [apply bounded_u32; lia|]. intros mt.
  destruct (negb (mt =? rpc_call)); [apply bounded_fail|].
  apply bounded_bind; [apply bounded_u32; lia|]. intros rv.
  apply bounded_bind; [apply bounded_u32; lia|]. intros prog.
  apply bounded_bind; [apply bounded_u32; lia|]. intros vers.
  apply bounded_bind; [apply bounded_u32; lia|]. intros proc.
  apply bounded_bind; [apply bounded_u32; lia|]. intros cf.
  apply bounded_bind; [apply bounded_opaque; lia|]. intros cb.
  apply bounded_bind; [apply bounded_u32; lia|]. intros vf.
  apply bounded_bind; [apply bounded_opaque; lia|]. intros vb.
  apply bounded_ret.
Qed.

(* ---- AUTH_SYS body ---- *)
Lemma exact_alloc R n : exactR R (alloc n) [] tt (al n).
Proof.
  split; [intros rest; reflexivity|].
  intros p q E Hq. destruct p; destruct q; cbn in E; congruence.
Qed.

Lemma exact_sl_u32 v : u32 v -> exact_sl sl_u32 (enc_u32 v) v [].
Proof.
  unfold u32. intros H. split.
  - intros rest. unfold sl_u32.
    assert (L : 4 <=? len (enc_u32 v ++ rest) = true) by (apply N.leb_le; rewrite len_app, enc_u32_len; lia).
    rewrite L.
    assert (E4 : take 4 (enc_u32 v ++ rest) = enc_u32 v).
    { rewrite <- (enc_u32_len v) at 1. apply take_app_len. }
    assert (D4 : drop 4 (enc_u32 v ++ rest) = rest).
    { rewrite <- (enc_u32_len v) at 1. apply drop_app_len. }
    rewrite E4, D4. unfold enc_u32. rewrite be_dec_enc by (rewrite pow_256_4; exact H). reflexivity.
  - intros p q E Hq. exists p, []. split; [|exact I]. unfold sl_u32.
    assert (L : 4 <=? len p = false).
    { apply N.leb_gt. assert (X := enc_u32_len v). rewrite E, len_app in X.
      destruct q; [congruence|]. rewrite len_cons in X. lia. }
    rewrite L. reflexivity.
Qed.

Lemma exact_sl_string b :
  len b <= authsys_name_limit -> exact_sl sl_string (enc_opaque b) b ([] ++ al (len b)).
Proof.
  intros Hl. rewrite authsys_name_limit_val in Hl. unfold sl_string, enc_opaque.
  apply exact_bind with (a := len b); [apply Rany_ext|apply exact_sl_u32; unfold u32; lia|].
  assert (E : authsys_name_limit <? len b = false) by (apply N.ltb_ge; rewrite authsys_name_limit_val; exact Hl).
  rewrite E. rewrite padded_eq. split.
  - intros rest.
    assert (L : len b + pad_len (len b) <=? len ((b ++ zeros (pad_len (len b))) ++ rest) = true).
    { apply N.leb_le. rewrite !len_app, len_zeros. lia. }
    rewrite L. rewrite <- app_assoc at 1. rewrite take_app_len.
    replace (len b + pad_len (len b)) with (len (b ++ zeros (pad_len (len b)))) by (rewrite len_app, len_zeros; reflexivity).
    rewrite drop_app_len. reflexivity.
  - intros p q Ep Hq. exists p, []. split; [|exact I].
    assert (L : len b + pad_len (len b) <=? len p = false).
    { apply N.leb_gt. assert (X : len (b ++ zeros (pad_len (len b))) = len b + pad_len (len b))
        by (rewrite len_app, len_zeros; reflexivity).
      rewrite Ep, len_app in X. destruct q; [congruence|]. rewrite len_cons in X. lia. }
    rewrite L. reflexivity.
Qed.

Lemma exact_sl_u32s gids :
  Forall u32 gids -> exact_sl (sl_u32s (length gids)) (concat (map enc_u32 gids)) gids [].
Proof.
  induction 1 as [|g gids Hg Hgs IH]; cbn [length sl_u32s map concat].
  - apply exact_ret.
  - change (@nil ev) with (@nil ev ++ []).
    apply exact_bind with (a := g); [apply Rany_ext|apply exact_sl_u32; exact Hg|].
    apply (exact_map Rany (sl_u32s (length gids)) (fun r => g :: r) _ gids); [apply Rany_ext|exact IH].
Qed.

Definition authsys_ok (a : authsys) : Prop :=
  u32 (a_stamp a) /\ len (a_machine a) <= authsys_name_limit /\ u32 (a_uid a) /\ u32 (a_gid a) /\
  len (a_gids a) <= authsys_max_gids /\ Forall u32 (a_gids a).
Definition authsys_trace (a : authsys) : list ev :=
  [] ++ ([] ++ al (len (a_machine a))) ++ [] ++ [] ++ [] ++ al (4 * len (a_gids a)) ++ [].

Lemma exact_authsys_body a :
  authsys_ok a -> exact_sl parse_authsys_body (enc_authsys a) a (authsys_trace a).
Proof.
  destruct a as [stamp name uid gid gids]. unfold authsys_ok, authsys_trace.
  cbn [a_stamp a_machine a_uid a_gid a_gids]. intros (H1 & H2 & H3 & H4 & H5 & H6).
  rewrite authsys_max_gids_val in H5.
  unfold parse_authsys_body, enc_authsys. cbn [a_stamp a_machine a_uid a_gid a_gids].
  apply exact_bind with (a := stamp); [apply Rany_ext|apply exact_sl_u32; assumption|].
  apply exact_bind with (a := name); [apply Rany_ext|apply exact_sl_string; assumption|].
  apply exact_bind with (a := uid); [apply Rany_ext|apply exact_sl_u32; assumption|].
  apply exact_bind with (a := gid); [apply Rany_ext|apply exact_sl_u32; assumption|].
  apply exact_bind with (a := len gids); [apply Rany_ext|apply exact_sl_u32; unfold u32; lia|].
  assert (E : authsys_max_gids <? len gids = false) by (apply N.ltb_ge; rewrite authsys_max_gids_val; exact H5).
  rewrite E.
  change (concat (map enc_u32 gids)) with ([] ++ concat (map enc_u32 gids)).
  apply exact_bind with (a := tt); [apply Rany_ext|apply exact_alloc|].
  replace (N.to_nat (len gids)) with (length gids) by (unfold len; lia).
  apply (exact_map Rany (sl_u32s (length gids)) (fun g => mkAuthSys stamp name uid gid g) _ gids);
    [apply Rany_ext|apply exact_sl_u32s; exact H6].
Qed.

Lemma enc_authsys_len a : 20 <= len (enc_authsys a).
Proof. unfold enc_authsys. rewrite !len_app, !enc_u32_len, enc_opaque_len. lia. Qed.

(* ParseAuthSysCredential (enc a ++ trailing) = a, the trailing bytes are left alone *)
Lemma parse_authsys_roundtrip a rest :
  authsys_ok a -> parse_authsys (enc_authsys a ++ rest) = (Ok a, rest, authsys_trace a).
Proof.
  intros H. unfold parse_authsys.
  assert (E : len (enc_authsys a ++ rest) =? 0 = false).
  { apply N.eqb_neq. rewrite len_app. pose proof (enc_authsys_len a). lia. }
  rewrite E. apply (exact_ok Rany). apply exact_authsys_body. exact H.
Qed.
(* every proper prefix of a body is rejected: the empty one as "empty", the others as short *)
Lemma parse_authsys_truncated a k :
  authsys_ok a -> k < len (enc_authsys a) ->
  o_res (parse_authsys (take k (enc_authsys a))) = Err (if k =? 0 then EEmpty else EShort).
Proof.
  intros H Hk. unfold parse_authsys.
  assert (L : len (take k (enc_authsys a)) = k) by (apply len_take; lia). rewrite L.
  destruct (k =? 0) eqn:E; [reflexivity|].
  destruct (exact_authsys_body a H) as [_ T].
  destruct (T (take k (enc_authsys a)) (drop k (enc_authsys a))) as (r' & t' & Hd & _).
  - symmetry. apply take_drop.
  - intros X. assert (Y := len_drop k (enc_authsys a)). rewrite X in Y. change (len []) with 0 in Y. lia.
  - rewrite Hd. reflexivity.
Qed.

(* more than 16 auxiliary gids: rejected, the gid array is never allocated *)
Lemma parse_authsys_gids_over stamp name uid gid n rest :
  u32 stamp -> len name <= authsys_name_limit -> u32 uid -> u32 gid -> u32 n -> authsys_max_gids < n ->
  parse_authsys (enc_u32 stamp ++ enc_opaque name ++ enc_u32 uid ++ enc_u32 gid ++ enc_u32 n ++ rest)
  = (Err ELimit, rest, [] ++ ([] ++ al (len name)) ++ [] ++ [] ++ [] ++ []).
Proof.
  intros H1 H2 H3 H4 H5 Hn. unfold parse_authsys.
  assert (E : len (enc_u32 stamp ++ enc_opaque name ++ enc_u32 uid ++ enc_u32 gid ++ enc_u32 n ++ rest) =? 0 = false).
  { apply N.eqb_neq. rewrite len_app, enc_u32_len. lia. }
  rewrite E. unfold parse_authsys_body.
  eapply bind_ok; [apply (exact_ok Rany); apply exact_sl_u32; assumption|].
  eapply bind_ok; [apply (exact_ok Rany); apply exact_sl_string; assumption|].
  eapply bind_ok; [apply (exact_ok Rany); apply exact_sl_u32; assumption|].
  eapply bind_ok; [apply (exact_ok Rany); apply exact_sl_u32; assumption|].
  eapply bind_ok; [apply (exact_ok Rany); apply exact_sl_u32; assumption|].
  apply N.ltb_lt in Hn. rewrite Hn. reflexivity.
Qed.
(* a machine name longer than the string limit: rejected, nothing allocated *)
Lemma parse_authsys_name_over stamp n rest :
  u32 stamp -> u32 n -> authsys_name_limit < n ->
  parse_authsys (enc_u32 stamp ++ enc_u32 n ++ rest) = (Err ELimit, rest, [] ++ [] ++ []).
Proof.
  intros H1 H2 Hn. unfold parse_authsys.
  assert (E : len (enc_u32 stamp ++ enc_u32 n ++ rest) =? 0 = false).
  { apply N.eqb_neq. rewrite len_app, enc_u32_len. lia. }
  rewrite E. unfold parse_authsys_body.
  eapply bind_ok; [apply (exact_ok Rany); apply exact_sl_u32; assumption|].
  apply bind_err. unfold sl_string.
  eapply bind_ok; [apply (exact_ok Rany); apply exact_sl_u32; assumption|].
  apply N.ltb_lt in Hn. rewrite Hn. reflexivity.
Qed.

(* allocation bound on arbitrary bodies: the name conversion never exceeds the body (and the string limit),
   the gid array never exceeds 4*16 bytes *)
Lemma bounded_sl_u32 L : bounded L sl_u32.
Proof. intros s. unfold sl_u32. destruct (4 <=? len s); constructor. Qed.
Lemma bounded_sl_u32s L k : bounded L (sl_u32s k).
Proof.
  induction k; cbn [sl_u32s]; [apply bounded_ret|].
  apply bounded_bind; [apply bounded_sl_u32|]. intros g.
  apply bounded_bind; [exact IHk|intros; apply bounded_ret].
Qed.
Lemma bounded_sl_string : bounded authsys_name_limit sl_string.
Proof.
  apply bounded_bind; [apply bounded_sl_u32|]. intros n.
  destruct (authsys_name_limit <? n) eqn:E; [apply bounded_fail|]. apply N.ltb_ge in E.
  intros s. cbv zeta. destruct (_ <=? len s); [apply tr_le_al; exact E|constructor].
Qed.
Lemma bounded_authsys : bounded authsys_name_limit parse_authsys.
Proof.
  assert (authsys_name_limit = 8192) by reflexivity. assert (authsys_max_gids = 16) by reflexivity.
  intros body. unfold parse_authsys. destruct (len body =? 0); [constructor|]. revert body.
  change (bounded authsys_name_limit parse_authsys_body). unfold parse_authsys_body.
  apply bounded_bind; [apply bounded_sl_u32|]. intros stamp.
  apply bounded_bind; [apply bounded_sl_string|]. intros name.
  apply bounded_bind; [apply bounded_sl_u32|]. intros uid.
  apply bounded_bind; [apply bounded_sl_u32|]. intros gid.
  apply bounded_bind; [apply bounded_sl_u32|]. intros cnt.
  destruct (authsys_max_gids <? cnt) eqn:E; [apply bounded_fail|]. apply N.ltb_ge in E.
  apply bounded_bind; [apply bounded_alloc; lia|]. intros _.
  apply bounded_bind; [apply bounded_sl_u32s|intros; apply bounded_ret].
Qed.
(* ---- reply header ---- *)
Definition reply_ok (r : reply) : Prop :=
  u32 (r_xid r) /\ u32 (r_status r) /\ u32 (r_accept r) /\ u32 (r_verf_flavor r) /\
  len (r_verf_body r) <= verf_limit.
Definition reply_head (r : reply) : N * rhead :=
  (r_xid r,
   if r_status r =? msg_accepted then
     RAccepted (r_verf_flavor r) (r_verf_body r) (r_accept r)
               (if r_accept r =? accept_prog_mismatch then Some (3, 3) else None)
   else RDenied reject_auth_error [1]).
(* the results that follow the header *)
Definition reply_results (r : reply) : bytes :=
  if r_status r =? msg_accepted then
    if r_accept r =? accept_prog_mismatch then []
    else if r_accept r =? accept_success then enc_rdata (r_data r) else []
  else [].

Lemma enc_opaque_guarded b :
  enc_u32 (len b) ++ (if 0 <? len b then b ++ zeros (pad_len (len b)) else []) = enc_opaque b.
Proof.
  unfold enc_opaque. destruct (0 <? len b) eqn:E; [reflexivity|].
  apply N.ltb_ge in E. assert (Z : len b = 0) by lia. apply len_zero_nil in Z. subst b. reflexivity.
Qed.

Lemma dec_reply_enc_full r rest :
  reply_ok r -> exists t, dec_reply (enc_reply r ++ rest) = (Ok (reply_head r), reply_results r ++ rest, t).
Proof.
  destruct r as [xid st acc vf vb data]. unfold reply_ok, reply_head, reply_results, u32.
  cbn [r_xid r_status r_accept r_verf_flavor r_verf_body r_data]. intros (H1 & H2 & H3 & H4 & H5).
  rewrite verf_limit_val in H5.
  unfold enc_reply. cbn [r_xid r_status r_accept r_verf_flavor r_verf_body r_data].
  assert (Hrep : u32 rpc_reply) by (unfold u32; reflexivity).
  unfold dec_reply.
  destruct (st =? msg_accepted) eqn:Est.
  - rewrite <- !app_assoc. rewrite (app_assoc (enc_u32 (len vb))), enc_opaque_guarded.
    destruct (acc =? accept_prog_mismatch) eqn:Eacc.
    + eexists.
      eapply bind_ok; [apply (exact_ok Rnil); apply exact_u32; assumption|].
      eapply bind_ok; [apply (exact_ok Rnil); apply exact_u32; assumption|].
      rewrite N.eqb_refl. cbn [negb].
      eapply bind_ok; [apply (exact_ok Rnil); apply exact_u32; assumption|].
      rewrite Est.
      eapply bind_ok; [apply (exact_ok Rnil); apply exact_u32; assumption|].
      eapply bind_ok; [apply (exact_ok Rnil); apply exact_opaque; rewrite ?verf_limit_val; lia|].
      eapply bind_ok; [apply (exact_ok Rnil); apply exact_u32; assumption|].
      rewrite Eacc. rewrite <- !app_assoc.
      eapply bind_ok; [apply (exact_ok Rnil); apply exact_u32; unfold u32; lia|].
      eapply bind_ok; [apply (exact_ok Rnil); apply exact_u32; unfold u32; lia|].
      reflexivity.
    + eexists.
      eapply bind_ok; [apply (exact_ok Rnil); apply exact_u32; assumption|].
      eapply bind_ok; [apply (exact_ok Rnil); apply exact_u32; assumption|].
      rewrite N.eqb_refl. cbn [negb].
      eapply bind_ok; [apply (exact_ok Rnil); apply exact_u32; assumption|].
      rewrite Est.
      eapply bind_ok; [apply (exact_ok Rnil); apply exact_u32; assumption|].
      eapply bind_ok; [apply (exact_ok Rnil); apply exact_opaque; rewrite ?verf_limit_val; lia|].
      eapply bind_ok; [apply (exact_ok Rnil); apply exact_u32; assumption|].
      rewrite Eacc. reflexivity.
  - rewrite <- !app_assoc. eexists.
    eapply bind_ok; [apply (exact_ok Rnil); apply exact_u32; assumption|].
    eapply bind_ok; [apply (exact_ok Rnil); apply exact_u32; assumption|].
    rewrite N.eqb_refl. cbn [negb].
    eapply bind_ok; [apply (exact_ok Rnil); apply exact_u32; assumption|].
    rewrite Est.
    eapply bind_ok; [apply (exact_ok Rnil); apply exact_u32; unfold u32; reflexivity|].
    assert (Em : reject_auth_error =? reject_rpc_mismatch = false) by reflexivity. rewrite Em.
    eapply bind_ok; [apply (exact_ok Rnil); apply exact_u32; unfold u32; lia|].
    reflexivity.
Qed.
Lemma dec_reply_enc r rest :
  reply_ok r -> dec_ok (dec_reply (enc_reply r ++ rest)) = Some (reply_head r, reply_results r ++ rest).
Proof. intros H. destruct (dec_reply_enc_full r rest H) as [t E]. rewrite E. reflexivity. Qed.

(* a successfully parsed AUTH_SYS body respects both limits, whatever the body was *)
Lemma sl_u32s_length k : forall s l s' t, sl_u32s k s = (Ok l, s', t) -> length l = k.
Proof.
  induction k; intros s l s' t H; cbn [sl_u32s] in H.
  - unfold ret in H. injection H as <- _ _. reflexivity.
  - apply bind_ok_inv in H as (g & s1 & t1 & t2 & _ & H & _).
    apply bind_ok_inv in H as (r & s2 & t3 & t4 & Hr & H & _).
    unfold ret in H. injection H as <- _ _. cbn [length]. f_equal. eapply IHk. exact Hr.
Qed.
Lemma parse_authsys_ok_limits body a rest t :
  parse_authsys body = (Ok a, rest, t) ->
  len (a_gids a) <= authsys_max_gids /\ len (a_machine a) <= authsys_name_limit.
Proof.
  unfold parse_authsys. destruct (len body =? 0); [discriminate|]. unfold parse_authsys_body. intros H.
  apply bind_ok_inv in H as (stamp & s1 & ? & ? & _ & H & _).
  apply bind_ok_inv in H as (name & s2 & ? & ? & Hname & H & _).
  apply bind_ok_inv in H as (uid & s3 & ? & ? & _ & H & _).
  apply bind_ok_inv in H as (gid & s4 & ? & ? & _ & H & _).
  apply bind_ok_inv in H as (cnt & s5 & ? & ? & _ & H & _).
  destruct (authsys_max_gids <? cnt) eqn:E; [discriminate|]. apply N.ltb_ge in E.
  apply bind_ok_inv in H as (u & s6 & ? & ? & _ & H & _).
  apply bind_ok_inv in H as (gids & s7 & ? & ? & Hg & H & _).
  unfold ret in H. injection H as <- _ _. cbn [a_gids a_machine].
  apply sl_u32s_length in Hg. split; [unfold len; lia|].
  unfold sl_string in Hname.
  apply bind_ok_inv in Hname as (n & s8 & ? & ? & _ & Hn & _).
  destruct (authsys_name_limit <? n) eqn:En; [discriminate|]. apply N.ltb_ge in En.
  cbv zeta in Hn. destruct (_ <=? len s8) eqn:Ep; [|discriminate]. apply N.leb_le in Ep.
  injection Hn as <- _ _. rewrite padded_eq in Ep. rewrite len_take by lia. exact En.
Qed.

(* ---- theorem-shaped corollaries (cited by Properties/C13.v) ---- *)
Lemma call_roundtrip_lemma : forall c rest, call_ok c ->
  dec_call (enc_call c ++ rest) = (Ok c, rest, call_trace c) /\ len (enc_call c) mod 4 = 0.
Proof.
  intros c rest H. split; [apply (exact_ok Rnil); apply exact_call; exact H|].
  unfold enc_call. rewrite !len_app, !enc_u32_len, !enc_opaque_len.
  pose proof (pad_len_spec (len (c_cred_body c))). pose proof (pad_len_spec (len (c_verf_body c))). lia.
Qed.
Lemma call_truncated_lemma : forall c k, call_ok c -> k < len (enc_call c) ->
  exists t, dec_call (take k (enc_call c)) = (Err EShort, [], t).
Proof. intros c k H Hk. eapply exact_trunc; [apply exact_call; exact H|exact Hk]. Qed.
Lemma call_bounds_lemma :
  (forall s, tr_le cred_limit (o_trace (dec_call s))) /\
  (forall xid rv prog vers proc cf n rest,
     u32 xid -> u32 rv -> u32 prog -> u32 vers -> u32 proc -> u32 cf -> u32 n -> cred_limit < n ->
     dec_call (enc_u32 xid ++ enc_u32 rpc_call ++ enc_u32 rv ++ enc_u32 prog ++ enc_u32 vers ++ enc_u32 proc ++
               enc_u32 cf ++ enc_u32 n ++ rest)
     = (Err ELimit, rest, [Rd 4] ++ [Rd 4] ++ [Rd 4] ++ [Rd 4] ++ [Rd 4] ++ [Rd 4] ++ [Rd 4] ++ [Rd 4])) /\
  (forall xid rv prog vers proc cf cb vf n rest,
     u32 xid -> u32 rv -> u32 prog -> u32 vers -> u32 proc -> u32 cf -> len cb <= cred_limit -> u32 vf ->
     u32 n -> verf_limit < n ->
     dec_call (enc_u32 xid ++ enc_u32 rpc_call ++ enc_u32 rv ++ enc_u32 prog ++ enc_u32 vers ++ enc_u32 proc ++
               enc_u32 cf ++ enc_opaque cb ++ enc_u32 vf ++ enc_u32 n ++ rest)
     = (Err ELimit, rest, [Rd 4] ++ [Rd 4] ++ [Rd 4] ++ [Rd 4] ++ [Rd 4] ++ [Rd 4] ++ [Rd 4] ++
                          opaque_trace (len cb) ++ [Rd 4] ++ [Rd 4])).
Proof. split; [exact bounded_call|]. split; [exact dec_call_cred_over|exact dec_call_verf_over]. Qed.

Lemma authsys_roundtrip_lemma : forall a rest, authsys_ok a ->
  parse_authsys (enc_authsys a ++ rest) = (Ok a, rest, authsys_trace a).
Proof. exact parse_authsys_roundtrip. Qed.
Lemma authsys_bounds_lemma :
  (forall body, tr_le authsys_name_limit (o_trace (parse_authsys body))) /\
  (forall body a rest t, parse_authsys body = (Ok a, rest, t) ->
     len (a_gids a) <= authsys_max_gids /\ len (a_machine a) <= authsys_name_limit) /\
  (forall stamp name uid gid n rest,
     u32 stamp -> len name <= authsys_name_limit -> u32 uid -> u32 gid -> u32 n -> authsys_max_gids < n ->
     parse_authsys (enc_u32 stamp ++ enc_opaque name ++ enc_u32 uid ++ enc_u32 gid ++ enc_u32 n ++ rest)
     = (Err ELimit, rest, [] ++ ([] ++ al (len name)) ++ [] ++ [] ++ [] ++ [])) /\
  (forall stamp n rest, u32 stamp -> u32 n -> authsys_name_limit < n ->
     parse_authsys (enc_u32 stamp ++ enc_u32 n ++ rest) = (Err ELimit, rest, [] ++ [] ++ [])).
Proof.
  split; [exact bounded_authsys|]. split; [exact parse_authsys_ok_limits|].
  split; [exact parse_authsys_gids_over|exact parse_authsys_name_over].
Qed.
