(* Proofs/IpFilterProofs.v — C09: Go's mask-based membership equals arithmetic membership on the
   128-bit address space up to the family rule; both filters are one function; the gate. *)
From Coq Require Import List NArith ZArith Bool Lia ZifyBool ZifyN.
From Verif Require Import Gen.Facts Model.Auth Model.IpFilter Proofs.AuthProofs.
Import ListNotations.
Open Scope N_scope.

(* ---------- bits ---------- *)

Lemma eqb_iff_eqb : forall a b c d : N, (a = b <-> c = d) -> (a =? b) = (c =? d).
Proof.
  intros a b c d H. destruct (N.eqb_spec a b) as [E|E], (N.eqb_spec c d) as [F|F]; try reflexivity; exfalso; tauto.
Qed.

Lemma testbit_high : forall x w i, x < 2 ^ w -> w <= i -> N.testbit x i = false.
Proof.
  intros x w i Hx Hi. rewrite <- (N.mod_small x (2 ^ w)) by assumption.
  apply N.mod_pow2_bits_high. assumption.
Qed.

Lemma testbit_ones : forall n i, N.testbit (N.ones n) i = (i <? n).
Proof.
  intros n i. destruct (N.ltb_spec i n) as [H|H].
  - apply N.ones_spec_low. assumption.
  - apply N.ones_spec_high. assumption.
Qed.

Lemma testbit_cidr_mask : forall p w i, p <= w ->
  N.testbit (cidr_mask p w) i = (w - p <=? i) && (i <? w).
Proof.
  intros p w i Hp. unfold cidr_mask.
  destruct (N.leb_spec (w - p) i) as [H|H].
  - rewrite N.shiftl_spec_high' by assumption. rewrite testbit_ones. cbn [andb].
    destruct (N.ltb_spec (i - (w - p)) p), (N.ltb_spec i w); try reflexivity; lia.
  - rewrite N.shiftl_spec_low by assumption. reflexivity.
Qed.

(* Go's masked comparison = equality of the top p bits *)
Lemma land_mask_div : forall x y p w, x < 2 ^ w -> y < 2 ^ w -> p <= w ->
  (N.land x (cidr_mask p w) = N.land y (cidr_mask p w) <-> x / 2 ^ (w - p) = y / 2 ^ (w - p)).
Proof.
  intros x y p w Hx Hy Hp. rewrite <- !N.shiftr_div_pow2. split; intro H.
  - apply N.bits_inj; intro i. rewrite !N.shiftr_spec'.
    assert (E : N.testbit (N.land x (cidr_mask p w)) (i + (w - p)) = N.testbit (N.land y (cidr_mask p w)) (i + (w - p)))
      by (rewrite H; reflexivity).
    rewrite !N.land_spec, !testbit_cidr_mask in E by assumption.
    destruct (N.ltb_spec (i + (w - p)) w) as [L|L].
    + replace (w - p <=? i + (w - p)) with true in E by (symmetry; apply N.leb_le; lia).
      rewrite !andb_true_r in E. exact E.
    + rewrite (testbit_high x w), (testbit_high y w) by assumption. reflexivity.
  - apply N.bits_inj; intro i. rewrite !N.land_spec, !testbit_cidr_mask by assumption.
    destruct (N.leb_spec (w - p) i) as [L|L]; [|rewrite !andb_false_r; reflexivity].
    assert (E : N.testbit (N.shiftr x (w - p)) (i - (w - p)) = N.testbit (N.shiftr y (w - p)) (i - (w - p)))
      by (rewrite H; reflexivity).
    rewrite !N.shiftr_spec' in E. replace (i - (w - p) + (w - p)) with i in E by lia.
    rewrite E. reflexivity.
Qed.

Lemma land_mask_div_b : forall x y p w, x < 2 ^ w -> y < 2 ^ w -> p <= w ->
  (N.land x (cidr_mask p w) =? N.land y (cidr_mask p w)) = (x / 2 ^ (w - p) =? y / 2 ^ (w - p)).
Proof. intros. apply eqb_iff_eqb. apply land_mask_div; assumption. Qed.

Lemma land_idem_r : forall a m, N.land (N.land a m) m = N.land a m.
Proof. intros. rewrite <- N.land_assoc, N.land_diag. reflexivity. Qed.

Lemma low32_lt : forall a, low32 a < 2 ^ 32.
Proof. intro a. unfold low32. apply N.mod_upper_bound. discriminate. Qed.

Lemma low32_land : forall a m, low32 (N.land a m) = N.land (low32 a) (low32 m).
Proof.
  intros a m. unfold low32. rewrite <- !N.land_ones.
  apply N.bits_inj; intro i. rewrite !N.land_spec.
  destruct (N.testbit a i), (N.testbit m i), (N.testbit (N.ones 32) i); reflexivity.
Qed.

(* a v4-mapped 16-byte form is ::ffff:0:0 + its last four bytes *)
Lemma mapped_decomp : forall a, is_mapped a = true -> a = v4_prefix * 2 ^ 32 + low32 a.
Proof.
  intros a H. unfold is_mapped in H. apply N.eqb_eq in H. rewrite N.shiftr_div_pow2 in H.
  unfold low32. rewrite <- H. rewrite N.mul_comm. apply N.div_mod. discriminate.
Qed.

Lemma mapped_lt : forall a, is_mapped a = true -> a < 2 ^ 128.
Proof. intros a H. rewrite (mapped_decomp a H). pose proof (low32_lt a). unfold v4_prefix. lia. Qed.

(* dividing by at most 2^32 does not mix the prefix with the last four bytes *)
Lemma div_prefix : forall P x k, k <= 32 -> x < 2 ^ 32 ->
  (P * 2 ^ 32 + x) / 2 ^ k = P * 2 ^ (32 - k) + x / 2 ^ k.
Proof.
  intros P x k Hk Hx.
  replace (2 ^ 32) with (2 ^ (32 - k) * 2 ^ k) at 1 by (rewrite <- N.pow_add_r; f_equal; lia).
  rewrite N.mul_assoc, N.div_add_l by (apply N.pow_nonzero; discriminate). reflexivity.
Qed.

Lemma mapped_div_eq : forall a c k, is_mapped a = true -> is_mapped c = true -> k <= 32 ->
  (c / 2 ^ k = a / 2 ^ k <-> low32 c / 2 ^ k = low32 a / 2 ^ k).
Proof.
  intros a c k Ha Hc Hk.
  rewrite (mapped_decomp a Ha) at 1. rewrite (mapped_decomp c Hc) at 1.
  rewrite !div_prefix by (try assumption; apply low32_lt). lia.
Qed.

(* equal after dropping at most 32 bits => equal top 96 bits *)
Lemma div_eq_shiftr32 : forall a c k, k <= 32 -> c / 2 ^ k = a / 2 ^ k -> N.shiftr c 32 = N.shiftr a 32.
Proof.
  intros a c k Hk H. rewrite !N.shiftr_div_pow2.
  replace (2 ^ 32) with (2 ^ k * 2 ^ (32 - k)) by (rewrite <- N.pow_add_r; f_equal; lia).
  rewrite <- !N.div_div by (apply N.pow_nonzero; discriminate). rewrite H. reflexivity.
Qed.

Lemma mapped_of_div_eq : forall a c k, k <= 32 -> c / 2 ^ k = a / 2 ^ k -> is_mapped c = is_mapped a.
Proof. intros a c k Hk H. unfold is_mapped. rewrite (div_eq_shiftr32 a c k Hk H). reflexivity. Qed.

(* the network address of an IPv6-literal CIDR is v4-mapped iff the literal is and the prefix covers ::ffff:0:0/96 *)
Lemma mapped_masked : forall a n, a < 2 ^ 128 -> n <= 128 ->
  is_mapped (N.land a (cidr_mask n 128)) = is_mapped a && (96 <=? n).
Proof.
  intros a n Ha Hn. unfold is_mapped.
  destruct (N.leb_spec 96 n) as [H|H].
  - rewrite andb_true_r. f_equal. apply N.bits_inj; intro i.
    rewrite !N.shiftr_spec', N.land_spec, testbit_cidr_mask by assumption.
    destruct (N.ltb_spec (i + 32) 128) as [L|L].
    + replace (128 - n <=? i + 32) with true by (symmetry; apply N.leb_le; lia).
      rewrite andb_true_r. reflexivity.
    + rewrite (testbit_high a 128) by assumption. reflexivity.
  - rewrite andb_false_r. apply N.eqb_neq. intro E.
    assert (B : N.testbit (N.shiftr (N.land a (cidr_mask n 128)) 32) 0 = N.testbit v4_prefix 0) by (rewrite E; reflexivity).
    rewrite N.shiftr_spec', N.land_spec, testbit_cidr_mask in B by assumption.
    replace (128 - n <=? 0 + 32) with false in B by (symmetry; apply N.leb_gt; lia).
    rewrite andb_false_r in B. vm_compute in B. discriminate.
Qed.

Lemma low32_cidr_mask : forall n, 96 <= n -> n <= 128 -> low32 (cidr_mask n 128) = cidr_mask (n - 96) 32.
Proof.
  intros n H1 H2. unfold low32. rewrite <- N.land_ones. apply N.bits_inj; intro i.
  rewrite N.land_spec, !testbit_cidr_mask, testbit_ones by lia.
  replace (32 - (n - 96)) with (128 - n) by lia.
  destruct (N.leb_spec (128 - n) i), (N.ltb_spec i 128), (N.ltb_spec i 32); try reflexivity; lia.
Qed.

(* ---------- one entry: Go's decision = arithmetic membership minus the family gap ---------- *)

Lemma normalize_client : forall c16,
  normalize_ip (IP16 c16) = if is_mapped c16 then IP4 (low32 c16) else IP16 c16.
Proof. intro c16. unfold normalize_ip, to4. destruct (is_mapped c16); reflexivity. Qed.

Lemma entry_allows_spec : forall c16 e, c16 < 2 ^ 128 -> entry_wf e ->
  entry_allows (normalize_ip (IP16 c16)) e = lies_in c16 e && negb (family_gap c16 e).
Proof.
  intros c16 e Hc We. destruct e as [[a16|]|[[[a16 is4] n]|]]; try reflexivity.
  - (* single address *)
    cbn [entry_allows lies_in family_gap negb]. rewrite andb_true_r, !normalize_client.
    cbn [entry_wf] in We.
    destruct (is_mapped a16) eqn:Ma, (is_mapped c16) eqn:Mc; cbn [ip_equal].
    + apply eqb_iff_eqb. rewrite (mapped_decomp a16 Ma) at 2. rewrite (mapped_decomp c16 Mc) at 2.
      pose proof (low32_lt a16). pose proof (low32_lt c16). lia.
    + rewrite Mc. cbn [andb]. symmetry. apply N.eqb_neq. intro E. subst. congruence.
    + rewrite Ma. cbn [andb]. symmetry. apply N.eqb_neq. intro E. subst. congruence.
    + apply N.eqb_sym.
  - (* CIDR *)
    cbn [entry_wf] in We. destruct We as [Ha W4].
    cbn [entry_allows lies_in]. unfold parse_cidr.
    destruct is4.
    + (* IPv4 literal *)
      specialize (W4 eq_refl). cbn [family_gap negb]. rewrite andb_true_r.
      destruct (N.ltb_spec 32 n) as [Hn|Hn].
      { replace (n <=? 32) with false by (symmetry; apply N.leb_gt; assumption). reflexivity. }
      replace (n <=? 32) with true by (symmetry; apply N.leb_le; assumption). cbn [andb].
      rewrite W4. unfold contains, network_number_and_mask. cbn [net_ip net_mask net_mask_is4 to4].
      rewrite normalize_client. unfold prefix128. replace (128 - (96 + n)) with (32 - n) by lia.
      destruct (is_mapped c16) eqn:Mc.
      * cbn [normalize_ip to4]. rewrite land_idem_r, N.eqb_sym.
        rewrite land_mask_div_b by (try apply low32_lt; assumption).
        apply eqb_iff_eqb. symmetry. apply mapped_div_eq; try assumption. lia.
      * unfold normalize_ip, to4. rewrite Mc. symmetry. apply N.eqb_neq. intro E.
        apply mapped_of_div_eq in E; [congruence|lia].
    + (* IPv6 literal *)
      destruct (N.ltb_spec 128 n) as [Hn|Hn].
      { replace (n <=? 128) with false by (symmetry; apply N.leb_gt; assumption). reflexivity. }
      replace (n <=? 128) with true by (symmetry; apply N.leb_le; assumption). cbn [andb].
      unfold contains, network_number_and_mask. cbn [net_ip net_mask net_mask_is4 to4 family_gap prefix128].
      rewrite (mapped_masked a16 n Ha Hn), normalize_client.
      destruct (is_mapped a16 && (96 <=? n)) eqn:Mn.
      * (* the network is held on 4 bytes *)
        apply andb_prop in Mn. destruct Mn as [Ma H96]. apply N.leb_le in H96.
        cbn [negb]. rewrite andb_false_r. cbn [negb]. rewrite andb_true_r.
        rewrite low32_land, (low32_cidr_mask n H96 Hn).
        destruct (is_mapped c16) eqn:Mc.
        -- cbn [normalize_ip to4]. rewrite land_idem_r, N.eqb_sym.
           rewrite land_mask_div_b by (try apply low32_lt; lia).
           replace (32 - (n - 96)) with (128 - n) by lia.
           apply eqb_iff_eqb. symmetry. apply mapped_div_eq; try assumption. lia.
        -- unfold normalize_ip, to4. rewrite Mc. symmetry. apply N.eqb_neq. intro E.
           apply mapped_of_div_eq in E; [congruence|lia].
      * (* a genuine 16-byte network *)
        cbn [negb]. rewrite andb_true_r.
        destruct (is_mapped c16) eqn:Mc.
        -- cbn [normalize_ip to4 negb]. rewrite andb_false_r. reflexivity.
        -- unfold normalize_ip, to4. rewrite Mc. cbn [negb]. rewrite andb_true_r.
           rewrite land_idem_r, N.eqb_sym. apply land_mask_div_b; assumption.
Qed.

(* ---------- the two filters ---------- *)

Lemma server_loop_existsb : forall c l,
  (fix loop (l : list entry) : bool :=
     match l with [] => false | e :: r => if entry_allows c e then true else loop r end) l
  = existsb (entry_allows c) l.
Proof. intros c l. induction l as [|e r IH]; [reflexivity|]. cbn [existsb]. rewrite IH. destruct (entry_allows c e); reflexivity. Qed.

Lemma agree_lemma : forall client entries,
  server_is_ip_allowed true client entries =
  match entries with [] => true | _ => auth_is_ip_allowed client entries end.
Proof.
  intros client entries. unfold server_is_ip_allowed, auth_is_ip_allowed. cbn [negb].
  destruct entries as [|e r]; [reflexivity|]. destruct client as [c16|]; [|reflexivity].
  rewrite <- server_loop_existsb. reflexivity.
Qed.

Definition entries_wf (l : list entry) : Prop := Forall entry_wf l.

Lemma exact_lemma : forall c16 entries, c16 < 2 ^ 128 -> entries_wf entries ->
  auth_is_ip_allowed (Some c16) entries = existsb (fun e => lies_in c16 e && negb (family_gap c16 e)) entries.
Proof.
  intros c16 entries Hc W. unfold auth_is_ip_allowed.
  induction W as [|e r We Wr IH]; [reflexivity|]. cbn [existsb].
  rewrite IH, entry_allows_spec by assumption. reflexivity.
Qed.

Lemma sound_filter_lemma : forall c16 entries, c16 < 2 ^ 128 -> entries_wf entries ->
  auth_is_ip_allowed (Some c16) entries = true -> exists e, In e entries /\ lies_in c16 e = true.
Proof.
  intros c16 entries Hc W H. rewrite exact_lemma in H by assumption.
  apply existsb_exists in H. destruct H as (e & He & H). apply andb_prop in H. exists e. tauto.
Qed.

Lemma malformed_client_lemma : forall entries, auth_is_ip_allowed None entries = false.
Proof. reflexivity. Qed.

(* same family as Go sees it: IPv4(-mapped) client vs 4-byte network, or IPv6 client *)
Lemma complete_lemma : forall c16 entries e, c16 < 2 ^ 128 -> entries_wf entries ->
  In e entries -> lies_in c16 e = true -> family_gap c16 e = false ->
  auth_is_ip_allowed (Some c16) entries = true.
Proof.
  intros c16 entries e Hc W Hin L G. rewrite exact_lemma by assumption.
  apply existsb_exists. exists e. split; [assumption|]. rewrite L, G. reflexivity.
Qed.

(* ---------- the gate ---------- *)

Definition filter_on (pol : policy) : bool := match pol_allowed pol with [] => false | _ => true end.

Definition gate (pol : policy) (rq : request) : bool :=
  passes_gate (filter_on pol) (auth_is_ip_allowed (rq_client rq) (pol_allowed pol)) (pol_secure pol) (rq_port rq).

Lemma allowed_gate_lemma : forall pol rq, v_allowed (validate_request pol rq) = true -> gate pol rq = true.
Proof. intros pol rq H. unfold validate_request in H. apply validate_allowed_gate in H. exact H. Qed.

Lemma gate_false_denied : forall pol rq, gate pol rq = false -> v_allowed (validate_request pol rq) = false.
Proof. intros pol rq H. unfold validate_request. apply validate_gate. exact H. Qed.

Lemma gate_meaning : forall pol rq, gate pol rq = true ->
  (pol_allowed pol = [] \/ auth_is_ip_allowed (rq_client rq) (pol_allowed pol) = true) /\
  (pol_secure pol = true -> (rq_port rq < privileged_port_limit)%Z).
Proof.
  intros pol rq H. unfold gate, passes_gate, filter_on in H. apply andb_prop in H. destruct H as [H1 H2].
  split.
  - destruct (pol_allowed pol) as [|e r]; [left; reflexivity|right]. cbn in H1. exact H1.
  - intro S. rewrite S in H2. cbn in H2. lia.
Qed.

Section HandleCallProofs.
  Variables S B R : Type.
  Variable dispatch : S -> request -> N -> N -> option cred -> S * R * list B.

  Lemma processed_gate_lemma : forall st pol rq st' r log,
    handle_call S B R dispatch st pol false rq = (st', MsgAccepted, r, log) -> gate pol rq = true.
  Proof.
    intros st pol rq st' r log H. unfold handle_call in H.
    destruct (v_allowed (validate_request pol rq)) eqn:V.
    - apply allowed_gate_lemma. exact V.
    - inversion H.
  Qed.

  Lemma denied_no_effect_lemma : forall st pol rq,
    gate pol rq = false ->
    handle_call S B R dispatch st pol false rq = (st, MsgDenied, None, []).
  Proof.
    intros st pol rq G. unfold handle_call. rewrite (gate_false_denied pol rq G). reflexivity.
  Qed.

  (* whatever is not dispatched leaves no trace: denied or drained *)
  Lemma not_accepted_no_effect_lemma : forall st pol draining rq st' k r log,
    handle_call S B R dispatch st pol draining rq = (st', k, r, log) -> k <> MsgAccepted ->
    st' = st /\ r = None /\ log = [].
  Proof.
    intros st pol draining rq st' k r log H Hk. unfold handle_call in H.
    destruct draining; [inversion H; subst; repeat split|].
    destruct (v_allowed (validate_request pol rq)).
    - destruct (dispatch st rq _ _ _) as [[s2 r2] l2]. inversion H; subst. congruence.
    - inversion H; subst; repeat split.
  Qed.
End HandleCallProofs.

(* ---------- C09_sound, assembled ---------- *)
Definition request_wf (rq : request) : Prop :=
  match rq_client rq with Some c16 => c16 < 2 ^ 128 | None => True end.

Section Sound.
  Variables S B R : Type.
  Variable dispatch : S -> request -> N -> N -> option cred -> S * R * list B.

  Lemma sound_lemma : forall st pol rq st' r log,
    request_wf rq -> entries_wf (pol_allowed pol) ->
    handle_call S B R dispatch st pol false rq = (st', MsgAccepted, r, log) ->
    (pol_allowed pol = [] \/
     exists c16 e, rq_client rq = Some c16 /\ In e (pol_allowed pol) /\ lies_in c16 e = true) /\
    (pol_secure pol = true -> (rq_port rq < privileged_port_limit)%Z).
  Proof.
    intros st pol rq st' r log Wr We H.
    apply processed_gate_lemma in H. apply gate_meaning in H. destruct H as [[H|H] P]; split; try assumption.
    - left. assumption.
    - right. unfold request_wf in Wr. destruct (rq_client rq) as [c16|]; [|discriminate].
      destruct (sound_filter_lemma c16 _ Wr We H) as (e & He & L). exists c16, e. repeat split; assumption.
  Qed.
End Sound.
