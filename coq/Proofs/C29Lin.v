(* Proofs/C29Lin.v — what "the concurrent history is linearizable against Model/Srv.step" means, and the soundness of
   the checker of Corr/C29.v: whenever [lin_check] answers [Linearizable ids], the identifiers name a total order of
   ALL completed requests that respects real-time precedence and under which the sequential model reproduces every
   observed reply (on the projection [op_match]) and ends in the observed final tree.  The search ([dfs], with its
   fuel, budget and memo table) is NOT trusted: its answer is re-checked by [validate], and only [validate] is
   reasoned about here.  (No completeness claim: [NoLinearization] is evidence, not a theorem.) *)
From Coq Require Import List NArith ZArith Bool Lia Permutation.
From Verif Require Import Model.Handles Model.Backend Model.Srv Corr.Common Corr.SrvCase Corr.C29.
Import ListNotations.
Open Scope N_scope.

(* a finished before b was invoked *)
Definition precedes (a b : cop) : Prop := p_resp a < p_inv b.
(* nothing placed later in the order finished before something placed earlier was invoked *)
Definition respects_realtime (order : list cop) : Prop :=
  forall i j a b, (j < i)%nat -> nth_error order i = Some a -> nth_error order j = Some b -> ~ precedes a b.

(* the model, fed the requests in this order, reproduces every observed reply; s' is the state it ends in *)
Inductive replays (K : case) : srv -> list cop -> srv -> Prop :=
| rp_nil s : replays K s [] s
| rp_cons s a l s' :
    op_match K (fst (apply_op K s a)) (snd (apply_op K s a)) a = true ->
    replays K (fst (apply_op K s a)) l s' -> replays K s (a :: l) s'.

Definition linearization (K : case) (order : list cop) : Prop :=
  Permutation order (k_ops K) /\ respects_realtime order /\
  exists s', replays K (init_of29 K) order s' /\ dump_matches_nt (fs s') (k_final K) = true.
Definition linearizable (K : case) : Prop := exists order, linearization K order.

(* ---------- the sequential specification is a function ---------- *)
Lemma step_deterministic s c r x y : step s c r = x -> step s c r = y -> x = y.
Proof. congruence. Qed.
Lemma replays_deterministic K : forall l s s1 s2, replays K s l s1 -> replays K s l s2 -> s1 = s2.
Proof.
  induction l as [|a l IH]; intros s s1 s2 H1 H2; inversion H1; inversion H2; subst; [reflexivity|].
  eapply IH; eassumption.
Qed.
(* a replay is the fold of apply_op: the final state of an order is determined by the order alone *)
Lemma replays_fold K : forall l s s', replays K s l s' -> s' = fold_left (fun s a => fst (apply_op K s a)) l s.
Proof. induction l as [|a l IH]; intros s s' H; inversion H; subst; cbn; [reflexivity|]. apply IH. assumption. Qed.

(* ---------- boolean checks reflect the definitions ---------- *)
Lemma nodupb_N l : nodupb N.eqb l = true -> NoDup l.
Proof.
  induction l as [|x l IH]; cbn; intros H; [constructor|].
  apply andb_true_iff in H as [H1 H2]. constructor; [|apply IH; exact H2].
  intros HI. apply negb_true_iff in H1.
  assert (E : existsb (N.eqb x) l = true) by (apply existsb_exists; exists x; split; [exact HI|apply N.eqb_refl]).
  congruence.
Qed.

Lemma find_op_spec ops id a : find_op ops id = Some a -> In a ops /\ p_id a = id.
Proof.
  unfold find_op. intros H. apply find_some in H as [H1 H2]. split; [exact H1|]. apply N.eqb_eq. exact H2.
Qed.
Lemma resolve_ids_spec ops : forall ids l, resolve_ids ops ids = Some l -> map p_id l = ids /\ incl l ops.
Proof.
  induction ids as [|i r IH]; cbn; intros l H.
  - injection H as <-. split; [reflexivity|intros x []].
  - destruct (find_op ops i) as [a|] eqn:F; [|discriminate].
    destruct (resolve_ids ops r) as [l'|] eqn:R; [|discriminate]. injection H as <-.
    destruct (find_op_spec _ _ _ F) as [F1 F2]. destruct (IH l' eq_refl) as [I1 I2].
    split; [cbn; rewrite F2, I1; reflexivity|]. intros x [<-|Hx]; [exact F1|apply I2; exact Hx].
Qed.

Lemma rt_ok_spec : forall l, rt_ok l = true -> respects_realtime l.
Proof.
  induction l as [|x l IH]; intros H i j a b Hji Hi Hj.
  - destruct i; discriminate.
  - cbn in H. apply andb_true_iff in H as [H1 H2].
    destruct i as [|i]; [lia|]. cbn in Hi. destruct j as [|j]; cbn in Hj.
    + injection Hj as <-. apply nth_error_In in Hi.
      rewrite forallb_forall in H1. specialize (H1 _ Hi). apply negb_true_iff in H1.
      unfold precedes. apply N.ltb_ge in H1. lia.
    + eapply (IH H2 i j); [lia|eassumption|eassumption].
Qed.

Lemma replay_spec K : forall l s s', replay K s l = Some s' -> replays K s l s'.
Proof.
  induction l as [|a l IH]; cbn; intros s s' H.
  - injection H as <-. constructor.
  - destruct (op_match K (fst (apply_op K s a)) (snd (apply_op K s a)) a) eqn:M; [|discriminate].
    constructor; [exact M|]. apply IH. exact H.
Qed.

(* ---------- soundness ---------- *)
Theorem validate_sound K ids : validate K ids = true -> exists order, map p_id order = ids /\ linearization K order.
Proof.
  unfold validate. intros H.
  apply andb_true_iff in H as [H H4]. apply andb_true_iff in H as [H H3]. apply andb_true_iff in H as [_ H2].
  destruct (resolve_ids (k_ops K) ids) as [l|] eqn:R; [|discriminate].
  apply andb_true_iff in H4 as [H5 H6].
  destruct (replay K (init_of29 K) l) as [s'|] eqn:RP; [|discriminate].
  destruct (resolve_ids_spec _ _ _ R) as [M I].
  exists l. split; [exact M|]. split; [|split].
  - apply NoDup_Permutation_bis.
    + apply (NoDup_map_inv p_id). rewrite M. apply nodupb_N. exact H2.
    + apply Nat.eqb_eq in H3. rewrite <- H3, <- M, map_length. lia.
    + exact I.
  - apply rt_ok_spec. exact H5.
  - exists s'. split; [apply replay_spec; exact RP|exact H6].
Qed.

Theorem lin_check_sound K ids : lin_check K = Linearizable ids -> exists order, map p_id order = ids /\ linearization K order.
Proof.
  unfold lin_check. destruct (lin_search K) as [o| |]; try discriminate.
  destruct (validate K o) eqn:V; [|discriminate]. intros H. injection H as <-. apply validate_sound. exact V.
Qed.

(* the run-time verdict of stream C29: no code is reported only when a linearization exists *)
Corollary lin_check_linearizable K ids : lin_check K = Linearizable ids -> linearizable K.
Proof. intros H. destruct (lin_check_sound K ids H) as [o [_ L]]. exists o. exact L. Qed.

(* ---------- consequences of the definition that make "some serial order" meaningful ---------- *)
(* real-time precedence is respected pairwise: if a finished before b began, a is replayed first *)
Lemma realtime_before order a b i j :
  respects_realtime order -> nth_error order i = Some a -> nth_error order j = Some b -> precedes a b -> i <> j -> (i < j)%nat.
Proof.
  intros R Hi Hj P N. destruct (Nat.lt_trichotomy i j) as [L|[E|G]]; [exact L|contradiction|].
  exfalso. exact (R i j a b G Hi Hj P).
Qed.
(* requests of one client are sequential (each finished before the next was invoked): a linearization keeps program order *)
Lemma program_order order a b i j :
  respects_realtime order -> nth_error order i = Some a -> nth_error order j = Some b ->
  p_resp a < p_inv b -> i <> j -> (i < j)%nat.
Proof. intros. eapply realtime_before; eassumption. Qed.

(* ---------- non-vacuity: a concrete two-client history with an overlap ---------- *)
Definition ex_cred : cred := {| c_uid := 0; c_gid := 0; c_aux := [] |}.
Definition ex_cfg : cfg := {| tsize := 65536; ro := false; maxfile := 0; attr_ttl := 1; attr_cap := 10000; neg_on := false;
                              neg_ttl := 1; dir_on := false; dir_ttl := 1; dir_cap := 1000; dir_maxsize := 10000 |}.
Definition ex_nosattr : sattr := {| s_mode := None; s_uid := None; s_gid := None; s_size := None; s_atime := 0; s_atime_v := 0;
                                    s_mtime := 0; s_mtime_v := 0 |}.
Definition slash_ : N := 47.
Definition ex_root_dump : dump_entry := ([], (KDir, 493, 0, 0, 0, [], [], 1000000000000)).
Definition na : name := [97].   Definition nb : name := [98].
Definition file_attr (p : path) : fattr :=
  {| fa_type := 1; fa_perm := 420; fa_nlink := 1; fa_uid := 0; fa_gid := 0; fa_size := 0; fa_fileid := fileid_of p; fa_mtime := 0 |}.
Definition ex_obs_create (ix : N) (p : path) : obs :=
  {| ob_rpc := 0; ob_status := 0; ob_attrs := [Some (file_attr p); None]; ob_wcc := []; ob_fh := Some ix; ob_nums := [];
     ob_bytes := []; ob_entries := []; ob_eof := false |}.
Definition ex_mk (id cli i r : N) (q : req) (o : obs) : cop :=
  {| p_id := id; p_cli := cli; p_inv := i; p_resp := r; p_cred := ex_cred; p_req := q; p_obs := o; p_keep := None |}.
(* MNT "/" first; then two clients create different names in the root CONCURRENTLY (intervals [3,6] and [4,5] overlap);
   the observed LOOKUP of client 1 ([7,8]) started after both *)
Definition ex_case : case :=
  {| k_mode := 0; k_cfg := ex_cfg; k_init := [ex_root_dump]; k_paths := [(0, []); (1, [na]); (2, [nb])];
     k_ops := [ ex_mk 0 99 1 2 (RMnt [slash_]) {| ob_rpc := 0; ob_status := 0; ob_attrs := []; ob_wcc := []; ob_fh := Some 0;
                                                  ob_nums := []; ob_bytes := []; ob_entries := []; ob_eof := false |};
                ex_mk 1 0 3 6 (RCreate 0 na 0 ex_nosattr) (ex_obs_create 1 [na]);
                ex_mk 2 1 4 5 (RCreate 0 nb 0 ex_nosattr) (ex_obs_create 2 [nb]);
                ex_mk 3 1 7 8 (RLookup 0 na) (ex_obs_create 1 [na]) ];
     k_final := [ex_root_dump; ([na], (KFile, 420, 0, 0, 0, [], [], 0)); ([nb], (KFile, 420, 0, 0, 0, [], [], 0))];
     k_hist := []; k_probe := []; k_table := []; k_issued := [];
     k_acsize := 0; k_dcsize := 0; k_gor0 := 0; k_gor1 := 0; k_deadlock := false; k_panic := false; k_race := false |}.
Example ex_case_linearizable : exists ids, lin_check ex_case = Linearizable ids.
Proof. eexists. vm_compute. reflexivity. Qed.
(* both orders of the two concurrent CREATEs are linearizations (they commute on the projection) ... *)
Example ex_case_both_orders : validate ex_case [0; 1; 2; 3] = true /\ validate ex_case [0; 2; 1; 3] = true.
Proof. split; vm_compute; reflexivity. Qed.
(* ... but the LOOKUP cannot be moved before the CREATE it observed (its reply would differ), and nothing may
   overtake the MNT that finished before everything else began (real time) *)
Example ex_case_bad_orders : validate ex_case [0; 2; 3; 1] = false /\ validate ex_case [1; 0; 2; 3] = false.
Proof. split; vm_compute; reflexivity. Qed.
(* a history with NO linearization: the same requests, but the LOOKUP that ran after both CREATEs answers NOENT *)
Definition ex_bad_case : case :=
  {| k_mode := 0; k_cfg := ex_cfg; k_init := [ex_root_dump]; k_paths := k_paths ex_case;
     k_ops := firstn 3 (k_ops ex_case) ++
              [ex_mk 3 1 7 8 (RLookup 0 na) {| ob_rpc := 0; ob_status := 2; ob_attrs := [None]; ob_wcc := []; ob_fh := None;
                                               ob_nums := []; ob_bytes := []; ob_entries := []; ob_eof := false |}];
     k_final := k_final ex_case; k_hist := []; k_probe := []; k_table := []; k_issued := [];
     k_acsize := 0; k_dcsize := 0; k_gor0 := 0; k_gor1 := 0; k_deadlock := false; k_panic := false; k_race := false |}.
Example ex_bad_case_rejected : lin_check ex_bad_case = NoLinearization.
Proof. vm_compute. reflexivity. Qed.
