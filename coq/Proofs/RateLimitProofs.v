(* Proofs/RateLimitProofs.v — lemmas about the rate-limiter model (Model/RateLimit.v). *)
From Coq Require Import List QArith Qminmax Lqa Bool Lia ZArith NArith.
From Verif Require Import Gen.Facts Model.TokenBucket Model.RateLimit Proofs.TokenBucketProofs.
Import ListNotations.
Open Scope Q_scope.

(* ================= keys and association lists ================= *)
Lemma optype_eqb_spec a b : reflect (a = b) (optype_eqb a b).
Proof. destruct a, b; cbn; constructor; congruence. Qed.

Lemma key_eqb_spec a b : reflect (a = b) (key_eqb a b).
Proof.
  destruct a as [|x|x|x o], b as [|y|y|y p]; cbn; try (constructor; congruence).
  - destruct (N.eqb_spec x y); constructor; congruence.
  - destruct (N.eqb_spec x y); constructor; congruence.
  - destruct (N.eqb_spec x y), (optype_eqb_spec o p); cbn; constructor; congruence.
Qed.
Lemma key_eqb_refl k : key_eqb k k = true.
Proof. destruct (key_eqb_spec k k); congruence. Qed.
Lemma key_eqb_neq k k' : k <> k' -> key_eqb k k' = false.
Proof. destruct (key_eqb_spec k k'); congruence. Qed.

Lemma find_upd_same k b m : find k (upd k b m) = Some b.
Proof.
  induction m as [|[k' b'] r IH]; cbn.
  - rewrite key_eqb_refl. reflexivity.
  - destruct (key_eqb k k') eqn:E; cbn.
    + rewrite key_eqb_refl. reflexivity.
    + rewrite E. exact IH.
Qed.
Lemma find_upd_other k k' b m : k' <> k -> find k' (upd k b m) = find k' m.
Proof.
  intros Hne. induction m as [|[k0 b0] r IH]; cbn.
  - rewrite (key_eqb_neq _ _ Hne). reflexivity.
  - destruct (key_eqb k k0) eqn:E; cbn.
    + destruct (key_eqb_spec k k0) as [->|]; [|discriminate].
      rewrite (key_eqb_neq _ _ Hne). reflexivity.
    + destruct (key_eqb k' k0); [reflexivity|exact IH].
Qed.
Lemma in_keys_upd x k b m : In x (map fst (upd k b m)) -> x = k \/ In x (map fst m).
Proof.
  induction m as [|[k0 b0] r IH]; cbn.
  - intros [H|[]]; left; congruence.
  - destruct (key_eqb k k0) eqn:E; cbn.
    + destruct (key_eqb_spec k k0) as [->|]; [|discriminate]. intros [H|H]; [left; congruence|right; right; exact H].
    + intros [H|H]; [right; left; exact H|]. destruct (IH H) as [H1|H1]; [left; exact H1|right; right; exact H1].
Qed.
Lemma NoDup_upd k b m : NoDup (map fst m) -> NoDup (map fst (upd k b m)).
Proof.
  induction m as [|[k0 b0] r IH]; cbn; intros H.
  - constructor; [intros []|constructor].
  - inversion H as [|? ? Hn Hr]; subst. destruct (key_eqb k k0) eqn:E; cbn.
    + destruct (key_eqb_spec k k0) as [->|]; [|discriminate]. constructor; assumption.
    + constructor; [|apply IH; exact Hr]. intros Hin. destruct (in_keys_upd _ _ _ _ Hin) as [->|H1].
      * rewrite key_eqb_refl in E. discriminate.
      * contradiction.
Qed.
Lemma find_none_notin k m : find k m = None -> ~ In k (map fst m).
Proof.
  induction m as [|[k0 b0] r IH]; cbn; [tauto|].
  destruct (key_eqb_spec k k0) as [->|Hne]; [discriminate|]. intros H [H1|H1]; [congruence|exact (IH H H1)].
Qed.
Lemma notin_find_none k m : ~ In k (map fst m) -> find k m = None.
Proof.
  induction m as [|[k0 b0] r IH]; cbn; [reflexivity|].
  intros H. destruct (key_eqb_spec k k0) as [->|Hne]; [tauto|]. apply IH. tauto.
Qed.
Lemma find_in k b m : find k m = Some b -> In (k, b) m.
Proof.
  induction m as [|[k0 b0] r IH]; cbn; [discriminate|].
  destruct (key_eqb_spec k k0) as [->|Hne]; [intros H; left; congruence|intros H; right; exact (IH H)].
Qed.
Lemma in_keys_filter {p : key * tb -> bool} x m : In x (map fst (filter p m)) -> In x (map fst m).
Proof.
  induction m as [|e r IH]; cbn; [tauto|]. destruct (p e); cbn; intros H; [destruct H as [H|H]; [left; exact H|right; exact (IH H)]|right; exact (IH H)].
Qed.
Lemma NoDup_filter (p : key * tb -> bool) m : NoDup (map fst m) -> NoDup (map fst (filter p m)).
Proof.
  induction m as [|e r IH]; cbn; intros H; [constructor|].
  inversion H as [|? ? Hn Hr]; subst. destruct (p e); cbn; [|apply IH; exact Hr].
  constructor; [|apply IH; exact Hr]. intros Hin. apply Hn. exact (in_keys_filter _ _ Hin).
Qed.
(* with unique keys, filtering keeps or drops exactly the entry of k *)
Lemma find_filter (p : key * tb -> bool) k m : NoDup (map fst m) ->
  find k (filter p m) = match find k m with Some b => if p (k, b) then Some b else None | None => None end.
Proof.
  induction m as [|[k0 b0] r IH]; cbn; intros H; [reflexivity|].
  inversion H as [|? ? Hn Hr]; subst.
  destruct (key_eqb_spec k k0) as [->|Hne].
  - destruct (p (k0, b0)) eqn:Ep; cbn.
    + rewrite key_eqb_refl. reflexivity.
    + apply notin_find_none. intros Hin. apply Hn. exact (in_keys_filter _ _ Hin).
  - destruct (p (k0, b0)); cbn; [rewrite (key_eqb_neq _ _ Hne)|]; apply IH; exact Hr.
Qed.

(* ================= configuration sanity and the state invariant ================= *)
Definition lim_ok (lim : limits) : Prop := forall k, 0 <= rate_of lim k /\ 0 <= burst_of lim k.

(* every bucket carries its limiter's rate and burst, was last touched in the past, holds >= 0 tokens; keys unique *)
Record inv (lim : limits) (m : list (key * tb)) (now : Q) : Prop := {
  inv_nodup : NoDup (map fst m);
  inv_bucket : forall k b, find k m = Some b ->
      rate b = rate_of lim k /\ maxT b = burst_of lim k /\ last b <= now /\ 0 <= tokens b }.

Lemma inv_wf lim m now k b : lim_ok lim -> inv lim m now -> find k m = Some b -> wf b /\ last b <= now.
Proof.
  intros Hok Hi Hf. destruct (inv_bucket _ _ _ Hi _ _ Hf) as (Hr & Hm & Hl & Ht). destruct (Hok k) as [H1 H2].
  unfold wf. rewrite Hr, Hm. repeat split; assumption.
Qed.
Lemma inv_later lim m now now' : inv lim m now -> now <= now' -> inv lim m now'.
Proof.
  intros [Hn Hb] Hle. split; [exact Hn|]. intros k b Hf. destruct (Hb _ _ Hf) as (H1 & H2 & H3 & H4).
  repeat split; try assumption. lra.
Qed.
Lemma inv_init lim t0 : lim_ok lim -> inv lim (buckets (init lim t0)) t0.
Proof.
  intros Hok. split; cbn.
  - constructor; [intros []|constructor].
  - intros k b. destruct (key_eqb_spec k KGlobal) as [->|]; [|discriminate].
    intros H; inversion H; subst; cbn. destruct (Hok KGlobal). repeat split; try reflexivity; lra.
Qed.

(* ---- level ---- *)
Lemma level_present lim m k b now : find k m = Some b -> level lim m k now = refilled b now.
Proof. unfold level, tokens_at. intros ->. reflexivity. Qed.
Lemma level_absent lim m k now : find k m = None -> level lim m k now = burst_of lim k.
Proof. unfold level. intros ->. reflexivity. Qed.

Lemma level_le_burst lim m now k t : inv lim m now -> level lim m k t <= burst_of lim k.
Proof.
  intros Hi. unfold level, tokens_at. destruct (find k m) as [b|] eqn:E; [|lra].
  destruct (inv_bucket _ _ _ Hi _ _ E) as (_ & Hm & _). rewrite <- Hm. apply refilled_le_max.
Qed.
Lemma level_nonneg lim m now k t : lim_ok lim -> inv lim m now -> now <= t -> 0 <= level lim m k t.
Proof.
  intros Hok Hi Hle. unfold level, tokens_at. destruct (find k m) as [b|] eqn:E; [|apply Hok].
  destruct (inv_wf _ _ _ _ _ Hok Hi E) as [Hwf Hl]. apply refilled_nonneg; [exact Hwf|lra].
Qed.
(* the level at a later time is the earlier level refilled and capped, for present and absent buckets alike *)
Lemma level_later lim m now now' k : lim_ok lim -> inv lim m now -> now <= now' ->
  level lim m k now' == cap (burst_of lim k) (level lim m k now + (now' - now) * rate_of lim k).
Proof.
  intros Hok Hi Hle. destruct (Hok k) as [Hr Hb].
  assert (Hd : 0 <= (now' - now) * rate_of lim k) by (apply Qmult_le_0_compat; lra).
  unfold level, tokens_at. destruct (find k m) as [b|] eqn:E.
  - destruct (inv_bucket _ _ _ Hi _ _ E) as (Hrb & Hmb & _ & _). rewrite <- Hrb, <- Hmb.
    apply refilled_later; [rewrite Hrb; exact Hr|exact Hle].
  - symmetry. apply cap_full. lra.
Qed.
Lemma level_later_le lim m now now' k : lim_ok lim -> inv lim m now -> now <= now' ->
  level lim m k now' <= level lim m k now + (now' - now) * rate_of lim k.
Proof. intros Hok Hi Hle. rewrite (level_later _ _ _ _ k Hok Hi Hle). apply cap_le_arg. Qed.
Lemma level_mono_time lim m now now' k : lim_ok lim -> inv lim m now -> now <= now' ->
  level lim m k now <= level lim m k now'.
Proof.
  intros Hok Hi Hle. rewrite (level_later _ _ _ _ k Hok Hi Hle). destruct (Hok k) as [Hr Hb].
  assert (Hd : 0 <= (now' - now) * rate_of lim k) by (apply Qmult_le_0_compat; lra).
  apply cap_glb; [apply (level_le_burst _ _ _ _ _ Hi)|lra].
Qed.

(* ================= cleanup passes and CleanupConnection ================= *)
(* any pass that drops only full buckets changes no level *)
Lemma filter_inv lim m now (p : key * tb -> bool) : inv lim m now -> inv lim (filter p m) now.
Proof.
  intros Hi. split; [apply NoDup_filter, (inv_nodup _ _ _ Hi)|].
  intros k b Hf. rewrite (find_filter p k m (inv_nodup _ _ _ Hi)) in Hf.
  destruct (find k m) as [b0|] eqn:E; [|discriminate]. destruct (p (k, b0)); [|discriminate].
  inversion Hf; subst. exact (inv_bucket _ _ _ Hi _ _ E).
Qed.
Lemma filter_level lim m now (p : key * tb -> bool) :
  inv lim m now ->
  (forall k b, find k m = Some b -> p (k, b) = false -> full lim k b now = true) ->
  forall k, level lim (filter p m) k now == level lim m k now.
Proof.
  intros Hi Hfull k. unfold level. rewrite (find_filter p k m (inv_nodup _ _ _ Hi)).
  destruct (find k m) as [b|] eqn:E; [|reflexivity].
  destruct (p (k, b)) eqn:Ep; [reflexivity|].
  specialize (Hfull _ _ E Ep). unfold full in Hfull. apply Qle_bool_true in Hfull.
  pose proof (level_le_burst lim m now k now Hi) as Hle. unfold level in Hle. rewrite E in Hle. lra.
Qed.

Lemma cleanup_ip_full lim sel now m k b :
  find k m = Some b ->
  (match fst (k, b) with KIP ip => negb (full lim (fst (k, b)) (snd (k, b)) now && sel ip) | _ => true end) = false ->
  full lim k b now = true.
Proof.
  intros _. cbn [fst snd]. destruct k; try discriminate.
  destruct (full lim (KIP ip) b now); [reflexivity|discriminate].
Qed.
Lemma cleanup_op_full lim now m k b :
  find k m = Some b ->
  (match fst (k, b) with KOp ip _ => negb (all_full lim ip now m) | _ => true end) = false ->
  full lim k b now = true.
Proof.
  intros Hf. cbn [fst]. destruct k as [| | |ip op]; try discriminate.
  intros H. apply negb_false_iff in H. unfold all_full in H. rewrite forallb_forall in H.
  specialize (H _ (find_in _ _ _ Hf)). cbn [fst snd] in H. rewrite N.eqb_refl in H. exact H.
Qed.

Lemma pre_cleanup_spec e lim i st k now :
  inv lim (buckets st) now ->
  inv lim (buckets (pre_cleanup e lim i st k now)) now /\
  forall k', level lim (buckets (pre_cleanup e lim i st k now)) k' now == level lim (buckets st) k' now.
Proof.
  intros Hi. unfold pre_cleanup. destruct k as [|ip|c|ip op].
  - split; [exact Hi|reflexivity].
  - destruct (trig e i (KIP ip) now (lc_ip st)); [|split; [exact Hi|reflexivity]]. cbn [buckets].
    split; [apply filter_inv; exact Hi|].
    apply filter_level; [exact Hi|]. intros k b Hf Hp. exact (cleanup_ip_full lim (sel e i) now _ k b Hf Hp).
  - split; [exact Hi|reflexivity].
  - destruct (trig e i (KOp ip op) now (lc_op st)); [|split; [exact Hi|reflexivity]]. cbn [buckets].
    split; [apply filter_inv; exact Hi|].
    apply filter_level; [exact Hi|]. intros k b Hf Hp. exact (cleanup_op_full lim now _ k b Hf Hp).
Qed.
(* a cleanup pass never touches the global bucket (nor any bucket of another class) *)
Lemma find_filter_keep (p : key * tb -> bool) k m : (forall b, p (k, b) = true) -> find k (filter p m) = find k m.
Proof.
  intros Hp. induction m as [|[k0 b0] r IH]; cbn; [reflexivity|].
  destruct (key_eqb_spec k k0) as [->|Hne].
  - rewrite Hp. cbn. rewrite key_eqb_refl. reflexivity.
  - destruct (p (k0, b0)); cbn; [rewrite (key_eqb_neq _ _ Hne)|]; exact IH.
Qed.
Lemma pre_cleanup_global e lim i st k now :
  find KGlobal (buckets (pre_cleanup e lim i st k now)) = find KGlobal (buckets st).
Proof.
  unfold pre_cleanup. destruct k as [|ip|c|ip op]; try reflexivity.
  - destruct (trig e i (KIP ip) now (lc_ip st)); [|reflexivity]. cbn [buckets]. apply find_filter_keep. reflexivity.
  - destruct (trig e i (KOp ip op) now (lc_op st)); [|reflexivity]. cbn [buckets]. apply find_filter_keep. reflexivity.
Qed.

Lemma remove_inv lim m now k0 : inv lim m now -> inv lim (remove k0 m) now.
Proof. apply filter_inv. Qed.
Lemma find_remove_other k0 k m : k <> k0 -> find k (remove k0 m) = find k m.
Proof.
  intros Hne. induction m as [|[k1 b1] r IH]; cbn; [reflexivity|].
  destruct (key_eqb_spec k0 k1) as [->|Hne1]; cbn.
  - rewrite (key_eqb_neq _ _ Hne). exact IH.
  - destruct (key_eqb k k1); [reflexivity|exact IH].
Qed.
Lemma find_remove_same k0 m : find k0 (remove k0 m) = None.
Proof.
  induction m as [|[k1 b1] r IH]; cbn; [reflexivity|].
  destruct (key_eqb_spec k0 k1) as [->|Hne1]; cbn; [exact IH|]. rewrite (key_eqb_neq _ _ Hne1). exact IH.
Qed.

(* ================= one consultation ================= *)
Lemma consult_spec e lim i st k now a st' :
  lim_ok lim -> inv lim (buckets st) now -> consult e lim i st k now = (a, st') ->
  inv lim (buckets st') now /\
  (a = true <-> 1 <= level lim (buckets st) k now) /\
  level lim (buckets st') k now == level lim (buckets st) k now - (if a then 1 else 0) /\
  (forall k', k' <> k -> level lim (buckets st') k' now == level lim (buckets st) k' now).
Proof.
  intros Hok Hi. unfold consult.
  destruct (pre_cleanup_spec e lim i st k now Hi) as [Hi1 Hl1].
  set (st1 := pre_cleanup e lim i st k now) in *. clearbody st1.
  set (b := match find k (buckets st1) with Some b => b | None => mk (rate_of lim k) (burst_of lim k) now end).
  assert (Hb : wf b /\ last b <= now /\ rate b = rate_of lim k /\ maxT b = burst_of lim k /\
               refilled b now == level lim (buckets st1) k now).
  { unfold b, level, tokens_at. destruct (find k (buckets st1)) as [b0|] eqn:E.
    - destruct (inv_wf _ _ _ _ _ Hok Hi1 E) as [Hwf Hl].
      destruct (inv_bucket _ _ _ Hi1 _ _ E) as (Hr & Hm & _ & _). repeat split; try assumption; try apply Hwf.
    - destruct (Hok k) as [Hr Hbu]. split; [apply wf_mk; assumption|]. cbn [mk last rate maxT].
      repeat split; try reflexivity; try lra. apply refilled_mk. }
  clearbody b. destruct Hb as (Hwf & Hlast & Hrate & Hmax & Hlev).
  destruct (allow b now) as [a0 b'] eqn:Ea. intros H; inversion H; subst a0 st'; clear H. cbn [buckets].
  destruct (allow_spec _ _ _ _ Ea) as (Hm' & Hr' & Hl' & Hc).
  pose proof (allow_wf _ _ _ _ Ea Hwf Hlast) as Hwf'.
  pose proof (allow_level _ _ _ _ Ea Hwf Hlast) as Hlev'.
  split; [|split; [|split]].
  - split; [apply NoDup_upd, (inv_nodup _ _ _ Hi1)|].
    intros k2 b2. destruct (key_eqb_spec k2 k) as [->|Hne].
    + rewrite find_upd_same. intros H; inversion H; subst b2.
      rewrite Hm', Hr', Hl'. repeat split; try assumption; [lra|apply Hwf'].
    + rewrite (find_upd_other _ _ _ _ Hne). apply (inv_bucket _ _ _ Hi1).
  - rewrite <- (Hl1 k), <- Hlev. destruct Hc as [(-> & H1 & _)|(-> & H1 & _)]; split; intros; try lra; try reflexivity; try discriminate.
  - rewrite (level_present _ _ _ _ _ (find_upd_same k b' (buckets st1))). rewrite Hlev', Hlev, (Hl1 k). reflexivity.
  - intros k' Hne. unfold level. rewrite (find_upd_other _ _ _ _ Hne). exact (Hl1 k').
Qed.

(* the global bucket is only ever touched by its own consultation *)
Lemma consult_global_untouched e lim i st k now a st' :
  k <> KGlobal -> consult e lim i st k now = (a, st') ->
  find KGlobal (buckets st') = find KGlobal (buckets st).
Proof.
  intros Hne. unfold consult.
  destruct (allow _ now) as [a0 b']. intros H; inversion H; subst. cbn [buckets].
  rewrite find_upd_other by congruence. apply pre_cleanup_global.
Qed.

(* ================= cleanup is invisible: any two environments give the same decisions ================= *)
(* two states are indistinguishable when every limiter has the same level (an absent bucket counts as full) *)
Definition sim (lim : limits) (m1 m2 : list (key * tb)) (now : Q) : Prop :=
  forall k, level lim m1 k now == level lim m2 k now.

Lemma sim_later lim m1 m2 now now' : lim_ok lim -> inv lim m1 now -> inv lim m2 now -> now <= now' ->
  sim lim m1 m2 now -> sim lim m1 m2 now'.
Proof.
  intros Hok H1 H2 Hle Hs k.
  rewrite (level_later _ _ _ _ k Hok H1 Hle), (level_later _ _ _ _ k Hok H2 Hle).
  apply cap_compat. rewrite (Hs k). reflexivity.
Qed.

Lemma consult_sim e1 e2 lim i1 i2 s1 s2 k now a1 a2 s1' s2' :
  lim_ok lim -> inv lim (buckets s1) now -> inv lim (buckets s2) now -> sim lim (buckets s1) (buckets s2) now ->
  consult e1 lim i1 s1 k now = (a1, s1') -> consult e2 lim i2 s2 k now = (a2, s2') ->
  a1 = a2 /\ inv lim (buckets s1') now /\ inv lim (buckets s2') now /\ sim lim (buckets s1') (buckets s2') now.
Proof.
  intros Hok Hi1 Hi2 Hs C1 C2.
  destruct (consult_spec _ _ _ _ _ _ _ _ Hok Hi1 C1) as (Hi1' & Hb1 & Hk1 & Ho1).
  destruct (consult_spec _ _ _ _ _ _ _ _ Hok Hi2 C2) as (Hi2' & Hb2 & Hk2 & Ho2).
  assert (Ha : a1 = a2).
  { pose proof (Hs k) as Hsk. destruct a1, a2; try reflexivity.
    - assert (H : 1 <= level lim (buckets s1) k now) by (apply Hb1; reflexivity).
      assert (H' : false = true) by (apply Hb2; lra). discriminate.
    - assert (H : 1 <= level lim (buckets s2) k now) by (apply Hb2; reflexivity).
      assert (H' : false = true) by (apply Hb1; lra). discriminate. }
  subst a2. split; [reflexivity|split; [exact Hi1'|split; [exact Hi2'|]]].
  intros k'. destruct (key_eqb_spec k' k) as [->|Hne].
  - rewrite Hk1, Hk2, (Hs k). reflexivity.
  - rewrite (Ho1 _ Hne), (Ho2 _ Hne). apply Hs.
Qed.

Lemma consult_seq_sim e1 e2 lim i1 i2 now : lim_ok lim ->
  forall ks s1 s2 tr1 tr2 s1' s2',
  inv lim (buckets s1) now -> inv lim (buckets s2) now -> sim lim (buckets s1) (buckets s2) now ->
  consult_seq e1 lim i1 s1 ks now = (tr1, s1') -> consult_seq e2 lim i2 s2 ks now = (tr2, s2') ->
  tr1 = tr2 /\ inv lim (buckets s1') now /\ inv lim (buckets s2') now /\ sim lim (buckets s1') (buckets s2') now.
Proof.
  intros Hok. induction ks as [|k r IH]; intros s1 s2 tr1 tr2 s1' s2' Hi1 Hi2 Hs C1 C2.
  - cbn in C1, C2. inversion C1; inversion C2; subst. split; [reflexivity|split; [exact Hi1|split; [exact Hi2|exact Hs]]].
  - cbn [consult_seq] in C1, C2.
    destruct (consult e1 lim i1 s1 k now) as [a1 t1] eqn:E1.
    destruct (consult e2 lim i2 s2 k now) as [a2 t2] eqn:E2.
    destruct (consult_sim _ _ _ _ _ _ _ _ _ _ _ _ _ Hok Hi1 Hi2 Hs E1 E2) as (-> & Hj1 & Hj2 & Hs').
    destruct a2.
    + destruct (consult_seq e1 lim i1 t1 r now) as [u1 v1] eqn:F1.
      destruct (consult_seq e2 lim i2 t2 r now) as [u2 v2] eqn:F2.
      inversion C1; inversion C2; subst.
      destruct (IH _ _ _ _ _ _ Hj1 Hj2 Hs' F1 F2) as (-> & K1 & K2 & K3).
      split; [reflexivity|split; [exact K1|split; [exact K2|exact K3]]].
    + inversion C1; inversion C2; subst. split; [reflexivity|split; [exact Hj1|split; [exact Hj2|exact Hs']]].
Qed.

Lemma step_sim e1 e2 lim ord i1 i2 s1 s2 now ev tr1 tr2 s1' s2' : lim_ok lim ->
  inv lim (buckets s1) now -> inv lim (buckets s2) now -> sim lim (buckets s1) (buckets s2) now ->
  step e1 lim ord i1 s1 now ev = (tr1, s1') -> step e2 lim ord i2 s2 now ev = (tr2, s2') ->
  tr1 = tr2 /\ inv lim (buckets s1') now /\ inv lim (buckets s2') now /\ sim lim (buckets s1') (buckets s2') now.
Proof.
  intros Hok Hi1 Hi2 Hs. destruct ev as [ip c|ip op|c]; cbn [step].
  - apply consult_seq_sim; assumption.
  - apply consult_seq_sim; assumption.
  - intros C1 C2. inversion C1; inversion C2; subst. cbn [buckets].
    split; [reflexivity|split; [apply remove_inv; exact Hi1|split; [apply remove_inv; exact Hi2|]]].
    intros k. unfold level. destruct (key_eqb_spec k (KConn c)) as [->|Hne].
    + rewrite !find_remove_same. reflexivity.
    + rewrite !(find_remove_other _ _ _ Hne). apply Hs.
Qed.

Lemma run_from_sim e1 e2 lim ord : lim_ok lim ->
  forall evs i1 i2 s1 s2 tprev, times_sorted tprev evs ->
  inv lim (buckets s1) tprev -> inv lim (buckets s2) tprev -> sim lim (buckets s1) (buckets s2) tprev ->
  fst (run_from e1 lim ord i1 s1 evs) = fst (run_from e2 lim ord i2 s2 evs).
Proof.
  intros Hok. induction evs as [|[now ev] r IH]; intros i1 i2 s1 s2 tprev Hsrt Hi1 Hi2 Hs; [reflexivity|].
  destruct Hsrt as [Hle Hsrt]. cbn [run_from].
  destruct (step e1 lim ord i1 s1 now ev) as [tr1 t1] eqn:E1.
  destruct (step e2 lim ord i2 s2 now ev) as [tr2 t2] eqn:E2.
  destruct (step_sim _ _ _ _ _ _ _ _ _ _ _ _ _ _ Hok (inv_later _ _ _ _ Hi1 Hle) (inv_later _ _ _ _ Hi2 Hle)
              (sim_later _ _ _ _ _ Hok Hi1 Hi2 Hle Hs) E1 E2) as (-> & Hj1 & Hj2 & Hs').
  specialize (IH (S i1) (S i2) t1 t2 now Hsrt Hj1 Hj2 Hs').
  destruct (run_from e1 lim ord (S i1) t1 r) as [u1 v1], (run_from e2 lim ord (S i2) t2 r) as [u2 v2].
  cbn [fst] in *. rewrite IH. reflexivity.
Qed.

(* whatever the trigger of the cleanup passes and whichever full buckets a pass reaches, the consultations and their
   outcomes are those of the limiter without cleanup *)
Lemma C18_cleanup_invisible_lemma e lim ord t0 evs : lim_ok lim -> times_sorted t0 evs ->
  fst (run e lim ord t0 evs) = fst (run env_none lim ord t0 evs).
Proof.
  intros Hok Hs. unfold run.
  apply (run_from_sim e env_none lim ord Hok evs O O (init lim t0) (init lim t0) t0 Hs);
    try (apply inv_init; exact Hok). intros k. reflexivity.
Qed.

(* ================= a request that finds a token in every bucket it consults is admitted ================= *)
Lemma admitted_cons k a tr : admitted ((k, a) :: tr) = a && admitted tr.
Proof. reflexivity. Qed.

Lemma consult_seq_keys e lim i now : forall ks st tr st',
  consult_seq e lim i st ks now = (tr, st') -> forall k a, In (k, a) tr -> In k ks.
Proof.
  induction ks as [|k0 r IH]; intros st tr st' C k a Hin.
  - cbn in C. inversion C; subst. destruct Hin.
  - cbn [consult_seq] in C. destruct (consult e lim i st k0 now) as [a0 s1] eqn:E. destruct a0.
    + destruct (consult_seq e lim i s1 r now) as [u v] eqn:F. inversion C; subst.
      destruct Hin as [H|H]; [left; congruence|right; exact (IH _ _ _ F _ _ H)].
    + inversion C; subst. destruct Hin as [H|[]]. left; congruence.
Qed.

Lemma consult_seq_inv e lim i now : lim_ok lim -> forall ks st tr st',
  inv lim (buckets st) now -> consult_seq e lim i st ks now = (tr, st') -> inv lim (buckets st') now.
Proof.
  intros Hok. induction ks as [|k r IH]; intros st tr st' Hi C.
  - cbn in C. inversion C; subst. exact Hi.
  - cbn [consult_seq] in C. destruct (consult e lim i st k now) as [a s1] eqn:E.
    destruct (consult_spec _ _ _ _ _ _ _ _ Hok Hi E) as (Hi1 & _). destruct a.
    + destruct (consult_seq e lim i s1 r now) as [u v] eqn:F. inversion C; subst. exact (IH _ _ _ Hi1 F).
    + inversion C; subst. exact Hi1.
Qed.

Lemma consult_seq_not_refused e lim i now : lim_ok lim -> forall ks st tr st',
  inv lim (buckets st) now -> NoDup ks -> (forall k, In k ks -> 1 <= level lim (buckets st) k now) ->
  consult_seq e lim i st ks now = (tr, st') -> admitted tr = true.
Proof.
  intros Hok. induction ks as [|k r IH]; intros st tr st' Hi Hnd Hlev C.
  - cbn in C. inversion C; subst. reflexivity.
  - cbn [consult_seq] in C. destruct (consult e lim i st k now) as [a s1] eqn:E.
    destruct (consult_spec _ _ _ _ _ _ _ _ Hok Hi E) as (Hi1 & Hb & _ & Ho).
    assert (Ha : a = true) by (apply Hb, Hlev; left; reflexivity). subst a.
    destruct (consult_seq e lim i s1 r now) as [u v] eqn:F. inversion C; subst.
    rewrite admitted_cons. cbn [andb]. inversion Hnd as [|? ? Hnin Hnd']; subst.
    apply (IH s1 u st' Hi1 Hnd'); [|exact F]. intros k' Hin. rewrite Ho; [apply Hlev; right; exact Hin|].
    intros ->. contradiction.
Qed.

(* ... and a refused request was refused by a bucket that held less than one token *)
Lemma consult_seq_refused e lim i now : lim_ok lim -> forall ks st tr st',
  inv lim (buckets st) now -> NoDup ks ->
  consult_seq e lim i st ks now = (tr, st') -> admitted tr = false ->
  exists k, In (k, false) tr /\ In k ks /\ level lim (buckets st) k now < 1.
Proof.
  intros Hok. induction ks as [|k r IH]; intros st tr st' Hi Hnd C Hadm.
  - cbn in C. inversion C; subst. discriminate.
  - cbn [consult_seq] in C. destruct (consult e lim i st k now) as [a s1] eqn:E.
    destruct (consult_spec _ _ _ _ _ _ _ _ Hok Hi E) as (Hi1 & Hb & _ & Ho).
    inversion Hnd as [|? ? Hnin Hnd']; subst. destruct a.
    + destruct (consult_seq e lim i s1 r now) as [u v] eqn:F. inversion C; subst.
      rewrite admitted_cons in Hadm. cbn [andb] in Hadm.
      destruct (IH _ _ _ Hi1 Hnd' F Hadm) as (k' & H1 & H2 & H3).
      exists k'. split; [right; exact H1|split; [right; exact H2|]].
      rewrite <- Ho; [exact H3|]. intros ->. contradiction.
    + inversion C; subst. exists k. split; [left; reflexivity|split; [left; reflexivity|]].
      apply Qnot_le_lt. intros H. apply Hb in H. discriminate.
Qed.

(* a consulted bucket below one token refuses the request (whoever refuses first) *)
Lemma consult_seq_refuses e lim i now : lim_ok lim -> forall ks st tr st' k,
  inv lim (buckets st) now -> NoDup ks -> In k ks -> level lim (buckets st) k now < 1 ->
  consult_seq e lim i st ks now = (tr, st') -> admitted tr = false.
Proof.
  intros Hok ks st tr st' k Hi Hnd Hin Hlt C.
  destruct (admitted tr) eqn:Ea; [|reflexivity]. exfalso.
  revert st tr st' Hi Hnd Hin Hlt C Ea. induction ks as [|k0 r IH]; intros st tr st' Hi Hnd Hin Hlt C Ea; [destruct Hin|].
  cbn [consult_seq] in C. destruct (consult e lim i st k0 now) as [a s1] eqn:E.
  destruct (consult_spec _ _ _ _ _ _ _ _ Hok Hi E) as (Hi1 & Hb & _ & Ho).
  inversion Hnd as [|? ? Hnin Hnd']; subst. destruct a.
  - destruct (consult_seq e lim i s1 r now) as [u v] eqn:F. inversion C; subst.
    rewrite admitted_cons in Ea. cbn [andb] in Ea.
    destruct Hin as [->|Hin].
    + assert (H : 1 <= level lim (buckets st) k now) by (apply Hb; reflexivity). lra.
    + apply (IH s1 u st' Hi1 Hnd' Hin); [|exact F|exact Ea]. rewrite Ho; [exact Hlt|]. intros ->. contradiction.
  - inversion C; subst. discriminate.
Qed.

(* distinct limiters consult distinct buckets *)
Definition limiter_of_key (k : key) : option rl_limiter :=
  match k with KGlobal => Some RL_Global | KIP _ => Some RL_PerIP | KConn _ => Some RL_PerConn | KOp _ _ => None end.
Lemma keys_of_limiter_inv lim ip c l k : In k (keys_of_limiter lim ip c l) -> limiter_of_key k = Some l.
Proof.
  destruct l; cbn.
  - intros [<-|[]]; reflexivity.
  - intros [<-|[]]; reflexivity.
  - destruct (conn_on lim); [intros [<-|[]]; reflexivity|intros []].
Qed.
Lemma keys_of_limiter_nodup lim ip c l : NoDup (keys_of_limiter lim ip c l).
Proof.
  destruct l; cbn; try (constructor; [intros []|constructor]).
  destruct (conn_on lim); constructor; [intros []|constructor].
Qed.
Lemma keys_of_nodup lim ord ev : NoDup ord -> NoDup (keys_of lim ord ev).
Proof.
  destruct ev as [ip c|ip op|c]; cbn [keys_of]; intros Hnd;
    [|constructor; [intros []|constructor]|constructor].
  induction ord as [|l r IH]; cbn [flat_map]; [constructor|].
  inversion Hnd as [|? ? Hnin Hnd']; subst.
  assert (Happ : forall (a b : list key), NoDup a -> NoDup b -> (forall x, In x a -> ~ In x b) -> NoDup (a ++ b)).
  { induction a as [|x a IHa]; intros b Ha Hb Hd; [exact Hb|]. cbn. inversion Ha; subst.
    constructor.
    - intros Hin. apply in_app_or in Hin. destruct Hin as [Hin|Hin]; [contradiction|]. apply (Hd x); [left; reflexivity|exact Hin].
    - apply IHa; [assumption|assumption|]. intros y Hy. apply Hd. right. exact Hy. }
  apply Happ; [apply keys_of_limiter_nodup|apply IH; exact Hnd'|].
  intros x Hx Hin. apply in_flat_map in Hin. destruct Hin as (l' & Hl' & Hx').
  apply keys_of_limiter_inv in Hx. apply keys_of_limiter_inv in Hx'. assert (l = l') by congruence. subst. contradiction.
Qed.

Lemma C18_not_refused_lemma e lim ord i st now ev : lim_ok lim -> NoDup ord ->
  inv lim (buckets st) now ->
  (forall k, In k (keys_of lim ord ev) -> 1 <= level lim (buckets st) k now) ->
  admitted (fst (step e lim ord i st now ev)) = true.
Proof.
  intros Hok Hnd Hi Hlev. destruct (step e lim ord i st now ev) as [tr st'] eqn:E. cbn [fst].
  destruct ev as [ip c|ip op|c]; cbn [step] in E.
  - exact (consult_seq_not_refused _ _ _ _ Hok _ _ _ _ Hi (keys_of_nodup lim ord (Req ip c) Hnd) Hlev E).
  - exact (consult_seq_not_refused _ _ _ _ Hok _ _ _ _ Hi (keys_of_nodup lim ord (Op ip op) Hnd) Hlev E).
  - inversion E; subst. reflexivity.
Qed.

Lemma C18_refused_lemma e lim ord i st now ev : lim_ok lim -> NoDup ord ->
  inv lim (buckets st) now ->
  admitted (fst (step e lim ord i st now ev)) = false ->
  exists k, In k (keys_of lim ord ev) /\ level lim (buckets st) k now < 1.
Proof.
  intros Hok Hnd Hi. destruct (step e lim ord i st now ev) as [tr st'] eqn:E. cbn [fst]. intros Hadm.
  destruct ev as [ip c|ip op|c]; cbn [step] in E.
  - destruct (consult_seq_refused _ _ _ _ Hok _ _ _ _ Hi (keys_of_nodup lim ord (Req ip c) Hnd) E Hadm) as (k & _ & H2 & H3).
    exists k. split; assumption.
  - destruct (consult_seq_refused _ _ _ _ Hok _ _ _ _ Hi (keys_of_nodup lim ord (Op ip op) Hnd) E Hadm) as (k & _ & H2 & H3).
    exists k. split; assumption.
  - inversion E; subst. discriminate.
Qed.

(* ================= the bound for every limiter of the composite (ledger invariant) ================= *)
Lemma lfind_lremove_other k k' g : k' <> k -> lfind k' (lremove k g) = lfind k' g.
Proof.
  intros Hne. induction g as [|[k1 v1] r IH]; cbn; [reflexivity|].
  destruct (key_eqb_spec k k1) as [->|Hne1]; cbn.
  - rewrite (key_eqb_neq _ _ Hne). exact IH.
  - destruct (key_eqb k' k1); [reflexivity|exact IH].
Qed.
Lemma lfind_lremove_same k g : lfind k (lremove k g) = None.
Proof.
  induction g as [|[k1 v1] r IH]; cbn; [reflexivity|].
  destruct (key_eqb_spec k k1) as [->|Hne1]; cbn; [exact IH|]. rewrite (key_eqb_neq _ _ Hne1). exact IH.
Qed.
Lemma lfind_lset_same k v g : lfind k (lset k v g) = Some v.
Proof. unfold lset. cbn. rewrite key_eqb_refl. reflexivity. Qed.
Lemma lfind_lset_other k k' v g : k' <> k -> lfind k' (lset k v g) = lfind k' g.
Proof. intros Hne. unfold lset. cbn. rewrite (key_eqb_neq _ _ Hne). apply lfind_lremove_other. exact Hne. Qed.

(* admitted-since-creation + current level <= burst + rate * (time since creation); no account => no bucket *)
Definition J (lim : limits) (g : ledger) (m : list (key * tb)) (now : Q) : Prop :=
  forall k,
    match lfind k g with
    | Some en => inject_Z (count en) + level lim m k now <= burst_of lim k + rate_of lim k * (now - created en)
                 /\ created en <= now
    | None => find k m = None
    end.

Lemma J_later lim g m now now' : lim_ok lim -> inv lim m now -> now <= now' -> J lim g m now -> J lim g m now'.
Proof.
  intros Hok Hi Hle HJ k. specialize (HJ k). destruct (lfind k g) as [en|]; [|exact HJ].
  destruct HJ as [Hb Hc]. split; [|lra].
  pose proof (level_later_le _ _ _ _ k Hok Hi Hle) as Hl. lra.
Qed.

Lemma find_filter_none (p : key * tb -> bool) k m : find k m = None -> find k (filter p m) = None.
Proof.
  intros H. apply notin_find_none. intros Hin. apply (find_none_notin _ _ H). exact (in_keys_filter _ _ Hin).
Qed.
Lemma consult_other_none e lim i st k now a st' k' :
  k' <> k -> consult e lim i st k now = (a, st') -> find k' (buckets st) = None -> find k' (buckets st') = None.
Proof.
  intros Hne. unfold consult. destruct (allow _ now) as [a0 b']. intros H Hf; inversion H; subst. cbn [buckets].
  rewrite (find_upd_other _ _ _ _ Hne). unfold pre_cleanup.
  destruct k as [|ip|c|ip op]; try exact Hf.
  - destruct (trig e i (KIP ip) now (lc_ip st)); [|exact Hf]. cbn [buckets]. apply find_filter_none. exact Hf.
  - destruct (trig e i (KOp ip op) now (lc_op st)); [|exact Hf]. cbn [buckets]. apply find_filter_none. exact Hf.
Qed.

Lemma consult_J e lim i st k now a st' g (final fin : bool) :
  lim_ok lim -> inv lim (buckets st) now -> J lim g (buckets st) now ->
  consult e lim i st k now = (a, st') ->
  ((if final then fin else a) = true -> a = true) ->
  J lim (ledger_consult final fin now g (k, a)) (buckets st') now.
Proof.
  intros Hok Hi HJ C Hw.
  destruct (consult_spec _ _ _ _ _ _ _ _ Hok Hi C) as (Hi' & Hb & Hk & Ho).
  intros k'. unfold ledger_consult. cbn [fst snd].
  destruct (key_eqb_spec k' k) as [->|Hne].
  - rewrite lfind_lset_same. cbn [created count]. specialize (HJ k).
    assert (Hcoef : inject_Z (if (if final then fin else a) then 1 else 0) <= (if a then 1 else 0)).
    { destruct (if final then fin else a) eqn:Ew.
      - rewrite (Hw eq_refl). change (inject_Z 1) with 1. lra.
      - change (inject_Z 0) with 0. destruct a; lra. }
    destruct (lfind k g) as [en|] eqn:El.
    + destruct HJ as [Hbd Hc]. split; [|exact Hc]. rewrite Hk, inject_Z_plus. lra.
    + rewrite (level_absent _ _ _ _ HJ) in Hk. cbn [created count]. split; [|lra].
      rewrite Hk, inject_Z_plus. change (inject_Z 0) with 0. lra.
  - rewrite (lfind_lset_other _ _ _ _ Hne). specialize (HJ k'). destruct (lfind k' g) as [en|].
    + rewrite (Ho _ Hne). exact HJ.
    + exact (consult_other_none _ _ _ _ _ _ _ _ _ Hne C HJ).
Qed.

Lemma consult_seq_J e lim i now final fin : lim_ok lim -> forall ks st tr st' g,
  inv lim (buckets st) now -> J lim g (buckets st) now ->
  consult_seq e lim i st ks now = (tr, st') -> (fin = true -> admitted tr = true) ->
  J lim (fold_left (ledger_consult final fin now) tr g) (buckets st') now.
Proof.
  intros Hok. induction ks as [|k r IH]; intros st tr st' g Hi HJ C Hfin.
  - cbn in C. inversion C; subst. exact HJ.
  - cbn [consult_seq] in C. destruct (consult e lim i st k now) as [a s1] eqn:E.
    destruct (consult_spec _ _ _ _ _ _ _ _ Hok Hi E) as (Hi1 & _). destruct a.
    + destruct (consult_seq e lim i s1 r now) as [u v] eqn:F. inversion C; subst. cbn [fold_left].
      apply (IH s1 u st' _ Hi1); [|exact F|].
      * apply (consult_J _ _ _ _ _ _ _ _ _ _ _ Hok Hi HJ E). intros _. reflexivity.
      * intros H. specialize (Hfin H). rewrite admitted_cons in Hfin. exact Hfin.
    + inversion C; subst. cbn [fold_left].
      apply (consult_J _ _ _ _ _ _ _ _ _ _ _ Hok Hi HJ E).
      destruct final; [|trivial]. intros H. specialize (Hfin H). discriminate.
Qed.

Lemma step_J e lim ord i st now ev tr st' g final : lim_ok lim ->
  inv lim (buckets st) now -> J lim g (buckets st) now -> step e lim ord i st now ev = (tr, st') ->
  J lim (ledger_step final now ev tr g) (buckets st') now.
Proof.
  intros Hok Hi HJ. destruct ev as [ip c|ip op|c]; cbn [step ledger_step]; intros C.
  - apply (consult_seq_J _ _ _ _ _ _ Hok _ _ _ _ _ Hi HJ C). trivial.
  - apply (consult_seq_J _ _ _ _ _ _ Hok _ _ _ _ _ Hi HJ C). trivial.
  - inversion C; subst. cbn [buckets]. intros k. destruct (key_eqb_spec k (KConn c)) as [->|Hne].
    + rewrite lfind_lremove_same. apply find_remove_same.
    + rewrite (lfind_lremove_other _ _ _ Hne). specialize (HJ k). unfold level in *.
      rewrite (find_remove_other _ _ _ Hne). exact HJ.
Qed.

Lemma step_inv e lim ord i st now ev tr st' : lim_ok lim ->
  inv lim (buckets st) now -> step e lim ord i st now ev = (tr, st') -> inv lim (buckets st') now.
Proof.
  intros Hok Hi. destruct ev as [ip c|ip op|c]; cbn [step]; intros C.
  - exact (consult_seq_inv _ _ _ _ Hok _ _ _ _ Hi C).
  - exact (consult_seq_inv _ _ _ _ Hok _ _ _ _ Hi C).
  - inversion C; subst. apply remove_inv. exact Hi.
Qed.

Lemma times_sorted_end t0 evs : times_sorted t0 evs -> t0 <= end_time t0 evs.
Proof.
  revert t0. induction evs as [|[t ev] r IH]; intros t0 H; cbn; [lra|].
  destruct H as [H1 H2]. specialize (IH _ H2). lra.
Qed.

Lemma run_from_J e lim ord final : lim_ok lim -> forall evs i st g tprev,
  times_sorted tprev evs -> inv lim (buckets st) tprev -> J lim g (buckets st) tprev ->
  J lim (ledger_run final evs (fst (run_from e lim ord i st evs)) g)
        (buckets (snd (run_from e lim ord i st evs))) (end_time tprev evs) /\
  inv lim (buckets (snd (run_from e lim ord i st evs))) (end_time tprev evs).
Proof.
  intros Hok. induction evs as [|[now ev] r IH]; intros i st g tprev Hs Hi HJ.
  - cbn. split; assumption.
  - destruct Hs as [Hle Hs]. cbn [run_from end_time].
    destruct (step e lim ord i st now ev) as [tr s1] eqn:E.
    pose proof (inv_later _ _ _ _ Hi Hle) as Hi0.
    pose proof (J_later _ _ _ _ _ Hok Hi Hle HJ) as HJ0.
    pose proof (step_inv _ _ _ _ _ _ _ _ _ Hok Hi0 E) as Hi1.
    pose proof (step_J _ _ _ _ _ _ _ _ _ _ final Hok Hi0 HJ0 E) as HJ1.
    specialize (IH (S i) s1 _ now Hs Hi1 HJ1).
    destruct (run_from e lim ord (S i) s1 r) as [trs s2]. cbn [fst snd ledger_run] in *. exact IH.
Qed.

Lemma J_init lim t0 : lim_ok lim -> J lim (ledger_init t0) (buckets (init lim t0)) t0.
Proof.
  intros Hok k. unfold ledger_init, init. cbn [lfind buckets].
  destruct (key_eqb_spec k KGlobal) as [->|Hne].
  - cbn [created count]. split; [|lra]. unfold level. cbn [find]. rewrite key_eqb_refl.
    unfold tokens_at. rewrite refilled_mk. change (inject_Z 0) with 0. lra.
  - cbn [find]. rewrite (key_eqb_neq _ _ Hne). reflexivity.
Qed.

(* C18 for every limiter of a RateLimiter: requests admitted since the limiter was created <= burst + rate * elapsed,
   with cleanup passes triggered at will *)
Lemma C18_bound_limiters_lemma e lim ord t0 evs final : lim_ok lim -> times_sorted t0 evs ->
  forall k en, lfind k (ledger_run final evs (fst (run e lim ord t0 evs)) (ledger_init t0)) = Some en ->
  inject_Z (count en) <= burst_of lim k + rate_of lim k * (end_time t0 evs - created en)
  /\ t0 <= created en <= end_time t0 evs.
Proof.
  intros Hok Hs k en Hf. unfold run in Hf.
  destruct (run_from_J e lim ord final Hok evs O (init lim t0) (ledger_init t0) t0 Hs (inv_init _ _ Hok) (J_init _ _ Hok))
    as [HJ Hi].
  specialize (HJ k). rewrite Hf in HJ. destruct HJ as [Hb Hc].
  pose proof (level_nonneg lim _ _ k (end_time t0 evs) Hok Hi (Qle_refl _)) as Hn.
  split; [lra|]. split; [|exact Hc].
  (* creation times never precede t0 *)
  clear Hb Hn Hc Hi.
  assert (Hgen : forall evs i st g tprev, times_sorted tprev evs ->
            (forall k en, lfind k g = Some en -> t0 <= created en) -> t0 <= tprev ->
            forall k en, lfind k (ledger_run final evs (fst (run_from e lim ord i st evs)) g) = Some en -> t0 <= created en).
  { clear. induction evs as [|[now ev] r IH]; intros i st g tprev Hs Hg Ht k en Hf; [exact (Hg _ _ Hf)|].
    destruct Hs as [Hle Hs]. cbn [run_from] in Hf. destruct (step e lim ord i st now ev) as [tr s1].
    destruct (run_from e lim ord (S i) s1 r) as [trs s2] eqn:Er. cbn [fst ledger_run] in Hf.
    assert (Hrw : trs = fst (run_from e lim ord (S i) s1 r)) by (rewrite Er; reflexivity). rewrite Hrw in Hf.
    apply (IH (S i) s1 (ledger_step final now ev tr g) now Hs) with (k := k); [|lra|exact Hf].
    clear Hf IH. intros k1 en1. unfold ledger_step. destruct ev as [ip c|ip op|c].
    - generalize (admitted tr). intros fin. revert g Hg. induction tr as [|[k2 a2] tr IHt]; intros g Hg; cbn [fold_left]; [apply Hg|].
      apply IHt. intros k3 en3. unfold ledger_consult. cbn [fst snd].
      destruct (key_eqb_spec k3 k2) as [->|Hne].
      + rewrite lfind_lset_same. intros H; inversion H; subst; cbn [created].
        destruct (lfind k2 g) as [en0|] eqn:E0; [exact (Hg _ _ E0)|cbn; lra].
      + rewrite (lfind_lset_other _ _ _ _ Hne). apply Hg.
    - generalize (admitted tr). intros fin. revert g Hg. induction tr as [|[k2 a2] tr IHt]; intros g Hg; cbn [fold_left]; [apply Hg|].
      apply IHt. intros k3 en3. unfold ledger_consult. cbn [fst snd].
      destruct (key_eqb_spec k3 k2) as [->|Hne].
      + rewrite lfind_lset_same. intros H; inversion H; subst; cbn [created].
        destruct (lfind k2 g) as [en0|] eqn:E0; [exact (Hg _ _ E0)|cbn; lra].
      + rewrite (lfind_lset_other _ _ _ _ Hne). apply Hg.
    - destruct (key_eqb_spec k1 (KConn c)) as [->|Hne].
      + rewrite lfind_lremove_same. discriminate.
      + rewrite (lfind_lremove_other _ _ _ Hne). apply Hg. }
  apply (Hgen evs O (init lim t0) (ledger_init t0) t0 Hs) with (k := k); [|lra|exact Hf].
  intros k1 en1. unfold ledger_init. cbn [lfind]. destruct (key_eqb k1 KGlobal); [|discriminate].
  intros H; inversion H; subst; cbn. lra.
Qed.

(* ================= C19: the global bucket is charged by admitted requests only ================= *)
Lemma global_last_spec ord : global_last ord = true -> exists pre, ord = pre ++ [RL_Global] /\ ~ In RL_Global pre.
Proof.
  unfold global_last. destruct (rev ord) as [|l r] eqn:E; [discriminate|]. destruct l; try discriminate.
  intros H. exists (rev r). split.
  - rewrite <- (rev_involutive ord), E. reflexivity.
  - intros Hin. apply in_rev in Hin. apply negb_true_iff in H.
    assert (Hx : existsb is_global r = true) by (apply existsb_exists; exists RL_Global; split; [exact Hin|reflexivity]).
    congruence.
Qed.

Lemma keys_of_req_global_last lim ord ip c : global_last ord = true ->
  exists pk, keys_of lim ord (Req ip c) = pk ++ [KGlobal] /\ ~ In KGlobal pk.
Proof.
  intros H. destruct (global_last_spec _ H) as (pre & -> & Hnin).
  exists (flat_map (keys_of_limiter lim ip c) pre). split.
  - cbn [keys_of]. rewrite flat_map_app. reflexivity.
  - intros Hin. apply in_flat_map in Hin. destruct Hin as (l & Hl & Hk).
    apply keys_of_limiter_inv in Hk. cbn in Hk. inversion Hk; subst. contradiction.
Qed.

Lemma admitted_app a b : admitted (a ++ b) = admitted a && admitted b.
Proof. unfold admitted. apply forallb_app. Qed.

Lemma consult_seq_app e lim i now : forall ks1 ks2 st,
  consult_seq e lim i st (ks1 ++ ks2) now =
  let '(tr1, st1) := consult_seq e lim i st ks1 now in
  if admitted tr1 then let '(tr2, st2) := consult_seq e lim i st1 ks2 now in (tr1 ++ tr2, st2)
  else (tr1, st1).
Proof.
  induction ks1 as [|k r IH]; intros ks2 st.
  - cbn. destruct (consult_seq e lim i st ks2 now); reflexivity.
  - cbn [app consult_seq]. destruct (consult e lim i st k now) as [a s1]. destruct a.
    + rewrite IH. destruct (consult_seq e lim i s1 r now) as [tr1 st1]. rewrite admitted_cons. cbn [andb].
      destruct (admitted tr1); [|reflexivity]. destruct (consult_seq e lim i st1 ks2 now). reflexivity.
    + reflexivity.
Qed.

Lemma consult_seq_global_untouched e lim i now : forall ks st tr st',
  ~ In KGlobal ks -> consult_seq e lim i st ks now = (tr, st') ->
  find KGlobal (buckets st') = find KGlobal (buckets st).
Proof.
  induction ks as [|k r IH]; intros st tr st' Hnin C.
  - cbn in C. inversion C; subst. reflexivity.
  - cbn [consult_seq] in C. destruct (consult e lim i st k now) as [a s1] eqn:E.
    assert (Hk : k <> KGlobal) by (intros ->; apply Hnin; left; reflexivity).
    pose proof (consult_global_untouched _ _ _ _ _ _ _ _ Hk E) as H1. destruct a.
    + destruct (consult_seq e lim i s1 r now) as [u v] eqn:F. inversion C; subst.
      rewrite (IH s1 u st'); [exact H1| |exact F]. intros Hin. apply Hnin. right. exact Hin.
    + inversion C; subst. exact H1.
Qed.

(* what an AllowRequest does to the global bucket when the global limiter is consulted last:
   it costs one token exactly when the request is admitted, and nothing at all when another limiter refused *)
Lemma step_req_global e lim ord i st now ip c tr st' : lim_ok lim -> global_last ord = true ->
  inv lim (buckets st) now -> step e lim ord i st now (Req ip c) = (tr, st') ->
  (admitted tr = true -> 1 <= level lim (buckets st) KGlobal now) /\
  level lim (buckets st') KGlobal now == level lim (buckets st) KGlobal now - (if admitted tr then 1 else 0) /\
  ((exists k, In (k, false) tr /\ k <> KGlobal) -> find KGlobal (buckets st') = find KGlobal (buckets st)) /\
  (admitted tr = false -> level lim (buckets st) KGlobal now >= 1 -> find KGlobal (buckets st') = find KGlobal (buckets st)).
Proof.
  intros Hok Hgl Hi. cbn [step]. destruct (keys_of_req_global_last lim ord ip c Hgl) as (pk & -> & Hnin).
  rewrite consult_seq_app. destruct (consult_seq e lim i st pk now) as [tr1 s1] eqn:F1.
  pose proof (consult_seq_global_untouched _ _ _ _ _ _ _ _ Hnin F1) as Hu.
  pose proof (consult_seq_inv _ _ _ _ Hok _ _ _ _ Hi F1) as Hi1.
  assert (HL : level lim (buckets s1) KGlobal now = level lim (buckets st) KGlobal now) by (unfold level; rewrite Hu; reflexivity).
  destruct (admitted tr1) eqn:Ea1.
  - cbn [consult_seq]. destruct (consult e lim i s1 KGlobal now) as [a s2] eqn:E2.
    destruct (consult_spec _ _ _ _ _ _ _ _ Hok Hi1 E2) as (_ & Hb & Hk & _).
    assert (Htr : forall (x : list (key * bool) * rl), x = (if a then ([(KGlobal, true)], s2) else ([(KGlobal, false)], s2)) ->
                   x = ([(KGlobal, a)], s2)) by (intros x ->; destruct a; reflexivity).
    destruct (if a then (let '(tr0, st2) := ([], s2) in ((KGlobal, true) :: tr0, st2)) else ([(KGlobal, false)], s2))
      as [tr2 s3] eqn:E3.
    assert (E3' : (tr2, s3) = ([(KGlobal, a)], s2)) by (rewrite <- E3; destruct a; reflexivity).
    inversion E3'; subst tr2 s3. clear E3 E3' Htr.
    intros H; inversion H; subst tr st'. rewrite admitted_app, Ea1. cbn [andb admitted forallb snd].
    rewrite andb_true_r. rewrite HL in *.
    split; [intros ->; apply Hb; reflexivity|]. split; [exact Hk|]. split.
    + intros (k & Hin & Hne). exfalso. apply in_app_or in Hin. destruct Hin as [Hin|[Hin|[]]].
      * unfold admitted in Ea1. rewrite forallb_forall in Ea1. specialize (Ea1 _ Hin). discriminate.
      * inversion Hin; subst. contradiction.
    + intros -> Hge. exfalso. assert (false = true) by (apply Hb; lra). discriminate.
  - intros H; inversion H; subst tr st'. rewrite Ea1. rewrite HL.
    split; [discriminate|]. split; [lra|]. split; intros; exact Hu.
Qed.

Lemma step_other_global e lim ord i st now ev tr st' :
  (forall ip c, ev <> Req ip c) -> step e lim ord i st now ev = (tr, st') ->
  find KGlobal (buckets st') = find KGlobal (buckets st).
Proof.
  intros Hnr. destruct ev as [ip c|ip op|c]; cbn [step keys_of].
  - exfalso. exact (Hnr ip c eq_refl).
  - apply consult_seq_global_untouched. intros [H|[]]. discriminate.
  - intros H; inversion H; subst. cbn [buckets]. apply find_remove_other. discriminate.
Qed.

(* the reference global bucket: rate, burst of the global limiter, last touched in the past *)
Definition Gok (lim : limits) (G : tb) (t : Q) : Prop :=
  rate G = rate_of lim KGlobal /\ maxT G = burst_of lim KGlobal /\ last G <= t /\ 0 <= tokens G.
Lemma Gok_wf lim G t : lim_ok lim -> Gok lim G t -> wf G.
Proof. intros Hok (Hr & Hm & _ & Ht). destruct (Hok KGlobal). unfold wf. rewrite Hr, Hm. repeat split; assumption. Qed.
Lemma Gok_later lim G t t' : Gok lim G t -> t <= t' -> Gok lim G t'.
Proof. intros (Hr & Hm & Hl & Ht) Hle. repeat split; try assumption. lra. Qed.

Lemma track_later lim m G t t' : lim_ok lim -> inv lim m t -> Gok lim G t -> t <= t' ->
  level lim m KGlobal t == refilled G t -> level lim m KGlobal t' == refilled G t'.
Proof.
  intros Hok Hi HG Hle Heq. destruct HG as (Hr & Hm & Hl & Ht). destruct (Hok KGlobal) as [Hr0 _].
  rewrite (level_later _ _ _ _ KGlobal Hok Hi Hle).
  rewrite (refilled_later G t t'); [|rewrite Hr; exact Hr0|exact Hle].
  rewrite Hr, Hm. apply cap_compat. rewrite Heq. reflexivity.
Qed.

Lemma run_from_tracks e lim ord : lim_ok lim -> global_last ord = true -> forall evs i st G tprev,
  times_sorted tprev evs -> inv lim (buckets st) tprev -> Gok lim G tprev ->
  level lim (buckets st) KGlobal tprev == refilled G tprev ->
  let trs := fst (run_from e lim ord i st evs) in
  let st' := snd (run_from e lim ord i st evs) in
  let r := TokenBucket.run G (admitted_req_times evs trs) in
  forallb (fun x : bool => x) (fst r) = true /\ Gok lim (snd r) (end_time tprev evs) /\
  inv lim (buckets st') (end_time tprev evs) /\
  level lim (buckets st') KGlobal (end_time tprev evs) == refilled (snd r) (end_time tprev evs).
Proof.
  intros Hok Hgl. induction evs as [|[now ev] r IH]; intros i st G tprev Hs Hi HG Heq.
  - cbn. split; [reflexivity|split; [exact HG|split; [exact Hi|exact Heq]]].
  - destruct Hs as [Hle Hs]. cbn [run_from end_time].
    destruct (step e lim ord i st now ev) as [tr s1] eqn:E.
    pose proof (inv_later _ _ _ _ Hi Hle) as Hi0.
    pose proof (Gok_later _ _ _ _ HG Hle) as HG0.
    pose proof (track_later _ _ _ _ _ Hok Hi HG Hle Heq) as Heq0.
    pose proof (step_inv _ _ _ _ _ _ _ _ _ Hok Hi0 E) as Hi1.
    assert (Hother : (forall ip c, ev <> Req ip c) ->
              level lim (buckets s1) KGlobal now == refilled G now).
    { intros Hnr. rewrite <- Heq0. unfold level. rewrite (step_other_global _ _ _ _ _ _ _ _ _ Hnr E). reflexivity. }
    destruct ev as [ip c|ip op|c].
    + destruct (step_req_global _ _ _ _ _ _ _ _ _ _ Hok Hgl Hi0 E) as (Hadm & Hlev & _).
      destruct (admitted tr) eqn:Ea.
      * specialize (IH (S i) s1).
        destruct (run_from e lim ord (S i) s1 r) as [trs s2] eqn:Er. cbn [fst snd admitted_req_times]. rewrite Ea.
        cbn [TokenBucket.run]. destruct (allow G now) as [a G1] eqn:EG.
        destruct (allow_spec _ _ _ _ EG) as (Hm1 & Hr1 & Hl1 & Hc).
        pose proof (allow_wf _ _ _ _ EG (Gok_wf _ _ _ Hok HG0) (proj1 (proj2 (proj2 HG0)))) as Hwf1.
        pose proof (allow_level _ _ _ _ EG (Gok_wf _ _ _ Hok HG0) (proj1 (proj2 (proj2 HG0)))) as Hlv1.
        assert (Ha : a = true).
        { destruct Hc as [(-> & _)|(-> & Hlt & _)]; [reflexivity|]. specialize (Hadm eq_refl). lra. }
        subst a.
        assert (HG1 : Gok lim G1 now).
        { destruct HG0 as (Hr0 & Hm0 & _ & _). unfold Gok. rewrite Hm1, Hr1, Hl1. repeat split; try assumption; [lra|apply Hwf1]. }
        assert (Heq1 : level lim (buckets s1) KGlobal now == refilled G1 now) by (rewrite Hlev, Hlv1, Heq0; reflexivity).
        specialize (IH G1 now Hs Hi1 HG1 Heq1). cbn [fst snd] in IH.
        destruct (TokenBucket.run G1 (admitted_req_times r trs)) as [ds G2]. cbn [fst snd forallb] in *. exact IH.
      * specialize (IH (S i) s1).
        destruct (run_from e lim ord (S i) s1 r) as [trs s2] eqn:Er. cbn [fst snd admitted_req_times]. rewrite Ea.
        assert (Heq1 : level lim (buckets s1) KGlobal now == refilled G now) by (rewrite Hlev, Heq0; lra).
        specialize (IH G now Hs Hi1 HG0 Heq1). cbn [fst snd] in IH. exact IH.
    + assert (Heq1 : level lim (buckets s1) KGlobal now == refilled G now) by (apply Hother; discriminate).
      specialize (IH (S i) s1 G now Hs Hi1 HG0 Heq1).
      destruct (run_from e lim ord (S i) s1 r) as [trs s2] eqn:Er. cbn [fst snd admitted_req_times] in *. exact IH.
    + assert (Heq1 : level lim (buckets s1) KGlobal now == refilled G now) by (apply Hother; discriminate).
      specialize (IH (S i) s1 G now Hs Hi1 HG0 Heq1).
      destruct (run_from e lim ord (S i) s1 r) as [trs s2] eqn:Er. cbn [fst snd admitted_req_times] in *. exact IH.
Qed.

(* the global bucket after any history = a stand-alone bucket charged with the admitted requests only,
   and that stand-alone bucket never refused one of them *)
Lemma C19_global_tracks_lemma e lim ord t0 evs now : lim_ok lim -> global_last ord = true ->
  times_sorted t0 evs -> end_time t0 evs <= now ->
  let trs := fst (run e lim ord t0 evs) in
  let st := snd (run e lim ord t0 evs) in
  let r := TokenBucket.run (mk (rate_of lim KGlobal) (burst_of lim KGlobal) t0) (admitted_req_times evs trs) in
  forallb (fun x : bool => x) (fst r) = true /\
  level lim (buckets st) KGlobal now == tokens_at (snd r) now /\
  inv lim (buckets st) now.
Proof.
  intros Hok Hgl Hs Hle. unfold run.
  assert (HG : Gok lim (mk (rate_of lim KGlobal) (burst_of lim KGlobal) t0) t0).
  { destruct (Hok KGlobal). unfold Gok; cbn. repeat split; try reflexivity; lra. }
  assert (Heq : level lim (buckets (init lim t0)) KGlobal t0 == refilled (mk (rate_of lim KGlobal) (burst_of lim KGlobal) t0) t0).
  { unfold level, init. cbn [buckets find]. rewrite key_eqb_refl. reflexivity. }
  destruct (run_from_tracks e lim ord Hok Hgl evs O (init lim t0) _ t0 Hs (inv_init _ _ Hok) HG Heq) as (H1 & H2 & H3 & H4).
  split; [exact H1|]. split; [|exact (inv_later _ _ _ _ H3 Hle)].
  unfold tokens_at. exact (track_later _ _ _ _ _ Hok H3 H2 Hle H4).
Qed.

(* a request refused by a limiter other than the global one leaves the global bucket as it was *)
Lemma C19_no_consume_lemma e lim ord i st now ip c : global_last ord = true ->
  let tr := fst (step e lim ord i st now (Req ip c)) in
  let st' := snd (step e lim ord i st now (Req ip c)) in
  (exists k, In (k, false) tr /\ k <> KGlobal) ->
  find KGlobal (buckets st') = find KGlobal (buckets st) /\
  forall t, level lim (buckets st') KGlobal t = level lim (buckets st) KGlobal t.
Proof.
  intros Hgl. cbn zeta. destruct (step e lim ord i st now (Req ip c)) as [tr st'] eqn:E. cbn [fst snd].
  intros (k & Hin & Hne).
  assert (Hf : find KGlobal (buckets st') = find KGlobal (buckets st)).
  { cbn [step] in E. destruct (keys_of_req_global_last lim ord ip c Hgl) as (pk & Hk & Hnin). rewrite Hk in E.
    rewrite consult_seq_app in E. destruct (consult_seq e lim i st pk now) as [tr1 s1] eqn:F1.
    pose proof (consult_seq_global_untouched _ _ _ _ _ _ _ _ Hnin F1) as Hu.
    destruct (admitted tr1) eqn:Ea1.
    - exfalso. destruct (consult_seq e lim i s1 [KGlobal] now) as [tr2 s2] eqn:F2. inversion E; subst tr st'.
      apply in_app_or in Hin. destruct Hin as [Hin|Hin].
      + unfold admitted in Ea1. rewrite forallb_forall in Ea1. specialize (Ea1 _ Hin). discriminate.
      + apply (consult_seq_keys _ _ _ _ _ _ _ _ F2) in Hin. destruct Hin as [H|[]]. congruence.
    - inversion E; subst. exact Hu. }
  split; [exact Hf|]. intros t. unfold level. rewrite Hf. reflexivity.
Qed.

(* a request whose own bucket is short of a token is refused without touching the global bucket *)
Lemma C19_own_limit_lemma e lim ord i st now ip c k : lim_ok lim -> global_last ord = true -> NoDup ord ->
  inv lim (buckets st) now ->
  In k (keys_of lim ord (Req ip c)) -> k <> KGlobal -> level lim (buckets st) k now < 1 ->
  admitted (fst (step e lim ord i st now (Req ip c))) = false /\
  find KGlobal (buckets (snd (step e lim ord i st now (Req ip c)))) = find KGlobal (buckets st).
Proof.
  intros Hok Hgl Hnd Hi Hin Hne Hlt.
  pose proof (keys_of_nodup lim ord (Req ip c) Hnd) as Hndk.
  destruct (step e lim ord i st now (Req ip c)) as [tr st'] eqn:E. cbn [fst snd]. cbn [step] in E.
  pose proof (consult_seq_refuses _ _ _ _ Hok _ _ _ _ _ Hi Hndk Hin Hlt E) as Hadm.
  split; [exact Hadm|].
  destruct (consult_seq_refused _ _ _ _ Hok _ _ _ _ Hi Hndk E Hadm) as (k' & Hin' & Hk' & Hlt').
  (* the refusing bucket is not the global one: k comes before it and already refuses *)
  destruct (keys_of_req_global_last lim ord ip c Hgl) as (pk & Hk & Hnin). rewrite Hk in *.
  rewrite consult_seq_app in E. destruct (consult_seq e lim i st pk now) as [tr1 s1] eqn:F1.
  pose proof (consult_seq_global_untouched _ _ _ _ _ _ _ _ Hnin F1) as Hu.
  assert (Hkpk : In k pk). { apply in_app_or in Hin. destruct Hin as [H|[H|[]]]; [exact H|congruence]. }
  assert (Hndpk : NoDup pk).
  { clear - Hndk. induction pk as [|x pk IHp]; [constructor|]. cbn in Hndk. inversion Hndk as [|? ? Hx Hr]; subst.
    constructor; [|exact (IHp Hr)]. intros Hin. apply Hx. apply in_or_app. left. exact Hin. }
  rewrite (consult_seq_refuses _ _ _ _ Hok _ _ _ _ _ Hi Hndpk Hkpk Hlt F1) in E. inversion E; subst. exact Hu.
Qed.

(* C19 isolation: after any history, a request whose per-IP and per-connection buckets hold a token is admitted
   whenever the stand-alone global bucket charged with the ADMITTED requests only still holds a token *)
Lemma C19_isolation_lemma e lim ord t0 evs i now ip c : lim_ok lim -> global_last ord = true -> NoDup ord ->
  times_sorted t0 evs -> end_time t0 evs <= now ->
  let trs := fst (run e lim ord t0 evs) in
  let st := snd (run e lim ord t0 evs) in
  let G := snd (TokenBucket.run (mk (rate_of lim KGlobal) (burst_of lim KGlobal) t0) (admitted_req_times evs trs)) in
  1 <= level lim (buckets st) (KIP ip) now ->
  (conn_on lim = true -> 1 <= level lim (buckets st) (KConn c) now) ->
  1 <= tokens_at G now ->
  admitted (fst (step e lim ord i st now (Req ip c))) = true.
Proof.
  intros Hok Hgl Hnd Hs Hle. cbn zeta. intros Hip Hconn HG.
  destruct (C19_global_tracks_lemma e lim ord t0 evs now Hok Hgl Hs Hle) as (_ & Htr & Hi).
  apply (C18_not_refused_lemma e lim ord i _ now (Req ip c) Hok Hnd Hi).
  intros k Hin. cbn [keys_of] in Hin. apply in_flat_map in Hin. destruct Hin as (l & _ & Hk).
  destruct l; cbn in Hk.
  - destruct Hk as [<-|[]]. rewrite Htr. exact HG.
  - destruct Hk as [<-|[]]. exact Hip.
  - destruct (conn_on lim) eqn:Ec; [|destruct Hk]. destruct Hk as [<-|[]]. apply Hconn. reflexivity.
Qed.

(* ================= RateLimiterConfig -> limits ================= *)
(* the nine rate / burst fields are not negative (the Go code does not validate them; see the report) *)
Definition cfg_nonneg (c : config) : Prop :=
  (0 <= GlobalRequestsPerSecond c /\ 0 <= PerIPRequestsPerSecond c /\ 0 <= PerIPBurstSize c /\
   0 <= PerConnectionRequestsPerSecond c /\ 0 <= PerConnectionBurstSize c /\
   0 <= ReadLargeOpsPerSecond c /\ 0 <= WriteLargeOpsPerSecond c /\ 0 <= ReaddirOpsPerSecond c /\
   0 <= MountOpsPerMinute c)%Z.

Lemma inject_Z_nonneg z : (0 <= z)%Z -> 0 <= inject_Z z.
Proof. intros H. change 0 with (inject_Z 0). rewrite <- Zle_Qle. exact H. Qed.

Lemma op_rate_nonneg c fd : (0 <= cfg_field c (fst fd))%Z -> (0 < snd fd)%Z -> 0 <= op_rate c fd.
Proof.
  intros H1 H2. unfold op_rate, fieldQ. rewrite Qred_correct. unfold Qdiv.
  apply Qmult_le_0_compat; [apply inject_Z_nonneg; exact H1|].
  apply Qinv_le_0_compat. apply inject_Z_nonneg. lia.
Qed.

Lemma limits_of_ok c : cfg_nonneg c -> lim_ok (limits_of c).
Proof.
  intros (H1 & H2 & H3 & H4 & H5 & H6 & H7 & H8 & H9) k.
  destruct k as [|ip|cn|ip op]; [| | |destruct op]; cbn [limits_of rate_of burst_of]; split;
    try (apply inject_Z_nonneg; vm_compute; discriminate);
    try (apply inject_Z_nonneg; assumption);
    try (apply op_rate_nonneg; [assumption|reflexivity]).
Qed.

(* the rates and bursts the real configuration gives each limiter (mount: per minute / 60) *)
Lemma limits_of_values c ip cn :
  rate_of (limits_of c) KGlobal = inject_Z (GlobalRequestsPerSecond c) /\
  burst_of (limits_of c) KGlobal = inject_Z (GlobalRequestsPerSecond c) /\
  rate_of (limits_of c) (KIP ip) = inject_Z (PerIPRequestsPerSecond c) /\
  burst_of (limits_of c) (KIP ip) = inject_Z (PerIPBurstSize c) /\
  rate_of (limits_of c) (KConn cn) = inject_Z (PerConnectionRequestsPerSecond c) /\
  burst_of (limits_of c) (KConn cn) = inject_Z (PerConnectionBurstSize c) /\
  conn_on (limits_of c) = (0 <? PerConnectionRequestsPerSecond c)%Z /\
  rate_of (limits_of c) (KOp ip ReadLarge) == inject_Z (ReadLargeOpsPerSecond c) /\
  burst_of (limits_of c) (KOp ip ReadLarge) = 10 /\
  rate_of (limits_of c) (KOp ip WriteLarge) == inject_Z (WriteLargeOpsPerSecond c) /\
  burst_of (limits_of c) (KOp ip WriteLarge) = 5 /\
  rate_of (limits_of c) (KOp ip Readdir) == inject_Z (ReaddirOpsPerSecond c) /\
  burst_of (limits_of c) (KOp ip Readdir) = 5 /\
  rate_of (limits_of c) (KOp ip Mount) == inject_Z (MountOpsPerMinute c) / 60 /\
  burst_of (limits_of c) (KOp ip Mount) = 2.
Proof.
  assert (H1 : forall x, x / inject_Z 1 == x) by (intros x; unfold Qdiv; change (/ inject_Z 1) with 1; ring).
  repeat split; try reflexivity;
    cbn [limits_of rate_of]; unfold op_rate, fieldQ; rewrite Qred_correct; cbn [fst snd]; try reflexivity.
  all: apply H1.
Qed.

(* ================= a cleanup pass deletes a bucket only if it is idle:  Tokens() >= burst ================= *)
Lemma cleanup_deletes_only_full e lim i st k now k' b :
  inv lim (buckets st) now ->
  find k' (buckets st) = Some b -> find k' (buckets (pre_cleanup e lim i st k now)) = None ->
  burst_of lim k' <= tokens_at b now.
Proof.
  intros Hi Hf. unfold pre_cleanup. destruct k as [|ip|c|ip op]; try (rewrite Hf; discriminate).
  - destruct (trig e i (KIP ip) now (lc_ip st)); [|rewrite Hf; discriminate]. cbn [buckets].
    unfold cleanup_ip. rewrite (find_filter _ k' _ (inv_nodup _ _ _ Hi)), Hf.
    match goal with |- context [if ?p then _ else _] => destruct p eqn:Ep end; [discriminate|]. intros _.
    apply Qle_bool_true. exact (cleanup_ip_full lim (sel e i) now (buckets st) k' b Hf Ep).
  - destruct (trig e i (KOp ip op) now (lc_op st)); [|rewrite Hf; discriminate]. cbn [buckets].
    unfold cleanup_op. rewrite (find_filter _ k' _ (inv_nodup _ _ _ Hi)), Hf.
    match goal with |- context [if ?p then _ else _] => destruct p eqn:Ep end; [discriminate|]. intros _.
    apply Qle_bool_true. exact (cleanup_op_full lim now (buckets st) k' b Hf Ep).
Qed.

(* ================= C19 over whole histories: clients that stay within their own limits ================= *)
Lemma keys_of_req_cases lim ord ip c k : In k (keys_of lim ord (Req ip c)) -> k = KGlobal \/ k = KIP ip \/ k = KConn c.
Proof.
  cbn [keys_of]. intros Hin. apply in_flat_map in Hin. destruct Hin as (l & _ & Hk). destruct l; cbn in Hk.
  - destruct Hk as [<-|[]]. auto.
  - destruct Hk as [<-|[]]. auto.
  - destruct (conn_on lim); [destruct Hk as [<-|[]]; auto|destruct Hk].
Qed.

Lemma consult_seq_level_same e lim i now : lim_ok lim -> forall ks st tr st' k,
  inv lim (buckets st) now -> ~ In k ks -> consult_seq e lim i st ks now = (tr, st') ->
  level lim (buckets st') k now == level lim (buckets st) k now.
Proof.
  intros Hok. induction ks as [|k0 r IH]; intros st tr st' k Hi Hnin C.
  - cbn in C. inversion C; subst. reflexivity.
  - cbn [consult_seq] in C. destruct (consult e lim i st k0 now) as [a s1] eqn:E.
    destruct (consult_spec _ _ _ _ _ _ _ _ Hok Hi E) as (Hi1 & _ & _ & Ho).
    assert (Hne : k <> k0) by (intros ->; apply Hnin; left; reflexivity).
    destruct a.
    + destruct (consult_seq e lim i s1 r now) as [u v] eqn:F. inversion C; subst.
      rewrite (IH s1 u st' k Hi1); [apply Ho; exact Hne| |exact F]. intros Hin. apply Hnin. right. exact Hin.
    + inversion C; subst. apply Ho. exact Hne.
Qed.
Lemma consult_seq_level_lb e lim i now : lim_ok lim -> forall ks st tr st' k,
  inv lim (buckets st) now -> NoDup ks -> consult_seq e lim i st ks now = (tr, st') ->
  level lim (buckets st) k now - 1 <= level lim (buckets st') k now.
Proof.
  intros Hok. induction ks as [|k0 r IH]; intros st tr st' k Hi Hnd C.
  - cbn in C. inversion C; subst. lra.
  - cbn [consult_seq] in C. destruct (consult e lim i st k0 now) as [a s1] eqn:E.
    destruct (consult_spec _ _ _ _ _ _ _ _ Hok Hi E) as (Hi1 & _ & Hk & Ho).
    inversion Hnd as [|? ? Hnin Hnd']; subst.
    destruct (key_eqb_spec k k0) as [->|Hne].
    + assert (H1 : level lim (buckets st) k0 now - 1 <= level lim (buckets s1) k0 now) by (rewrite Hk; destruct a; lra).
      destruct a.
      * destruct (consult_seq e lim i s1 r now) as [u v] eqn:F. inversion C; subst.
        rewrite (consult_seq_level_same _ _ _ _ Hok _ _ _ _ _ Hi1 Hnin F). exact H1.
      * inversion C; subst. exact H1.
    + pose proof (Ho _ Hne) as H1. destruct a.
      * destruct (consult_seq e lim i s1 r now) as [u v] eqn:F. inversion C; subst.
        pose proof (IH s1 u st' k Hi1 Hnd' F) as H2. lra.
      * inversion C; subst. lra.
Qed.

Lemma step_level_lb e lim ord i st now ev tr st' k : lim_ok lim -> NoDup ord ->
  inv lim (buckets st) now -> step e lim ord i st now ev = (tr, st') ->
  level lim (buckets st) k now - 1 <= level lim (buckets st') k now.
Proof.
  intros Hok Hnd Hi. destruct ev as [ip c|ip op|c]; cbn [step]; intros C.
  - exact (consult_seq_level_lb _ _ _ _ Hok _ _ _ _ k Hi (keys_of_nodup lim ord (Req ip c) Hnd) C).
  - exact (consult_seq_level_lb _ _ _ _ Hok _ _ _ _ k Hi (keys_of_nodup lim ord (Op ip op) Hnd) C).
  - inversion C; subst. cbn [buckets]. destruct (key_eqb_spec k (KConn c)) as [->|Hne].
    + unfold level at 2. rewrite find_remove_same. pose proof (level_le_burst lim _ now (KConn c) now Hi). lra.
    + unfold level. rewrite (find_remove_other _ _ _ Hne). lra.
Qed.
Lemma step_level_same e lim ord i st now ev tr st' k : lim_ok lim ->
  inv lim (buckets st) now -> step e lim ord i st now ev = (tr, st') ->
  ~ In k (keys_of lim ord ev) -> (forall c, ev = Close c -> k <> KConn c) ->
  level lim (buckets st') k now == level lim (buckets st) k now.
Proof.
  intros Hok Hi C Hnin Hcl. destruct ev as [ip c|ip op|c]; cbn [step] in C.
  - exact (consult_seq_level_same _ _ _ _ Hok _ _ _ _ k Hi Hnin C).
  - exact (consult_seq_level_same _ _ _ _ Hok _ _ _ _ k Hi Hnin C).
  - inversion C; subst. cbn [buckets]. unfold level. rewrite (find_remove_other _ _ _ (Hcl c eq_refl)). reflexivity.
Qed.

(* a reference bucket of limiter k: its rate and burst, last touched in the past *)
Definition Rok (lim : limits) (k : key) (R : tb) (t : Q) : Prop :=
  rate R = rate_of lim k /\ maxT R = burst_of lim k /\ last R <= t /\ 0 <= tokens R.
Lemma Rok_wf lim k R t : lim_ok lim -> Rok lim k R t -> wf R.
Proof. intros Hok (Hr & Hm & _ & Ht). destruct (Hok k). unfold wf. rewrite Hr, Hm. repeat split; assumption. Qed.
Lemma Rok_later lim k R t t' : Rok lim k R t -> t <= t' -> Rok lim k R t'.
Proof. intros (Hr & Hm & Hl & Ht) Hle. repeat split; try assumption. lra. Qed.
Lemma Rok_mk lim k t : lim_ok lim -> Rok lim k (mk (rate_of lim k) (burst_of lim k) t) t.
Proof. intros Hok. destruct (Hok k). unfold Rok; cbn. repeat split; try reflexivity; lra. Qed.
Lemma Rok_allow lim k R t a R1 : lim_ok lim -> Rok lim k R t -> allow R t = (a, R1) ->
  Rok lim k R1 t /\ refilled R1 t == refilled R t - (if a then 1 else 0) /\ (a = true -> 1 <= refilled R t).
Proof.
  intros Hok HR EA. pose proof (Rok_wf _ _ _ _ Hok HR) as Hwf. destruct HR as (Hr & Hm & Hl & Ht).
  destruct (allow_spec _ _ _ _ EA) as (Hm1 & Hr1 & Hl1 & Hc).
  pose proof (allow_wf _ _ _ _ EA Hwf Hl) as Hwf1. pose proof (allow_level _ _ _ _ EA Hwf Hl) as Hlv.
  split; [|split; [exact Hlv|]].
  - unfold Rok. rewrite Hm1, Hr1, Hl1. repeat split; try assumption; [lra|apply Hwf1].
  - intros ->. destruct Hc as [(_ & H & _)|(H & _)]; [exact H|discriminate].
Qed.

Lemma ge_later lim m k R t t' : lim_ok lim -> inv lim m t -> Rok lim k R t -> t <= t' ->
  refilled R t <= level lim m k t -> refilled R t' <= level lim m k t'.
Proof.
  intros Hok Hi HR Hle Hge. destruct HR as (Hr & Hm & Hl & Ht). destruct (Hok k) as [Hr0 _].
  rewrite (level_later _ _ _ _ k Hok Hi Hle).
  rewrite (refilled_later R t t'); [|rewrite Hr; exact Hr0|exact Hle].
  rewrite Hr, Hm. apply cap_mono. lra.
Qed.

(* while the address's whole request stream is admitted by its reference bucket, the real per-IP bucket holds at
   least as many tokens as the reference *)
Lemma run_from_ref_ip e lim ord ip : lim_ok lim -> NoDup ord -> forall evs i st ok R tprev,
  times_sorted tprev evs -> inv lim (buckets st) tprev -> Rok lim (KIP ip) R tprev ->
  (ok = true -> refilled R tprev <= level lim (buckets st) (KIP ip) tprev) ->
  let st' := snd (run_from e lim ord i st evs) in
  let r := ref_ip ip ok R evs in
  Rok lim (KIP ip) (snd r) (end_time tprev evs) /\ inv lim (buckets st') (end_time tprev evs) /\
  (fst r = true -> refilled (snd r) (end_time tprev evs) <= level lim (buckets st') (KIP ip) (end_time tprev evs)).
Proof.
  intros Hok Hnd. induction evs as [|[now ev] r IH]; intros i st ok R tprev Hs Hi HR Hge.
  - cbn. split; [exact HR|split; [exact Hi|exact Hge]].
  - destruct Hs as [Hle Hs]. cbn [run_from end_time].
    destruct (step e lim ord i st now ev) as [tr s1] eqn:E.
    pose proof (inv_later _ _ _ _ Hi Hle) as Hi0.
    pose proof (Rok_later _ _ _ _ _ HR Hle) as HR0.
    assert (Hge0 : ok = true -> refilled R now <= level lim (buckets st) (KIP ip) now)
      by (intros H; exact (ge_later _ _ _ _ _ _ Hok Hi HR Hle (Hge H))).
    pose proof (step_inv _ _ _ _ _ _ _ _ _ Hok Hi0 E) as Hi1.
    pose proof (step_level_lb _ _ _ _ _ _ _ _ _ (KIP ip) Hok Hnd Hi0 E) as Hlb.
    assert (Hsame : (forall c, ev <> Req ip c) -> level lim (buckets s1) (KIP ip) now == level lim (buckets st) (KIP ip) now).
    { intros Hnr. apply (step_level_same _ _ _ _ _ _ _ _ _ _ Hok Hi0 E); [|intros; discriminate].
      destruct ev as [ip' c'|ip' op|c']; cbn [keys_of].
      - intros Hin. destruct (keys_of_req_cases _ _ _ _ _ Hin) as [H|[H|H]]; try discriminate.
        inversion H; subst. exact (Hnr c' eq_refl).
      - intros [H|[]]. discriminate.
      - intros []. }
    specialize (IH (S i) s1).
    destruct (run_from e lim ord (S i) s1 r) as [trs s2] eqn:Er. cbn [snd] in *.
    destruct ev as [ip' c'|ip' op|c']; cbn [ref_ip].
    + destruct (N.eqb_spec ip' ip) as [->|Hne].
      * destruct (allow R now) as [a R1] eqn:EA.
        destruct (Rok_allow _ _ _ _ _ _ Hok HR0 EA) as (HR1 & Hlv & Ha).
        apply (IH (ok && a) R1 now Hs Hi1 HR1).
        intros Hoa. apply andb_true_iff in Hoa. destruct Hoa as [-> ->]. specialize (Hge0 eq_refl). rewrite Hlv. lra.
      * apply (IH ok R now Hs Hi1 HR0). intros H. rewrite Hsame; [exact (Hge0 H)|]. intros c Hc. inversion Hc; subst. contradiction.
    + apply (IH ok R now Hs Hi1 HR0). intros H. rewrite Hsame; [exact (Hge0 H)|]. intros; discriminate.
    + apply (IH ok R now Hs Hi1 HR0). intros H. rewrite Hsame; [exact (Hge0 H)|]. intros; discriminate.
Qed.

(* the same for a connection id; CleanupConnection restarts both the real and the reference limiter *)
Lemma run_from_ref_conn e lim ord c : lim_ok lim -> NoDup ord -> forall evs i st ok R tprev,
  times_sorted tprev evs -> inv lim (buckets st) tprev -> Rok lim (KConn c) R tprev ->
  (ok = true -> refilled R tprev <= level lim (buckets st) (KConn c) tprev) ->
  let st' := snd (run_from e lim ord i st evs) in
  let r := ref_conn lim c ok R evs in
  Rok lim (KConn c) (snd r) (end_time tprev evs) /\ inv lim (buckets st') (end_time tprev evs) /\
  (fst r = true -> refilled (snd r) (end_time tprev evs) <= level lim (buckets st') (KConn c) (end_time tprev evs)).
Proof.
  intros Hok Hnd. induction evs as [|[now ev] r IH]; intros i st ok R tprev Hs Hi HR Hge.
  - cbn. split; [exact HR|split; [exact Hi|exact Hge]].
  - destruct Hs as [Hle Hs]. cbn [run_from end_time].
    destruct (step e lim ord i st now ev) as [tr s1] eqn:E.
    pose proof (inv_later _ _ _ _ Hi Hle) as Hi0.
    pose proof (Rok_later _ _ _ _ _ HR Hle) as HR0.
    assert (Hge0 : ok = true -> refilled R now <= level lim (buckets st) (KConn c) now)
      by (intros H; exact (ge_later _ _ _ _ _ _ Hok Hi HR Hle (Hge H))).
    pose proof (step_inv _ _ _ _ _ _ _ _ _ Hok Hi0 E) as Hi1.
    pose proof (step_level_lb _ _ _ _ _ _ _ _ _ (KConn c) Hok Hnd Hi0 E) as Hlb.
    assert (Hsame : (forall ip0, ev <> Req ip0 c) -> ev <> Close c ->
              level lim (buckets s1) (KConn c) now == level lim (buckets st) (KConn c) now).
    { intros Hnr Hnc. apply (step_level_same _ _ _ _ _ _ _ _ _ _ Hok Hi0 E).
      - destruct ev as [ip' c'|ip' op|c']; cbn [keys_of].
        + intros Hin. destruct (keys_of_req_cases _ _ _ _ _ Hin) as [H|[H|H]]; try discriminate.
          inversion H; subst. exact (Hnr ip' eq_refl).
        + intros [H|[]]. discriminate.
        + intros [].
      - intros c0 -> Heq. inversion Heq; subst. apply Hnc. reflexivity. }
    specialize (IH (S i) s1).
    destruct (run_from e lim ord (S i) s1 r) as [trs s2] eqn:Er. cbn [snd] in *.
    destruct ev as [ip' c'|ip' op|c']; cbn [ref_conn].
    + destruct (N.eqb_spec c' c) as [->|Hne].
      * destruct (allow R now) as [a R1] eqn:EA.
        destruct (Rok_allow _ _ _ _ _ _ Hok HR0 EA) as (HR1 & Hlv & Ha).
        apply (IH (ok && a) R1 now Hs Hi1 HR1).
        intros Hoa. apply andb_true_iff in Hoa. destruct Hoa as [-> ->]. specialize (Hge0 eq_refl). rewrite Hlv. lra.
      * apply (IH ok R now Hs Hi1 HR0). intros H. rewrite Hsame; [exact (Hge0 H)| |discriminate].
        intros ip0 Hc. inversion Hc; subst. contradiction.
    + apply (IH ok R now Hs Hi1 HR0). intros H. rewrite Hsame; [exact (Hge0 H)| |]; intros; discriminate.
    + destruct (N.eqb_spec c' c) as [->|Hne].
      * apply (IH true _ now Hs Hi1 (Rok_mk lim (KConn c) now Hok)). intros _.
        cbn [step] in E. inversion E; subst. cbn [buckets]. unfold level. rewrite find_remove_same.
        rewrite refilled_mk. lra.
      * apply (IH ok R now Hs Hi1 HR0). intros H. rewrite Hsame; [exact (Hge0 H)| |]; [intros; discriminate|].
        intros Hc. inversion Hc; subst. contradiction.
Qed.

Lemma ref_ip_app ip : forall l1 l2 ok R,
  ref_ip ip ok R (l1 ++ l2) = ref_ip ip (fst (ref_ip ip ok R l1)) (snd (ref_ip ip ok R l1)) l2.
Proof.
  induction l1 as [|[t ev] r IH]; intros l2 ok R; [reflexivity|].
  cbn [app ref_ip]. destruct ev as [ip' c'|ip' op|c']; try apply IH.
  destruct (N.eqb ip' ip); [|apply IH]. destruct (allow R t) as [a R1]. apply IH.
Qed.
Lemma ref_conn_app lim c : forall l1 l2 ok R,
  ref_conn lim c ok R (l1 ++ l2) = ref_conn lim c (fst (ref_conn lim c ok R l1)) (snd (ref_conn lim c ok R l1)) l2.
Proof.
  induction l1 as [|[t ev] r IH]; intros l2 ok R; [reflexivity|].
  cbn [app ref_conn]. destruct ev as [ip' c'|ip' op|c']; try apply IH.
  - destruct (N.eqb c' c); [|apply IH]. destruct (allow R t) as [a R1]. apply IH.
  - destruct (N.eqb c' c); apply IH.
Qed.

(* C19 isolation over whole histories: whatever the other clients sent, a client whose own request stream (this
   request included) conforms to its per-IP and per-connection limits is admitted whenever the admitted traffic
   leaves a token in the global budget *)
Lemma C19_isolation_history_lemma e lim ord t0 evs i now ip c : lim_ok lim -> global_last ord = true -> NoDup ord ->
  times_sorted t0 evs -> end_time t0 evs <= now ->
  let hist := evs ++ [(now, Req ip c)] in
  let trs := fst (run e lim ord t0 evs) in
  let st := snd (run e lim ord t0 evs) in
  let G := snd (TokenBucket.run (mk (rate_of lim KGlobal) (burst_of lim KGlobal) t0) (admitted_req_times evs trs)) in
  fst (ref_ip ip true (mk (rate_of lim (KIP ip)) (burst_of lim (KIP ip)) t0) hist) = true ->
  (conn_on lim = true ->
   fst (ref_conn lim c true (mk (rate_of lim (KConn c)) (burst_of lim (KConn c)) t0) hist) = true) ->
  1 <= tokens_at G now ->
  admitted (fst (step e lim ord i st now (Req ip c))) = true.
Proof.
  intros Hok Hgl Hnd Hs Hle. cbn zeta. intros Hip Hconn HG.
  apply (C19_isolation_lemma e lim ord t0 evs i now ip c Hok Hgl Hnd Hs Hle); [| |exact HG].
  - rewrite ref_ip_app in Hip. unfold run.
    destruct (run_from_ref_ip e lim ord ip Hok Hnd evs O (init lim t0) true _ t0 Hs (inv_init _ _ Hok)
                (Rok_mk lim (KIP ip) t0 Hok)) as (HR & Hi & Hge).
    { intros _. rewrite refilled_mk. unfold level, init. cbn [buckets find key_eqb]. lra. }
    destruct (ref_ip ip true (mk (rate_of lim (KIP ip)) (burst_of lim (KIP ip)) t0) evs) as [ok1 R1]. cbn [fst snd] in *.
    cbn [ref_ip] in Hip. rewrite N.eqb_refl in Hip. destruct (allow R1 now) as [a R2] eqn:EA. cbn [fst] in Hip.
    apply andb_true_iff in Hip. destruct Hip as [-> ->].
    destruct (Rok_allow _ _ _ _ _ _ Hok (Rok_later _ _ _ _ _ HR Hle) EA) as (_ & _ & Ha).
    pose proof (ge_later _ _ _ _ _ _ Hok Hi HR Hle (Hge eq_refl)) as H1. specialize (Ha eq_refl). lra.
  - intros Hon. specialize (Hconn Hon). rewrite ref_conn_app in Hconn. unfold run.
    destruct (run_from_ref_conn e lim ord c Hok Hnd evs O (init lim t0) true _ t0 Hs (inv_init _ _ Hok)
                (Rok_mk lim (KConn c) t0 Hok)) as (HR & Hi & Hge).
    { intros _. rewrite refilled_mk. unfold level, init. cbn [buckets find key_eqb]. lra. }
    destruct (ref_conn lim c true (mk (rate_of lim (KConn c)) (burst_of lim (KConn c)) t0) evs) as [ok1 R1]. cbn [fst snd] in *.
    cbn [ref_conn] in Hconn. rewrite N.eqb_refl in Hconn. destruct (allow R1 now) as [a R2] eqn:EA. cbn [fst] in Hconn.
    apply andb_true_iff in Hconn. destruct Hconn as [-> ->].
    destruct (Rok_allow _ _ _ _ _ _ Hok (Rok_later _ _ _ _ _ HR Hle) EA) as (_ & _ & Ha).
    pose proof (ge_later _ _ _ _ _ _ Hok Hi HR Hle (Hge eq_refl)) as H1. specialize (Ha eq_refl). lra.
Qed.
