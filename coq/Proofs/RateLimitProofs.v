(* placeholder: being written *)
