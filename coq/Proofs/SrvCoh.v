(* Proofs/SrvCoh.v — property C02 on the server model (Model/Srv.v): the cache coherence invariant [Coh],
   its preservation by every request, and cache transparency (a cached and a cache-free run give the same
   projected replies and the same tree), plus the POSIX characterisations and the C04 corollary.

   Side condition (the aliasing caveat of C02): [nolinks (fs s)] — the backend tree holds no symbolic link.
   It is an invariant of every history without SYMLINK requests (proved here), and it is what makes the
   path-keyed caches coherent: with a symlink to a directory two paths alias one object.  All handle paths
   are ".."-free ([HOK] of Proofs/SrvPaths.v), so resolution has the closed form of Proofs/BackendWF.v. *)
From Coq Require Import List NArith ZArith Bool Lia.
From Verif Require Import Gen.Facts Model.Handles Model.Backend Model.Srv Proofs.BackendWF Proofs.SrvPaths Proofs.SrvRO.
Import ListNotations.
Open Scope N_scope.

Ltac sproj :=
  cbn [fs hm nodes ac dc conf now blog with_fs with_hm with_nodes with_ac with_dc with_conf with_now logc clear_log] in *.

(* ====================================================================================================== *)
(* 1. the invariant                                                                                       *)
(* ====================================================================================================== *)
(* the fields of an attribute record the caches must get right (times, uid, gid are not compared) *)
Definition pn (a : nattrs) : kind * N * N * N := (na_kind a, na_perm a, na_size a, na_fileid a).
(* "a is a correct description of the object at p" *)
Definition attr_ok (f : fsmap) (p : path) (a : nattrs) : Prop :=
  pk f p = Some (na_kind a, na_perm a, na_size a) /\ na_fileid a = fileid_of p.
Definition ac_ok (f : fsmap) (e : acentry) : Prop :=
  match ac_attrs e with
  | Some a => attr_ok f (ac_path e) a
  | None => noent f (ac_path e)
  end.
Definition dc_ok (f : fsmap) (e : dcentry) : Prop :=
  kd f (dc_path e) = true /\ dc_names e = listing f (dc_path e).
(* the directory cache is consulted (and invalidated) only when it is switched on *)
Definition Coh (s : srv) : Prop :=
  Forall (ac_ok (fs s)) (ac s) /\ (dir_on (conf s) = true -> Forall (dc_ok (fs s)) (dc s)).

Record Good (s : srv) : Prop := { g_wf : WF (fs s); g_nl : nolinks (fs s); g_hok : HOK s; g_coh : Coh s }.

(* s' differs from s in the caches and the call log only *)
Definition core (s s' : srv) : Prop :=
  fs s' = fs s /\ hm s' = hm s /\ nodes s' = nodes s /\ conf s' = conf s /\ now s' = now s.
Lemma core_refl s : core s s. Proof. repeat split. Qed.
Lemma core_trans a b c : core a b -> core b c -> core a c.
Proof. unfold core. intros (A1 & A2 & A3 & A4 & A5) (B1 & B2 & B3 & B4 & B5). repeat split; congruence. Qed.
Lemma Good_core s s' : core s s' -> Good s -> Coh s' -> Good s'.
Proof.
  intros (A1 & A2 & _) G C. destruct G as [W NL H _]. split; [rewrite A1; exact W|rewrite A1; exact NL| |exact C].
  unfold HOK in *. rewrite A2. exact H.
Qed.

Lemma gcomp_nodd c : gcomp c -> is_dotdot c = false.
Proof. intros (_ & _ & _ & H). apply is_dotdot_false. exact H. Qed.
Lemma gpath_nodd p : gpath p -> nodd p.
Proof. unfold gpath, nodd. apply Forall_impl. intros c. apply gcomp_nodd. Qed.

Lemma Forall_sub {A} (P : A -> Prop) l l' : (forall x, In x l' -> In x l) -> Forall P l -> Forall P l'.
Proof. intros H F. apply Forall_forall. intros x I. exact (proj1 (Forall_forall P l) F x (H x I)). Qed.
Lemma In_removelast {A} (l : list A) x : In x (removelast l) -> In x l.
Proof.
  induction l as [|y r IH]; cbn [removelast]; [tauto|]. destruct r as [|z r']; [intros []|].
  intros [<-|H]; [left; reflexivity|right; apply IH; exact H].
Qed.
Lemma In_filter_sub {A} (f : A -> bool) l x : In x (filter f l) -> In x l.
Proof. intros H. apply filter_In in H. tauto. Qed.

(* ---------- the cache primitives ---------- *)
Lemma ac_find_some l p e : ac_find l p = Some e -> In e l /\ ac_path e = p.
Proof. unfold ac_find. intros H. apply find_some in H. destruct H as [A B]. apply peqb_eq in B. auto. Qed.
Lemma dc_find_some l p e : dc_find l p = Some e -> In e l /\ dc_path e = p.
Proof. unfold dc_find. intros H. apply find_some in H. destruct H as [A B]. apply peqb_eq in B. auto. Qed.

Lemma Coh_with_ac s a : Forall (ac_ok (fs s)) a -> Coh s -> Coh (with_ac s a).
Proof. intros H [_ D]. split; assumption. Qed.
Lemma Coh_with_dc s d : (dir_on (conf s) = true -> Forall (dc_ok (fs s)) d) -> Coh s -> Coh (with_dc s d).
Proof. intros H [A _]. split; assumption. Qed.
Lemma Coh_logc s c : Coh s -> Coh (logc s c). Proof. intros H. exact H. Qed.

Lemma ac_get_spec s p : Coh s ->
  core s (fst (ac_get s p)) /\ Coh (fst (ac_get s p)) /\
  match snd (ac_get s p) with
  | Some (Some a) => attr_ok (fs s) p a
  | Some None => noent (fs s) p
  | None => True
  end.
Proof.
  intros C. unfold ac_get. destruct (ac_find (ac s) p) as [e|] eqn:F; [|cbn; auto using core_refl].
  apply ac_find_some in F. destruct F as [Hin E].
  assert (OK : ac_ok (fs s) e) by (exact (proj1 (Forall_forall _ _) (proj1 C) e Hin)).
  assert (S1 : Forall (ac_ok (fs s)) (ac_remove (ac s) p)).
  { eapply Forall_sub; [|exact (proj1 C)]. intros x. apply In_filter_sub. }
  destruct (now s <? ac_expire e).
  - cbn [fst snd]. split; [repeat split|]. split.
    + apply Coh_with_ac; [constructor; assumption|exact C].
    + unfold ac_ok in OK. rewrite E in OK. destruct (ac_attrs e); exact OK.
  - destruct (ac_expire e <? now s); cbn [fst snd]; (split; [repeat split|]); (split; [|exact I]); [|exact C].
    apply Coh_with_ac; assumption.
Qed.
Lemma ac_evict_sub s p x : In x (ac_evict_for s p) -> In x (ac s).
Proof.
  unfold ac_evict_for. destruct (ac_find (ac s) p); [tauto|].
  destruct (attr_cap (conf s) <=? N.of_nat (length (ac s))); [apply In_removelast|tauto].
Qed.
Lemma ac_put_coh s p a : attr_ok (fs s) p a -> Coh s -> Coh (ac_put s p a).
Proof.
  intros OK C. unfold ac_put. apply Coh_with_ac; [|exact C]. constructor; [exact OK|].
  eapply Forall_sub; [|exact (proj1 C)]. intros x H. apply In_filter_sub in H. eapply ac_evict_sub. exact H.
Qed.
Lemma ac_put_negative_coh s p : noent (fs s) p -> Coh s -> Coh (ac_put_negative s p).
Proof.
  intros OK C. unfold ac_put_negative. destruct (neg_on (conf s)); [|exact C]. apply Coh_with_ac; [|exact C].
  constructor; [exact OK|].
  eapply Forall_sub; [|exact (proj1 C)]. intros x H. apply In_filter_sub in H. eapply ac_evict_sub. exact H.
Qed.
Lemma ac_put_core s p a : core s (ac_put s p a). Proof. repeat split. Qed.
Lemma ac_put_negative_core s p : core s (ac_put_negative s p).
Proof. unfold ac_put_negative. destruct (neg_on (conf s)); repeat split. Qed.

Lemma dc_get_spec s p : Coh s -> dir_on (conf s) = true ->
  core s (fst (dc_get s p)) /\ Coh (fst (dc_get s p)) /\
  match snd (dc_get s p) with
  | Some names => kd (fs s) p = true /\ names = listing (fs s) p
  | None => True
  end.
Proof.
  intros C ON. unfold dc_get. destruct (dc_find (dc s) p) as [e|] eqn:F; [|cbn; auto using core_refl].
  apply dc_find_some in F. destruct F as [Hin E]. pose proof (proj2 C ON) as CD.
  assert (OK : dc_ok (fs s) e) by (exact (proj1 (Forall_forall _ _) CD e Hin)).
  assert (S1 : Forall (dc_ok (fs s)) (dc_remove (dc s) p)).
  { eapply Forall_sub; [|exact CD]. intros x. apply In_filter_sub. }
  destruct (dc_expire e <? now s); cbn [fst snd]; (split; [repeat split|]); split; auto.
  - apply Coh_with_dc; [intros _; assumption|exact C].
  - apply Coh_with_dc; [intros _; constructor; assumption|exact C].
  - unfold dc_ok in OK. rewrite E in OK. exact OK.
Qed.
Lemma dc_put_coh s p names : kd (fs s) p = true -> names = listing (fs s) p -> Coh s -> Coh (dc_put s p names).
Proof.
  intros K L C. unfold dc_put. destruct (dir_maxsize (conf s) <? N.of_nat (length names)); [exact C|].
  apply Coh_with_dc; [|exact C]. intros ON. constructor; [split; assumption|].
  eapply Forall_sub; [|exact (proj2 C ON)]. intros x H. apply In_filter_sub in H.
  destruct (dc_find (dc s) p); [exact H|].
  destruct (dir_cap (conf s) <=? N.of_nat (length (dc s))); [apply In_removelast|]; exact H.
Qed.
Lemma dc_put_core s p names : core s (dc_put s p names).
Proof. unfold dc_put. destruct (_ <? _); repeat split. Qed.

(* ====================================================================================================== *)
(* 2. Lookup and GetAttr against the tree                                                                 *)
(* ====================================================================================================== *)
(* what AbsfsNFS.Lookup(p) may answer on tree f *)
Definition lookup_res (f : fsmap) (p : path) (r : res nattrs) : Prop :=
  match r with
  | Ok a => attr_ok f p a
  | Err e => be_stat f p false = Err e
  end.

Lemma attr_ok_info f p o u g : fs_get f p = Some o -> attr_ok f p (attrs_of_info (info_of o) (fileid_of p) u g).
Proof. intros G. unfold attr_ok, pk. rewrite G. split; reflexivity. Qed.

Lemma srv_lookup_spec s p : Good s -> nodd p ->
  core s (fst (srv_lookup s p)) /\ Good (fst (srv_lookup s p)) /\ lookup_res (fs s) p (snd (srv_lookup s p)).
Proof.
  intros G ND. pose proof (ac_get_spec s p (g_coh s G)) as (A1 & A2 & A3).
  unfold srv_lookup. destruct (ac_get s p) as [s1 c]. cbn [fst snd] in *.
  assert (G1 : Good s1) by (eapply Good_core; eassumption).
  pose proof A1 as (F1 & _). destruct c as [[a|]|]; cbn [fst snd].
  - split; [exact A1|]. split; [exact G1|exact A3].
  - split; [exact A1|]. split; [exact G1|]. apply noent_be_stat; [exact (g_nl s G)|exact ND|exact A3].
  - unfold do_lstat. rewrite F1. cbn [fst snd].
    assert (CL : core s (logc s1 (bc BLstat p))) by (eapply core_trans; [exact A1|repeat split]).
    assert (GL : Good (logc s1 (bc BLstat p))) by (eapply Good_core; [exact CL|exact G|exact (g_coh s1 G1)]).
    destruct (be_stat (fs s) p false) as [fi|e] eqn:B; cbn [fst snd].
    + destruct (be_stat_ok_inv (fs s) (g_wf s G) (g_nl s G) p false fi ND B) as [o [Go ->]].
      assert (OK : attr_ok (fs s) p (attrs_of_info (info_of o) (fileid_of p) 0 0)) by (apply attr_ok_info; exact Go).
      split; [eapply core_trans; [exact CL|apply ac_put_core]|]. split; [|exact OK].
      eapply Good_core; [apply ac_put_core|exact GL|]. apply ac_put_coh; [sproj; rewrite F1; exact OK|exact (g_coh _ GL)].
    + assert (X : forall s', s' = logc s1 (bc BLstat p) \/ (e = ENOENT /\ s' = ac_put_negative (logc s1 (bc BLstat p)) p) ->
                  core s s' /\ Good s').
      { intros s' [->|[-> ->]]; [split; assumption|]. split; [eapply core_trans; [exact CL|apply ac_put_negative_core]|].
        eapply Good_core; [apply ac_put_negative_core|exact GL|]. apply ac_put_negative_coh; [|exact (g_coh _ GL)].
        sproj. rewrite F1. eapply be_stat_noent; [exact (g_nl s G)|exact ND|exact B]. }
      assert (Y : core s (match e with ENOENT => ac_put_negative (logc s1 (bc BLstat p)) p | _ => logc s1 (bc BLstat p) end) /\
                  Good (match e with ENOENT => ac_put_negative (logc s1 (bc BLstat p)) p | _ => logc s1 (bc BLstat p) end)).
      { destruct e; apply X; auto. }
      destruct Y as [Y1 Y2]. split; [exact Y1|]. split; [exact Y2|exact B].
Qed.

Lemma srv_getattr_spec s p u g : Good s -> nodd p ->
  core s (fst (srv_getattr s p u g)) /\ Good (fst (srv_getattr s p u g)) /\
  match snd (srv_getattr s p u g) with
  | Ok a => exists o, fs_get (fs s) p = Some o /\ a = attrs_of_info (info_of o) (fileid_of p) u g
  | Err e => be_stat (fs s) p false = Err e
  end.
Proof.
  intros G ND. pose proof (ac_get_spec s p (g_coh s G)) as (A1 & A2 & _).
  unfold srv_getattr. destruct (ac_get s p) as [s1 c]. cbn [fst snd] in *.
  assert (G1 : Good s1) by (eapply Good_core; eassumption).
  pose proof A1 as (F1 & _). unfold do_lstat. rewrite F1. cbn [fst snd].
  assert (CL : core s (logc s1 (bc BLstat p))) by (eapply core_trans; [exact A1|repeat split]).
  assert (GL : Good (logc s1 (bc BLstat p))) by (eapply Good_core; [exact CL|exact G|exact (g_coh s1 G1)]).
  destruct (be_stat (fs s) p false) as [fi|e] eqn:B; cbn [fst snd].
  - destruct (be_stat_ok_inv (fs s) (g_wf s G) (g_nl s G) p false fi ND B) as [o [Go ->]].
    assert (OK : attr_ok (fs s) p (attrs_of_info (info_of o) (fileid_of p) u g)) by (apply attr_ok_info; exact Go).
    split; [eapply core_trans; [exact CL|apply ac_put_core]|]. split; [|exists o; auto].
    eapply Good_core; [apply ac_put_core|exact GL|]. apply ac_put_coh; [sproj; rewrite F1; exact OK|exact (g_coh _ GL)].
  - split; [exact CL|]. split; [exact GL|reflexivity].
Qed.
Lemma getattr_h_spec s h p : Good s -> nodd p ->
  core s (fst (getattr_h s h p)) /\ Good (fst (getattr_h s h p)) /\
  match snd (getattr_h s h p) with
  | Ok a => exists o, fs_get (fs s) p = Some o /\ a = attrs_of_info (info_of o) (fileid_of p) (na_uid a) (na_gid a)
  | Err e => be_stat (fs s) p false = Err e
  end.
Proof.
  intros G ND. unfold getattr_h. destruct (node_get s h) as [n|].
  - pose proof (srv_getattr_spec s p (na_uid n) (na_gid n) G ND) as (A & B & C). split; [exact A|]. split; [exact B|].
    destruct (snd (srv_getattr s p (na_uid n) (na_gid n))) as [a|e]; [|exact C].
    destruct C as [o [C1 C2]]. exists o. split; [exact C1|]. rewrite C2 at 1. rewrite C2. reflexivity.
  - pose proof (srv_getattr_spec s p 0 0 G ND) as (A & B & C). split; [exact A|]. split; [exact B|].
    destruct (snd (srv_getattr s p 0 0)) as [a|e]; [|exact C].
    destruct C as [o [C1 C2]]. exists o. split; [exact C1|]. rewrite C2 at 1. rewrite C2. reflexivity.
Qed.
(* in the form the other lemmas use *)
Definition getattr_res (f : fsmap) (p : path) (r : res nattrs) : Prop :=
  match r with
  | Ok a => exists o, fs_get f p = Some o /\ pn a = (o_kind o, o_perm o, stat_size o, fileid_of p)
  | Err e => be_stat f p false = Err e
  end.
Lemma getattr_h_res s h p : Good s -> nodd p -> getattr_res (fs s) p (snd (getattr_h s h p)).
Proof.
  intros G ND. pose proof (getattr_h_spec s h p G ND) as (_ & _ & C). unfold getattr_res.
  destruct (snd (getattr_h s h p)) as [a|e]; [|exact C]. destruct C as [o [C1 C2]]. exists o. split; [exact C1|].
  rewrite C2. reflexivity.
Qed.

(* ====================================================================================================== *)
(* 3. two runs side by side                                                                               *)
(* ====================================================================================================== *)
Definition pnode (e : N * nattrs) : N * (kind * N * N * N) := (fst e, pn (snd e)).
(* the part of the configuration that is not about caching *)
Definition ncc (c : cfg) : N * bool * N := (tsize c, ro c, maxfile c).
(* two server states that may differ in their caches, in the CACHE CONFIGURATION (TTLs, capacities, negative
   caching on/off, directory cache on/off), in the call log, and in the unprojected node attributes *)
Record sim (s t : srv) : Prop := {
  sim_fs : fs s = fs t; sim_hm : hm s = hm t; sim_nodes : map pnode (nodes s) = map pnode (nodes t);
  sim_conf : ncc (conf s) = ncc (conf t); sim_now : now s = now t }.
Lemma sim_ro s t : sim s t -> ro (conf s) = ro (conf t).
Proof. intros S. pose proof (sim_conf s t S) as H. unfold ncc in H. congruence. Qed.
Lemma sim_maxfile s t : sim s t -> maxfile (conf s) = maxfile (conf t).
Proof. intros S. pose proof (sim_conf s t S) as H. unfold ncc in H. congruence. Qed.
Lemma sim_tsize s t : sim s t -> tsize (conf s) = tsize (conf t).
Proof. intros S. pose proof (sim_conf s t S) as H. unfold ncc in H. congruence. Qed.
Definition SIM (s t : srv) : Prop := sim s t /\ Good s /\ Good t.

Lemma sim_refl s : sim s s. Proof. split; reflexivity. Qed.
Lemma sim_core s t s' t' : core s s' -> core t t' -> sim s t -> sim s' t'.
Proof.
  intros (A1 & A2 & A3 & A4 & A5) (B1 & B2 & B3 & B4 & B5) [C1 C2 C3 C4 C5]. split; congruence.
Qed.

(* results of Lookup / GetAttr in the two runs *)
Definition rres (r r' : res nattrs) : Prop :=
  match r, r' with
  | Ok a, Ok a' => pn a = pn a'
  | Err e, Err e' => e = e'
  | _, _ => False
  end.
Lemma lookup_res_det f p r r' : WF f -> nolinks f -> nodd p -> lookup_res f p r -> lookup_res f p r' -> rres r r'.
Proof.
  intros W NL ND. destruct r as [a|e], r' as [a'|e']; cbn.
  - intros [A1 A2] [B1 B2]. unfold pn. rewrite A1 in B1. injection B1 as -> -> ->. rewrite A2, B2. reflexivity.
  - intros [A1 _] B. unfold pk in A1. destruct (fs_get f p) as [o|] eqn:G; [|discriminate].
    rewrite (be_stat_present f W NL p o false ND G) in B. discriminate.
  - intros B [A1 _]. unfold pk in A1. destruct (fs_get f p) as [o|] eqn:G; [|discriminate].
    rewrite (be_stat_present f W NL p o false ND G) in B. discriminate.
  - congruence.
Qed.
Lemma getattr_res_det f p r r' : WF f -> nolinks f -> nodd p -> getattr_res f p r -> getattr_res f p r' -> rres r r'.
Proof.
  intros W NL ND. destruct r as [a|e], r' as [a'|e']; cbn.
  - intros [o [A1 A2]] [o' [B1 B2]]. rewrite A1 in B1. injection B1 as <-. congruence.
  - intros [o [G _]] B. rewrite (be_stat_present f W NL p o false ND G) in B. discriminate.
  - intros B [o [G _]]. rewrite (be_stat_present f W NL p o false ND G) in B. discriminate.
  - congruence.
Qed.

Lemma srv_lookup_rel s t p : SIM s t -> nodd p ->
  SIM (fst (srv_lookup s p)) (fst (srv_lookup t p)) /\ rres (snd (srv_lookup s p)) (snd (srv_lookup t p)).
Proof.
  intros (S & G1 & G2) ND.
  destruct (srv_lookup_spec s p G1 ND) as (A1 & A2 & A3). destruct (srv_lookup_spec t p G2 ND) as (B1 & B2 & B3).
  split; [split; [eapply sim_core; eassumption|split; assumption]|].
  rewrite <- (sim_fs s t S) in B3. eapply lookup_res_det; try eassumption; [exact (g_wf s G1)|exact (g_nl s G1)].
Qed.
Lemma getattr_h_rel s t h p : SIM s t -> nodd p ->
  SIM (fst (getattr_h s h p)) (fst (getattr_h t h p)) /\ rres (snd (getattr_h s h p)) (snd (getattr_h t h p)).
Proof.
  intros (S & G1 & G2) ND.
  destruct (getattr_h_spec s h p G1 ND) as (A1 & A2 & _). destruct (getattr_h_spec t h p G2 ND) as (B1 & B2 & _).
  pose proof (getattr_h_res s h p G1 ND) as A3. pose proof (getattr_h_res t h p G2 ND) as B3.
  split; [split; [eapply sim_core; eassumption|split; assumption]|].
  rewrite <- (sim_fs s t S) in B3. eapply getattr_res_det; try eassumption; [exact (g_wf s G1)|exact (g_nl s G1)].
Qed.

(* nodes and handles *)
Lemma cons_pair_inv {A B} (k k' : A) (x y : B) l l' : (k, x) :: l = (k', y) :: l' -> k = k' /\ x = y /\ l = l'.
Proof. intros H. injection H. auto. Qed.
Lemma find_pnode h : forall l l', map pnode l = map pnode l' ->
  match find (fun e : N * nattrs => fst e =? h) l, find (fun e : N * nattrs => fst e =? h) l' with
  | Some e, Some e' => pn (snd e) = pn (snd e')
  | None, None => True
  | _, _ => False
  end.
Proof.
  induction l as [|[k a] r IH]; intros [|[k' a'] r']; cbn [map find fst]; try discriminate; [tauto|].
  intros H. apply (cons_pair_inv k k' (pn a) (pn a')) in H. destruct H as (-> & H1 & H2).
  destruct (k' =? h); [cbn; exact H1|apply IH; exact H2].
Qed.
Lemma node_get_rel s t h : sim s t ->
  match node_get s h, node_get t h with
  | Some a, Some a' => pn a = pn a'
  | None, None => True
  | _, _ => False
  end.
Proof.
  intros S. unfold node_get. pose proof (find_pnode h _ _ (sim_nodes s t S)) as H.
  destruct (find _ (nodes s)), (find _ (nodes t)); exact H.
Qed.
Lemma lookup_node_rel s t h : sim s t ->
  match lookup_node s h, lookup_node t h with
  | Some (p, a), Some (p', a') => p = p' /\ pn a = pn a'
  | None, None => True
  | _, _ => False
  end.
Proof.
  intros S. unfold lookup_node. rewrite <- (sim_hm s t S). destruct (get (hm s) h) as [p|]; [|exact I].
  pose proof (node_get_rel s t h S) as H. destruct (node_get s h), (node_get t h); try exact H. split; [reflexivity|exact H].
Qed.
Lemma filter_pnode h l : map pnode (filter (fun e : N * nattrs => negb (fst e =? h)) l) =
  filter (fun e => negb (fst e =? h)) (map pnode l).
Proof.
  induction l as [|[k a] r IH]; cbn [filter map pnode fst]; [reflexivity|].
  destruct (negb (k =? h)); cbn [map]; rewrite IH; reflexivity.
Qed.
Lemma node_set_sim s t h a a' : sim s t -> pn a = pn a' -> sim (node_set s h a) (node_set t h a').
Proof.
  intros [C1 C2 C3 C4 C5] E. split; sproj; try assumption. unfold node_set. sproj. cbn [map].
  rewrite !filter_pnode, C3. unfold pnode at 1 3. cbn [fst snd]. rewrite E. reflexivity.
Qed.
Lemma HOK_alloc s p a : HOK s -> gpath p -> HOK (fst (alloc s p a)).
Proof.
  intros H GP. destruct (alloc_T gpath s p a GP) as [_ TH].
  intros h q Q. destruct (TH h q Q) as [Q0|Q0]; [exact (H h q Q0)|exact Q0].
Qed.
Lemma alloc_parts s p a :
  fs (fst (alloc s p a)) = fs s /\ ac (fst (alloc s p a)) = ac s /\ dc (fst (alloc s p a)) = dc s /\
  conf (fst (alloc s p a)) = conf s /\ now (fst (alloc s p a)) = now s.
Proof. unfold alloc. destruct (allocate path_eqb (hm s) p) as [m h]. cbn. auto. Qed.
Lemma Good_alloc s p a : Good s -> gpath p -> Good (fst (alloc s p a)).
Proof.
  intros [W NL H C] GP. destruct (alloc_parts s p a) as (A1 & A2 & A3 & A4 & _). split.
  - rewrite A1. exact W.
  - rewrite A1. exact NL.
  - apply HOK_alloc; assumption.
  - unfold Coh. rewrite A1, A2, A3, A4. exact C.
Qed.
Lemma alloc_rel s t p a a' : SIM s t -> gpath p -> pn a = pn a' ->
  SIM (fst (alloc s p a)) (fst (alloc t p a')) /\ snd (alloc s p a) = snd (alloc t p a').
Proof.
  intros (S & G1 & G2) GP E.
  split; [split; [|split; apply Good_alloc; assumption]|].
  - unfold alloc. rewrite <- (sim_hm s t S). destruct (allocate path_eqb (hm s) p) as [m h]. cbn [fst].
    apply node_set_sim; [|exact E]. destruct S as [C1 C2 C3 C4 C5]. split; sproj; auto.
  - unfold alloc. rewrite <- (sim_hm s t S). destruct (allocate path_eqb (hm s) p) as [m h]. reflexivity.
Qed.

(* ====================================================================================================== *)
(* 4. the reply projection and the lockstep machinery                                                     *)
(* ====================================================================================================== *)
Definition pfa (fa : fattr) : N * N * N * N * N := (fa_type fa, fa_perm fa, fa_nlink fa, fa_size fa, fa_fileid fa).
Definition pde (e : dentry) := (de_fileid e, de_name e, de_cookie e, option_map pfa (de_attr e), de_fh e).
(* everything of a reply except times, uid, gid (and the wcc / procedure-specific numbers built from them) *)
Definition proj (o : obs) :=
  (ob_rpc o, ob_status o, ob_fh o, map (option_map pfa) (ob_attrs o), ob_bytes o, map pde (ob_entries o), ob_eof o).
Definition HREL (x y : srv * obs) : Prop := SIM (fst x) (fst y) /\ proj (snd x) = proj (snd y).

Lemma pn_kind a a' : pn a = pn a' -> na_kind a = na_kind a'.
Proof. unfold pn. congruence. Qed.
Lemma pn_size a a' : pn a = pn a' -> na_size a = na_size a'.
Proof. unfold pn. congruence. Qed.
Lemma pn_fileid a a' : pn a = pn a' -> na_fileid a = na_fileid a'.
Proof. unfold pn. congruence. Qed.
Lemma pfa_pn a a' : pn a = pn a' -> pfa (fattr_of a) = pfa (fattr_of a').
Proof. unfold pn, pfa, fattr_of. cbn. intros [= -> -> -> ->]. reflexivity. Qed.

Lemma SIM_gpath s t h p a : SIM s t -> lookup_node s h = Some (p, a) -> gpath p.
Proof. intros (_ & G & _) L. apply lookup_node_get in L. exact (g_hok s G h p L). Qed.
Lemma vname_nodd n : vname n -> is_dotdot n = false.
Proof. intros V. apply gcomp_nodd. apply vname_gcomp. exact V. Qed.

(* side conditions *)
Ltac nd :=
  first [ assumption
        | apply gpath_nodd; assumption
        | apply gpath_nodd; apply gpath_app; [assumption|first [apply vname_gcomp; assumption|apply name_sane_gcomp; assumption]]
        | apply gpath_app; [assumption|first [apply vname_gcomp; assumption|apply name_sane_gcomp; assumption]] ].

Ltac obs_cbn :=
  cbn [snd]; unfold proj, fail_post, fail_wcc, fail_wcc2, ob_fail, ob_mk, sf;
  cbn [ob_rpc ob_status ob_fh ob_attrs ob_bytes ob_entries ob_eof map option_map].
Ltac leaf :=
  split; [cbn [fst]; first [assumption|tauto]
         |obs_cbn;
          repeat match goal with R : pn ?a = pn ?b |- _ => try rewrite (pfa_pn a b R); clear R end; reflexivity].

(* the handle lookup at the head of a handler *)
Ltac lnode :=
  match goal with
  | HS : SIM ?s ?t |- context [lookup_node ?s ?h] =>
    let L := fresh "L" in let Ls := fresh "Ls" in let Lt := fresh "Lt" in
    pose proof (lookup_node_rel s t h (proj1 HS)) as L;
    destruct (lookup_node s h) as [[? ?]|] eqn:Ls; destruct (lookup_node t h) as [[? ?]|] eqn:Lt; try contradiction;
    [destruct L as [<- L]; pose proof (SIM_gpath _ _ _ _ _ HS Ls)|]
  end.
(* one Lookup / GetAttr / Allocate on both sides *)
Ltac lock :=
  match goal with
  | HS : SIM ?s ?t |- context [getattr_h ?s ?h ?p] =>
    let R := fresh "R" in
    assert (R := getattr_h_rel s t h p HS ltac:(nd));
    destruct (getattr_h s h p) as [? [?|?]]; destruct (getattr_h t h p) as [? [?|?]];
    cbn [fst snd rres] in R; destruct R as [? R]; try contradiction; clear HS;
    try (match type of R with ?x = ?y => is_var y; subst y end)
  | HS : SIM ?s ?t |- context [srv_lookup ?s ?p] =>
    let R := fresh "R" in
    assert (R := srv_lookup_rel s t p HS ltac:(nd));
    destruct (srv_lookup s p) as [? [?|?]]; destruct (srv_lookup t p) as [? [?|?]];
    cbn [fst snd rres] in R; destruct R as [? R]; try contradiction; clear HS;
    try (match type of R with ?x = ?y => is_var y; subst y end)
  end.
Ltac lock_alloc :=
  match goal with
  | HS : SIM ?s ?t, E : pn ?a = pn ?a' |- context [alloc ?s ?p ?a] =>
    let R := fresh "R" in
    assert (R := alloc_rel s t p a a' HS ltac:(nd) E);
    destruct (alloc s p a) as [? ?]; destruct (alloc t p a') as [? ?];
    cbn [fst snd] in R; destruct R as [? R]; try subst; clear HS
  end.
Ltac kindeq :=
  repeat match goal with
  | L : pn ?a = pn ?a' |- context [na_kind ?a'] => rewrite <- (pn_kind a a' L)
  end.

Lemma handle_getattr_rel s t h : SIM s t -> HREL (handle_getattr s h) (handle_getattr t h).
Proof. intros HS. unfold handle_getattr. lnode; [lock|]; leaf. Qed.
Lemma handle_access_rel s t c h m : SIM s t -> HREL (handle_access s c h m) (handle_access t c h m).
Proof. intros HS. unfold handle_access. lnode; [lock|]; leaf. Qed.
Lemma handle_fsx_rel s t h f : SIM s t -> HREL (handle_fsx s h f) (handle_fsx t h f).
Proof. intros HS. unfold handle_fsx. lnode; [lock|]; leaf. Qed.
Lemma current_attrs_rel s t h p : SIM s t -> nodd p ->
  SIM (fst (current_attrs s h p)) (fst (current_attrs t h p)) /\
  option_map pfa (snd (current_attrs s h p)) = option_map pfa (snd (current_attrs t h p)).
Proof.
  intros HS ND. unfold current_attrs. lock; cbn [fst snd]; (split; [assumption|]); [|reflexivity].
  cbn [sf option_map]. rewrite (pfa_pn _ _ R). reflexivity.
Qed.

Lemma Good_logc s c : Good s -> Good (logc s c).
Proof. intros G. eapply Good_core; [|exact G|exact (g_coh s G)]. repeat split. Qed.
Lemma SIM_logc s t c c' : SIM s t -> SIM (logc s c) (logc t c').
Proof.
  intros (S & G1 & G2). split; [|split; apply Good_logc; assumption].
  destruct S as [C1 C2 C3 C4 C5]. split; sproj; assumption.
Qed.
Lemma Good_clear s : Good s -> Good (clear_log s).
Proof. intros G. eapply Good_core; [|exact G|exact (g_coh s G)]. repeat split. Qed.
Lemma SIM_clear s t : SIM s t -> SIM (clear_log s) (clear_log t).
Proof.
  intros (S & G1 & G2). split; [|split; apply Good_clear; assumption].
  destruct S as [C1 C2 C3 C4 C5]. split; sproj; assumption.
Qed.

Lemma failed_reply_rel s t h d st_ a a' : SIM s t -> nodd d -> pn a = pn a' ->
  HREL (failed_reply s h d st_ a) (failed_reply t h d st_ a').
Proof. intros HS ND E. unfold failed_reply. lock; leaf. Qed.
Lemma created_reply_rel s t h d p a a' dp dp' : SIM s t -> nodd d -> gpath p -> pn a = pn a' -> pn dp = pn dp' ->
  HREL (created_reply s h d p a dp) (created_reply t h d p a' dp').
Proof. intros HS ND GP E E'. unfold created_reply. lock; [lock_alloc|]; leaf. Qed.

Lemma handle_commit_rel s t h : SIM s t -> HREL (handle_commit s h) (handle_commit t h).
Proof.
  intros HS. unfold handle_commit. rewrite <- (sim_ro s t (proj1 HS)). destruct (ro (conf s)); [leaf|].
  lnode; [lock|]; leaf.
Qed.
Lemma handle_lookup_rel s t h n : SIM s t -> HREL (handle_lookup s h n) (handle_lookup t h n).
Proof.
  intros HS. unfold handle_lookup. destruct (negb (validate_name n =? st_ok)) eqn:V; [leaf|].
  apply vname_of_negb in V. lnode; [|leaf]. kindeq.
  destruct (negb (kind_eqb (na_kind n0) KDir)).
  - pose proof (current_attrs_rel s t h p HS ltac:(nd)) as R.
    destruct (current_attrs s h p) as [? ?]. destruct (current_attrs t h p) as [? ?]. cbn [fst snd] in R. destruct R as [R1 R2].
    split; [exact R1|]. obs_cbn. rewrite R2. reflexivity.
  - lock.
    + lock_alloc.
      match goal with HS' : SIM ?s1 ?t1 |- _ => pose proof (current_attrs_rel s1 t1 h p HS' ltac:(nd)) as Rc end.
      destruct (current_attrs _ h p) as [? ?]. destruct (current_attrs _ h p) as [? ?]. cbn [fst snd] in Rc. destruct Rc as [R1 R2].
      split; [exact R1|]. obs_cbn. rewrite R2, (pfa_pn _ _ R). reflexivity.
    + match goal with HS' : SIM ?s1 ?t1 |- _ => pose proof (current_attrs_rel s1 t1 h p HS' ltac:(nd)) as Rc end.
      destruct (current_attrs _ h p) as [? ?]. destruct (current_attrs _ h p) as [? ?]. cbn [fst snd] in Rc. destruct Rc as [R1 R2].
      split; [exact R1|]. obs_cbn. rewrite R2. reflexivity.
Qed.
Lemma mnt_prefix_check_rel k : forall s t pre, SIM s t ->
  SIM (fst (mnt_prefix_check s pre k)) (fst (mnt_prefix_check t pre k)) /\
  snd (mnt_prefix_check s pre k) = snd (mnt_prefix_check t pre k).
Proof.
  induction k as [|k IH]; intros s t pre HS; cbn [mnt_prefix_check]; [destruct pre; cbn; auto|].
  destruct pre as [|x pre']; [cbn; auto|]. unfold do_lstat. rewrite <- (sim_fs s t (proj1 HS)).
  pose proof (SIM_logc s t (bc BLstat (x :: pre')) (bc BLstat (x :: pre')) HS) as HS1.
  destruct (be_stat (fs s) (x :: pre') false) as [fi|e]; [|apply IH; exact HS1].
  destruct (kind_eqb (fi_kind fi) KLink); [cbn; auto|apply IH; exact HS1].
Qed.
Lemma handle_mnt_rel s t p : SIM s t -> HREL (handle_mnt s p) (handle_mnt t p).
Proof.
  intros HS. unfold handle_mnt. destruct (negb (is_abs p)); [leaf|]. cbv zeta.
  pose proof (mnt_path_gpath p) as GP.
  destruct (mnt_prefix_check_rel (length (clean_comps [] (split_path p))) s t (removelast (clean_comps [] (split_path p))) HS) as [R1 R2].
  destruct (mnt_prefix_check s _ _) as [s0 linked]. destruct (mnt_prefix_check t _ _) as [t0 linked']. cbn [fst snd] in *. subst linked'.
  clear HS. destruct linked; [leaf|]. lock; [lock_alloc|]; leaf.
Qed.
Lemma handle_readlink_rel s t h : SIM s t -> HREL (handle_readlink s h) (handle_readlink t h).
Proof.
  intros HS. unfold handle_readlink. lnode; [|leaf]. kindeq.
  destruct (negb (kind_eqb (na_kind n) KLink)); [leaf|].
  cbn [fs logc]. rewrite <- (sim_fs s t (proj1 HS)).
  destruct (be_readlink (fs s) p) as [tg|e]; [|split; [cbn [fst]; apply SIM_logc; exact HS|reflexivity]].
  destruct (negb (is_abs tg) && target_has_dotdot tg); [split; [cbn [fst]; apply SIM_logc; exact HS|reflexivity]|].
  pose proof (SIM_logc s t (bc BReadlink p) (bc BReadlink p) HS) as HS1. clear HS. lock; leaf.
Qed.

(* ====================================================================================================== *)
(* 5. mutations: re-establishing the invariant after a change of the tree                                 *)
(* ====================================================================================================== *)
Lemma ac_ok_frame f f' e : WF f -> (forall q, is_prefix q (ac_path e) = true -> pk f' q = pk f q) -> ac_ok f e -> ac_ok f' e.
Proof.
  intros W H. unfold ac_ok. destruct (ac_attrs e) as [a|].
  - unfold attr_ok. rewrite (H _ (is_prefix_refl _)). tauto.
  - apply noent_frame; assumption.
Qed.
Lemma dc_ok_frame f f' e : pk f' (dc_path e) = pk f (dc_path e) -> listing f' (dc_path e) = listing f (dc_path e) ->
  dc_ok f e -> dc_ok f' e.
Proof. intros H1 H2 [A B]. split; [rewrite (pk_kd _ _ _ H1); exact A|rewrite H2; exact B]. Qed.

(* s' is s with tree f' and possibly smaller caches *)
Definition modfs (s : srv) (f' : fsmap) (s' : srv) : Prop :=
  fs s' = f' /\ hm s' = hm s /\ nodes s' = nodes s /\ conf s' = conf s /\ now s' = now s.
Lemma sim_modfs s t f' s' t' : sim s t -> modfs s f' s' -> modfs t f' t' -> sim s' t'.
Proof. intros [C1 C2 C3 C4 C5] (A1 & A2 & A3 & A4 & A5) (B1 & B2 & B3 & B4 & B5). split; congruence. Qed.

Lemma Good_frame s f' s' : Good s -> modfs s f' s' -> WF f' -> nolinks f' ->
  (forall e, In e (ac s') -> In e (ac s) /\ forall q, is_prefix q (ac_path e) = true -> pk f' q = pk (fs s) q) ->
  (dir_on (conf s) = true -> forall e, In e (dc s') -> In e (dc s) /\
     (dc_ok (fs s) e -> pk f' (dc_path e) = pk (fs s) (dc_path e) /\ listing f' (dc_path e) = listing (fs s) (dc_path e))) ->
  Good s'.
Proof.
  intros [W NL H [CA CD]] (A1 & A2 & A3 & A4 & A5) W' NL' HA HD. split.
  - rewrite A1. exact W'.
  - rewrite A1. exact NL'.
  - unfold HOK. rewrite A2. exact H.
  - split.
    + apply Forall_forall. intros e He. destruct (HA e He) as [I F]. rewrite A1.
      eapply ac_ok_frame; [exact W|exact F|]. exact (proj1 (Forall_forall _ _) CA e I).
    + rewrite A4. intros ON. apply Forall_forall. intros e He. destruct (HD ON e He) as [I F]. rewrite A1.
      pose proof (proj1 (Forall_forall _ _) (CD ON) e I) as OK. destruct (F OK) as [F1 F2].
      eapply dc_ok_frame; eassumption.
Qed.

(* a change confined to the object at p (and the listing of its parent) *)
Lemma Good_local s f' s' p : Good s -> modfs s f' s' -> WF f' -> nolinks f' ->
  (forall q, q <> p -> pk f' q = pk (fs s) q) ->
  (forall d, d <> parent p -> listing f' d = listing (fs s) d) ->
  (forall e, In e (ac s') -> In e (ac s) /\ is_prefix p (ac_path e) = false) ->
  (dir_on (conf s) = true -> forall e, In e (dc s') -> In e (dc s) /\ dc_path e <> parent p /\ (kd (fs s) p = true -> dc_path e <> p)) ->
  Good s'.
Proof.
  intros G M W' NL' HP HL HA HD. eapply Good_frame; try eassumption.
  - intros e He. destruct (HA e He) as [I F]. split; [exact I|]. intros q Q. apply HP. intros ->. congruence.
  - intros ON e He. destruct (HD ON e He) as (I & F1 & F2). split; [exact I|]. intros [K _]. split; [|apply HL; exact F1].
    apply HP. intros E. rewrite E in K. exact (F2 K E).
Qed.

(* the invalidation primitives *)
Lemma dc_invalidate_parts s q :
  fs (dc_invalidate s q) = fs s /\ hm (dc_invalidate s q) = hm s /\ nodes (dc_invalidate s q) = nodes s /\
  ac (dc_invalidate s q) = ac s /\ conf (dc_invalidate s q) = conf s /\ now (dc_invalidate s q) = now s.
Proof. unfold dc_invalidate. destruct (dir_on (conf s)); cbn; auto 10. Qed.
Lemma dc_invalidate_tree_parts s q :
  fs (dc_invalidate_tree s q) = fs s /\ hm (dc_invalidate_tree s q) = hm s /\ nodes (dc_invalidate_tree s q) = nodes s /\
  ac (dc_invalidate_tree s q) = ac s /\ conf (dc_invalidate_tree s q) = conf s /\ now (dc_invalidate_tree s q) = now s.
Proof. unfold dc_invalidate_tree. destruct (dir_on (conf s)); cbn; auto 10. Qed.
Lemma fs_dci s q : fs (dc_invalidate s q) = fs s. Proof. apply dc_invalidate_parts. Qed.
Lemma hm_dci s q : hm (dc_invalidate s q) = hm s. Proof. apply dc_invalidate_parts. Qed.
Lemma nodes_dci s q : nodes (dc_invalidate s q) = nodes s. Proof. apply dc_invalidate_parts. Qed.
Lemma ac_dci s q : ac (dc_invalidate s q) = ac s. Proof. apply dc_invalidate_parts. Qed.
Lemma conf_dci s q : conf (dc_invalidate s q) = conf s. Proof. apply dc_invalidate_parts. Qed.
Lemma now_dci s q : now (dc_invalidate s q) = now s. Proof. apply dc_invalidate_parts. Qed.
Lemma fs_dcit s q : fs (dc_invalidate_tree s q) = fs s. Proof. apply dc_invalidate_tree_parts. Qed.
Lemma hm_dcit s q : hm (dc_invalidate_tree s q) = hm s. Proof. apply dc_invalidate_tree_parts. Qed.
Lemma nodes_dcit s q : nodes (dc_invalidate_tree s q) = nodes s. Proof. apply dc_invalidate_tree_parts. Qed.
Lemma ac_dcit s q : ac (dc_invalidate_tree s q) = ac s. Proof. apply dc_invalidate_tree_parts. Qed.
Lemma conf_dcit s q : conf (dc_invalidate_tree s q) = conf s. Proof. apply dc_invalidate_tree_parts. Qed.
Lemma now_dcit s q : now (dc_invalidate_tree s q) = now s. Proof. apply dc_invalidate_tree_parts. Qed.
Global Hint Rewrite fs_dci hm_dci nodes_dci ac_dci conf_dci now_dci fs_dcit hm_dcit nodes_dcit ac_dcit conf_dcit now_dcit : inv.

Ltac inv_simpl :=
  repeat (autorewrite with inv;
          cbn [fs hm nodes ac dc conf now blog with_fs with_hm with_nodes with_ac with_dc with_conf with_now logc clear_log
               ac_invalidate ac_invalidate_tree ac_invalidate_neg_in_dir invalidate_for_new]).
Ltac inv_simpl_in H :=
  repeat (autorewrite with inv in H;
          cbn [fs hm nodes ac dc conf now blog with_fs with_hm with_nodes with_ac with_dc with_conf with_now logc clear_log
               ac_invalidate ac_invalidate_tree ac_invalidate_neg_in_dir invalidate_for_new] in H).
Ltac solve_modfs := unfold modfs, invalidate_for_new; inv_simpl; repeat split; reflexivity.

Lemma in_dc_invalidate s q e : dir_on (conf s) = true -> In e (dc (dc_invalidate s q)) -> In e (dc s) /\ dc_path e <> q.
Proof.
  intros ON. unfold dc_invalidate. rewrite ON. cbn [dc with_dc]. unfold dc_remove. rewrite filter_In.
  intros [A B]. split; [exact A|]. apply negb_true_iff, peqb_neq in B. congruence.
Qed.
Lemma in_dc_invalidate_tree s q e : dir_on (conf s) = true -> In e (dc (dc_invalidate_tree s q)) ->
  In e (dc s) /\ is_prefix q (dc_path e) = false.
Proof.
  intros ON. unfold dc_invalidate_tree. rewrite ON. cbn [dc with_dc]. rewrite filter_In.
  intros [A B]. split; [exact A|]. apply negb_true_iff in B. exact B.
Qed.
Lemma in_ac_remove l q e : In e (ac_remove l q) -> In e l /\ ac_path e <> q.
Proof.
  unfold ac_remove. rewrite filter_In. intros [A B]. split; [exact A|]. apply negb_true_iff, peqb_neq in B. congruence.
Qed.
Lemma in_ac_tree (l : list acentry) q e : In e (filter (fun e => negb (is_prefix q (ac_path e))) l) -> In e l /\ is_prefix q (ac_path e) = false.
Proof. rewrite filter_In. intros [A B]. split; [exact A|]. apply negb_true_iff in B. exact B. Qed.
Lemma prefix_false_neq q p : is_prefix q p = false -> p <> q.
Proof. intros H ->. rewrite is_prefix_refl in H. discriminate. Qed.

Ltac inv_in H :=
  repeat match type of H with
  | In _ (ac_remove _ _) => let X := fresh "X" in apply in_ac_remove in H; destruct H as [H X]
  | In _ (filter (fun e => negb (is_prefix _ (ac_path e))) _) => let X := fresh "X" in apply in_ac_tree in H; destruct H as [H X]
  | In _ (filter _ _) => apply In_filter_sub in H
  | In _ (dc (dc_invalidate _ _)) =>
      let X := fresh "X" in apply in_dc_invalidate in H; [destruct H as [H X]|inv_simpl; assumption]
  | In _ (dc (dc_invalidate_tree _ _)) =>
      let X := fresh "X" in apply in_dc_invalidate_tree in H; [destruct H as [H X]|inv_simpl; assumption]
  end.

(* ---------- REMOVE / RMDIR ---------- *)
Lemma be_remove_err s p t f' e : Good s -> nodd p -> be_remove (fs s) p t = (f', Err e) -> f' = fs s.
Proof.
  intros G ND B. destruct (be_remove_spec (fs s) (g_wf s G) (g_nl s G) p t ND) as [e0 S]. rewrite S in B.
  destruct (removable (fs s) p); [discriminate|]. congruence.
Qed.
Lemma Good_rm s s' p f' : Good s -> nodd p -> be_remove (fs s) p (now s) = (f', Ok tt) -> modfs s f' s' ->
  (forall e, In e (ac s') -> In e (ac s) /\ is_prefix p (ac_path e) = false) ->
  (dir_on (conf s) = true -> forall e, In e (dc s') -> In e (dc s) /\ dc_path e <> parent p /\ dc_path e <> p) ->
  Good s'.
Proof.
  intros G ND B M HA HD. destruct (be_remove_spec (fs s) (g_wf s G) (g_nl s G) p (now s) ND) as [e0 S]. rewrite S in B.
  destruct (removable (fs s) p) eqn:R; [|discriminate]. injection B as <-.
  destruct (removable_spec (fs s) (g_wf s G) p R) as (NE & _ & NC).
  eapply (Good_local s _ s' p G M).
  - apply WF_del; [exact (g_wf s G)|exact NE|exact NC].
  - apply nolinks_del. exact (g_nl s G).
  - intros q Q. apply pk_del; assumption.
  - intros d D. apply listing_del. exact D.
  - exact HA.
  - intros ON e He. destruct (HD ON e He) as (A & B & C). auto.
Qed.
Lemma remove_block_good s d n f' c : Good s -> nodd (d ++ [n]) -> be_remove (fs s) (d ++ [n]) (now s) = (f', Ok tt) ->
  Good (dc_invalidate (dc_invalidate_tree (ac_invalidate (ac_invalidate (ac_invalidate_tree (logc (with_fs s f') c) (d ++ [n])) (d ++ [n])) d) (d ++ [n])) d).
Proof.
  intros G ND B. eapply (Good_rm s _ (d ++ [n]) f' G ND B); [solve_modfs| |].
  - intros e He. inv_simpl_in He. inv_in He. auto.
  - intros ON e He. inv_in He. inv_simpl_in He. rewrite parent_snoc. split; [exact He|]. split; [assumption|].
    apply prefix_false_neq. assumption.
Qed.
Lemma rmdir_block_good s d n f' c : Good s -> nodd (d ++ [n]) -> be_remove (fs s) (d ++ [n]) (now s) = (f', Ok tt) ->
  Good (dc_invalidate_tree (dc_invalidate (ac_invalidate (ac_invalidate (ac_invalidate_tree (logc (with_fs s f') c) (d ++ [n])) (d ++ [n])) d) d) (d ++ [n])).
Proof.
  intros G ND B. eapply (Good_rm s _ (d ++ [n]) f' G ND B); [solve_modfs| |].
  - intros e He. inv_simpl_in He. inv_in He. auto.
  - intros ON e He. inv_in He. inv_simpl_in He. rewrite parent_snoc. split; [exact He|]. split; [assumption|].
    apply prefix_false_neq. assumption.
Qed.
Lemma Good_with_fs_same s c : Good s -> Good (logc (with_fs s (fs s)) c).
Proof.
  intros [W NL H C]. split; sproj; assumption.
Qed.

Lemma SIM_same_fs s t c : SIM s t -> SIM (logc (with_fs s (fs s)) c) (logc (with_fs t (fs s)) c).
Proof.
  intros (S & G1 & G2). split; [|split; [apply Good_with_fs_same; exact G1|rewrite (sim_fs s t S); apply Good_with_fs_same; exact G2]].
  destruct S as [C1 C2 C3 C4 C5]. split; sproj; auto.
Qed.

Lemma handle_remove_rel s t h n : SIM s t -> HREL (handle_remove s h n) (handle_remove t h n).
Proof.
  intros HS. unfold handle_remove. rewrite <- (sim_ro s t (proj1 HS)). destruct (ro (conf s)); [leaf|].
  destruct (negb (validate_name n =? st_ok)) eqn:V; [leaf|]. apply vname_of_negb in V.
  lnode; [|leaf]. kindeq. destruct (negb (kind_eqb (na_kind n0) KDir)); [leaf|].
  lock; [|leaf].
  destruct (negb (sanitize_ok p n)); [apply failed_reply_rel; [assumption|nd|assumption]|].
  match goal with HS' : SIM ?s1 ?t1 |- _ =>
    unfold lift_unit; cbn [fst snd]; rewrite <- (sim_fs s1 t1 (proj1 HS')), <- (sim_now s1 t1 (proj1 HS'));
    pose proof (sim_fs s1 t1 (proj1 HS')) as EF; pose proof (sim_now s1 t1 (proj1 HS')) as EN;
    destruct (be_remove (fs s1) (p ++ [n]) (now s1)) as [f' [[]|e]] eqn:B; cbn [fst snd];
    destruct HS' as (S1 & G1 & G2)
  end.
  - match goal with |- HREL (let '(_, _) := getattr_h ?s2 _ _ in _) (let '(_, _) := getattr_h ?t2 _ _ in _) => assert (HS2 : SIM s2 t2) end.
    { split; [eapply sim_modfs; [exact S1|solve_modfs|solve_modfs]|]. split.
      - apply remove_block_good; [exact G1|nd|exact B].
      - apply remove_block_good; [exact G2|nd|rewrite <- EF, <- EN; exact B]. }
    lock; leaf.
  - assert (f' = fs s0) as -> by (eapply be_remove_err; [exact G1| |exact B]; nd).
    apply failed_reply_rel; [apply SIM_same_fs; split; [exact S1|split; assumption]|nd|assumption].
Qed.

Lemma handle_rmdir_rel s t h n : SIM s t -> HREL (handle_rmdir s h n) (handle_rmdir t h n).
Proof.
  intros HS. unfold handle_rmdir. rewrite <- (sim_ro s t (proj1 HS)). destruct (ro (conf s)); [leaf|].
  destruct (negb (validate_name n =? st_ok)) eqn:V; [leaf|]. apply vname_of_negb in V.
  lnode; [|leaf]. kindeq. destruct (negb (kind_eqb (na_kind n0) KDir)); [leaf|].
  lock; [|leaf].
  match goal with HS' : SIM ?s1 ?t1 |- _ =>
    unfold do_stat; cbn [fst snd]; rewrite <- (sim_fs s1 t1 (proj1 HS'));
    pose proof (SIM_logc s1 t1 (bc BStat (p ++ [n])) (bc BStat (p ++ [n])) HS') as HSL;
    destruct (be_stat (fs s1) (p ++ [n]) true) as [fi|e0]; [|clear HS'; leaf];
    destruct (negb (kind_eqb (fi_kind fi) KDir)); [clear HS'; leaf|]; clear HS'
  end.
  match goal with HS' : SIM ?s1 ?t1 |- _ =>
    unfold lift_unit; cbn [fst snd]; rewrite <- (sim_fs s1 t1 (proj1 HS')), <- (sim_now s1 t1 (proj1 HS'));
    pose proof (sim_fs s1 t1 (proj1 HS')) as EF; pose proof (sim_now s1 t1 (proj1 HS')) as EN;
    destruct (be_remove (fs s1) (p ++ [n]) (now s1)) as [f' [[]|e]] eqn:B; cbn [fst snd];
    destruct HS' as (S1 & G1 & G2)
  end.
  - match goal with |- HREL (let '(_, _) := getattr_h ?s2 _ _ in _) (let '(_, _) := getattr_h ?t2 _ _ in _) => assert (HS2 : SIM s2 t2) end.
    { split; [eapply sim_modfs; [exact S1|solve_modfs|solve_modfs]|]. split.
      - apply rmdir_block_good; [exact G1|nd|exact B].
      - apply rmdir_block_good; [exact G2|nd|rewrite <- EF, <- EN; exact B]. }
    lock; leaf.
  - match type of B with be_remove (fs ?s1) _ _ = _ =>
      assert (f' = fs s1) as -> by (eapply be_remove_err; [exact G1| |exact B]; nd);
      apply failed_reply_rel; [apply SIM_same_fs; split; [exact S1|split; assumption]|nd|assumption] end.
Qed.

(* ---------- CREATE / MKDIR: a change confined to p ---------- *)
Definition local_change (f f' : fsmap) (p : path) : Prop :=
  WF f' /\ nolinks f' /\ (forall q, q <> p -> pk f' q = pk f q) /\ (forall d, d <> parent p -> listing f' d = listing f d).
Lemma local_refl f p : WF f -> nolinks f -> local_change f f p.
Proof. intros W NL. split; [exact W|]. split; [exact NL|]. split; intros; reflexivity. Qed.
Lemma local_upd f f1 p g : local_change f f1 p -> keeps_kind g -> local_change f (fs_upd f1 p g) p.
Proof.
  intros (W & NL & HP & HL) K. split; [apply WF_upd; assumption|]. split; [apply nolinks_upd; assumption|]. split.
  - intros q Q. rewrite <- (HP q Q). unfold pk. rewrite fs_get_upd. apply peqb_neq in Q. rewrite Q. reflexivity.
  - intros d D. rewrite listing_upd. apply HL. exact D.
Qed.
Lemma local_add f p o t : WF f -> nolinks f -> creatable f p = true -> o_kind o <> KLink -> local_change f (fs_add f p o t) p.
Proof.
  intros W NL C K. pose proof (creatable_nonroot f W p C) as NE. split; [apply WF_add; assumption|].
  split; [apply nolinks_add; assumption|]. split.
  - intros q Q. apply pk_add; assumption.
  - intros d D. apply listing_add. exact D.
Qed.
Lemma be_meta_ok f p fl g o : WF f -> nolinks f -> nodd p -> fs_get f p = Some o -> be_meta f p fl g = (fs_upd f p g, Ok tt).
Proof. intros W NL ND G. destruct (be_meta_spec f W NL p fl g ND) as [e S]. rewrite S, G. reflexivity. Qed.
Lemma fs_get_upd_some f p g o : fs_get f p = Some o -> fs_get (fs_upd f p g) p = Some (g o).
Proof. intros G. rewrite fs_get_upd, peqb_refl, G. reflexivity. Qed.

Lemma mkdir_chain f p mode t u g f1 : WF f -> nolinks f -> nodd p -> be_mkdir f p mode t = (f1, Ok tt) ->
  exists f2, be_chown f1 p u g = (f2, Ok tt) /\ local_change f f2 p /\ kd f p = false /\ fs_get f p = None /\ kd f (parent p) = true.
Proof.
  intros W NL ND B. destruct (be_mkdir_spec f W NL p mode t ND) as [e S]. rewrite S in B.
  destruct (creatable f p) eqn:C; [|discriminate]. injection B as <-.
  assert (L1 : local_change f (fs_add f p (mk_dir (N.land mode 511) t) t) p) by (apply local_add; auto; discriminate).
  pose proof (creatable_nonroot f W p C) as NE.
  unfold be_chown. erewrite be_meta_ok; [| apply L1 | apply L1 | exact ND | apply fs_get_add_same; exact NE].
  eexists. split; [reflexivity|]. split; [apply local_upd; [exact L1|apply set_meta_kind]|].
  unfold creatable in C. unfold kd. destruct (fs_get f p); [discriminate|]. auto.
Qed.
Lemma create_chain f p t m u g f1 q : WF f -> nolinks f -> nodd p -> be_create f p t = (f1, Ok q) ->
  exists f2 f3, be_chmod f1 p m = (f2, Ok tt) /\ be_chown f2 p u g = (f3, Ok tt) /\ local_change f f3 p /\ kd f p = false /\
               exists o3, fs_get f3 p = Some o3.
Proof.
  intros W NL ND B. destruct (be_create_spec f W NL p t ND) as [e S]. rewrite S in B.
  assert (X : local_change f f1 p /\ (exists o, fs_get f1 p = Some o) /\ kd f p = false).
  { destruct (fs_get f p) as [o|] eqn:G.
    - pose proof (NL p o G) as L. destruct (o_kind o) eqn:K; try congruence. injection B as <- <-.
      split; [apply local_upd; [apply local_refl; assumption|intros x; reflexivity]|].
      split; [eexists; apply fs_get_upd_some; exact G|]. unfold kd. rewrite G, K. reflexivity.
    - destruct (kd f (parent p)) eqn:KP; [|discriminate]. injection B as <- <-.
      assert (C : creatable f p = true) by (unfold creatable; rewrite G; exact KP).
      split; [apply local_add; auto; discriminate|]. split; [|unfold kd; rewrite G; reflexivity].
      eexists. apply fs_get_add_same. eapply creatable_nonroot; eassumption. }
  destruct X as (L1 & [o1 G1] & K).
  assert (L2 : local_change f (fs_upd f1 p (fun o => set_meta o (N.land m 511) (o_uid o) (o_gid o) (o_mtime o))) p)
    by (apply local_upd; [exact L1|apply set_meta_kind]).
  unfold be_chmod, be_chown. eexists. eexists.
  split; [eapply be_meta_ok; [apply L1|apply L1|exact ND|exact G1]|].
  split; [eapply be_meta_ok; [apply L2|apply L2|exact ND|apply fs_get_upd_some; exact G1]|].
  split; [apply local_upd; [exact L2|apply set_meta_kind]|]. split; [exact K|].
  eexists. apply fs_get_upd_some. apply fs_get_upd_some. exact G1.
Qed.

Lemma Good_new s f3 d n s0 : Good s -> local_change (fs s) f3 (d ++ [n]) -> kd (fs s) (d ++ [n]) = false ->
  modfs s f3 s0 -> ac s0 = ac s -> dc s0 = dc s -> Good (invalidate_for_new s0 d (d ++ [n])).
Proof.
  intros G (W' & NL' & HP & HL) K M EA ED.
  assert (M' : modfs s f3 (invalidate_for_new s0 d (d ++ [n]))).
  { destruct M as (M1 & M2 & M3 & M4 & M5). unfold modfs, invalidate_for_new. inv_simpl. auto. }
  eapply (Good_local s f3 _ (d ++ [n]) G M' W' NL' HP HL).
  - intros e He. unfold invalidate_for_new in He. inv_simpl_in He. inv_in He. rewrite EA in He. auto.
  - intros ON e He. unfold invalidate_for_new in He.
    apply in_dc_invalidate in He; [|inv_simpl; destruct M as (_ & _ & _ & M4 & _); rewrite M4; exact ON].
    destruct He as [He X]. inv_simpl_in He. rewrite ED in He. rewrite parent_snoc. split; [exact He|]. split; [exact X|].
    intros F. congruence.
Qed.

Lemma be_mkdir_err s p m t f' e : Good s -> nodd p -> be_mkdir (fs s) p m t = (f', Err e) -> f' = fs s.
Proof.
  intros G ND B. destruct (be_mkdir_spec (fs s) (g_wf s G) (g_nl s G) p m t ND) as [e0 S]. rewrite S in B.
  destruct (creatable (fs s) p); [discriminate|]. congruence.
Qed.

Lemma handle_mkdir_rel s t c h n sa : SIM s t -> HREL (handle_mkdir s c h n sa) (handle_mkdir t c h n sa).
Proof.
  intros HS. unfold handle_mkdir. cbv zeta. rewrite <- (sim_ro s t (proj1 HS)). destruct (ro (conf s)); [leaf|].
  destruct (negb (validate_name n =? st_ok)) eqn:V; [leaf|]. apply vname_of_negb in V.
  destruct (negb (validate_mode _ =? st_ok)); [leaf|].
  lnode; [|leaf]. kindeq. destruct (negb (kind_eqb (na_kind n0) KDir)); [leaf|].
  lock; [|leaf].
  match goal with HS' : SIM ?s1 ?t1 |- _ =>
    unfold lift_unit; cbn [fst snd fs logc with_fs]; rewrite <- (sim_fs s1 t1 (proj1 HS')), <- (sim_now s1 t1 (proj1 HS'));
    pose proof (sim_fs s1 t1 (proj1 HS')) as EF; pose proof (sim_now s1 t1 (proj1 HS')) as EN;
    destruct (be_mkdir (fs s1) (p ++ [n]) _ (now s1)) as [f1 [[]|e]] eqn:B; cbn [fst snd fs logc with_fs];
    destruct HS' as (S1 & G1 & G2)
  end.
  - assert (ND : nodd (p ++ [n])) by nd.
    match goal with |- context [be_chown f1 (p ++ [n]) ?u ?g] =>
      destruct (mkdir_chain _ _ _ _ u g _ (g_wf _ G1) (g_nl _ G1) ND B) as [f2 (C & LC & K & _)]; rewrite C; cbn [fst] end.
    match goal with |- HREL (let '(_, _) := srv_lookup ?s2 _ in _) (let '(_, _) := srv_lookup ?t2 _ in _) => assert (HS2 : SIM s2 t2) end.
    { split; [eapply sim_modfs; [exact S1|solve_modfs|solve_modfs]|]. split.
      - eapply Good_new; [exact G1|exact LC|exact K|solve_modfs|reflexivity|reflexivity].
      - eapply Good_new; [exact G2|rewrite <- EF; exact LC|rewrite <- EF; exact K|solve_modfs|reflexivity|reflexivity]. }
    lock; [|leaf]. apply created_reply_rel; [assumption|nd|nd|assumption|assumption].
  - match type of B with be_mkdir (fs ?s1) _ _ _ = _ =>
      assert (f1 = fs s1) as -> by (eapply be_mkdir_err; [exact G1| |exact B]; nd);
      apply failed_reply_rel; [apply SIM_same_fs; split; [exact S1|split; assumption]|nd|assumption] end.
Qed.

Lemma be_create_err s p t f' e : Good s -> nodd p -> be_create (fs s) p t = (f', Err e) -> f' = fs s.
Proof.
  intros G ND B. destruct (be_create_spec (fs s) (g_wf s G) (g_nl s G) p t ND) as [e0 S]. rewrite S in B.
  destruct (fs_get (fs s) p) as [o|].
  - destruct (o_kind o); try discriminate; congruence.
  - destruct (kd (fs s) (parent p)); [discriminate|]. congruence.
Qed.

Lemma srv_create_rel s t d n perm uid gid : SIM s t -> gpath d -> vname n ->
  SIM (fst (srv_create s d n perm uid gid)) (fst (srv_create t d n perm uid gid)) /\
  rres (snd (srv_create s d n perm uid gid)) (snd (srv_create t d n perm uid gid)).
Proof.
  intros HS GD V. unfold srv_create. cbv zeta. rewrite <- (sim_ro s t (proj1 HS)).
  destruct (ro (conf s)); [cbn; tauto|]. destruct (negb (sanitize_ok d n)); [cbn; tauto|].
  assert (ND : nodd (d ++ [n])) by nd.
  rewrite <- (sim_fs s t (proj1 HS)), <- (sim_now s t (proj1 HS)).
  pose proof (sim_fs s t (proj1 HS)) as EF. destruct HS as (S1 & G1 & G2).
  destruct (be_create (fs s) (d ++ [n]) (now s)) as [f1 [q|e]] eqn:B; cbn [fst snd].
  - destruct (create_chain _ _ _ (N.land perm 511) uid gid _ _ (g_wf _ G1) (g_nl _ G1) ND B) as (f2 & f3 & C2 & C3 & LC & K & _).
    unfold lift_unit. cbn [fst snd fs logc with_fs]. rewrite C2. cbn [fst snd fs logc with_fs]. rewrite C3. cbn [fst snd fs logc with_fs].
    apply srv_lookup_rel; [|exact ND].
    split; [eapply sim_modfs; [exact S1|solve_modfs|solve_modfs]|]. split.
    + eapply Good_new; [exact G1|exact LC|exact K|solve_modfs|reflexivity|reflexivity].
    + eapply Good_new; [exact G2|rewrite <- EF; exact LC|rewrite <- EF; exact K|solve_modfs|reflexivity|reflexivity].
  - assert (f1 = fs s) as -> by (eapply be_create_err; [exact G1|exact ND|exact B]).
    split; [|reflexivity]. apply SIM_same_fs. split; [exact S1|split; assumption].
Qed.

(* ---------- attribute / data changes of one object (keys and kinds unchanged) ---------- *)
Lemma noent_upd f q g p : WF f -> keeps_kind g -> noent f p -> noent (fs_upd f q g) p.
Proof.
  intros W K N. unfold noent. replace (rwalk (fs_upd f q g) [] p) with (rwalk f [] p); [exact N|]. symmetry.
  apply rwalk_ext; cbn [app].
  - intros x _ _. split; [apply kd_upd; exact K|apply fs_get_upd_none].
  - pose proof (noent_absent f p W N) as A. rewrite A. apply fs_get_upd_none. exact A.
Qed.
Lemma Good_attr s p g s' : Good s -> keeps_kind g -> modfs s (fs_upd (fs s) p g) s' ->
  (forall e, In e (ac s') -> In e (ac s) /\ (ac_attrs e <> None -> ac_path e <> p)) ->
  (dir_on (conf s) = true -> forall e, In e (dc s') -> In e (dc s)) ->
  Good s'.
Proof.
  intros [W NL H [CA CD]] K (A1 & A2 & A3 & A4 & A5) HA HD. split.
  - rewrite A1. apply WF_upd; assumption.
  - rewrite A1. apply nolinks_upd; assumption.
  - unfold HOK. rewrite A2. exact H.
  - split.
    + apply Forall_forall. intros e He. destruct (HA e He) as [I F]. rewrite A1.
      pose proof (proj1 (Forall_forall _ _) CA e I) as OK. unfold ac_ok in *. destruct (ac_attrs e) as [a|].
      * unfold attr_ok in *. unfold pk. rewrite fs_get_upd.
        assert (N : ac_path e <> p) by (apply F; discriminate). apply peqb_neq in N. rewrite N. exact OK.
      * apply noent_upd; assumption.
    + rewrite A4. intros ON. apply Forall_forall. intros e He. specialize (HD ON e He). rewrite A1.
      destruct (proj1 (Forall_forall _ _) (CD ON) e HD) as [D1 D2]. split.
      * rewrite kd_upd by exact K. exact D1.
      * rewrite listing_upd. exact D2.
Qed.
Lemma be_truncate_cases f p sz t : WF f -> nolinks f -> nodd p ->
  (fst (be_truncate f p sz t) = f \/
   fst (be_truncate f p sz t) = fs_upd f p (fun o => set_data o (Z.to_N sz) (sd_trunc (o_data o) (Z.to_N sz)) t)) /\
  (forall e, snd (be_truncate f p sz t) = Err e -> fst (be_truncate f p sz t) = f).
Proof.
  intros W NL ND. destruct (be_truncate_spec f W NL p sz t ND) as [e0 S]. rewrite S.
  destruct (fs_get f p) as [o|]; [|cbn; auto].
  destruct (o_kind o); cbn [fst snd]; try (split; [left; reflexivity|reflexivity]);
    (destruct (sz <? 0)%Z; cbn [fst snd]; [split; [left; reflexivity|reflexivity]|split; [right; reflexivity|discriminate]]).
Qed.
Lemma truncate_block_good s p sz t c : Good s -> nodd p ->
  Good (ac_invalidate (logc (with_fs s (fst (be_truncate (fs s) p sz t))) c) p).
Proof.
  intros G ND. destruct (be_truncate_cases (fs s) p sz t (g_wf s G) (g_nl s G) ND) as [[E|E] _]; rewrite E.
  - eapply Good_core; [|exact G|]; [repeat split|].
    destruct (g_coh s G) as [CA CD]. split; [|exact CD]. cbn [ac ac_invalidate with_ac fs logc with_fs].
    eapply Forall_sub; [|exact CA]. intros x. apply In_filter_sub.
  - eapply (Good_attr s p (fun o => set_data o (Z.to_N sz) (sd_trunc (o_data o) (Z.to_N sz)) t) _ G);
      [intros o; reflexivity|solve_modfs| |].
    + intros e He. inv_simpl_in He. inv_in He. auto.
    + intros ON e He. exact He.
Qed.

Lemma handle_create_rel s t c h n how sa : SIM s t -> HREL (handle_create s c h n how sa) (handle_create t c h n how sa).
Proof.
  intros HS. unfold handle_create. cbv zeta. rewrite <- (sim_ro s t (proj1 HS)). destruct (ro (conf s)); [leaf|].
  destruct (negb (validate_name n =? st_ok)) eqn:V; [leaf|]. apply vname_of_negb in V.
  destruct (negb (validate_mode _ =? st_ok)); [leaf|].
  lnode; [|leaf]. kindeq. destruct (negb (kind_eqb (na_kind n0) KDir)); [leaf|].
  lock; [|leaf].
  match goal with HS' : SIM ?s1 ?t1 |- _ =>
    unfold do_lstat; cbn [fst snd]; rewrite <- (sim_fs s1 t1 (proj1 HS'));
    pose proof (SIM_logc s1 t1 (bc BLstat (p ++ [n])) (bc BLstat (p ++ [n])) HS') as HSL;
    destruct (be_stat (fs s1) (p ++ [n]) false) as [fi|e0]; clear HS'
  end.
  - destruct (how =? 2).
    + lock; [lock; lock_alloc; leaf|]. apply failed_reply_rel; [assumption|nd|assumption].
    + destruct ((how =? 1) || negb (kind_eqb (fi_kind fi) KFile)); [apply failed_reply_rel; [assumption|nd|assumption]|].
      set (S0 := logc s0 (bc BLstat (p ++ [n]))) in *. set (T0 := logc s1 (bc BLstat (p ++ [n]))) in *. clearbody S0 T0.
      rewrite <- (sim_maxfile S0 T0 (proj1 HSL)), <- (sim_fs S0 T0 (proj1 HSL)), <- (sim_now S0 T0 (proj1 HSL)).
      pose proof (sim_fs S0 T0 (proj1 HSL)) as EF. pose proof (sim_now S0 T0 (proj1 HSL)) as EN.
      assert (ND : nodd (p ++ [n])) by nd.
      destruct (if (how =? 0) || (how =? 1) then s_size sa else None) as [sz|]; cbn [fst snd].
      2:{ lock; [apply created_reply_rel|apply failed_reply_rel]; try assumption; nd. }
      destruct (two63N <=? sz); cbn [fst snd].
      { lock; [apply created_reply_rel|apply failed_reply_rel]; try assumption; nd. }
      destruct ((0 <? maxfile (conf S0)) && (maxfile (conf S0) <? sz)); cbn [fst snd].
      { apply failed_reply_rel; try assumption; nd. }
      unfold lift_unit. cbn [fst snd].
      assert (HS2 : SIM (ac_invalidate (logc (with_fs S0 (fst (be_truncate (fs S0) (p ++ [n]) (Z.of_N sz) (now S0)))) (bc2 BTruncate (p ++ [n]) [] sz 0)) (p ++ [n]))
                        (ac_invalidate (logc (with_fs T0 (fst (be_truncate (fs S0) (p ++ [n]) (Z.of_N sz) (now S0)))) (bc2 BTruncate (p ++ [n]) [] sz 0)) (p ++ [n]))).
      { destruct HSL as (S1 & G1 & G2). split; [eapply sim_modfs; [exact S1|solve_modfs|solve_modfs]|]. split.
        - apply truncate_block_good; assumption.
        - rewrite EF, EN. apply truncate_block_good; assumption. }
      clear HSL. destruct (snd (be_truncate (fs S0) (p ++ [n]) (Z.of_N sz) (now S0))).
      * lock; [apply created_reply_rel|apply failed_reply_rel]; try assumption; nd.
      * apply failed_reply_rel; try assumption; nd.
  - (* absent: AbsfsNFS.Create *)
    match goal with |- context [srv_create ?S0 p n ?m ?u ?g] =>
      match goal with |- context [srv_create ?T0 p n m u g] => 
        lazymatch S0 with T0 => fail | _ => idtac end;
        pose proof (srv_create_rel S0 T0 p n m u g HSL H V) as RC;
        destruct (srv_create S0 p n m u g) as [? [?|?]]; destruct (srv_create T0 p n m u g) as [? [?|?]];
        cbn [fst snd rres] in RC; destruct RC as [? RC]; try contradiction; clear HSL end end.
    + apply created_reply_rel; try assumption; nd.
    + subst. apply failed_reply_rel; try assumption; nd.
Qed.

(* ---------- RENAME ---------- *)
Lemma be_rename_err s oc nc t f' e : Good s -> nodd oc -> nodd nc -> be_rename (fs s) oc nc t = (f', Err e) -> f' = fs s.
Proof.
  intros G N1 N2 B. destruct (be_rename_spec (fs s) oc nc t (g_wf s G) (g_nl s G) N1 N2) as [e0 S]. rewrite S in B.
  destruct (rename_ok (fs s) oc nc); [discriminate|]. congruence.
Qed.
Lemma prefix_of_prefix a q p : is_prefix q p = true -> is_prefix a p = false -> is_prefix a q = false.
Proof.
  intros Q A. destruct (is_prefix a q) eqn:E; [|reflexivity]. rewrite (is_prefix_trans a q p E Q) in A. discriminate.
Qed.
Lemma Good_subcache s s' : Good s -> modfs s (fs s) s' -> (forall e, In e (ac s') -> In e (ac s)) ->
  (dir_on (conf s) = true -> forall e, In e (dc s') -> In e (dc s)) -> Good s'.
Proof.
  intros G M HA HD. eapply (Good_frame s (fs s) s' G M (g_wf s G) (g_nl s G)).
  - intros e He. split; [apply HA; exact He|reflexivity].
  - intros ON e He. split; [apply HD; assumption|]. intros _. split; reflexivity.
Qed.
Lemma Good_rename s s' oc nc f' : Good s -> nodd oc -> nodd nc -> be_rename (fs s) oc nc (now s) = (f', Ok tt) -> modfs s f' s' ->
  (forall e, In e (ac s') -> In e (ac s) /\ is_prefix oc (ac_path e) = false /\ is_prefix nc (ac_path e) = false) ->
  (dir_on (conf s) = true -> forall e, In e (dc s') -> In e (dc s) /\ is_prefix oc (dc_path e) = false /\ is_prefix nc (dc_path e) = false /\
                                                 dc_path e <> parent oc /\ dc_path e <> parent nc) ->
  Good s'.
Proof.
  intros G N1 N2 B M HA HD.
  destruct (be_rename_spec (fs s) oc nc (now s) (g_wf s G) (g_nl s G) N1 N2) as [e0 S]. rewrite S in B.
  destruct (rename_ok (fs s) oc nc) eqn:OK; [|discriminate].
  peq oc nc.
  - injection B as <-. eapply Good_subcache; [exact G|exact M| |].
    + intros e He. apply HA. exact He.
    + intros ON e He. apply (HD ON). exact He.
  - injection B as <-. destruct (rename_ok_facts (fs s) (g_wf s G) oc nc OK E) as (NEo & NEn & _).
    eapply (Good_frame s _ s' G M).
    + apply WF_renamed; [exact (g_wf s G)|exact OK|exact E].
    + apply nolinks_renamed; [exact (g_wf s G)|exact (g_nl s G)].
    + intros e He. destruct (HA e He) as (I & P1 & P2). split; [exact I|]. intros q Q.
      apply pk_renamed; eapply prefix_of_prefix; eassumption.
    + intros ON e He. destruct (HD ON e He) as (I & P1 & P2 & D1 & D2). split; [exact I|]. intros _. split.
      * apply pk_renamed; assumption.
      * apply listing_renamed; assumption.
Qed.
Lemma rename_block_good s d1 n1 d2 n2 f' c : Good s -> nodd (d1 ++ [n1]) -> nodd (d2 ++ [n2]) ->
  be_rename (fs s) (d1 ++ [n1]) (d2 ++ [n2]) (now s) = (f', Ok tt) ->
  Good (dc_invalidate (dc_invalidate (ac_invalidate_neg_in_dir (ac_invalidate_neg_in_dir
         (ac_invalidate (ac_invalidate (ac_invalidate (ac_invalidate
           (dc_invalidate_tree (dc_invalidate_tree (ac_invalidate_tree (ac_invalidate_tree (logc (with_fs s f') c) (d1 ++ [n1])) (d2 ++ [n2])) (d1 ++ [n1])) (d2 ++ [n2]))
           (d1 ++ [n1])) (d2 ++ [n2])) d1) d2) d1) d2) d1) d2).
Proof.
  intros G N1 N2 B. eapply (Good_rename s _ _ _ f' G N1 N2 B); [solve_modfs| |].
  - intros e He. inv_simpl_in He. inv_in He. auto.
  - intros ON e He. inv_in He. inv_simpl_in He. inv_in He. inv_simpl_in He. rewrite !parent_snoc. auto 10.
Qed.

Lemma handle_rename_rel s t h1 n1 h2 n2 : SIM s t -> HREL (handle_rename s h1 n1 h2 n2) (handle_rename t h1 n1 h2 n2).
Proof.
  intros HS. unfold handle_rename. cbv zeta. rewrite <- (sim_ro s t (proj1 HS)). destruct (ro (conf s)); [leaf|].
  destruct (negb (validate_name n1 =? st_ok)) eqn:V1; [leaf|]. apply vname_of_negb in V1.
  destruct (negb (validate_name n2 =? st_ok)) eqn:V2; [leaf|]. apply vname_of_negb in V2.
  pose proof (lookup_node_rel s t h1 (proj1 HS)) as L1. pose proof (lookup_node_rel s t h2 (proj1 HS)) as L2.
  destruct (lookup_node s h1) as [[d1 da1]|] eqn:Ls1; destruct (lookup_node t h1) as [[d1' da1']|] eqn:Lt1; try contradiction;
    [destruct L1 as [<- L1]|leaf].
  destruct (lookup_node s h2) as [[d2 da2]|] eqn:Ls2; destruct (lookup_node t h2) as [[d2' da2']|] eqn:Lt2; try contradiction;
    [destruct L2 as [<- L2]|leaf].
  pose proof (SIM_gpath _ _ _ _ _ HS Ls1) as GP1. pose proof (SIM_gpath _ _ _ _ _ HS Ls2) as GP2.
  rewrite <- (pn_kind _ _ L1), <- (pn_kind _ _ L2).
  destruct (negb (kind_eqb (na_kind da1) KDir) || negb (kind_eqb (na_kind da2) KDir)); [leaf|].
  lock; [|leaf]. lock; [|leaf].
  destruct (negb (sanitize_ok d1 n1) || negb (sanitize_ok d2 n2)); [lock; lock; leaf|].
  assert (ND1 : nodd (d1 ++ [n1])) by nd. assert (ND2 : nodd (d2 ++ [n2])) by nd.
  match goal with HS' : SIM ?s1 ?t1 |- _ =>
    unfold lift_unit; cbn [fst snd]; rewrite <- (sim_fs s1 t1 (proj1 HS')), <- (sim_now s1 t1 (proj1 HS'));
    pose proof (sim_fs s1 t1 (proj1 HS')) as EF; pose proof (sim_now s1 t1 (proj1 HS')) as EN;
    destruct (be_rename (fs s1) (d1 ++ [n1]) (d2 ++ [n2]) (now s1)) as [f' [[]|e]] eqn:B; cbn [fst snd];
    destruct HS' as (S1 & G1 & G2)
  end.
  - match goal with |- HREL (let '(_, _) := getattr_h ?s2 _ _ in _) (let '(_, _) := getattr_h ?t2 _ _ in _) => assert (HS2 : SIM s2 t2) end.
    { split; [eapply sim_modfs; [exact S1|solve_modfs|solve_modfs]|]. split.
      - apply rename_block_good; [exact G1|exact ND1|exact ND2|exact B].
      - apply rename_block_good; [exact G2|exact ND1|exact ND2|rewrite <- EF, <- EN; exact B]. }
    lock; [|leaf]. lock; leaf.
  - match type of B with be_rename (fs ?s1) _ _ _ = _ =>
      assert (f' = fs s1) as -> by (eapply be_rename_err; [exact G1|exact ND1|exact ND2|exact B]) end.
    match goal with |- HREL (let '(_, _) := getattr_h (logc (with_fs ?a _) ?c) _ _ in _) (let '(_, _) := getattr_h (logc (with_fs ?b _) _) _ _ in _) =>
      assert (HS2 : SIM (logc (with_fs a (fs a)) c) (logc (with_fs b (fs a)) c))
        by (apply SIM_same_fs; split; [exact S1|split; assumption]) end.
    lock; lock; leaf.
Qed.

(* ====================================================================================================== *)
(* 6. directory listings                                                                                  *)
(* ====================================================================================================== *)
Definition pe (e : path * nattrs) : path * (kind * N * N * N) := (fst e, pn (snd e)).
(* the listing AbsfsNFS.ReadDir builds from the names, as a function of the tree alone *)
Fixpoint ref_lookall (f : fsmap) (d : path) (names : list name) : list (path * (kind * N * N * N)) :=
  match names with
  | [] => []
  | n :: r =>
    if is_dot n || is_dotdot n || negb (sanitize_ok d n) then ref_lookall f d r
    else match pk f (d ++ [n]) with
         | Some (k, pm, sz) => (d ++ [n], (k, pm, sz, fileid_of (d ++ [n]))) :: ref_lookall f d r
         | None => ref_lookall f d r
         end
  end.
Definition ents_ok (f : fsmap) (l : list (path * nattrs)) : Prop :=
  Forall (fun e => gpath (fst e) /\ attr_ok f (fst e) (snd e)) l.

Lemma lookup_all_spec d names : gpath d -> forall s, Good s ->
  core s (fst (lookup_all s d names)) /\ Good (fst (lookup_all s d names)) /\
  map pe (snd (lookup_all s d names)) = ref_lookall (fs s) d names /\ ents_ok (fs s) (snd (lookup_all s d names)).
Proof.
  intros GD. induction names as [|n r IH]; intros s G; cbn [lookup_all ref_lookall].
  - split; [apply core_refl|]. split; [exact G|]. split; [reflexivity|constructor].
  - destruct (is_dot n || is_dotdot n || negb (sanitize_ok d n)) eqn:E; [apply IH; exact G|].
    apply orb_false_elim in E. destruct E as [_ E]. apply negb_false_iff, sanitize_ok_sane in E.
    assert (GP : gpath (d ++ [n])) by (apply gpath_app; [exact GD|apply name_sane_gcomp; exact E]).
    pose proof (gpath_nodd _ GP) as ND.
    destruct (srv_lookup_spec s (d ++ [n]) G ND) as (A1 & A2 & A3).
    destruct (srv_lookup s (d ++ [n])) as [s1 lr]. cbn [fst snd] in *.
    destruct (IH s1 A2) as (B1 & B2 & B3 & B4). destruct (lookup_all s1 d r) as [s2 rest]. cbn [fst snd] in *.
    pose proof A1 as (F1 & _). rewrite F1 in B3, B4.
    destruct lr as [a|e]; cbn [fst snd]; (split; [eapply core_trans; eassumption|]); (split; [exact B2|]).
    + cbn [lookup_res] in A3. destruct A3 as [A3 A4]. rewrite A3. cbn [map]. split.
      * unfold pe at 1. cbn [fst snd]. unfold pn. rewrite A4, B3. reflexivity.
      * constructor; [cbn [fst snd]; split; [exact GP|split; assumption]|exact B4].
    + cbn [lookup_res] in A3. destruct (be_stat_err_inv (fs s) (g_wf s G) (g_nl s G) _ _ _ ND A3) as [N _].
      unfold pk. rewrite N. cbn [option_map]. split; assumption.
Qed.

Definition rd_names (f : fsmap) (d : path) : res (list name) :=
  match be_open f d false with
  | Err e => Err e
  | Ok q => match be_readdir f q with Err e => Err e | Ok ents => Ok (map fst ents) end
  end.
Definition readdir_res (f : fsmap) (d : path) (r : res (list (path * nattrs))) : Prop :=
  match rd_names f d with
  | Err e => r = Err e
  | Ok names => exists l, r = Ok l /\ map pe l = ref_lookall f d names /\ ents_ok f l
  end.
Lemma rd_names_dir f d : WF f -> nolinks f -> nodd d -> kd f d = true -> rd_names f d = Ok (listing f d).
Proof.
  intros W NL ND K. unfold rd_names. destruct (be_open_spec f W NL d false ND) as [e S]. rewrite S.
  pose proof K as K'. apply kd_true in K'. destruct K' as [o [G _]]. rewrite G, andb_false_r.
  destruct (be_readdir_dir f d K) as [ents [R1 R2]]. rewrite R1, R2. reflexivity.
Qed.

Lemma srv_readdir_spec s d : Good s -> gpath d ->
  core s (fst (srv_readdir s d)) /\ Good (fst (srv_readdir s d)) /\ readdir_res (fs s) d (snd (srv_readdir s d)).
Proof.
  intros G GD. pose proof (gpath_nodd d GD) as ND. unfold srv_readdir, readdir_res.
  assert (HIT : let hit := if dir_on (conf s) then dc_get s d else (s, None) in
                core s (fst hit) /\ Good (fst hit) /\
                match snd hit with Some names => kd (fs s) d = true /\ names = listing (fs s) d | None => True end).
  { destruct (dir_on (conf s)) eqn:ON; cbn zeta.
    - destruct (dc_get_spec s d (g_coh s G) ON) as (A & B & C). split; [exact A|]. split; [eapply Good_core; eassumption|exact C].
    - cbn. split; [apply core_refl|]. split; [exact G|exact I]. }
  cbv zeta in HIT. destruct (if dir_on (conf s) then dc_get s d else (s, None)) as [s0 hit]. cbn [fst snd] in *.
  destruct HIT as (C0 & G0 & HH). pose proof C0 as (F0 & _ & _ & CF0 & _).
  destruct hit as [names|].
  - destruct HH as [K ->]. rewrite (rd_names_dir (fs s) d (g_wf s G) (g_nl s G) ND K).
    destruct (lookup_all_spec d (listing (fs s) d) GD s0 G0) as (A1 & A2 & A3 & A4).
    destruct (lookup_all s0 d (listing (fs s) d)) as [s1 l]. cbn [fst snd] in *.
    split; [eapply core_trans; eassumption|]. split; [exact A2|]. exists l. rewrite F0 in A3, A4. auto.
  - cbn [fs logc]. unfold rd_names. rewrite F0.
    assert (C1 : core s (logc s0 (bc BOpenR d))) by (eapply core_trans; [exact C0|repeat split]).
    assert (G1 : Good (logc s0 (bc BOpenR d))) by (apply Good_logc; exact G0).
    destruct (be_open (fs s) d false) as [q|e] eqn:BO; cbn [fst snd]; [|auto].
    assert (C2 : core s (logc (logc s0 (bc BOpenR d)) (bc BReaddir d))) by (eapply core_trans; [exact C1|repeat split]).
    assert (G2 : Good (logc (logc s0 (bc BOpenR d)) (bc BReaddir d))) by (apply Good_logc; exact G1).
    destruct (be_readdir (fs s) q) as [ents|e] eqn:BR; cbn [fst snd]; [|auto].
    assert (Q : q = d).
    { destruct (be_open_spec (fs s) (g_wf s G) (g_nl s G) d false ND) as [e S]. rewrite S in BO.
      destruct (fs_get (fs s) d); [|discriminate]. rewrite andb_false_r in BO. congruence. }
    subst q. destruct (be_readdir_listing _ _ _ BR) as [L K].
    set (S2 := logc (logc s0 (bc BOpenR d)) (bc BReaddir d)) in *.
    assert (X : core s (if dir_on (conf S2) then dc_put S2 d (map fst ents) else S2) /\
                Good (if dir_on (conf S2) then dc_put S2 d (map fst ents) else S2)).
    { destruct (dir_on (conf S2)); [|auto]. split; [eapply core_trans; [exact C2|apply dc_put_core]|].
      eapply Good_core; [apply dc_put_core|exact G2|]. apply dc_put_coh; [| |exact (g_coh _ G2)].
      - unfold S2. sproj. rewrite F0. exact K.
      - unfold S2. sproj. rewrite F0. exact L. }
    destruct X as [C3 G3].
    destruct (lookup_all_spec d (map fst ents) GD _ G3) as (A1 & A2 & A3 & A4).
    destruct (lookup_all _ d (map fst ents)) as [s4 l]. cbn [fst snd] in *.
    split; [eapply core_trans; eassumption|]. split; [exact A2|]. exists l.
    pose proof C3 as (F3 & _). rewrite F3 in A3, A4. auto.
Qed.

Lemma refresh_all_spec l : forall s, Good s -> ents_ok (fs s) l ->
  core s (fst (refresh_all s l)) /\ Good (fst (refresh_all s l)) /\
  map pe (snd (refresh_all s l)) = map pe l /\ ents_ok (fs s) (snd (refresh_all s l)).
Proof.
  induction l as [|[p a] r IH]; intros s G EO; cbn [refresh_all].
  - split; [apply core_refl|]. split; [exact G|]. split; [reflexivity|constructor].
  - inversion EO as [|? ? [GP OK] EO']; subst. cbn [fst snd] in GP, OK. pose proof (gpath_nodd p GP) as ND.
    destruct (ac_get_spec s p (g_coh s G)) as (A1 & A2 & _). destruct (ac_get s p) as [s0 x]. cbn [fst snd] in *.
    assert (G0 : Good s0) by (eapply Good_core; eassumption). pose proof A1 as (F0 & _).
    unfold do_lstat. cbn [fst snd]. rewrite F0.
    destruct OK as [OK1 OK2]. unfold pk in OK1. destruct (fs_get (fs s) p) as [o|] eqn:Go; [|discriminate].
    rewrite (be_stat_present (fs s) (g_wf s G) (g_nl s G) p o false ND Go).
    set (a' := attrs_of_info (info_of o) (na_fileid a) (na_uid a) (na_gid a)).
    assert (PA : pn a' = pn a).
    { unfold a', pn. cbn. cbn in OK1. injection OK1 as <- <- <-. reflexivity. }
    assert (OK' : attr_ok (fs s) p a').
    { unfold attr_ok, pk. rewrite Go. split; [reflexivity|exact OK2]. }
    set (S1 := ac_put (logc s0 (bc BLstat p)) p a').
    assert (C1 : core s S1) by (eapply core_trans; [exact A1|repeat split]).
    assert (G1 : Good S1).
    { eapply Good_core; [exact C1|exact G|]. apply ac_put_coh; [sproj; rewrite F0; exact OK'|exact (g_coh _ (Good_logc s0 _ G0))]. }
    pose proof C1 as (F1 & _).
    destruct (IH S1 G1) as (B1 & B2 & B3 & B4); [rewrite F1; exact EO'|].
    destruct (refresh_all S1 r) as [s2 rest]. cbn [fst snd] in *.
    split; [eapply core_trans; eassumption|]. split; [exact B2|]. split.
    + cbn [map]. unfold pe at 1 3. cbn [fst snd]. rewrite PA, B3. reflexivity.
    + rewrite F1 in B4. constructor; [cbn [fst snd]; auto|exact B4].
Qed.

Lemma pair_inv {A B} (a c : A) (b d : B) : (a, b) = (c, d) -> a = c /\ b = d.
Proof. intros H. injection H. auto. Qed.
Definition pie (ie : N * (path * nattrs)) := (fst ie, pe (snd ie)).
Lemma page_pe plus limit cookie : forall l l' i sent len, map pe l = map pe l' ->
  map pie (fst (page plus limit i cookie sent len l)) = map pie (fst (page plus limit i cookie sent len l')) /\
  snd (page plus limit i cookie sent len l) = snd (page plus limit i cookie sent len l').
Proof.
  induction l as [|e r IH]; intros [|e' r'] i sent len H; cbn [map] in H; try discriminate; cbn [page]; [auto|].
  apply (cons_pair_inv (fst e) (fst e') (pn (snd e)) (pn (snd e'))) in H. destruct H as (E1 & E2 & E3).
  destruct (i <? cookie); [apply IH; exact E3|]. rewrite <- E1.
  match goal with |- context [if ?c then _ else _] => destruct c end; [auto|].
  match goal with |- context [page plus limit ?i' cookie ?s' ?l' r] => specialize (IH r' i' s' l' E3) end.
  destruct (page plus limit _ cookie _ _ r) as [rest lim]. destruct (page plus limit _ cookie _ _ r') as [rest' lim'].
  cbn [fst snd] in *. destruct IH as [I1 I2]. split; [|exact I2]. cbn [map]. rewrite I1.
  unfold pie at 1 3. unfold pe. cbn [fst snd]. rewrite E1, E2. reflexivity.
Qed.

Lemma alloc_all_rel : forall pg pg' s t, SIM s t -> map pie pg = map pie pg' -> (forall ie, In ie pg -> gpath (fst (snd ie))) ->
  SIM (fst (alloc_all s pg)) (fst (alloc_all t pg')) /\ map pde (snd (alloc_all s pg)) = map pde (snd (alloc_all t pg')).
Proof.
  induction pg as [|[ck [p a]] r IH]; intros [|[ck' [p' a']] r'] s t HS H GP; cbn [map] in H; try discriminate; cbn [alloc_all]; [auto|].
  apply (cons_pair_inv ck ck' (pe (p, a)) (pe (p', a'))) in H. destruct H as (-> & E2 & E3).
  unfold pe in E2. cbn [fst snd] in E2. apply (pair_inv p p' (pn a) (pn a')) in E2. destruct E2 as [<- E2].
  assert (G : gpath p) by (apply (GP (ck', (p, a))); left; reflexivity).
  destruct (alloc_rel s t p a a' HS G E2) as [R1 R2].
  destruct (alloc s p a) as [s1 fh]. destruct (alloc t p a') as [t1 fh']. cbn [fst snd] in *. subst fh'.
  destruct (IH r' s1 t1 R1 E3 (fun ie Hi => GP ie (or_intror Hi))) as [I1 I2].
  destruct (alloc_all s1 r) as [s2 rest]. destruct (alloc_all t1 r') as [t2 rest']. cbn [fst snd] in *.
  split; [exact I1|]. cbn [map]. rewrite I2. unfold pde at 1 3. cbn [de_fileid de_name de_cookie de_attr de_fh].
  unfold sf. cbn [option_map]. rewrite (pfa_pn _ _ E2), (pn_fileid _ _ E2). reflexivity.
Qed.

Definition rdres (f : fsmap) (r r' : res (list (path * nattrs))) : Prop :=
  match r, r' with
  | Ok l, Ok l' => map pe l = map pe l' /\ ents_ok f l /\ ents_ok f l'
  | Err e, Err e' => e = e'
  | _, _ => False
  end.
Lemma srv_readdir_rel s t d : SIM s t -> gpath d ->
  SIM (fst (srv_readdir s d)) (fst (srv_readdir t d)) /\ fs (fst (srv_readdir s d)) = fs s /\
  rdres (fs s) (snd (srv_readdir s d)) (snd (srv_readdir t d)).
Proof.
  intros (S & G1 & G2) GD.
  destruct (srv_readdir_spec s d G1 GD) as (A1 & A2 & A3). destruct (srv_readdir_spec t d G2 GD) as (B1 & B2 & B3).
  split; [split; [eapply sim_core; eassumption|split; assumption]|]. split; [apply A1|].
  rewrite <- (sim_fs s t S) in B3. unfold readdir_res in *. destruct (rd_names (fs s) d) as [names|e].
  - destruct A3 as (l & -> & L1 & L2). destruct B3 as (l' & -> & L1' & L2'). cbn. split; [congruence|auto].
  - rewrite A3, B3. reflexivity.
Qed.

Lemma handle_readdir_rel s t h ck cnt : SIM s t -> HREL (handle_readdir s h ck cnt) (handle_readdir t h ck cnt).
Proof.
  intros HS. unfold handle_readdir. lnode; [|leaf]. kindeq. destruct (negb (kind_eqb (na_kind n) KDir)); [leaf|].
  destruct (srv_readdir_rel s t p HS H) as (R1 & _ & R2).
  destruct (srv_readdir s p) as [s1 [l|e]]; destruct (srv_readdir t p) as [t1 [l'|e']]; cbn [fst snd rdres] in *; try contradiction.
  2:{ subst e'. split; [exact R1|reflexivity]. }
  destruct R2 as (E & _ & _). clear HS. lock; [|leaf].
  destruct (page_pe false cnt ck l l' 0 0 dir_header_len E) as [P1 P2].
  destruct (page false cnt 0 ck 0 dir_header_len l) as [pg lim]. destruct (page false cnt 0 ck 0 dir_header_len l') as [pg' lim'].
  cbn [fst snd] in P1, P2. subst lim'. split; [cbn [fst]; assumption|].
  cbn [snd]. unfold proj. cbn [ob_rpc ob_status ob_fh ob_attrs ob_bytes ob_entries ob_eof map option_map]. unfold sf. cbn [option_map].
  rewrite (pfa_pn _ _ R). f_equal. f_equal. rewrite !map_map.
  revert P1. clear. revert pg'. induction pg as [|x r IH]; intros [|x' r'] P; cbn [map] in *; try discriminate; [reflexivity|].
  apply (cons_pair_inv (fst x) (fst x') (pe (snd x)) (pe (snd x'))) in P. destruct P as (E1 & E2 & E3).
  rewrite (IH r' E3). unfold pde. cbn [de_fileid de_name de_cookie de_attr de_fh option_map].
  unfold pe in E2. apply (pair_inv (fst (snd x)) (fst (snd x')) (pn (snd (snd x))) (pn (snd (snd x')))) in E2. destruct E2 as [E2 E4].
  rewrite E1, E2, (pn_fileid _ _ E4). reflexivity.
Qed.


Lemma handle_readdirplus_rel s t h ck mc : SIM s t -> HREL (handle_readdirplus s h ck mc) (handle_readdirplus t h ck mc).
Proof.
  intros HS. unfold handle_readdirplus. lnode; [|leaf]. kindeq. destruct (negb (kind_eqb (na_kind n) KDir)); [leaf|].
  destruct (srv_readdir_rel s t p HS H) as (R1 & F1 & R2).
  destruct (srv_readdir s p) as [s1 [l|e]]; destruct (srv_readdir t p) as [t1 [l'|e']]; cbn [fst snd rdres] in *; try contradiction.
  2:{ subst e'. split; [exact R1|reflexivity]. }
  destruct R2 as (E & O1 & O2). pose proof (sim_fs s t (proj1 HS)) as EF0. clear HS. destruct R1 as (S1 & G1 & G2).
  pose proof (sim_fs s1 t1 S1) as EF1.
  destruct (refresh_all_spec l s1 G1) as (A1 & A2 & A3 & A4); [rewrite F1; exact O1|].
  destruct (refresh_all_spec l' t1 G2) as (B1 & B2 & B3 & B4); [rewrite <- EF1, F1; exact O2|].
  destruct (refresh_all s1 l) as [s2 ents]. destruct (refresh_all t1 l') as [t2 ents']. cbn [fst snd] in *.
  assert (HS2 : SIM s2 t2) by (split; [eapply sim_core; eassumption|split; assumption]).
  assert (E2 : map pe ents = map pe ents') by congruence.
  lock; [|leaf].
  destruct (page_pe true mc ck ents ents' 0 0 dir_header_len E2) as [P1 P2].
  destruct (page true mc 0 ck 0 dir_header_len ents) as [pg lim] eqn:PG. destruct (page true mc 0 ck 0 dir_header_len ents') as [pg' lim'].
  cbn [fst snd] in P1, P2. subst lim'.
  match goal with HS' : SIM ?a ?b |- _ => destruct (alloc_all_rel pg pg' a b HS' P1) as [Q1 Q2] end.
  { intros ie Hi. pose proof (page_sub true mc ck ents 0 0 dir_header_len ie) as PS. rewrite PG in PS. specialize (PS Hi).
    exact (proj1 (proj1 (Forall_forall _ _) A4 _ PS)). }
  destruct (alloc_all _ pg) as [s4 des_]. destruct (alloc_all _ pg') as [t4 des']. cbn [fst snd] in *.
  split; [exact Q1|]. cbn [snd]. unfold proj. cbn [ob_rpc ob_status ob_fh ob_attrs ob_bytes ob_entries ob_eof map option_map].
  unfold sf. cbn [option_map]. rewrite (pfa_pn _ _ R), Q2. reflexivity.
Qed.

(* ====================================================================================================== *)
(* 6b. the data / attribute procedures: WRITE (transparent) and SETATTR (preserves the invariant)         *)
(* ====================================================================================================== *)
(* f' is f with the object at p (if any) replaced by one of the same kind *)
Definition attr_change (f f' : fsmap) (p : path) : Prop :=
  WF f' /\ nolinks f' /\ (forall q, q <> p -> pk f' q = pk f q) /\ (forall q, kd f' q = kd f q) /\
  (forall q, fs_get f' q = None <-> fs_get f q = None) /\ (forall d, listing f' d = listing f d).
Lemma attr_change_refl f p : WF f -> nolinks f -> attr_change f f p.
Proof. intros W NL. split; [exact W|]. split; [exact NL|]. repeat split; intros; auto. Qed.
Lemma attr_change_trans f f1 f2 p : attr_change f f1 p -> attr_change f1 f2 p -> attr_change f f2 p.
Proof.
  intros (_ & _ & A3 & A4 & A5 & A6) (B1 & B2 & B3 & B4 & B5 & B6). split; [exact B1|]. split; [exact B2|].
  split; [intros q Q; rewrite B3, A3 by exact Q; reflexivity|]. split; [intros q; rewrite B4, A4; reflexivity|].
  split; [intros q; rewrite B5, A5; tauto|intros d; rewrite B6, A6; reflexivity].
Qed.
Lemma attr_change_upd f p g : WF f -> nolinks f -> (forall o, fs_get f p = Some o -> o_kind (g o) = o_kind o) ->
  attr_change f (fs_upd f p g) p.
Proof.
  intros W NL K.
  assert (KD : forall q, kd (fs_upd f p g) q = kd f q).
  { intros q. unfold kd. rewrite fs_get_upd. peq q p; [|reflexivity]. subst q.
    destruct (fs_get f p) as [o|] eqn:G; cbn; [rewrite (K o eq_refl)|]; reflexivity. }
  split; [|split; [|split; [|split; [exact KD|split]]]].
  - split; [rewrite keys_upd; apply (wf_nodup f W)|rewrite KD; apply (wf_root f W)|].
    intros q x H NE. rewrite KD. rewrite fs_get_upd in H.
    destruct (fs_get f q) as [o0|] eqn:G; [|destruct (path_eqb q p); discriminate]. eapply wf_parent; eassumption.
  - intros q x H. rewrite fs_get_upd in H. peq q p; [|eapply NL; exact H]. subst q.
    destruct (fs_get f p) as [o0|] eqn:G; [|discriminate]. injection H as <-. rewrite (K o0 eq_refl). eapply NL. exact G.
  - intros q Q. unfold pk. rewrite fs_get_upd. apply peqb_neq in Q. rewrite Q. reflexivity.
  - intros q. apply fs_get_upd_none.
  - intros d. apply listing_upd.
Qed.
Lemma noent_attr_change f f' p q : WF f -> attr_change f f' p -> noent f q -> noent f' q.
Proof.
  intros W (_ & _ & _ & A4 & A5 & _) N. unfold noent. replace (rwalk f' [] q) with (rwalk f [] q); [exact N|]. symmetry.
  apply rwalk_ext; cbn [app].
  - intros x _ _. split; [apply A4|apply A5].
  - pose proof (noent_absent f q W N) as A. rewrite A. apply A5. exact A.
Qed.
Lemma Good_attr'' s p f' s' : Good s -> attr_change (fs s) f' p -> fs s' = f' -> hm s' = hm s -> conf s' = conf s ->
  (forall e, In e (ac s') -> In e (ac s) /\ (ac_attrs e <> None -> ac_path e <> p)) ->
  (dir_on (conf s) = true -> forall e, In e (dc s') -> In e (dc s)) ->
  Good s'.
Proof.
  intros G AC A1 A2 A4 HA HD. pose proof AC as (W' & NL' & C3 & C4 & C5 & C6).
  destruct G as [W NL H [CA CD]]. split.
  - rewrite A1. exact W'.
  - rewrite A1. exact NL'.
  - unfold HOK. rewrite A2. exact H.
  - split.
    + apply Forall_forall. intros e He. destruct (HA e He) as [I F]. rewrite A1.
      pose proof (proj1 (Forall_forall _ _) CA e I) as OK. unfold ac_ok in *. destruct (ac_attrs e) as [a|].
      * unfold attr_ok in *. rewrite C3; [exact OK|apply F; discriminate].
      * exact (noent_attr_change (fs s) f' p _ W AC OK).
    + rewrite A4. intros ON. apply Forall_forall. intros e He. specialize (HD ON e He). rewrite A1.
      destruct (proj1 (Forall_forall _ _) (CD ON) e HD) as [D1 D2]. split; [rewrite C4; exact D1|rewrite C6; exact D2].
Qed.
Lemma Good_attr' s p f' s' : Good s -> attr_change (fs s) f' p -> modfs s f' s' ->
  (forall e, In e (ac s') -> In e (ac s) /\ (ac_attrs e <> None -> ac_path e <> p)) ->
  (dir_on (conf s) = true -> forall e, In e (dc s') -> In e (dc s)) ->
  Good s'.
Proof. intros G AC (A1 & A2 & A3 & A4 & A5). apply (Good_attr'' s p f' s' G AC A1 A2 A4). Qed.
(* the operations *)
Lemma attr_change_meta f p fl g : WF f -> nolinks f -> nodd p -> keeps_kind g -> attr_change f (fst (be_meta f p fl g)) p.
Proof.
  intros W NL ND K. destruct (be_meta_spec f W NL p fl g ND) as [e S]. rewrite S.
  destruct (fs_get f p); cbn [fst]; [apply attr_change_upd; auto|apply attr_change_refl; assumption].
Qed.
Lemma attr_change_truncate f p sz t : WF f -> nolinks f -> nodd p -> attr_change f (fst (be_truncate f p sz t)) p.
Proof.
  intros W NL ND. destruct (be_truncate_cases f p sz t W NL ND) as [[E|E] _]; rewrite E;
    [apply attr_change_refl; assumption|apply attr_change_upd; auto].
Qed.
Lemma attr_change_sync f p : WF f -> nolinks f -> attr_change f (be_sync f p) p.
Proof. intros W NL. unfold be_sync. apply attr_change_upd; auto. intros o _. destruct (o_kind o) eqn:K; cbn; auto. Qed.
Lemma attr_change_writeat f p off bs t : WF f -> nolinks f -> attr_change f (fst (be_writeat f p off bs t)) p.
Proof.
  intros W NL. unfold be_writeat. destruct (fs_get f p) as [o|] eqn:G; [|apply attr_change_refl; assumption].
  destruct (o_kind o) eqn:K; cbn [fst]; try (apply attr_change_refl; assumption).
  destruct ((off <? 0)%Z || (two63 <=? off + Z.of_nat (length bs))%Z); cbn [fst]; [apply attr_change_refl; assumption|].
  apply attr_change_upd; auto. intros o0 G0. rewrite G in G0. injection G0 as <-. cbn. reflexivity.
Qed.

Lemma be_open_ok_inv f p w q : WF f -> nolinks f -> nodd p -> be_open f p w = Ok q -> q = p /\ exists o, fs_get f p = Some o.
Proof.
  intros W NL ND B. destruct (be_open_spec f W NL p w ND) as [e S]. rewrite S in B.
  destruct (fs_get f p) as [o|]; [|discriminate]. destruct (kind_eqb (o_kind o) KDir && w); [discriminate|].
  injection B as <-. split; [reflexivity|exists o; reflexivity].
Qed.
Lemma be_writeat_err f p off bs t e : snd (be_writeat f p off bs t) = Err e -> fst (be_writeat f p off bs t) = f.
Proof.
  unfold be_writeat. destruct (fs_get f p) as [o|]; [|reflexivity]. destruct (o_kind o); try reflexivity.
  destruct ((off <? 0)%Z || (two63 <=? off + Z.of_nat (length bs))%Z); [reflexivity|discriminate].
Qed.
Lemma write_block_good s p off data t s' : Good s -> nodd p ->
  modfs s (fst (be_chtimes (be_sync (fst (be_writeat (fs s) p off data t)) p) p t)) s' ->
  ac s' = ac_remove (ac s) p -> dc s' = dc s -> Good s'.
Proof.
  intros G ND M EA ED. pose proof (g_wf s G) as W. pose proof (g_nl s G) as NL.
  assert (A1 : attr_change (fs s) (fst (be_writeat (fs s) p off data t)) p) by (apply attr_change_writeat; assumption).
  assert (A2 : attr_change (fs s) (be_sync (fst (be_writeat (fs s) p off data t)) p) p).
  { eapply attr_change_trans; [exact A1|]. apply attr_change_sync; apply A1. }
  assert (A3 : attr_change (fs s) (fst (be_chtimes (be_sync (fst (be_writeat (fs s) p off data t)) p) p t)) p).
  { eapply attr_change_trans; [exact A2|]. unfold be_chtimes. apply attr_change_meta; [apply A2|apply A2|exact ND|apply set_meta_kind]. }
  eapply (Good_attr' s p _ s' G A3 M).
  - intros e He. rewrite EA in He. apply in_ac_remove in He. destruct He as [I N]. split; [exact I|intros _; exact N].
  - intros _ e He. rewrite ED in He. exact He.
Qed.
Lemma Good_nodes s n : Good s -> Good (with_nodes s n).
Proof. intros [W NL H C]. split; sproj; assumption. Qed.
Lemma Good_node_upd s h g : Good s -> Good (node_upd s h g).
Proof. intros G. unfold node_upd. destruct (node_get s h); [apply Good_nodes; exact G|exact G]. Qed.
Lemma node_upd_sim s t h g : sim s t -> (forall a a', pn a = pn a' -> pn (g a) = pn (g a')) -> sim (node_upd s h g) (node_upd t h g).
Proof.
  intros S HG. unfold node_upd. pose proof (node_get_rel s t h S) as R.
  destruct (node_get s h) as [a|], (node_get t h) as [a'|]; try contradiction; [|exact S].
  apply node_set_sim; [exact S|apply HG; exact R].
Qed.

Lemma handle_write_rel s t h off cnt stable data : SIM s t ->
  HREL (handle_write s h off cnt stable data) (handle_write t h off cnt stable data).
Proof.
  intros HS. unfold handle_write.
  rewrite <- (sim_ro s t (proj1 HS)), <- (sim_tsize s t (proj1 HS)), <- (sim_maxfile s t (proj1 HS)).
  destruct (ro (conf s)); [leaf|]. destruct (two64 - 1 - cnt <? off); [leaf|].
  destruct (negb (cnt =? N.of_nat (length data))); [leaf|]. destruct (tsize (conf s) <? cnt); [leaf|].
  destruct ((0 <? maxfile (conf s)) && (0 <? cnt) && ((maxfile (conf s) <? off) || (maxfile (conf s) - off <? cnt))); [leaf|].
  lnode; [|leaf]. kindeq. destruct (kind_eqb (na_kind n) KLink); [leaf|].
  lock; [|leaf].
  destruct (two63N <=? off); [lock; leaf|]. cbv zeta. cbn [fs now logc].
  match goal with HS' : SIM ?s1 ?t1 |- _ =>
    rewrite <- (sim_fs s1 t1 (proj1 HS')), <- (sim_now s1 t1 (proj1 HS'));
    pose proof (sim_fs s1 t1 (proj1 HS')) as EF; pose proof (sim_now s1 t1 (proj1 HS')) as EN;
    pose proof (SIM_logc s1 t1 (bc BOpenW p) (bc BOpenW p) HS') as HSL;
    destruct (be_open (fs s1) p true) as [q|e] eqn:BO; [|clear HS'; lock; leaf];
    destruct (be_open_ok_inv (fs s1) p true q (g_wf _ (proj1 (proj2 HS'))) (g_nl _ (proj1 (proj2 HS'))) ltac:(nd) BO) as [-> _];
    destruct HS' as (S1 & G1 & G2)
  end.
  match goal with |- context [be_writeat ?f p ?o ?d ?tt] => set (w := be_writeat f p o d tt) in * end.
  destruct (snd w) as [nw|e] eqn:SW.
  - (* written *)
    unfold lift_unit, do_stat. cbn [fst snd fs now logc with_fs ac_invalidate with_ac]. rewrite <- ?EN, <- ?EF.
    match goal with |- context [node_upd (logc ?s6 (bc BStat p)) h] =>
      match goal with |- context [node_upd (logc ?t6 (bc BStat p)) h] =>
        lazymatch s6 with t6 => fail | _ => idtac end;
        assert (HS6 : SIM s6 t6) end end.
    { split; [eapply sim_modfs; [exact S1|solve_modfs|solve_modfs]|]. split.
      - eapply (write_block_good _ p); [exact G1|nd|solve_modfs|reflexivity|reflexivity].
      - unfold w. rewrite EF, EN. eapply (write_block_good _ p); [exact G2|nd|solve_modfs|reflexivity|reflexivity]. }
    match goal with HS' : SIM ?s6 ?t6 |- _ =>
      pose proof (SIM_logc s6 t6 (bc BStat p) (bc BStat p) HS') as HS7; clear HS' end.
    match goal with |- context [be_stat ?f p true] => destruct (be_stat f p true) as [fi|e2] end.
    + match goal with HS' : SIM ?s7 ?t7 |- context [node_upd ?s7 h ?g] =>
        assert (HS8 : SIM (node_upd s7 h g) (node_upd t7 h g));
        [destruct HS' as (S7 & G7 & G7'); split; [apply node_upd_sim; [exact S7|]|split; apply Good_node_upd; assumption]|clear HS'] end.
      { intros x x' E. unfold pn in *. cbn. congruence. }
      lock; leaf.
    + lock; leaf.
  - (* WriteAt failed: nothing changed *)
    pose proof (be_writeat_err _ _ _ _ _ _ SW) as FW.
    match goal with HSL' : SIM (logc ?a _) _ |- _ => change (fst w = fs a) in FW end.
    match goal with |- HREL (let '(_, _) := getattr_h ?s3 _ _ in _) (let '(_, _) := getattr_h ?t3 _ _ in _) => assert (HS3 : SIM s3 t3) end.
    { rewrite FW. destruct HSL as (SL & GL & GL'). split; [eapply sim_modfs; [exact SL|solve_modfs|solve_modfs]|]. split.
      - apply (Good_with_fs_same (logc _ _)). exact GL.
      - pose proof (Good_with_fs_same (logc _ (bc BOpenW p)) (bc2 BWriteAt p [] off (N.of_nat (length data))) GL') as X.
        cbn [fs logc] in X. rewrite <- EF in X. exact X. }
    clear HSL. lock; leaf.
Qed.

(* ====================================================================================================== *)
(* 7. READ, the administrative actions, one request                                                       *)
(* ====================================================================================================== *)
Lemma handle_read_rel s t h off cnt : SIM s t -> HREL (handle_read s h off cnt) (handle_read t h off cnt).
Proof.
  intros HS. unfold handle_read. destruct (two64 - 1 - cnt <? off); [leaf|].
  lnode; [|leaf]. kindeq. destruct (kind_eqb (na_kind n) KLink); [leaf|].
  destruct (two63N <=? off); [leaf|]. cbv zeta. cbn [fs logc].
  rewrite <- (sim_fs s t (proj1 HS)), <- (sim_tsize s t (proj1 HS)).
  pose proof (SIM_logc s t (bc BOpenR p) (bc BOpenR p) HS) as HS1. clear HS.
  destruct (be_open (fs s) p false) as [q|e]; [|leaf].
  destruct (fs_get (fs s) q) as [o|]; [|leaf].
  destruct (stat_size o <=? off); cbn [fst snd].
  - lock; [|leaf]. split; [cbn [fst]; assumption|]. cbn [snd]. unfold proj, sf.
    cbn [ob_rpc ob_status ob_fh ob_attrs ob_bytes ob_entries ob_eof map option_map].
    rewrite (pfa_pn _ _ R), (pn_size _ _ R). reflexivity.
  - destruct (be_readat (fs s) q off (N.min (N.min cnt (tsize (conf s))) (stat_size o - off))) as [data|e].
    + match goal with HS' : SIM ?a ?b |- _ =>
        pose proof (SIM_logc a b (bc2 BReadAt p [] off (N.min (N.min cnt (tsize (conf s))) (stat_size o - off)))
                            (bc2 BReadAt p [] off (N.min (N.min cnt (tsize (conf s))) (stat_size o - off))) HS') as HS2; clear HS' end.
      lock; [|leaf]. split; [cbn [fst]; assumption|]. cbn [snd]. unfold proj, sf.
      cbn [ob_rpc ob_status ob_fh ob_attrs ob_bytes ob_entries ob_eof map option_map].
      rewrite (pfa_pn _ _ R), (pn_size _ _ R). reflexivity.
    + split; [cbn [fst]; apply SIM_logc; assumption|reflexivity].
Qed.

Lemma garbage_reply_rel s t r : sim s t -> garbage_reply s r = garbage_reply t r.
Proof. intros S. unfold garbage_reply. rewrite (sim_ro s t S). reflexivity. Qed.
Lemma Good_with_conf s c' : Good s -> dir_on c' = dir_on (conf s) -> Good (with_conf s c').
Proof.
  intros [W NL H [CA CD]] E. split; sproj; try assumption. split; sproj; [exact CA|]. rewrite E. exact CD.
Qed.
Lemma SIM_with_conf s t c1 c2 : SIM s t -> dir_on c1 = dir_on (conf s) -> dir_on c2 = dir_on (conf t) -> ncc c1 = ncc c2 ->
  SIM (with_conf s c1) (with_conf t c2).
Proof.
  intros (S & G1 & G2) E1 E2 E. split; [|split; apply Good_with_conf; assumption].
  destruct S as [C1 C2 C3 C4 C5]. split; sproj; assumption.
Qed.

(* the requests covered by the transparency theorem: everything except SYMLINK (it would create a link: the side
   condition) and SETATTR (it compares the uid/gid/times held in the node with the requested ones to decide whether to
   call Chown/Chtimes, and a cache hit may legitimately have filled those unprojected node fields differently, so the
   two runs may differ in o_uid/o_gid/o_mtime of the object; SETATTR still preserves the invariant: handle_setattr_good) *)
Definition c02_req (r : req) : bool :=
  match r with
  | RSymlink _ _ _ _ | RSetattr _ _ _ => false
  | _ => true
  end.

Theorem step_rel s t c r : SIM s t -> c02_req r = true -> HREL (step s c r) (step t c r).
Proof.
  intros HS0 OKR. unfold step. pose proof (SIM_clear s t HS0) as HS. clear HS0.
  rewrite <- (garbage_reply_rel (clear_log s) (clear_log t) r (proj1 HS)).
  destruct (garbage_reply (clear_log s) r) as [o|]; [split; [exact HS|reflexivity]|].
  destruct r; try discriminate OKR; try (split; [exact HS|reflexivity]).
  - apply handle_getattr_rel; exact HS.
  - apply handle_lookup_rel; exact HS.
  - apply handle_access_rel; exact HS.
  - apply handle_readlink_rel; exact HS.
  - apply handle_read_rel; exact HS.
  - apply handle_write_rel; exact HS.
  - apply handle_create_rel; exact HS.
  - apply handle_mkdir_rel; exact HS.
  - apply handle_remove_rel; exact HS.
  - apply handle_rmdir_rel; exact HS.
  - apply handle_rename_rel; exact HS.
  - apply handle_readdir_rel; exact HS.
  - apply handle_readdirplus_rel; exact HS.
  - apply handle_fsx_rel; exact HS.
  - apply handle_fsx_rel; exact HS.
  - apply handle_fsx_rel; exact HS.
  - apply handle_commit_rel; exact HS.
  - apply handle_mnt_rel; exact HS.
  - split; [|reflexivity]. cbn [fst]. apply SIM_with_conf; [exact HS|reflexivity|reflexivity|].
    pose proof (sim_tsize _ _ (proj1 HS)) as E1. pose proof (sim_ro _ _ (proj1 HS)) as E2.
    pose proof (sim_maxfile _ _ (proj1 HS)) as E3. unfold ncc. cbn in *. congruence.
  - split; [|reflexivity]. cbn [fst]. apply SIM_with_conf; [exact HS|reflexivity|reflexivity|].
    pose proof (sim_tsize _ _ (proj1 HS)) as E1. pose proof (sim_ro _ _ (proj1 HS)) as E2.
    pose proof (sim_maxfile _ _ (proj1 HS)) as E3. unfold ncc. cbn in *. congruence.
  - split; [|reflexivity]. cbn [fst]. apply SIM_with_conf; [exact HS|reflexivity|reflexivity|].
    pose proof (sim_tsize _ _ (proj1 HS)) as E1. pose proof (sim_ro _ _ (proj1 HS)) as E2.
    pose proof (sim_maxfile _ _ (proj1 HS)) as E3. unfold ncc. cbn in *. congruence.
Qed.

(* ====================================================================================================== *)
(* 8. histories: cache transparency                                                                       *)
(* ====================================================================================================== *)
(* the cache-free reference: the same server with its caches emptied before every request *)
Definition strip (s : srv) : srv := with_dc (with_ac s []) [].
Fixpoint hrun_ref (t : srv) (l : list hstep) : list (srv * obs) :=
  match l with [] => [] | x :: r => let so := hrun1 (strip t) x in so :: hrun_ref (fst so) r end.

Lemma Good_init f c mx t : WF f -> nolinks f -> Good (srv_init_fs f c mx t).
Proof.
  intros W NL. split; cbn; [exact W|exact NL|apply HOK_init|]. split; [constructor|intros _; constructor].
Qed.
Lemma Good_strip s t : Good s -> sim s t -> Good (strip t).
Proof.
  intros [W NL H _] [C1 C2 C3 C4 C5]. split; unfold strip; sproj.
  - rewrite <- C1. exact W.
  - rewrite <- C1. exact NL.
  - unfold HOK in *. sproj. rewrite <- C2. exact H.
  - split; sproj; [constructor|intros _; constructor].
Qed.
Lemma sim_strip s t : sim s t -> sim s (strip t).
Proof. intros [C1 C2 C3 C4 C5]. split; unfold strip; sproj; assumption. Qed.
Lemma SIM_with_now s t a : SIM s t -> SIM (with_now s (now s + a)) (with_now t (now t + a)).
Proof.
  intros ([C1 C2 C3 C4 C5] & G1 & G2). split; [split; sproj; congruence|].
  split; [destruct G1 as [W NL H C]|destruct G2 as [W NL H C]]; split; assumption.
Qed.
Lemma hrun1_rel s t x : SIM s t -> c02_req (hs_req x) = true -> HREL (hrun1 s x) (hrun1 t x).
Proof. intros HS OK. unfold hrun1. apply step_rel; [apply SIM_with_now; exact HS|exact OK]. Qed.

Definition c02_hist (l : list hstep) : Prop := Forall (fun x => c02_req (hs_req x) = true) l.
(* what is compared after every step: the projected reply and the whole backend tree *)
Definition same_step (a b : srv * obs) : Prop := proj (snd a) = proj (snd b) /\ fs (fst a) = fs (fst b).

(* one request: cached server s against the cache-free reference t *)
Theorem transparent_step s t c r : Good s -> sim s t -> c02_req r = true ->
  proj (snd (step s c r)) = proj (snd (step (strip t) c r)) /\
  sim (fst (step s c r)) (fst (step (strip t) c r)) /\ Good (fst (step s c r)).
Proof.
  intros G S OK. assert (HS : SIM s (strip t)) by (split; [apply sim_strip; exact S|split; [exact G|eapply Good_strip; eassumption]]).
  destruct (step_rel s (strip t) c r HS OK) as [(A & B & _) C]. auto.
Qed.
(* histories of any length, arbitrary clock advances, any cache configuration *)
Theorem transparent_hist : forall l s t, Good s -> sim s t -> c02_hist l -> Forall2 same_step (hrun s l) (hrun_ref t l).
Proof.
  induction l as [|x r IH]; intros s t G S HL; cbn [hrun hrun_ref]; [constructor|].
  inversion HL as [|? ? OK HL']; subst.
  assert (HS : SIM s (strip t)) by (split; [apply sim_strip; exact S|split; [exact G|eapply Good_strip; eassumption]]).
  destruct (hrun1_rel s (strip t) x HS OK) as [(A & B & _) C]. constructor.
  - split; [exact C|exact (sim_fs _ _ A)].
  - apply IH; assumption.
Qed.
(* the symmetric form: two servers whose caches AND cache configurations differ arbitrarily *)
Theorem config_independent : forall l s t, SIM s t -> c02_hist l -> Forall2 same_step (hrun s l) (hrun t l).
Proof.
  induction l as [|x r IH]; intros s t HS HL; cbn [hrun]; [constructor|].
  inversion HL as [|? ? OK HL']; subst.
  destruct (hrun1_rel s t x HS OK) as [A C]. constructor.
  - split; [exact C|exact (sim_fs _ _ (proj1 A))].
  - apply IH; assumption.
Qed.
(* the invariant along a history *)
Theorem Good_hist : forall l s, Good s -> c02_hist l -> Forall (fun so => Good (fst so)) (hrun s l).
Proof.
  induction l as [|x r IH]; intros s G HL; cbn [hrun]; [constructor|].
  inversion HL as [|? ? OK HL']; subst.
  assert (HS : SIM s s) by (split; [apply sim_refl|split; exact G]).
  destruct (hrun1_rel s s x HS OK) as [(_ & B & _) _]. constructor; [exact B|apply IH; assumption].
Qed.
Theorem Good_step s c r : Good s -> c02_req r = true -> Good (fst (step s c r)).
Proof.
  intros G OK. assert (HS : SIM s s) by (split; [apply sim_refl|split; exact G]).
  destruct (step_rel s s c r HS OK) as [(_ & B & _) _]. exact B.
Qed.


(* ====================================================================================================== *)
(* 9. one run against the tree: outcomes of the namespace procedures                                      *)
(* ====================================================================================================== *)
Lemma pk_some_get f p x : pk f p = Some x -> exists o, fs_get f p = Some o /\ pko o = x.
Proof. unfold pk. destruct (fs_get f p) as [o|]; cbn; [intros [= <-]; exists o; auto|discriminate]. Qed.
Lemma get_pk f f' p o : fs_get f p = Some o -> pk f' p = pk f p -> exists o', fs_get f' p = Some o' /\ pko o' = pko o.
Proof. intros G E. apply pk_some_get. rewrite E. unfold pk. rewrite G. reflexivity. Qed.

Lemma getattr_h_ok s h p o : Good s -> nodd p -> fs_get (fs s) p = Some o ->
  exists s1 a, getattr_h s h p = (s1, Ok a) /\ core s s1 /\ Good s1 /\ pn a = (o_kind o, o_perm o, stat_size o, fileid_of p).
Proof.
  intros G ND Go. destruct (getattr_h_spec s h p G ND) as (A & B & _). pose proof (getattr_h_res s h p G ND) as C.
  destruct (getattr_h s h p) as [s1 [a|e]]; cbn [fst snd getattr_res] in *.
  - destruct C as [o' [C1 C2]]. rewrite Go in C1. injection C1 as <-. exists s1, a. auto.
  - rewrite (be_stat_present (fs s) (g_wf s G) (g_nl s G) p o false ND Go) in C. discriminate.
Qed.
Lemma getattr_h_out s h p : Good s -> nodd p -> core s (fst (getattr_h s h p)) /\ Good (fst (getattr_h s h p)).
Proof. intros G ND. destruct (getattr_h_spec s h p G ND) as (A & B & _). auto. Qed.
Lemma srv_lookup_ok s p o : Good s -> nodd p -> fs_get (fs s) p = Some o ->
  exists s1 a, srv_lookup s p = (s1, Ok a) /\ core s s1 /\ Good s1 /\ attr_ok (fs s) p a.
Proof.
  intros G ND Go. destruct (srv_lookup_spec s p G ND) as (A & B & C).
  destruct (srv_lookup s p) as [s1 [a|e]]; cbn [fst snd lookup_res] in *.
  - exists s1, a. auto.
  - rewrite (be_stat_present (fs s) (g_wf s G) (g_nl s G) p o false ND Go) in C. discriminate.
Qed.
Lemma srv_lookup_absent s p : Good s -> nodd p -> fs_get (fs s) p = None ->
  exists s1 e, srv_lookup s p = (s1, Err e) /\ core s s1 /\ Good s1 /\ be_stat (fs s) p false = Err e.
Proof.
  intros G ND Go. destruct (srv_lookup_spec s p G ND) as (A & B & C).
  destruct (srv_lookup s p) as [s1 [a|e]]; cbn [fst snd lookup_res] in *.
  - destruct C as [C _]. unfold pk in C. rewrite Go in C. discriminate.
  - exists s1, e. auto.
Qed.
Lemma failed_reply_out s h d st_ a : Good s -> nodd d ->
  core s (fst (failed_reply s h d st_ a)) /\ Good (fst (failed_reply s h d st_ a)) /\ ob_status (snd (failed_reply s h d st_ a)) = st_.
Proof.
  intros G ND. unfold failed_reply. destruct (getattr_h_out s h d G ND) as [A B].
  destruct (getattr_h s h d) as [s1 r]. cbn [fst snd] in *. auto.
Qed.
Lemma created_reply_ok s h d p a dpre o : Good s -> nodd d -> gpath p -> fs_get (fs s) d = Some o ->
  fs (fst (created_reply s h d p a dpre)) = fs s /\ Good (fst (created_reply s h d p a dpre)) /\
  ob_status (snd (created_reply s h d p a dpre)) = 0 /\
  exists rest, ob_attrs (snd (created_reply s h d p a dpre)) = sf a :: rest.
Proof.
  intros G ND GP Go. unfold created_reply. destruct (getattr_h_ok s h d o G ND Go) as (s1 & dp & E & C1 & G1 & _). rewrite E.
  pose proof (Good_alloc s1 p a G1 GP) as G2. destruct (alloc_parts s1 p a) as (F & _).
  destruct (alloc s1 p a) as [s2 fh]. cbn [fst snd] in *. split; [rewrite F; apply C1|]. split; [exact G2|]. split; [reflexivity|].
  eexists. reflexivity.
Qed.
Lemma vname_negb n : vname n -> negb (validate_name n =? st_ok) = false.
Proof. intros V. unfold vname in V. rewrite V. reflexivity. Qed.

Lemma mkdir_present f p mode t u g f1 f2 : WF f -> nolinks f -> nodd p ->
  be_mkdir f p mode t = (f1, Ok tt) -> be_chown f1 p u g = (f2, Ok tt) -> exists o, fs_get f2 p = Some o /\ o_kind o = KDir.
Proof.
  intros W NL ND B C. destruct (be_mkdir_spec f W NL p mode t ND) as [e S]. rewrite S in B.
  destruct (creatable f p) eqn:CR; [|discriminate]. injection B as <-.
  pose proof (creatable_nonroot f W p CR) as NE.
  assert (L1 : local_change f (fs_add f p (mk_dir (N.land mode 511) t) t) p) by (apply local_add; auto; discriminate).
  unfold be_chown in C. erewrite be_meta_ok in C; [| apply L1 | apply L1 | exact ND | apply fs_get_add_same; exact NE].
  apply (f_equal fst) in C. cbn [fst] in C. subst f2.
  eexists. split; [apply fs_get_upd_some; apply fs_get_add_same; exact NE|reflexivity].
Qed.

Section MkdirFwd.
Variables (s : srv) (c : cred) (h : N) (n : name) (sa : sattr) (d : path) (da : nattrs) (o : obj).
Hypothesis G : Good s.
Hypothesis RO : ro (conf s) = false.
Hypothesis V : vname n.
Let mode := match s_mode sa with Some m => m | None => 493 end.
Hypothesis VM : validate_mode mode = st_ok.
Hypothesis L : lookup_node s h = Some (d, da).
Hypothesis K : na_kind da = KDir.
Hypothesis Go : fs_get (fs s) d = Some o.
Let p := d ++ [n].
Let B := be_mkdir (fs s) p mode (now s).
Let so := handle_mkdir s c h n sa.

Lemma handle_mkdir_fwd :
  Good (fst so) /\
  match snd B with
  | Ok _ => exists u g a rest, ob_status (snd so) = 0 /\ fs (fst so) = fst (be_chown (fst B) p u g) /\
            ob_attrs (snd so) = sf a :: rest /\ attr_ok (fs (fst so)) p a
  | Err e => ob_status (snd so) = map_error e /\ fs (fst so) = fs s
  end.
Proof.
  assert (GD : gpath d) by (apply lookup_node_get in L; exact (g_hok s G h d L)).
  assert (GP : gpath p) by (apply gpath_app; [exact GD|apply vname_gcomp; exact V]).
  pose proof (gpath_nodd d GD) as NDd. pose proof (gpath_nodd p GP) as NDp.
  unfold so, handle_mkdir. cbv zeta. rewrite RO, (vname_negb n V). fold mode. rewrite VM. cbn [N.eqb negb]. 
  change (negb (st_ok =? st_ok)) with false. cbv iota. rewrite L, K. cbn [kind_eqb negb].
  destruct (getattr_h_ok s h d o G NDd Go) as (s1 & dpre & E & C1 & G1 & _). rewrite E.
  pose proof C1 as (F1 & _ & _ & _ & N1). unfold lift_unit. cbn [fst snd fs logc with_fs]. rewrite F1, N1. fold p. fold B.
  destruct B as [f1 [[]|e]] eqn:EB; cbn [fst snd fs logc with_fs].
  - match goal with |- context [be_chown f1 p ?u ?g] => set (uu := u); set (gg := g) end.
    destruct (mkdir_chain _ _ _ _ uu gg _ (g_wf _ G) (g_nl _ G) NDp EB) as [f2 (C & LC & KP & _)].
    destruct (mkdir_present _ _ _ _ uu gg _ _ (g_wf _ G) (g_nl _ G) NDp EB C) as [o2 [P2 _]]. rewrite C. cbn [fst].
    match goal with |- context [srv_lookup ?s3 p] => assert (G3 : Good s3 /\ fs s3 = f2) end.
    { split; [|unfold invalidate_for_new; inv_simpl; reflexivity].
      eapply Good_new; [exact G1|rewrite F1; exact LC|rewrite F1; exact KP|solve_modfs|reflexivity|reflexivity]. }
    destruct G3 as [G3 F3].
    match goal with |- context [srv_lookup ?s3 p] =>
      destruct (srv_lookup_ok s3 p o2 G3 NDp) as (s4 & a & E4 & C4 & G4 & OK4); [rewrite F3; exact P2|]; rewrite E4 end.
    pose proof C4 as (F4 & _).
    destruct LC as (_ & _ & HP & _).
    destruct (get_pk (fs s) f2 d o Go) as [o' [Go' _]]; [apply HP; unfold p; apply not_eq_sym, snoc_neq|].
    destruct (created_reply_ok s4 h d p a dpre o' G4 NDd GP) as (Q1 & Q2 & Q3 & rest & Q4); [rewrite F4, F3; exact Go'|].
    split; [exact Q2|]. exists uu, gg, a, rest. split; [exact Q3|]. split; [rewrite Q1, F4, F3, C; reflexivity|]. split; [exact Q4|].
    rewrite Q1, F4. exact OK4.
  - assert (f1 = fs s) as ->.
    { unfold B in EB. destruct (be_mkdir_spec (fs s) (g_wf s G) (g_nl s G) p mode (now s) NDp) as [e0 S]. rewrite S in EB.
      destruct (creatable (fs s) p); [discriminate|]. congruence. }
    match goal with |- context [failed_reply ?s2 h d ?st_ dpre] =>
      assert (G2 : Good s2) by (rewrite <- F1; apply Good_with_fs_same; exact G1);
      destruct (failed_reply_out s2 h d st_ dpre G2 NDd) as (Q1 & Q2 & Q3) end.
    split; [exact Q2|]. split; [exact Q3|]. destruct Q1 as (Q1 & _). rewrite Q1. reflexivity.
Qed.
End MkdirFwd.

Section DirOpFwd.
Variables (s : srv) (h : N) (n : name) (d : path) (da : nattrs).
Hypothesis G : Good s.
Hypothesis V : vname n.
Hypothesis L : lookup_node s h = Some (d, da).
Hypothesis K : na_kind da = KDir.
Let p := d ++ [n].

Lemma dirop_paths : gpath d /\ gpath p /\ nodd d /\ nodd p.
Proof.
  assert (GD : gpath d) by (apply lookup_node_get in L; exact (g_hok s G h d L)).
  assert (GP : gpath p) by (apply gpath_app; [exact GD|apply vname_gcomp; exact V]).
  repeat split; auto using gpath_nodd.
Qed.

(* LOOKUP *)
Lemma handle_lookup_fwd : let so := handle_lookup s h n in
  Good (fst so) /\ fs (fst so) = fs s /\
  match fs_get (fs s) p with
  | Some _ => ob_status (snd so) = 0 /\ exists a rest, ob_attrs (snd so) = sf a :: rest /\ attr_ok (fs s) p a
  | None => exists e, be_stat (fs s) p false = Err e /\ ob_status (snd so) = map_error e
  end.
Proof.
  destruct dirop_paths as (GD & GP & NDd & NDp). cbv zeta. unfold handle_lookup. rewrite (vname_negb n V), L, K. cbn [kind_eqb negb]. fold p.
  assert (CA : forall s1, Good s1 -> fs s1 = fs s -> Good (fst (current_attrs s1 h d)) /\ fs (fst (current_attrs s1 h d)) = fs s).
  { intros s1 G1 F1. unfold current_attrs. destruct (getattr_h_out s1 h d G1 NDd) as [[A _] B].
    destruct (getattr_h s1 h d) as [s2 r]. cbn [fst] in *. split; [exact B|congruence]. }
  destruct (fs_get (fs s) p) as [x|] eqn:Gp.
  - destruct (srv_lookup_ok s p x G NDp Gp) as (s1 & a & E & C1 & G1 & OK). rewrite E.
    pose proof (Good_alloc s1 p a G1 GP) as G2. destruct (alloc_parts s1 p a) as (F2 & _).
    destruct (alloc s1 p a) as [s2 fh]. cbn [fst] in *.
    destruct (CA s2 G2) as [G3 F3]; [rewrite F2; apply C1|].
    destruct (current_attrs s2 h d) as [s3 da']. cbn [fst snd] in *.
    split; [exact G3|]. split; [exact F3|]. split; [reflexivity|]. exists a. eexists. split; [reflexivity|exact OK].
  - destruct (srv_lookup_absent s p G NDp Gp) as (s1 & e & E & C1 & G1 & BS). rewrite E.
    destruct (CA s1 G1) as [G3 F3]; [apply C1|].
    destruct (current_attrs s1 h d) as [s3 da']. cbn [fst snd] in *.
    split; [exact G3|]. split; [exact F3|]. exists e. split; [exact BS|reflexivity].
Qed.

Variable o : obj.
Hypothesis RO : ro (conf s) = false.
Hypothesis Go : fs_get (fs s) d = Some o.
Hypothesis SAN : sanitize_ok d n = true.

(* REMOVE *)
Lemma handle_remove_fwd : let so := handle_remove s h n in let B := be_remove (fs s) p (now s) in
  Good (fst so) /\
  match snd B with
  | Ok _ => ob_status (snd so) = 0 /\ fs (fst so) = fst B
  | Err e => ob_status (snd so) = map_error e /\ fs (fst so) = fs s
  end.
Proof.
  destruct dirop_paths as (GD & GP & NDd & NDp). cbv zeta. unfold handle_remove.
  rewrite RO, (vname_negb n V), L, K. cbn [kind_eqb negb].
  destruct (getattr_h_ok s h d o G NDd Go) as (s1 & dpre & E & C1 & G1 & _). rewrite E. rewrite SAN. cbn [negb].
  pose proof C1 as (F1 & _ & _ & _ & N1). unfold lift_unit. cbn [fst snd]. rewrite F1, N1. fold p.
  destruct (be_remove (fs s) p (now s)) as [f1 [[]|e]] eqn:EB; cbn [fst snd].
  - match goal with |- context [getattr_h ?s2 h d] => assert (G2 : Good s2 /\ fs s2 = f1) end.
    { split; [|inv_simpl; reflexivity]. apply remove_block_good; [exact G1|exact NDp|rewrite F1, N1; exact EB]. }
    destruct G2 as [G2 F2].
    destruct (be_remove_spec (fs s) (g_wf s G) (g_nl s G) p (now s) NDp) as [e0 S]. rewrite S in EB.
    destruct (removable (fs s) p) eqn:R; [|discriminate]. apply (f_equal fst) in EB. cbn [fst] in EB.
    destruct (removable_spec (fs s) (g_wf s G) p R) as (NE & _ & _).
    destruct (get_pk (fs s) f1 d o Go) as [o' [Go' _]]; [rewrite <- EB; apply pk_del; [exact NE|unfold p; apply not_eq_sym, snoc_neq]|].
    match goal with |- context [getattr_h ?s2 h d] =>
      destruct (getattr_h_ok s2 h d o' G2 NDd) as (s3 & dp & E3 & C3 & G3 & _); [rewrite F2; exact Go'|]; rewrite E3 end.
    cbn [fst snd]. split; [exact G3|]. split; [reflexivity|]. destruct C3 as (C3 & _). congruence.
  - assert (f1 = fs s) as -> by (eapply be_remove_err; [exact G|exact NDp|exact EB]).
    match goal with |- context [failed_reply ?s2 h d ?st_ dpre] =>
      assert (G2 : Good s2) by (rewrite <- F1; apply Good_with_fs_same; exact G1);
      destruct (failed_reply_out s2 h d st_ dpre G2 NDd) as (Q1 & Q2 & Q3) end.
    split; [exact Q2|]. split; [exact Q3|]. destruct Q1 as (Q1 & _). rewrite Q1. reflexivity.
Qed.

(* RMDIR *)
Lemma handle_rmdir_fwd : let so := handle_rmdir s h n in let B := be_remove (fs s) p (now s) in
  Good (fst so) /\
  match fs_get (fs s) p with
  | None => ob_status (snd so) = NFSERR_NOENT /\ fs (fst so) = fs s
  | Some x =>
    if negb (kind_eqb (o_kind x) KDir) then ob_status (snd so) = NFSERR_NOTDIR /\ fs (fst so) = fs s
    else match snd B with
         | Ok _ => ob_status (snd so) = 0 /\ fs (fst so) = fst B
         | Err e => ob_status (snd so) <> 0 /\ fs (fst so) = fs s
         end
  end.
Proof.
  destruct dirop_paths as (GD & GP & NDd & NDp). cbv zeta. unfold handle_rmdir.
  rewrite RO, (vname_negb n V), L, K. cbn [kind_eqb negb].
  destruct (getattr_h_ok s h d o G NDd Go) as (s1 & dpre & E & C1 & G1 & _). rewrite E.
  pose proof C1 as (F1 & _ & _ & _ & N1). unfold do_stat. cbn [fst snd]. rewrite F1. fold p.
  destruct (fs_get (fs s) p) as [x|] eqn:Gp.
  2:{ destruct (be_stat_absent (fs s) (g_wf s G) (g_nl s G) p true NDp Gp) as [e [BS _]]. rewrite BS. cbn [fst snd].
      split; [apply Good_logc; exact G1|]. split; [reflexivity|exact F1]. }
  rewrite (be_stat_present (fs s) (g_wf s G) (g_nl s G) p x true NDp Gp). cbn [info_of fi_kind].
  destruct (negb (kind_eqb (o_kind x) KDir)); cbn [fst snd].
  { split; [apply Good_logc; exact G1|]. split; [reflexivity|exact F1]. }
  unfold lift_unit. cbn [fst snd fs now logc]. rewrite F1, N1.
  destruct (be_remove (fs s) p (now s)) as [f1 [[]|e]] eqn:EB; cbn [fst snd].
  - match goal with |- context [getattr_h ?s2 h d] => assert (G2 : Good s2 /\ fs s2 = f1) end.
    { split; [|inv_simpl; reflexivity]. apply rmdir_block_good; [apply Good_logc; exact G1|exact NDp|].
      cbn [fs now logc]. rewrite F1, N1; exact EB. }
    destruct G2 as [G2 F2].
    destruct (be_remove_spec (fs s) (g_wf s G) (g_nl s G) p (now s) NDp) as [e0 S]. rewrite S in EB.
    destruct (removable (fs s) p) eqn:R; [|discriminate]. apply (f_equal fst) in EB. cbn [fst] in EB.
    destruct (removable_spec (fs s) (g_wf s G) p R) as (NE & _ & _).
    destruct (get_pk (fs s) f1 d o Go) as [o' [Go' _]]; [rewrite <- EB; apply pk_del; [exact NE|unfold p; apply not_eq_sym, snoc_neq]|].
    match goal with |- context [getattr_h ?s2 h d] =>
      destruct (getattr_h_ok s2 h d o' G2 NDd) as (s3 & dp & E3 & C3 & G3 & _); [rewrite F2; exact Go'|]; rewrite E3 end.
    cbn [fst snd]. split; [exact G3|]. split; [reflexivity|]. destruct C3 as (C3 & _). congruence.
  - assert (f1 = fs s) as -> by (eapply be_remove_err; [exact G|exact NDp|exact EB]).
    match goal with |- context [failed_reply ?s2 h d ?st_ dpre] =>
      assert (G2 : Good s2) by (rewrite <- F1; apply (Good_with_fs_same (logc s1 _)); apply Good_logc; exact G1);
      destruct (failed_reply_out s2 h d st_ dpre G2 NDd) as (Q1 & Q2 & Q3) end.
    split; [exact Q2|]. split; [|destruct Q1 as (Q1 & _); rewrite Q1; reflexivity].
    rewrite Q3. destruct e; try (vm_compute; discriminate).
Qed.
End DirOpFwd.

(* CREATE *)
Lemma srv_create_fwd s d n perm uid gid : Good s -> ro (conf s) = false -> gpath d -> vname n -> sanitize_ok d n = true ->
  let p := d ++ [n] in let B := be_create (fs s) p (now s) in let r := srv_create s d n perm uid gid in
  Good (fst r) /\
  match snd B with
  | Err e => snd r = Err e /\ fs (fst r) = fs s
  | Ok _ => exists a, snd r = Ok a /\ attr_ok (fs (fst r)) p a /\
            fs (fst r) = fst (be_chown (fst (be_chmod (fst B) p (N.land perm 511))) p uid gid)
  end.
Proof.
  intros G RO GD V SAN. cbv zeta. unfold srv_create. rewrite RO, SAN. cbn [negb]. cbv zeta.
  assert (GP : gpath (d ++ [n])) by (apply gpath_app; [exact GD|apply vname_gcomp; exact V]).
  pose proof (gpath_nodd _ GP) as ND.
  destruct (be_create (fs s) (d ++ [n]) (now s)) as [f1 [q|e]] eqn:B; cbn [fst snd].
  - destruct (create_chain _ _ _ (N.land perm 511) uid gid _ _ (g_wf _ G) (g_nl _ G) ND B) as (f2 & f3 & C2 & C3 & LC & K & [o3 P3]).
    unfold lift_unit. cbn [fst snd fs logc with_fs]. rewrite C2. cbn [fst snd fs logc with_fs]. rewrite C3. cbn [fst snd fs logc with_fs].
    match goal with |- context [srv_lookup ?s3 _] => assert (G3 : Good s3 /\ fs s3 = f3) end.
    { split; [|unfold invalidate_for_new; inv_simpl; reflexivity].
      eapply Good_new; [exact G|exact LC|exact K|solve_modfs|reflexivity|reflexivity]. }
    destruct G3 as [G3 F3].
    match goal with |- context [srv_lookup ?s3 ?pp] =>
      destruct (srv_lookup_ok s3 pp o3 G3 ND) as (s4 & a & E4 & C4 & G4 & OK4); [rewrite F3; exact P3|]; rewrite E4 end.
    cbn [fst snd]. split; [exact G4|]. exists a. destruct C4 as (F4 & _). split; [reflexivity|]. split; [rewrite F4; exact OK4|congruence].
  - assert (f1 = fs s) as -> by (eapply be_create_err; [exact G|exact ND|exact B]).
    split; [apply Good_with_fs_same; exact G|]. split; reflexivity.
Qed.

Section CreateFwd.
Variables (s : srv) (c : cred) (h : N) (n : name) (how : N) (sa : sattr) (d : path) (da : nattrs) (o : obj).
Hypothesis G : Good s.
Hypothesis RO : ro (conf s) = false.
Hypothesis V : vname n.
Let with_sattr := (how =? 0) || (how =? 1).
Let mode := if with_sattr then match s_mode sa with Some m => m | None => 420 end else 420.
Let uid := if with_sattr then match s_uid sa with Some u => if c_uid c =? 0 then u else c_uid c | None => c_uid c end else c_uid c.
Let gid := if with_sattr then match s_gid sa with Some g => if c_uid c =? 0 then g else c_gid c | None => c_gid c end else c_gid c.
Hypothesis VM : validate_mode mode = st_ok.
Hypothesis L : lookup_node s h = Some (d, da).
Hypothesis K : na_kind da = KDir.
Hypothesis Go : fs_get (fs s) d = Some o.
Let p := d ++ [n].
Let so := handle_create s c h n how sa.
Let B := be_create (fs s) p (now s).

(* the outcome: (status, tree) *)
Definition create_ok_block : Prop := exists a rest, ob_attrs (snd so) = sf a :: rest /\ attr_ok (fs (fst so)) p a.
Lemma handle_create_fwd :
  Good (fst so) /\
  match fs_get (fs s) p with
  | Some x =>
    if how =? 2 then ob_status (snd so) = 0 /\ fs (fst so) = fs s /\ create_ok_block
    else if (how =? 1) || negb (kind_eqb (o_kind x) KFile) then ob_status (snd so) = NFSERR_EXIST /\ fs (fst so) = fs s
    else match (if with_sattr then s_size sa else None) with
         | Some sz =>
           if two63N <=? sz then ob_status (snd so) = 0 /\ fs (fst so) = fs s /\ create_ok_block
           else if (0 <? maxfile (conf s)) && (maxfile (conf s) <? sz) then ob_status (snd so) = NFSERR_FBIG /\ fs (fst so) = fs s
           else ob_status (snd so) = 0 /\ fs (fst so) = fst (be_truncate (fs s) p (Z.of_N sz) (now s)) /\ create_ok_block
         | None => ob_status (snd so) = 0 /\ fs (fst so) = fs s /\ create_ok_block
         end
  | None =>
    if sanitize_ok d n then
      match snd B with
      | Ok _ => ob_status (snd so) = 0 /\ create_ok_block /\
                fs (fst so) = fst (be_chown (fst (be_chmod (fst B) p (N.land mode 511))) p uid gid)
      | Err e => ob_status (snd so) = map_error e /\ fs (fst so) = fs s
      end
    else ob_status (snd so) = map_error EIO /\ fs (fst so) = fs s
  end.
Proof.
  assert (GD : gpath d) by (apply lookup_node_get in L; exact (g_hok s G h d L)).
  assert (GP : gpath p) by (apply gpath_app; [exact GD|apply vname_gcomp; exact V]).
  pose proof (gpath_nodd d GD) as NDd. pose proof (gpath_nodd p GP) as NDp.
  unfold create_ok_block, so, handle_create. cbv zeta. rewrite RO, (vname_negb n V). fold with_sattr. fold mode. rewrite VM.
  change (negb (st_ok =? st_ok)) with false. cbv iota. rewrite L, K. cbn [kind_eqb negb].
  destruct (getattr_h_ok s h d o G NDd Go) as (s1 & dpre & E & C1 & G1 & _). rewrite E.
  pose proof C1 as (F1 & _ & _ & CF1 & N1). unfold do_lstat. cbn [fst snd]. rewrite F1. fold p.
  set (S0 := logc s1 (bc BLstat p)).
  assert (G0 : Good S0) by (apply Good_logc; exact G1).
  assert (F0 : fs S0 = fs s) by exact F1. assert (N0 : now S0 = now s) by exact N1. assert (CF0 : conf S0 = conf s) by exact CF1.
  clearbody S0.
  (* the successful tail shared by several branches *)
  assert (TAIL : forall s2 x, Good s2 -> fs_get (fs s2) p = Some x -> fs_get (fs s2) d <> None ->
            let r := (let '(s3, r) := srv_lookup s2 p in
                      match r with Ok a => created_reply s3 h d p a dpre | Err e => failed_reply s3 h d (map_error e) dpre end) in
            Good (fst r) /\ ob_status (snd r) = 0 /\ fs (fst r) = fs s2 /\
            exists a rest, ob_attrs (snd r) = sf a :: rest /\ attr_ok (fs (fst r)) p a).
  { intros s2 x G2 P2 D2. cbv zeta. destruct (srv_lookup_ok s2 p x G2 NDp P2) as (s3 & a & E3 & C3 & G3 & OK3). rewrite E3.
    pose proof C3 as (F3 & _). destruct (fs_get (fs s2) d) as [o2|] eqn:Gd; [|congruence].
    destruct (created_reply_ok s3 h d p a dpre o2 G3 NDd GP) as (Q1 & Q2 & Q3 & rest & Q4); [rewrite F3; exact Gd|].
    split; [exact Q2|]. split; [exact Q3|]. split; [congruence|]. exists a, rest. split; [exact Q4|]. rewrite Q1, F3. exact OK3. }
  destruct (fs_get (fs s) p) as [x|] eqn:Gp.
  - rewrite (be_stat_present (fs s) (g_wf s G) (g_nl s G) p x false NDp Gp). cbn [info_of fi_kind].
    destruct (how =? 2).
    { destruct (srv_lookup_ok S0 p x G0 NDp) as (s3 & a & E3 & C3 & G3 & OK3); [rewrite F0; exact Gp|]. rewrite E3.
      pose proof C3 as (F3 & _).
      destruct (getattr_h_out s3 h d G3 NDd) as [[F4 _] G4]. destruct (getattr_h s3 h d) as [s4 dpost]. cbn [fst] in *.
      pose proof (Good_alloc s4 p a G4 GP) as G5. destruct (alloc_parts s4 p a) as (F5 & _).
      destruct (alloc s4 p a) as [s5 fh]. cbn [fst snd] in *.
      split; [exact G5|]. split; [reflexivity|]. split; [congruence|]. exists a. eexists. split; [reflexivity|].
      rewrite F5, F4, F3. exact OK3. }
    destruct ((how =? 1) || negb (kind_eqb (o_kind x) KFile)) eqn:HK.
    { destruct (failed_reply_out S0 h d NFSERR_EXIST dpre G0 NDd) as (Q1 & Q2 & Q3).
      split; [exact Q2|]. split; [exact Q3|]. destruct Q1 as (Q1 & _). congruence. }
    apply orb_false_elim in HK. destruct HK as [_ HK]. apply negb_false_iff, kind_eqb_eq in HK.
    assert (D0 : fs_get (fs S0) d <> None) by (rewrite F0, Go; discriminate).
    destruct (if with_sattr then s_size sa else None) as [sz|]; cbn [fst snd].
    2:{ destruct (TAIL S0 x G0) as (T1 & T2 & T3 & T4); [rewrite F0; exact Gp|exact D0|]. split; [exact T1|]. split; [exact T2|].
        split; [congruence|exact T4]. }
    destruct (two63N <=? sz); cbn [fst snd].
    { destruct (TAIL S0 x G0) as (T1 & T2 & T3 & T4); [rewrite F0; exact Gp|exact D0|]. split; [exact T1|]. split; [exact T2|].
      split; [congruence|exact T4]. }
    rewrite CF0. destruct ((0 <? maxfile (conf s)) && (maxfile (conf s) <? sz)); cbn [fst snd].
    { destruct (failed_reply_out S0 h d (map_error EFBIG) dpre G0 NDd) as (Q1 & Q2 & Q3).
      split; [exact Q2|]. split; [exact Q3|]. destruct Q1 as (Q1 & _). congruence. }
    unfold lift_unit. cbn [fst snd]. rewrite F0, N0.
    destruct (be_truncate_spec (fs s) (g_wf s G) (g_nl s G) p (Z.of_N sz) (now s) NDp) as [e0 TS].
    rewrite Gp, HK in TS. assert (ZL : (Z.of_N sz <? 0)%Z = false) by (apply Z.ltb_ge; lia). rewrite ZL in TS. rewrite TS. cbn [fst snd].
    match goal with |- context [srv_lookup ?s2 p] => assert (G2 : Good s2 /\ fs s2 = fst (be_truncate (fs s) p (Z.of_N sz) (now s))) end.
    { split; [|rewrite TS; reflexivity].
      pose proof (truncate_block_good S0 p (Z.of_N sz) (now S0) (bc2 BTruncate p [] sz 0) G0 NDp) as TG.
      rewrite F0, N0, TS in TG. exact TG. }
    destruct G2 as [G2 F2]. rewrite TS in F2. cbn [fst] in F2.
    match goal with |- context [srv_lookup ?s2 p] =>
      destruct (TAIL s2 (set_data x (Z.to_N (Z.of_N sz)) (sd_trunc (o_data x) (Z.to_N (Z.of_N sz))) (now s)) G2) as (T1 & T2 & T3 & T4) end.
    { rewrite F2, fs_get_upd, peqb_refl, Gp. reflexivity. }
    { rewrite F2, fs_get_upd. destruct (path_eqb d p); rewrite Go; discriminate. }
    split; [exact T1|]. split; [exact T2|]. split; [congruence|exact T4].
  - destruct (be_stat_absent (fs s) (g_wf s G) (g_nl s G) p false NDp Gp) as [e [BS _]]. rewrite BS.
    assert (RO0 : ro (conf S0) = false) by (rewrite CF0; exact RO).
    destruct (sanitize_ok d n) eqn:SAN.
    2:{ fold uid. fold gid. unfold srv_create. rewrite RO0, SAN. cbn [negb].
        destruct (failed_reply_out S0 h d (map_error EIO) dpre G0 NDd) as (Q1 & Q2 & Q3).
        split; [exact Q2|]. split; [exact Q3|]. destruct Q1 as (Q1 & _). congruence. }
    pose proof (srv_create_fwd S0 d n mode uid gid G0 RO0 GD V SAN) as SC. cbv zeta in SC. rewrite F0, N0 in SC. fold p in SC. fold B in SC.
    fold uid. fold gid.
    destruct (srv_create S0 d n mode uid gid) as [s3 r]. cbn [fst snd] in SC. destruct SC as [G3 SC].
    destruct (snd B) as [q|e1].
    + destruct SC as (a & -> & OK3 & F3).
      assert (Gd3 : exists o3, fs_get (fs s3) d = Some o3).
      { unfold B in F3. destruct (be_create (fs s) p (now s)) as [f1 [q1|e1]] eqn:EB.
        - destruct (create_chain _ _ _ (N.land mode 511) uid gid _ _ (g_wf _ G) (g_nl _ G) NDp EB) as (f2 & f3 & C2 & C3 & LC & _).
          cbn [fst] in F3. rewrite C2 in F3. cbn [fst] in F3. rewrite C3 in F3. cbn [fst] in F3. rewrite F3.
          destruct LC as (_ & _ & HP & _). destruct (get_pk (fs s) f3 d o Go) as [o' [Go' _]]; [apply HP; unfold p; apply not_eq_sym, snoc_neq|].
          exists o'. exact Go'.
        - (* be_create failed: then srv_create cannot have answered Ok; but here snd B was Ok *) 
          cbn [fst] in F3. exists o. 
          assert (f1 = fs s) as -> by (eapply be_create_err; [exact G|exact NDp|exact EB]).
          (* chmod/chown of an absent path leave the tree alone *)
          destruct (be_meta_spec (fs s) (g_wf s G) (g_nl s G) p true (fun o0 => set_meta o0 (N.land (N.land mode 511) 511) (o_uid o0) (o_gid o0) (o_mtime o0)) NDp) as [e2 S2].
          unfold be_chmod in F3. rewrite S2, Gp in F3. cbn [fst] in F3.
          destruct (be_meta_spec (fs s) (g_wf s G) (g_nl s G) p true (fun o0 => set_meta o0 (o_perm o0) uid gid (o_mtime o0)) NDp) as [e3 S3].
          unfold be_chown in F3. rewrite S3, Gp in F3. cbn [fst] in F3. rewrite F3. exact Go. }
      destruct Gd3 as [o3 Gd3].
      destruct (created_reply_ok s3 h d p a dpre o3 G3 NDd GP Gd3) as (Q1 & Q2 & Q3 & rest & Q4).
      split; [exact Q2|]. split; [exact Q3|]. split; [exists a, rest; split; [exact Q4|rewrite Q1; exact OK3]|]. congruence.
    + destruct SC as (-> & F3).
      destruct (failed_reply_out s3 h d (map_error e1) dpre G3 NDd) as (Q1 & Q2 & Q3).
      split; [exact Q2|]. split; [exact Q3|]. destruct Q1 as (Q1 & _). congruence.
Qed.
End CreateFwd.

(* RENAME *)
Lemma prefix_snoc_self (d : path) n : is_prefix (d ++ [n]) d = false.
Proof.
  apply is_prefix_false. intros r H. apply (f_equal (@length name)) in H. rewrite !app_length in H. cbn in H. lia.
Qed.
Lemma rename_parents_kept f d1 n1 d2 n2 t o1 o2 : WF f -> rename_ok f (d1 ++ [n1]) (d2 ++ [n2]) = true -> d1 ++ [n1] <> d2 ++ [n2] ->
  fs_get f d1 = Some o1 -> fs_get f d2 = Some o2 ->
  pk (renamed f (d1 ++ [n1]) (d2 ++ [n2]) t) d1 = pk f d1 /\ pk (renamed f (d1 ++ [n1]) (d2 ++ [n2]) t) d2 = pk f d2.
Proof.
  intros W OK NE G1 G2. destruct (rename_ok_facts f W _ _ OK NE) as (_ & _ & [oo Go] & _ & NP & NB).
  split; apply pk_renamed.
  - apply prefix_snoc_self.
  - destruct (is_prefix (d2 ++ [n2]) d1) eqn:P; [|reflexivity]. exfalso. apply is_prefix_spec in P. destruct P as [r P].
    destruct r as [|y r'].
    + rewrite app_nil_r in P. subst d1. rewrite (NB [n1]) in Go; [discriminate|discriminate].
    + rewrite P, NB in G1; [discriminate|discriminate].
  - destruct (is_prefix (d1 ++ [n1]) d2) eqn:P; [|reflexivity]. exfalso.
    rewrite (is_prefix_trans _ _ _ P (is_prefix_app d2 [n2])) in NP. discriminate.
  - apply prefix_snoc_self.
Qed.

Section RenameFwd.
Variables (s : srv) (h1 h2 : N) (n1 n2 : name) (d1 d2 : path) (da1 da2 : nattrs) (o1 o2 : obj).
Hypothesis G : Good s.
Hypothesis RO : ro (conf s) = false.
Hypothesis V1 : vname n1.
Hypothesis V2 : vname n2.
Hypothesis L1 : lookup_node s h1 = Some (d1, da1).
Hypothesis L2 : lookup_node s h2 = Some (d2, da2).
Hypothesis K1 : na_kind da1 = KDir.
Hypothesis K2 : na_kind da2 = KDir.
Hypothesis Go1 : fs_get (fs s) d1 = Some o1.
Hypothesis Go2 : fs_get (fs s) d2 = Some o2.
Hypothesis SAN1 : sanitize_ok d1 n1 = true.
Hypothesis SAN2 : sanitize_ok d2 n2 = true.

Lemma handle_rename_fwd : let so := handle_rename s h1 n1 h2 n2 in let B := be_rename (fs s) (d1 ++ [n1]) (d2 ++ [n2]) (now s) in
  Good (fst so) /\
  match snd B with
  | Ok _ => ob_status (snd so) = 0 /\ fs (fst so) = fst B
  | Err e => ob_status (snd so) = map_error e /\ fs (fst so) = fs s
  end.
Proof.
  assert (GD1 : gpath d1) by (apply lookup_node_get in L1; exact (g_hok s G h1 d1 L1)).
  assert (GD2 : gpath d2) by (apply lookup_node_get in L2; exact (g_hok s G h2 d2 L2)).
  assert (GP1 : gpath (d1 ++ [n1])) by (apply gpath_app; [exact GD1|apply vname_gcomp; exact V1]).
  assert (GP2 : gpath (d2 ++ [n2])) by (apply gpath_app; [exact GD2|apply vname_gcomp; exact V2]).
  pose proof (gpath_nodd _ GD1) as ND1. pose proof (gpath_nodd _ GD2) as ND2.
  pose proof (gpath_nodd _ GP1) as NP1. pose proof (gpath_nodd _ GP2) as NP2.
  cbv zeta. unfold handle_rename. rewrite RO, (vname_negb n1 V1), (vname_negb n2 V2), L1, L2, K1, K2. cbn [kind_eqb negb orb].
  destruct (getattr_h_ok s h1 d1 o1 G ND1 Go1) as (s1 & a1 & E1 & C1 & G1 & _). rewrite E1.
  pose proof C1 as (F1 & _ & _ & _ & N1).
  destruct (getattr_h_ok s1 h2 d2 o2 G1 ND2) as (s2 & a2 & E2 & C2 & G2 & _); [rewrite F1; exact Go2|]. rewrite E2.
  pose proof C2 as (F2 & _ & _ & _ & N2). rewrite SAN1, SAN2. cbn [negb orb].
  unfold lift_unit. cbn [fst snd]. rewrite F2, F1, N2, N1.
  (* the failure tail *)
  assert (FAIL : forall s' code, Good s' -> fs s' = fs s ->
            let r := (let '(s3, p1) := getattr_h s' h1 d1 in let '(s4, p2) := getattr_h s3 h2 d2 in
                      (s4, ob_mk code [match p1 with Ok x => sf x | Err _ => sf a1 end; match p2 with Ok x => sf x | Err _ => sf a2 end]
                             [wcc_of a1; wcc_of a2] None [] [])) in
            Good (fst r) /\ ob_status (snd r) = code /\ fs (fst r) = fs s).
  { intros s' code G' F'. cbv zeta. destruct (getattr_h_out s' h1 d1 G' ND1) as [[A1 _] B1]. destruct (getattr_h s' h1 d1) as [s3 p1]. cbn [fst] in *.
    destruct (getattr_h_out s3 h2 d2 B1 ND2) as [[A2 _] B2]. destruct (getattr_h s3 h2 d2) as [s4 p2]. cbn [fst snd] in *.
    split; [exact B2|]. split; [reflexivity|congruence]. }
  destruct (be_rename (fs s) (d1 ++ [n1]) (d2 ++ [n2]) (now s)) as [f' [[]|e]] eqn:EB; cbn [fst snd].
  - match goal with |- context [getattr_h ?s5 h1 d1] => assert (G5 : Good s5 /\ fs s5 = f') end.
    { split; [|inv_simpl; reflexivity]. apply rename_block_good; [exact G2|exact NP1|exact NP2|rewrite F2, F1, N2, N1; exact EB]. }
    destruct G5 as [G5 F5].
    assert (PR : exists x1 x2, fs_get f' d1 = Some x1 /\ fs_get f' d2 = Some x2).
    { destruct (be_rename_spec (fs s) (d1 ++ [n1]) (d2 ++ [n2]) (now s) (g_wf s G) (g_nl s G) NP1 NP2) as [e0 S]. rewrite S in EB.
      destruct (rename_ok (fs s) (d1 ++ [n1]) (d2 ++ [n2])) eqn:OK; [|discriminate].
      peq (d1 ++ [n1]) (d2 ++ [n2]).
      - apply (f_equal fst) in EB. cbn [fst] in EB. subst f'. eauto.
      - apply (f_equal fst) in EB. cbn [fst] in EB. subst f'.
        destruct (rename_parents_kept (fs s) d1 n1 d2 n2 (now s) o1 o2 (g_wf s G) OK E Go1 Go2) as [P1 P2].
        destruct (get_pk _ _ d1 o1 Go1 P1) as [x1 [X1 _]]. destruct (get_pk _ _ d2 o2 Go2 P2) as [x2 [X2 _]]. eauto. }
    destruct PR as (x1 & x2 & X1 & X2).
    match goal with |- context [getattr_h ?s5 h1 d1] =>
      destruct (getattr_h_ok s5 h1 d1 x1 G5 ND1) as (s6 & y1 & E6 & C6 & G6 & _); [rewrite F5; exact X1|]; rewrite E6 end.
    pose proof C6 as (F6 & _).
    destruct (getattr_h_ok s6 h2 d2 x2 G6 ND2) as (s7 & y2 & E7 & C7 & G7 & _); [rewrite F6, F5; exact X2|]. rewrite E7.
    pose proof C7 as (F7 & _). cbn [fst snd]. split; [exact G7|]. split; [reflexivity|congruence].
  - assert (f' = fs s) as -> by (eapply be_rename_err; [exact G|exact NP1|exact NP2|exact EB]).
    match goal with |- context [getattr_h ?s' h1 d1] =>
      destruct (FAIL s' (map_error e)) as (Q1 & Q2 & Q3); [rewrite <- F1, <- F2; apply Good_with_fs_same; exact G2|reflexivity|] end.
    cbv zeta in Q1, Q2, Q3. split; [exact Q1|]. split; [exact Q2|exact Q3].
Qed.
End RenameFwd.

(* ====================================================================================================== *)
(* 10. a failed request leaves the tree unchanged                                                         *)
(* ====================================================================================================== *)
Lemma getattr_h_absent s h p : Good s -> nodd p -> fs_get (fs s) p = None ->
  exists s1 e, getattr_h s h p = (s1, Err e) /\ fs s1 = fs s.
Proof.
  intros G ND Gp. destruct (getattr_h_out s h p G ND) as [[F _] _]. pose proof (getattr_h_res s h p G ND) as R.
  destruct (getattr_h s h p) as [s1 [a|e]]; cbn [fst snd getattr_res] in *.
  - destruct R as [o [R _]]. congruence.
  - exists s1, e. auto.
Qed.
Lemma negb_eqb_false a b : negb (a =? b) = false -> a = b.
Proof. intros H. apply negb_false_iff, N.eqb_eq in H. exact H. Qed.
Lemma negb_kind_false k : negb (kind_eqb k KDir) = false -> k = KDir.
Proof. intros H. apply negb_false_iff, kind_eqb_eq in H. exact H. Qed.

Lemma handle_mkdir_nochange s c h n sa : Good s ->
  fs (fst (handle_mkdir s c h n sa)) = fs s \/ ob_status (snd (handle_mkdir s c h n sa)) = 0.
Proof.
  intros G.
  destruct (ro (conf s)) eqn:RO; [left; unfold handle_mkdir; rewrite RO; reflexivity|].
  destruct (negb (validate_name n =? st_ok)) eqn:V; [left; unfold handle_mkdir; rewrite RO, V; reflexivity|].
  destruct (negb (validate_mode (match s_mode sa with Some m => m | None => 493 end) =? st_ok)) eqn:VM;
    [left; unfold handle_mkdir; cbv zeta; rewrite RO, V, VM; reflexivity|].
  destruct (lookup_node s h) as [[d da]|] eqn:L; [|left; unfold handle_mkdir; cbv zeta; rewrite RO, V, VM, L; reflexivity].
  destruct (negb (kind_eqb (na_kind da) KDir)) eqn:K; [left; unfold handle_mkdir; cbv zeta; rewrite RO, V, VM, L, K; reflexivity|].
  destruct (fs_get (fs s) d) as [o|] eqn:Go.
  - destruct (handle_mkdir_fwd s c h n sa d da o G RO (vname_of_negb n V) (negb_eqb_false _ _ VM) L (negb_kind_false _ K) Go) as [_ H].
    destruct (snd (be_mkdir _ _ _ _)); [right; destruct H as (? & ? & ? & ? & H & _); exact H|left; apply H].
  - left. unfold handle_mkdir. cbv zeta. rewrite RO, V, VM, L, K.
    assert (ND : nodd d) by (apply gpath_nodd; apply lookup_node_get in L; exact (g_hok s G h d L)).
    destruct (getattr_h_absent s h d G ND Go) as (s1 & e & E & F). rewrite E. exact F.
Qed.
Lemma handle_remove_nochange s h n : Good s ->
  fs (fst (handle_remove s h n)) = fs s \/ ob_status (snd (handle_remove s h n)) = 0.
Proof.
  intros G.
  destruct (ro (conf s)) eqn:RO; [left; unfold handle_remove; rewrite RO; reflexivity|].
  destruct (negb (validate_name n =? st_ok)) eqn:V; [left; unfold handle_remove; rewrite RO, V; reflexivity|].
  destruct (lookup_node s h) as [[d da]|] eqn:L; [|left; unfold handle_remove; rewrite RO, V, L; reflexivity].
  destruct (negb (kind_eqb (na_kind da) KDir)) eqn:K; [left; unfold handle_remove; rewrite RO, V, L, K; reflexivity|].
  assert (ND : nodd d) by (apply gpath_nodd; apply lookup_node_get in L; exact (g_hok s G h d L)).
  destruct (fs_get (fs s) d) as [o|] eqn:Go.
  - destruct (sanitize_ok d n) eqn:SAN.
    + destruct (handle_remove_fwd s h n d da G (vname_of_negb n V) L (negb_kind_false _ K) o RO Go SAN) as [_ H].
      destruct (snd (be_remove _ _ _)); [right; apply H|left; apply H].
    + left. unfold handle_remove. rewrite RO, V, L, K.
      destruct (getattr_h_ok s h d o G ND Go) as (s1 & a & E & C1 & G1 & _). rewrite E, SAN. cbn [negb].
      destruct (failed_reply_out s1 h d NFSERR_IO a G1 ND) as ((F & _) & _). destruct C1 as (F1 & _). congruence.
  - left. unfold handle_remove. rewrite RO, V, L, K.
    destruct (getattr_h_absent s h d G ND Go) as (s1 & e & E & F). rewrite E. exact F.
Qed.
Lemma handle_rmdir_nochange s h n : Good s ->
  fs (fst (handle_rmdir s h n)) = fs s \/ ob_status (snd (handle_rmdir s h n)) = 0.
Proof.
  intros G.
  destruct (ro (conf s)) eqn:RO; [left; unfold handle_rmdir; rewrite RO; reflexivity|].
  destruct (negb (validate_name n =? st_ok)) eqn:V; [left; unfold handle_rmdir; rewrite RO, V; reflexivity|].
  destruct (lookup_node s h) as [[d da]|] eqn:L; [|left; unfold handle_rmdir; rewrite RO, V, L; reflexivity].
  destruct (negb (kind_eqb (na_kind da) KDir)) eqn:K; [left; unfold handle_rmdir; rewrite RO, V, L, K; reflexivity|].
  assert (ND : nodd d) by (apply gpath_nodd; apply lookup_node_get in L; exact (g_hok s G h d L)).
  destruct (fs_get (fs s) d) as [o|] eqn:Go.
  - destruct (handle_rmdir_fwd s h n d da G (vname_of_negb n V) L (negb_kind_false _ K) o RO Go) as [_ H].
    destruct (fs_get (fs s) (d ++ [n])) as [x|]; [|left; apply H].
    destruct (negb (kind_eqb (o_kind x) KDir)); [left; apply H|].
    destruct (snd (be_remove _ _ _)); [right; apply H|left; apply H].
  - left. unfold handle_rmdir. rewrite RO, V, L, K.
    destruct (getattr_h_absent s h d G ND Go) as (s1 & e & E & F). rewrite E. exact F.
Qed.

Lemma handle_create_nochange s c h n how sa : Good s ->
  fs (fst (handle_create s c h n how sa)) = fs s \/ ob_status (snd (handle_create s c h n how sa)) = 0.
Proof.
  intros G.
  destruct (ro (conf s)) eqn:RO; [left; unfold handle_create; rewrite RO; reflexivity|].
  destruct (negb (validate_name n =? st_ok)) eqn:V; [left; unfold handle_create; rewrite RO, V; reflexivity|].
  destruct (negb (validate_mode (if (how =? 0) || (how =? 1) then match s_mode sa with Some m => m | None => 420 end else 420) =? st_ok)) eqn:VM;
    [left; unfold handle_create; cbv zeta; rewrite RO, V, VM; reflexivity|].
  destruct (lookup_node s h) as [[d da]|] eqn:L; [|left; unfold handle_create; cbv zeta; rewrite RO, V, VM, L; reflexivity].
  destruct (negb (kind_eqb (na_kind da) KDir)) eqn:K; [left; unfold handle_create; cbv zeta; rewrite RO, V, VM, L, K; reflexivity|].
  destruct (fs_get (fs s) d) as [o|] eqn:Go.
  - destruct (handle_create_fwd s c h n how sa d da o G RO (vname_of_negb n V) (negb_eqb_false _ _ VM) L (negb_kind_false _ K) Go) as [_ H].
    destruct (fs_get (fs s) (d ++ [n])) as [x|].
    + destruct (how =? 2); [right; apply H|].
      destruct ((how =? 1) || negb (kind_eqb (o_kind x) KFile)); [left; apply H|].
      destruct (if (how =? 0) || (how =? 1) then s_size sa else None) as [sz|]; [|right; apply H].
      destruct (two63N <=? sz); [right; apply H|].
      destruct ((0 <? maxfile (conf s)) && (maxfile (conf s) <? sz)); [left; apply H|right; apply H].
    + destruct (sanitize_ok d n); [|left; apply H].
      destruct (snd (be_create _ _ _)); [right; apply H|left; apply H].
  - left. unfold handle_create. cbv zeta. rewrite RO, V, VM, L, K.
    assert (ND : nodd d) by (apply gpath_nodd; apply lookup_node_get in L; exact (g_hok s G h d L)).
    destruct (getattr_h_absent s h d G ND Go) as (s1 & e & E & F). rewrite E. exact F.
Qed.

Lemma handle_rename_nochange s h1 n1 h2 n2 : Good s ->
  fs (fst (handle_rename s h1 n1 h2 n2)) = fs s \/ ob_status (snd (handle_rename s h1 n1 h2 n2)) = 0.
Proof.
  intros G.
  destruct (ro (conf s)) eqn:RO; [left; unfold handle_rename; rewrite RO; reflexivity|].
  destruct (negb (validate_name n1 =? st_ok)) eqn:V1; [left; unfold handle_rename; rewrite RO, V1; reflexivity|].
  destruct (negb (validate_name n2 =? st_ok)) eqn:V2; [left; unfold handle_rename; rewrite RO, V1, V2; reflexivity|].
  destruct (lookup_node s h1) as [[d1 da1]|] eqn:L1; [|left; unfold handle_rename; rewrite RO, V1, V2, L1; reflexivity].
  destruct (lookup_node s h2) as [[d2 da2]|] eqn:L2; [|left; unfold handle_rename; rewrite RO, V1, V2, L1, L2; reflexivity].
  destruct (negb (kind_eqb (na_kind da1) KDir) || negb (kind_eqb (na_kind da2) KDir)) eqn:K;
    [left; unfold handle_rename; rewrite RO, V1, V2, L1, L2, K; reflexivity|].
  pose proof K as K'. apply orb_false_elim in K'. destruct K' as [K1 K2].
  assert (ND1 : nodd d1) by (apply gpath_nodd; apply lookup_node_get in L1; exact (g_hok s G h1 d1 L1)).
  assert (ND2 : nodd d2) by (apply gpath_nodd; apply lookup_node_get in L2; exact (g_hok s G h2 d2 L2)).
  destruct (fs_get (fs s) d1) as [o1|] eqn:Go1.
  2:{ left. unfold handle_rename. rewrite RO, V1, V2, L1, L2, K.
      destruct (getattr_h_absent s h1 d1 G ND1 Go1) as (s1 & e & E & F). rewrite E. exact F. }
  destruct (fs_get (fs s) d2) as [o2|] eqn:Go2.
  2:{ left. unfold handle_rename. rewrite RO, V1, V2, L1, L2, K.
      destruct (getattr_h_ok s h1 d1 o1 G ND1 Go1) as (s1 & a1 & E1 & C1 & G1 & _). rewrite E1. pose proof C1 as (F1 & _).
      destruct (getattr_h_absent s1 h2 d2 G1 ND2) as (s2 & e & E & F); [rewrite F1; exact Go2|]. rewrite E. cbn [fst]. congruence. }
  destruct (negb (sanitize_ok d1 n1) || negb (sanitize_ok d2 n2)) eqn:SAN.
  - left. unfold handle_rename. cbv zeta. rewrite RO, V1, V2, L1, L2, K.
    destruct (getattr_h_ok s h1 d1 o1 G ND1 Go1) as (s1 & a1 & E1 & C1 & G1 & _). rewrite E1. pose proof C1 as (F1 & _).
    destruct (getattr_h_ok s1 h2 d2 o2 G1 ND2) as (s2 & a2 & E2 & C2 & G2 & _); [rewrite F1; exact Go2|]. rewrite E2. pose proof C2 as (F2 & _).
    rewrite SAN.
    destruct (getattr_h_out s2 h1 d1 G2 ND1) as [[A1 _] B1]. destruct (getattr_h s2 h1 d1) as [s3 p1]. cbn [fst] in *.
    destruct (getattr_h_out s3 h2 d2 B1 ND2) as [[A2 _] B2]. destruct (getattr_h s3 h2 d2) as [s4 p2]. cbn [fst snd] in *. congruence.
  - apply orb_false_elim in SAN. destruct SAN as [S1 S2]. apply negb_false_iff in S1, S2.
    destruct (handle_rename_fwd s h1 h2 n1 n2 d1 d2 da1 da2 o1 o2 G RO (vname_of_negb n1 V1) (vname_of_negb n2 V2) L1 L2
                (negb_kind_false _ K1) (negb_kind_false _ K2) Go1 Go2 S1 S2) as [_ H].
    destruct (snd (be_rename _ _ _ _)); [right; apply H|left; apply H].
Qed.

(* the procedures of the property *)
Definition ns_req (r : req) : bool :=
  match r with
  | RLookup _ _ | RCreate _ _ _ _ | RMkdir _ _ _ | RRemove _ _ | RRmdir _ _ | RRename _ _ _ _
  | RReaddir _ _ _ | RReaddirplus _ _ _ _ | RGetattr _ | RReadlink _ | RMnt _ => true
  | _ => false
  end.
Theorem failed_no_change s c r : Good s -> ns_req r = true ->
  ob_status (snd (step s c r)) <> 0 -> fs (fst (step s c r)) = fs s.
Proof.
  intros G NS ST. pose proof (Good_clear s G) as G0. unfold step in *.
  destruct (garbage_reply (clear_log s) r) as [o|]; [reflexivity|].
  assert (X : forall so : srv * obs, fs (fst so) = fs (clear_log s) \/ ob_status (snd so) = 0 -> ob_status (snd so) <> 0 -> fs (fst so) = fs s).
  { intros so [H|H] N; [exact H|congruence]. }
  destruct r; try discriminate NS.
  - apply (proj1 (handle_getattr_ro (clear_log s) h)).
  - apply (proj1 (handle_lookup_ro (clear_log s) h n)).
  - apply (proj1 (handle_readlink_ro (clear_log s) h)).
  - apply X; [apply handle_create_nochange; exact G0|exact ST].
  - apply X; [apply handle_mkdir_nochange; exact G0|exact ST].
  - apply X; [apply handle_remove_nochange; exact G0|exact ST].
  - apply X; [apply handle_rmdir_nochange; exact G0|exact ST].
  - apply X; [apply handle_rename_nochange; exact G0|exact ST].
  - apply (proj1 (handle_readdir_ro (clear_log s) h cookie count)).
  - apply (proj1 (handle_readdirplus_ro (clear_log s) h cookie maxcount)).
  - apply (proj1 (handle_mnt_ro (clear_log s) p)).
Qed.

(* ---------- SETATTR: the invariant survives (one run) ---------- *)
(* an intermediate state of a SETATTR on p: only the tree changed, by attribute changes of the (present) object at p *)
Definition Mid (s : srv) (p : path) (s' : srv) : Prop :=
  hm s' = hm s /\ conf s' = conf s /\ now s' = now s /\ ac s' = ac s /\ dc s' = dc s /\
  attr_change (fs s) (fs s') p /\ exists o, fs_get (fs s') p = Some o.
Lemma Mid_logc s p s' c : Mid s p s' -> Mid s p (logc s' c).
Proof. intros M. exact M. Qed.
Lemma Mid_meta s p s' c fl g : Mid s p s' -> nodd p -> keeps_kind g ->
  Mid s p (fst (lift_unit s' c (be_meta (fs s') p fl g))) /\ snd (lift_unit s' c (be_meta (fs s') p fl g)) = Ok tt.
Proof.
  intros (M1 & M2 & M3 & M4 & M5 & M6 & [o M7]) ND K. unfold lift_unit. cbn [fst snd].
  rewrite (be_meta_ok (fs s') p fl g o (proj1 M6) (proj1 (proj2 M6)) ND M7). cbn [fst snd]. split; [|reflexivity].
  unfold Mid. sproj. repeat (split; [assumption|]). split.
  - eapply attr_change_trans; [exact M6|]. apply attr_change_upd; [apply M6|apply M6|intros x _; apply K].
  - eexists. apply fs_get_upd_some. exact M7.
Qed.
Lemma Good_of_mid s p s' h a : Good s -> Mid s p s' -> Good (ac_invalidate (node_set s' h a) p).
Proof.
  intros G (M1 & M2 & M3 & M4 & M5 & M6 & _). eapply (Good_attr'' s p (fs s') _ G M6); unfold node_set; sproj; try assumption; try reflexivity.
  - intros e He. cbn [ac ac_invalidate with_ac with_nodes] in He. rewrite M4 in He. apply in_ac_remove in He. destruct He as [I N].
    split; [exact I|intros _; exact N].
  - intros _ e He. cbn [dc ac_invalidate with_ac with_nodes] in He. rewrite M5 in He. exact He.
Qed.
Lemma Good_of_mid' s p s' : Good s -> Mid s p s' -> (exists o, fs_get (fs s) p = Some o) -> fs s' = fs s -> Good s'.
Proof.
  intros [W NL H [CA CD]] (M1 & M2 & M3 & M4 & M5 & _) _ F. split; [rewrite F; exact W|rewrite F; exact NL|unfold HOK; rewrite M1; exact H|].
  split; [rewrite F, M4; exact CA|rewrite F, M2, M5; exact CD].
Qed.

Lemma srv_setattr_good s h p cur new : Good s -> nodd p -> Good (fst (srv_setattr s h p cur new)).
Proof.
  intros G ND. unfold srv_setattr, do_stat. cbv zeta.
  destruct (be_stat (fs s) p true) as [fi|e] eqn:BS; cbn [fst snd]; [|apply Good_logc; exact G].
  destruct (be_stat_ok_inv (fs s) (g_wf s G) (g_nl s G) p true fi ND BS) as [o [Go _]].
  set (s1 := logc s (bc BStat p)).
  assert (M1 : Mid s p s1).
  { unfold Mid, s1. sproj. repeat (split; [reflexivity|]). split; [apply attr_change_refl; [exact (g_wf s G)|exact (g_nl s G)]|exists o; exact Go]. }
  clearbody s1. unfold be_chmod, be_chown.
  (* chmod *)
  match goal with |- context [if ?b then (s1, Ok tt) else ?X] =>
    assert (R2 : Mid s p (fst (if b then (s1, Ok tt) else X)) /\ snd (if b then (s1, Ok tt) else X) = Ok tt);
    [destruct b; [split; [exact M1|reflexivity]|apply Mid_meta; [exact M1|exact ND|(intros x; reflexivity)]]|] end.
  match goal with |- context [if ?b then (s1, Ok tt) else ?X] => destruct (if b then (s1, Ok tt) else X) as [s2 x2] end.
  cbn [fst snd] in *. destruct R2 as [M2 ->]. clear M1.
  (* chown *)
  match goal with |- context [if ?b then (s2, Ok tt) else ?X] =>
    assert (R3 : Mid s p (fst (if b then (s2, Ok tt) else X)) /\ snd (if b then (s2, Ok tt) else X) = Ok tt);
    [destruct b; [split; [exact M2|reflexivity]|apply Mid_meta; [exact M2|exact ND|(intros x; reflexivity)]]|] end.
  match goal with |- context [if ?b then (s2, Ok tt) else ?X] => destruct (if b then (s2, Ok tt) else X) as [s3 x3] end.
  cbn [fst snd] in *. destruct R3 as [M3 ->]. clear M2.
  (* chtimes *)
  match goal with |- context [if ?b then ?X else (s3, Ok tt)] =>
    assert (R4 : Mid s p (fst (if b then X else (s3, Ok tt))) /\ snd (if b then X else (s3, Ok tt)) = Ok tt);
    [destruct b; [|split; [exact M3|reflexivity]]|] end.
  { destruct (na_mtime new =? 0).
    - unfold lift_unit. cbn [fst snd]. pose proof M3 as (A1 & A2 & A3 & A4 & A5 & A6 & [o3 A7]).
      rewrite (be_stat_present (fs s3) (proj1 A6) (proj1 (proj2 A6)) p o3 true ND A7). split; [|reflexivity].
      unfold Mid. sproj. do 5 (split; [assumption|]). split; [exact A6|exists o3; exact A7].
    - unfold be_chtimes. apply Mid_meta; [exact M3|exact ND|(intros x; reflexivity)]. }
  match goal with |- context [if ?b then ?X else (s3, Ok tt)] => destruct (if b then X else (s3, Ok tt)) as [s4 x4] end.
  cbn [fst snd] in *. destruct R4 as [M4 ->]. cbn [fst]. apply (Good_of_mid s p s4 h new G M4).
Qed.

Lemma handle_setattr_good s c h sa guard : Good s -> Good (fst (handle_setattr s c h sa guard)).
Proof.
  intros G. unfold handle_setattr.
  destruct (ro (conf s)); [exact G|].
  destruct (match s_mode sa with Some m => N.testbit m 15 | None => false end); [exact G|].
  destruct (lookup_node s h) as [[p nd_]|] eqn:L; [|exact G].
  destruct (kind_eqb (na_kind nd_) KLink); [exact G|].
  assert (ND : nodd p) by (apply gpath_nodd; apply lookup_node_get in L; exact (g_hok s G h p L)).
  destruct (getattr_h_out s h p G ND) as [_ G1]. destruct (getattr_h s h p) as [s1 [prea|e]]; cbn [fst] in *; [|exact G1].
  destruct (match guard with Some (gs, gn) => negb ((gs =? sec_of (na_mtime prea)) && (gn =? nsec_of (na_mtime prea))) | None => false end);
    [exact G1|].
  cbv zeta.
  match goal with |- context [snd ?X] =>
    lazymatch X with (match s_size sa with Some _ => _ | None => _ end) => set (RS := X) end end.
  assert (GR : Good (fst RS)).
  { unfold RS. destruct (s_size sa) as [sz|]; [|exact G1].
    destruct (two63N <=? sz); [exact G1|].
    destruct ((0 <? maxfile (conf s1)) && (maxfile (conf s1) <? sz)); [exact G1|].
    unfold lift_unit. cbn [fst snd].
    destruct (be_truncate_cases (fs s1) p (Z.of_N sz) (now s1) (g_wf s1 G1) (g_nl s1 G1) ND) as [_ TE].
    destruct (snd (be_truncate (fs s1) p (Z.of_N sz) (now s1))) as [[]|e] eqn:ST; cbn [fst snd].
    - pose proof (truncate_block_good s1 p (Z.of_N sz) (now s1) (bc2 BTruncate p [] sz 0) G1 ND) as TG.
      unfold do_stat. cbn [fst snd]. 
      match goal with |- context [be_stat ?f p true] => destruct (be_stat f p true) as [fi|e2] end;
        [apply Good_node_upd|]; apply Good_logc; exact TG.
    - rewrite (TE e eq_refl). apply Good_with_fs_same. exact G1. }
  clearbody RS. destruct RS as [s4 [e|]]; cbn [fst snd] in *; [exact GR|].
  destruct (node_get s4 h) as [cur|]; [|exact GR].
  match goal with |- context [srv_setattr s4 h p cur ?new] =>
    pose proof (srv_setattr_good s4 h p cur new GR ND) as G5; destruct (srv_setattr s4 h p cur new) as [s5 [[]|e]] end;
    cbn [fst] in *; [|exact G5].
  destruct (getattr_h_out s5 h p G5 ND) as [_ G6]. destruct (getattr_h s5 h p) as [s6 [a|e]]; exact G6.
Qed.

(* every request except SYMLINK preserves the invariant *)
Definition inv_req (r : req) : bool := match r with RSymlink _ _ _ _ => false | _ => true end.


(* including SETATTR: every request except SYMLINK preserves the invariant *)
Theorem Good_step_all s c r : Good s -> inv_req r = true -> Good (fst (step s c r)).
Proof.
  intros G OK. destruct (c02_req r) eqn:C; [apply Good_step; assumption|].
  destruct r; try discriminate C; try discriminate OK.
  unfold step. cbn [garbage_reply]. apply handle_setattr_good. apply Good_clear. exact G.
Qed.

(* ====================================================================================================== *)
(* 11. success and failure against the tree (the POSIX side of C02), and the C04 corollary                *)
(* ====================================================================================================== *)
Lemma vname_str_ok n : vname n -> str_ok n = true.
Proof.
  intros V. apply vname_spec in V. destruct V as (_ & LEN & NUL & _). unfold str_ok.
  change (st c_MAX_XDR_STRING_LENGTH) with 8192. apply andb_true_iff. split; [apply N.leb_le; lia|].
  apply negb_true_iff. apply existsb_eqb_false. exact NUL.
Qed.
Lemma lookup_node_clear s h : lookup_node (clear_log s) h = lookup_node s h.
Proof. reflexivity. Qed.
Lemma removable_iff f p : removable f p = true <->
  exists x, fs_get f p = Some x /\ p <> [] /\ ~ (o_kind x = KDir /\ has_children f p = true).
Proof.
  unfold removable. destruct (fs_get f p) as [x|]; [|split; [discriminate|intros [x [H _]]; discriminate]].
  rewrite andb_true_iff, !negb_true_iff. split.
  - intros [A B]. exists x. split; [reflexivity|]. split; [destruct p; [discriminate|discriminate]|].
    intros [C D]. rewrite C, D in B. discriminate.
  - intros [x' [[= <-] [NE N]]]. split; [destruct p; [congruence|reflexivity]|].
    destruct (kind_eqb (o_kind x) KDir) eqn:KK; [|reflexivity]. apply kind_eqb_eq in KK.
    destruct (has_children f p) eqn:HC; [exfalso; apply N; auto|reflexivity].
Qed.

Section Posix.
Variables (s : srv) (c : cred) (h : N) (n : name) (d : path) (da : nattrs).
Hypothesis G : Good s.
Hypothesis V : vname n.
Hypothesis L : lookup_node s h = Some (d, da).
Hypothesis K : na_kind da = KDir.
Let p := d ++ [n].
Let G0 := Good_clear s G.

(* LOOKUP d n succeeds iff n names an entry of d; it never changes the tree *)
Theorem posix_lookup : let so := step s c (RLookup h n) in
  (ob_status (snd so) = 0 <-> In n (listing (fs s) d)) /\ fs (fst so) = fs s.
Proof.
  cbv zeta. unfold step. cbn [garbage_reply]. rewrite (vname_str_ok n V).
  destruct (handle_lookup_fwd (clear_log s) h n d da G0 V L K) as (_ & F & H). split; [|exact F].
  rewrite In_listing. change (fs (clear_log s)) with (fs s) in H. fold p in H. fold p.
  destruct (fs_get (fs s) p) as [x|].
  - split; [intros _; discriminate|intros _; apply H].
  - destruct H as [e [_ H]]. rewrite H. split; [intros F0; exfalso; exact (map_error_nonzero e F0)|congruence].
Qed.
(* the attribute block of a successful LOOKUP describes the object (C04) *)
Theorem lookup_block : let so := step s c (RLookup h n) in
  ob_status (snd so) = 0 ->
  exists a rest x, ob_attrs (snd so) = Some (fattr_of a) :: rest /\ fs_get (fs (fst so)) p = Some x /\
    be_stat (fs (fst so)) p false = Ok (info_of x) /\
    fa_type (fattr_of a) = ftype_of (o_kind x) /\ fa_fileid (fattr_of a) = fileid_of p /\
    fa_size (fattr_of a) = stat_size x /\ fa_perm (fattr_of a) = o_perm x.
Proof.
  cbv zeta. unfold step. cbn [garbage_reply]. rewrite (vname_str_ok n V).
  destruct (handle_lookup_fwd (clear_log s) h n d da G0 V L K) as (G1 & F & H). intros ST.
  change (fs (clear_log s)) with (fs s) in *. fold p in H.
  destruct (fs_get (fs s) p) as [x|] eqn:Gp.
  - destruct H as [_ (a & rest & A & [OK1 OK2])]. exists a, rest, x. split; [exact A|]. rewrite F. split; [exact Gp|].
    assert (ND : nodd p).
    { apply gpath_nodd. apply gpath_app; [apply lookup_node_get in L; exact (g_hok s G h d L)|apply vname_gcomp; exact V]. }
    split; [apply (be_stat_present (fs s) (g_wf s G) (g_nl s G) p x false ND Gp)|].
    unfold pk in OK1. rewrite Gp in OK1. cbn in OK1. injection OK1 as E1 E2 E3. cbn. rewrite <- E1, <- E2, <- E3. auto.
  - destruct H as [e [_ H]]. rewrite H in ST. exfalso. exact (map_error_nonzero e ST).
Qed.

Hypothesis RO : ro (conf s) = false.
Hypothesis KD : kd (fs s) d = true.

Lemma posix_d_present : exists o, fs_get (fs s) d = Some o.
Proof. apply kd_true in KD. destruct KD as [o [A _]]. exists o. exact A. Qed.
Lemma posix_nodd : nodd p.
Proof. apply gpath_nodd. apply gpath_app; [apply lookup_node_get in L; exact (g_hok s G h d L)|apply vname_gcomp; exact V]. Qed.

(* MKDIR succeeds iff the name is absent; then the tree is be_mkdir's (then be_chown's); else it is unchanged *)
Theorem posix_mkdir sa : validate_mode (match s_mode sa with Some m => m | None => 493 end) = st_ok ->
  let so := step s c (RMkdir h n sa) in
  let mode := match s_mode sa with Some m => m | None => 493 end in
  (ob_status (snd so) = 0 <-> fs_get (fs s) p = None) /\
  (ob_status (snd so) = 0 ->
     fst (be_mkdir (fs s) p mode (now s)) = fs_add (fs s) p (mk_dir (N.land mode 511) (now s)) (now s) /\
     exists u g, fs (fst so) = fst (be_chown (fst (be_mkdir (fs s) p mode (now s))) p u g)) /\
  (ob_status (snd so) <> 0 -> fs (fst so) = fs s).
Proof.
  intros VM. cbv zeta. unfold step. cbn [garbage_reply]. rewrite (vname_str_ok n V).
  destruct posix_d_present as [o Go].
  assert (RO0 : ro (conf (clear_log s)) = false) by exact RO.
  destruct (handle_mkdir_fwd (clear_log s) c h n sa d da o G0 RO0 V VM L K Go) as [_ H].
  change (fs (clear_log s)) with (fs s) in *. change (now (clear_log s)) with (now s) in *. fold p in H.
  destruct (be_mkdir_spec (fs s) (g_wf s G) (g_nl s G) p (match s_mode sa with Some m => m | None => 493 end) (now s) posix_nodd) as [e S].
  unfold p in *. rewrite S in *. unfold creatable in *. rewrite parent_snoc, KD in *.
  destruct (fs_get (fs s) (d ++ [n])) as [x|]; cbn [fst snd] in *.
  - destruct H as [H1 H2]. rewrite H1. split; [split; [intros F0; exfalso; exact (map_error_nonzero e F0)|discriminate]|].
    split; [intros F0; exfalso; exact (map_error_nonzero e F0)|intros _; exact H2].
  - destruct H as (u & g & a & rest & H1 & H2 & _). split; [tauto|]. split; [|congruence].
    intros _. split; [reflexivity|]. exists u, g. exact H2.
Qed.

(* REMOVE succeeds iff the name is present and not a non-empty directory; then the tree is be_remove's *)
Theorem posix_remove : sanitize_ok d n = true -> let so := step s c (RRemove h n) in
  (ob_status (snd so) = 0 <-> removable (fs s) p = true) /\
  (ob_status (snd so) = 0 -> fs (fst so) = fs_rm (fs s) p (now s)) /\
  (ob_status (snd so) <> 0 -> fs (fst so) = fs s).
Proof.
  intros SAN. cbv zeta. unfold step. cbn [garbage_reply]. rewrite (vname_str_ok n V).
  destruct posix_d_present as [o Go].
  assert (RO0 : ro (conf (clear_log s)) = false) by exact RO.
  destruct (handle_remove_fwd (clear_log s) h n d da G0 V L K o RO0 Go SAN) as [_ H].
  change (fs (clear_log s)) with (fs s) in *. change (now (clear_log s)) with (now s) in *. fold p in H.
  destruct (be_remove_spec (fs s) (g_wf s G) (g_nl s G) p (now s) posix_nodd) as [e S]. rewrite S in *.
  destruct (removable (fs s) p); cbn [fst snd] in *.
  - destruct H as [H1 H2]. split; [tauto|]. split; [intros _; exact H2|congruence].
  - destruct H as [H1 H2]. rewrite H1. split; [split; [intros F0; exfalso; exact (map_error_nonzero e F0)|discriminate]|].
    split; [intros F0; exfalso; exact (map_error_nonzero e F0)|intros _; exact H2].
Qed.

(* RMDIR succeeds iff the name is present, a directory, and empty *)
Theorem posix_rmdir : let so := step s c (RRmdir h n) in
  (ob_status (snd so) = 0 <-> exists x, fs_get (fs s) p = Some x /\ o_kind x = KDir /\ has_children (fs s) p = false) /\
  (ob_status (snd so) = 0 -> fs (fst so) = fs_rm (fs s) p (now s)) /\
  (ob_status (snd so) <> 0 -> fs (fst so) = fs s).
Proof.
  cbv zeta. unfold step. cbn [garbage_reply]. rewrite (vname_str_ok n V).
  destruct posix_d_present as [o Go].
  assert (RO0 : ro (conf (clear_log s)) = false) by exact RO.
  destruct (handle_rmdir_fwd (clear_log s) h n d da G0 V L K o RO0 Go) as [_ H].
  change (fs (clear_log s)) with (fs s) in *. change (now (clear_log s)) with (now s) in *. fold p in H.
  assert (NZ1 : NFSERR_NOENT <> 0) by (vm_compute; discriminate). assert (NZ2 : NFSERR_NOTDIR <> 0) by (vm_compute; discriminate).
  destruct (fs_get (fs s) p) as [x|] eqn:Gp.
  2:{ destruct H as [H1 H2]. rewrite H1. split; [split; [intros F0; exfalso; exact (NZ1 F0)|intros [x [F0 _]]; discriminate]|].
      split; [intros F0; exfalso; exact (NZ1 F0)|intros _; exact H2]. }
  destruct (negb (kind_eqb (o_kind x) KDir)) eqn:KX.
  { destruct H as [H1 H2]. rewrite H1. apply negb_true_iff in KX.
    split; [split; [intros F0; exfalso; exact (NZ2 F0)|intros [x' [[= <-] [F1 _]]]; rewrite F1 in KX; discriminate]|].
    split; [intros F0; exfalso; exact (NZ2 F0)|intros _; exact H2]. }
  apply negb_false_iff in KX.
  destruct (be_remove_spec (fs s) (g_wf s G) (g_nl s G) p (now s) posix_nodd) as [e S]. rewrite S in *.
  unfold removable in *. rewrite Gp, KX in *. unfold p in *.
  assert (NN : nilb (d ++ [n]) = false) by (destruct d; reflexivity).
  replace (match d ++ [n] with [] => true | _ :: _ => false end) with false in * by (destruct d; reflexivity).
  cbn [negb andb] in *. apply kind_eqb_eq in KX.
  destruct (has_children (fs s) (d ++ [n])); cbn [negb fst snd] in *.
  - destruct H as [H1 H2]. split; [split; [intros F0; exfalso; exact (H1 F0)|intros [x' [_ [_ F0]]]; discriminate]|].
    split; [intros F0; exfalso; exact (H1 F0)|intros _; exact H2].
  - destruct H as [H1 H2]. split; [split; [intros _; exists x; auto|intros _; exact H1]|]. split; [intros _; exact H2|congruence].
Qed.

(* CREATE: GUARDED (how = 1) succeeds iff the name is absent; UNCHECKED (how = 0) iff it is absent or a regular
   file (and, when a size below 2^63 is requested for an existing file, the size passes the MaxFileSize policy) *)
Theorem posix_create how sa :
  validate_mode (if (how =? 0) || (how =? 1) then match s_mode sa with Some m => m | None => 420 end else 420) = st_ok ->
  sanitize_ok d n = true ->
  let so := step s c (RCreate h n how sa) in
  (how = 1 -> (ob_status (snd so) = 0 <-> fs_get (fs s) p = None)) /\
  (how = 0 -> (ob_status (snd so) = 0 <->
               match fs_get (fs s) p with
               | None => True
               | Some x => o_kind x = KFile /\
                           match s_size sa with
                           | Some sz => two63N <=? sz = true \/ (0 <? maxfile (conf s)) && (maxfile (conf s) <? sz) = false
                           | None => True end
               end)) /\
  (ob_status (snd so) <> 0 -> fs (fst so) = fs s) /\
  (ob_status (snd so) = 0 -> fs_get (fs s) p = None ->
     fst (be_create (fs s) p (now s)) = fs_add (fs s) p (mk_file 438 (now s)) (now s) /\
     exists m u g, fs (fst so) = fst (be_chown (fst (be_chmod (fst (be_create (fs s) p (now s))) p m)) p u g)).
Proof.
  intros VM SAN. cbv zeta. unfold step. cbn [garbage_reply]. rewrite (vname_str_ok n V).
  destruct posix_d_present as [o Go].
  assert (RO0 : ro (conf (clear_log s)) = false) by exact RO.
  destruct (handle_create_fwd (clear_log s) c h n how sa d da o G0 RO0 V VM L K Go) as [_ H].
  change (fs (clear_log s)) with (fs s) in *. change (now (clear_log s)) with (now s) in *. change (conf (clear_log s)) with (conf s) in *.
  fold p in H. rewrite SAN in H.
  assert (NZ1 : NFSERR_EXIST <> 0) by (vm_compute; discriminate). assert (NZ2 : NFSERR_FBIG <> 0) by (vm_compute; discriminate).
  destruct (be_create_spec (fs s) (g_wf s G) (g_nl s G) p (now s) posix_nodd) as [e S].
  unfold p in *. rewrite S in *. rewrite parent_snoc, KD in *.
  destruct (fs_get (fs s) (d ++ [n])) as [x|] eqn:Gp; cbn [fst snd] in *.
  - split; [|split; [|split]].
    + intros ->. cbn [N.eqb orb] in H. change (1 =? 2) with false in H. change (1 =? 1) with true in H. cbn [orb] in H.
      destruct H as [H1 _]. rewrite H1. split; [intros F0; exfalso; exact (NZ1 F0)|discriminate].
    + intros ->. change (0 =? 2) with false in H. change (0 =? 1) with false in H. change (0 =? 0) with true in H. cbn [orb] in H.
      destruct (negb (kind_eqb (o_kind x) KFile)) eqn:KF.
      * destruct H as [H1 _]. rewrite H1. apply negb_true_iff in KF.
        split; [intros F0; exfalso; exact (NZ1 F0)|intros [F0 _]; rewrite F0 in KF; discriminate].
      * apply negb_false_iff, kind_eqb_eq in KF. destruct (s_size sa) as [sz|].
        -- destruct (two63N <=? sz); [split; [auto|intros _; apply H]|].
           destruct ((0 <? maxfile (conf s)) && (maxfile (conf s) <? sz)).
           ++ destruct H as [H1 _]. rewrite H1. split; [intros F0; exfalso; exact (NZ2 F0)|intros [_ [F0|F0]]; discriminate].
           ++ split; [auto|intros _; apply H].
        -- split; [auto|intros _; apply H].
    + destruct (how =? 2); [intros N0; exfalso; apply N0, H|].
      destruct ((how =? 1) || negb (kind_eqb (o_kind x) KFile)); [intros _; apply H|].
      destruct (if (how =? 0) || (how =? 1) then s_size sa else None) as [sz|]; [|intros N0; exfalso; apply N0, H].
      destruct (two63N <=? sz); [intros N0; exfalso; apply N0, H|].
      destruct ((0 <? maxfile (conf s)) && (maxfile (conf s) <? sz)); [intros _; apply H|intros N0; exfalso; apply N0, H].
    + intros _ F0. discriminate.
  - destruct H as (H1 & _ & H3). split; [intros _; tauto|]. split; [intros _; tauto|]. split; [congruence|].
    intros _ _. split; [reflexivity|]. eexists _, _, _. exact H3.
Qed.
End Posix.

(* RENAME succeeds iff be_rename's rules allow it; then the tree is be_rename's *)
Theorem posix_rename s c h1 n1 h2 n2 d1 d2 da1 da2 : Good s -> ro (conf s) = false -> vname n1 -> vname n2 ->
  lookup_node s h1 = Some (d1, da1) -> lookup_node s h2 = Some (d2, da2) -> na_kind da1 = KDir -> na_kind da2 = KDir ->
  kd (fs s) d1 = true -> kd (fs s) d2 = true -> sanitize_ok d1 n1 = true -> sanitize_ok d2 n2 = true ->
  let so := step s c (RRename h1 n1 h2 n2) in let op := d1 ++ [n1] in let np := d2 ++ [n2] in
  (ob_status (snd so) = 0 <-> rename_ok (fs s) op np = true) /\
  (ob_status (snd so) = 0 -> fs (fst so) = if path_eqb op np then fs s else renamed (fs s) op np (now s)) /\
  (ob_status (snd so) <> 0 -> fs (fst so) = fs s).
Proof.
  intros G RO V1 V2 L1 L2 K1 K2 KD1 KD2 S1 S2. cbv zeta. unfold step. cbn [garbage_reply].
  rewrite (vname_str_ok n1 V1), (vname_str_ok n2 V2). cbn [andb].
  apply kd_true in KD1, KD2. destruct KD1 as [o1 [Go1 _]]. destruct KD2 as [o2 [Go2 _]].
  pose proof (Good_clear s G) as G0.
  destruct (handle_rename_fwd (clear_log s) h1 h2 n1 n2 d1 d2 da1 da2 o1 o2 G0 RO V1 V2 L1 L2 K1 K2 Go1 Go2 S1 S2) as [_ H].
  change (fs (clear_log s)) with (fs s) in *. change (now (clear_log s)) with (now s) in *.
  assert (NP1 : nodd (d1 ++ [n1])).
  { apply gpath_nodd. apply gpath_app; [apply lookup_node_get in L1; exact (g_hok s G h1 d1 L1)|apply vname_gcomp; exact V1]. }
  assert (NP2 : nodd (d2 ++ [n2])).
  { apply gpath_nodd. apply gpath_app; [apply lookup_node_get in L2; exact (g_hok s G h2 d2 L2)|apply vname_gcomp; exact V2]. }
  destruct (be_rename_spec (fs s) (d1 ++ [n1]) (d2 ++ [n2]) (now s) (g_wf s G) (g_nl s G) NP1 NP2) as [e S]. rewrite S in *.
  destruct (rename_ok (fs s) (d1 ++ [n1]) (d2 ++ [n2])); cbn [fst snd] in *.
  - destruct H as [H1 H2]. split; [tauto|]. split; [intros _; exact H2|congruence].
  - destruct H as [H1 H2]. rewrite H1. split; [split; [intros F0; exfalso; exact (map_error_nonzero e F0)|discriminate]|].
    split; [intros F0; exfalso; exact (map_error_nonzero e F0)|intros _; exact H2].
Qed.

(* ---------- the C04 corollary: the object block of LOOKUP / MKDIR / CREATE replies ---------- *)
Definition block_ok (f : fsmap) (p : path) (fa : fattr) : Prop :=
  exists x, fs_get f p = Some x /\ be_stat f p false = Ok (info_of x) /\
            fa_type fa = ftype_of (o_kind x) /\ fa_fileid fa = fileid_of p /\ fa_size fa = stat_size x /\ fa_perm fa = o_perm x.
Lemma attr_ok_block f p a : WF f -> nolinks f -> nodd p -> attr_ok f p a -> block_ok f p (fattr_of a).
Proof.
  intros W NL ND [OK1 OK2]. destruct (pk_some_get f p _ OK1) as [x [Gp E]]. exists x. split; [exact Gp|].
  split; [apply (be_stat_present f W NL p x false ND Gp)|]. unfold pko in E. injection E as E1 E2 E3. cbn. rewrite <- E1, <- E2, <- E3. auto.
Qed.

Theorem mkdir_block s c h n sa d da : Good s -> vname n -> lookup_node s h = Some (d, da) -> na_kind da = KDir ->
  ro (conf s) = false -> kd (fs s) d = true -> validate_mode (match s_mode sa with Some m => m | None => 493 end) = st_ok ->
  let so := step s c (RMkdir h n sa) in
  ob_status (snd so) = 0 -> exists a rest, ob_attrs (snd so) = Some (fattr_of a) :: rest /\ block_ok (fs (fst so)) (d ++ [n]) (fattr_of a).
Proof.
  intros G V L K RO KD VM. cbv zeta. unfold step. cbn [garbage_reply]. rewrite (vname_str_ok n V). intros ST.
  apply kd_true in KD. destruct KD as [o [Go _]]. pose proof (Good_clear s G) as G0.
  destruct (handle_mkdir_fwd (clear_log s) c h n sa d da o G0 RO V VM L K Go) as [G1 H].
  destruct (snd (be_mkdir _ _ _ _)) as [[]|e].
  - destruct H as (u & g & a & rest & _ & _ & A & OK). exists a, rest. split; [exact A|].
    apply attr_ok_block; [exact (g_wf _ G1)|exact (g_nl _ G1)| |exact OK].
    apply gpath_nodd. apply gpath_app; [apply lookup_node_get in L; exact (g_hok s G h d L)|apply vname_gcomp; exact V].
  - destruct H as [H _]. rewrite H in ST. exfalso. exact (map_error_nonzero e ST).
Qed.
Theorem create_block s c h n how sa d da : Good s -> vname n -> lookup_node s h = Some (d, da) -> na_kind da = KDir ->
  ro (conf s) = false -> kd (fs s) d = true ->
  validate_mode (if (how =? 0) || (how =? 1) then match s_mode sa with Some m => m | None => 420 end else 420) = st_ok ->
  let so := step s c (RCreate h n how sa) in
  ob_status (snd so) = 0 -> exists a rest, ob_attrs (snd so) = Some (fattr_of a) :: rest /\ block_ok (fs (fst so)) (d ++ [n]) (fattr_of a).
Proof.
  intros G V L K RO KD VM. cbv zeta. unfold step. cbn [garbage_reply]. rewrite (vname_str_ok n V). intros ST.
  apply kd_true in KD. destruct KD as [o [Go _]]. pose proof (Good_clear s G) as G0.
  destruct (handle_create_fwd (clear_log s) c h n how sa d da o G0 RO V VM L K Go) as [G1 H].
  assert (ND : nodd (d ++ [n])).
  { apply gpath_nodd. apply gpath_app; [apply lookup_node_get in L; exact (g_hok s G h d L)|apply vname_gcomp; exact V]. }
  assert (X : create_ok_block (clear_log s) c h n how sa d ->
              exists a rest, ob_attrs (snd (handle_create (clear_log s) c h n how sa)) = Some (fattr_of a) :: rest /\
                             block_ok (fs (fst (handle_create (clear_log s) c h n how sa))) (d ++ [n]) (fattr_of a)).
  { intros (a & rest & A & OK). exists a, rest. split; [exact A|]. apply attr_ok_block; [exact (g_wf _ G1)|exact (g_nl _ G1)|exact ND|exact OK]. }
  assert (NZ1 : NFSERR_EXIST <> 0) by (vm_compute; discriminate). assert (NZ2 : NFSERR_FBIG <> 0) by (vm_compute; discriminate).
  destruct (fs_get (fs (clear_log s)) (d ++ [n])) as [x|].
  - destruct (how =? 2); [apply X, H|].
    destruct ((how =? 1) || negb (kind_eqb (o_kind x) KFile)); [destruct H as [H _]; rewrite H in ST; exfalso; exact (NZ1 ST)|].
    destruct (if (how =? 0) || (how =? 1) then s_size sa else None) as [sz|]; [|apply X, H].
    destruct (two63N <=? sz); [apply X, H|].
    destruct ((0 <? maxfile (conf (clear_log s))) && (maxfile (conf (clear_log s)) <? sz)); [destruct H as [H _]; rewrite H in ST; exfalso; exact (NZ2 ST)|apply X, H].
  - destruct (sanitize_ok d n); [|destruct H as [H _]; rewrite H in ST; exfalso; exact (map_error_nonzero _ ST)].
    destruct (snd (be_create _ _ _)); [apply X, H|destruct H as [H _]; rewrite H in ST; exfalso; exact (map_error_nonzero _ ST)].
Qed.

(* ====================================================================================================== *)
(* 12. reachable states, concrete histories, and the necessity of the side condition                      *)
(* ====================================================================================================== *)
Lemma Good_hfinal : forall l s, Good s -> c02_hist l -> Good (hfinal s l).
Proof.
  induction l as [|x r IH]; intros s G HL; [exact G|]. inversion HL as [|? ? OK HL']; subst. cbn [hfinal fold_left].
  apply IH; [|exact HL'].
  assert (HS : SIM s s) by (split; [apply sim_refl|split; exact G]).
  destruct (hrun1_rel s s x HS OK) as [(_ & B & _) _]. exact B.
Qed.
Definition c02_hist_b (l : list hstep) : bool := forallb (fun x => c02_req (hs_req x)) l.
Lemma c02_hist_b_spec l : c02_hist_b l = true -> c02_hist l.
Proof. intros H. apply Forall_forall. intros x Hx. exact (proj1 (forallb_forall _ _) H x Hx). Qed.

(* the statement WITHOUT the side condition: SYMLINK allowed (NOT provable: refuted below) *)
Definition transparent_unrestricted_statement : Prop :=
  forall cfg_ mx t0 l,
    (forall x, In x l -> match hs_req x with RSetattr _ _ _ => False | _ => True end) ->
    let s := srv_init_fs fs_init cfg_ mx t0 in Forall2 same_step (hrun s l) (hrun_ref s l).

Definition ex_cfg2 : cfg :=
  {| tsize := 65536; ro := false; maxfile := 0; attr_ttl := 5000; attr_cap := 100; neg_on := true; neg_ttl := 5000;
     dir_on := true; dir_ttl := 5000; dir_cap := 10; dir_maxsize := 100 |}.
Definition ex_cred2 : cred := {| c_uid := 0; c_gid := 0; c_aux := [] |}.
Definition ex_sattr2 : sattr :=
  {| s_mode := Some 493; s_uid := None; s_gid := None; s_size := None; s_atime := 0; s_atime_v := 0; s_mtime := 0; s_mtime_v := 0 |}.
Definition ex_steps (rs : list req) : list hstep := map (fun r => {| hs_adv := 1; hs_cred := ex_cred2; hs_req := r |}) rs.
Definition ex_init : srv := srv_init_fs fs_init ex_cfg2 0 100.

(* why [nolinks] is needed even though MNT refuses paths through a symbolic link: a STALE handle's path can come to
   pass through a link.  MNT "/" (h1); MKDIR e (h2); MKDIR e/s (h3); MKDIR d (h4); MKDIR d/s (h5); RMDIR d/s; RMDIR d;
   SYMLINK d -> "e"; LOOKUP h5 "a" (NOENT, resolved through the link, cached under [d;s;a]); CREATE h3 "a" (invalidates
   [e;s;a] only); LOOKUP h5 "a": cached run NOENT, cache-free run OK. *)
Definition alias_hist : list hstep :=
  ex_steps [RMnt [47]; RMkdir 1 [101] ex_sattr2; RMkdir 2 [115] ex_sattr2; RMkdir 1 [100] ex_sattr2; RMkdir 4 [115] ex_sattr2;
            RRmdir 4 [115]; RRmdir 1 [100]; RSymlink 1 [100] ex_sattr2 [101];
            RLookup 5 [97]; RCreate 3 [97] 0 ex_sattr2; RLookup 5 [97]].
Lemma Forall2_nth_status (l l' : list (srv * obs)) k :
  Forall2 same_step l l' -> ob_status (snd (nth k l (ex_init, ob_fail 0))) = ob_status (snd (nth k l' (ex_init, ob_fail 0))).
Proof.
  intros H. revert k. induction H as [|a b r r' [HP _] _ IH]; intros k; [reflexivity|].
  destruct k as [|k]; cbn [nth]; [|apply IH]. unfold proj in HP. congruence.
Qed.
Theorem transparent_unrestricted_refuted : ~ transparent_unrestricted_statement.
Proof.
  intros H. specialize (H ex_cfg2 0%Z 100 alias_hist).
  assert (A : forall x, In x alias_hist -> match hs_req x with RSetattr _ _ _ => False | _ => True end).
  { intros x Hx. unfold alias_hist, ex_steps in Hx. apply in_map_iff in Hx. destruct Hx as [r [<- Hr]]. cbn [hs_req].
    cbn in Hr. repeat (destruct Hr as [<-|Hr]; [exact I|]). destruct Hr. }
  specialize (H A). cbv zeta in H. apply (Forall2_nth_status _ _ 10) in H. vm_compute in H. discriminate H.
Qed.

(* a concrete Good state with warm caches: MNT "/", MKDIR d, CREATE d/f, LOOKUP d/nope (negative entry),
   READDIR d (cached listing), GETATTR d/f *)
Definition warm_hist : list hstep :=
  ex_steps [RMnt [47]; RMkdir 1 [100] ex_sattr2; RCreate 2 [102] 0 ex_sattr2; RLookup 2 [110; 111; 112; 101];
            RReaddir 2 0 4096; RGetattr 3].
Definition warm_state : srv := hfinal ex_init warm_hist.
Lemma Good_ex_init : Good ex_init.
Proof. apply Good_init; [apply WF_init|apply nolinks_init]. Qed.
Lemma warm_state_good : Good warm_state.
Proof. apply Good_hfinal; [exact Good_ex_init|apply c02_hist_b_spec; vm_compute; reflexivity]. Qed.
Lemma warm_state_warm :
  existsb (fun e => match ac_attrs e with None => true | Some _ => false end) (ac warm_state) = true /\
  existsb (fun e => match ac_attrs e with None => false | Some _ => true end) (ac warm_state) = true /\
  map dc_path (dc warm_state) = [[[100]]] /\ map dc_names (dc warm_state) = [[[102]]].
Proof. vm_compute. auto. Qed.

(* the two histories that exposed stale negative entries before REMOVE/RMDIR/CREATE/MKDIR were given tree
   invalidations: now both runs agree (also a consequence of transparent_hist) *)
Definition neg_hist1 : list hstep :=
  ex_steps [RMnt [47]; RMkdir 1 [97] ex_sattr2; RMkdir 2 [98] ex_sattr2; RLookup 3 [99]; RRmdir 2 [98]; RRmdir 1 [97];
            RCreate 1 [97] 0 ex_sattr2; RLookup 3 [99]].
Definition neg_hist2 : list hstep :=
  ex_steps [RMnt [47]; RMkdir 1 [97] ex_sattr2; RMkdir 2 [98] ex_sattr2; RLookup 3 [99]; RRmdir 2 [98]; RRmdir 1 [97];
            RLookup 3 [99]; RCreate 1 [97] 0 ex_sattr2; RLookup 3 [99]].
Definition statuses_of (l : list (srv * obs)) : list N := map (fun so => ob_status (snd so)) l.
Lemma neg_hists_agree :
  map (fun so => proj (snd so)) (hrun ex_init neg_hist1) = map (fun so => proj (snd so)) (hrun_ref ex_init neg_hist1) /\
  map (fun so => proj (snd so)) (hrun ex_init neg_hist2) = map (fun so => proj (snd so)) (hrun_ref ex_init neg_hist2) /\
  statuses_of (hrun ex_init neg_hist2) = [0; 0; 0; 2; 0; 0; 2; 0; 20].
Proof. vm_compute. auto. Qed.

(* ====================================================================================================== *)
(* 13. GETATTR and READDIR against the tree                                                              *)
(* ====================================================================================================== *)
(* GETATTR succeeds iff the handle's path is present; READDIR iff it is a directory *)
Theorem posix_getattr s c h p a : Good s -> lookup_node s h = Some (p, a) ->
  let so := step s c (RGetattr h) in
  (ob_status (snd so) = 0 <-> fs_get (fs s) p <> None) /\ fs (fst so) = fs s.
Proof.
  intros G L. cbv zeta. unfold step. cbn [garbage_reply]. pose proof (Good_clear s G) as G0.
  split; [|apply (proj1 (handle_getattr_ro (clear_log s) h))].
  unfold handle_getattr. rewrite lookup_node_clear, L.
  assert (ND : nodd p) by (apply gpath_nodd; apply lookup_node_get in L; exact (g_hok s G h p L)).
  change (fs s) with (fs (clear_log s)).
  destruct (fs_get (fs (clear_log s)) p) as [o|] eqn:Gp.
  - destruct (getattr_h_ok (clear_log s) h p o G0 ND Gp) as (s1 & x & E & _). rewrite E. cbn. split; [discriminate|reflexivity].
  - destruct (getattr_h_absent (clear_log s) h p G0 ND Gp) as (s1 & e & E & _). rewrite E. cbn [snd ob_fail ob_status].
    split; [intros F; exfalso; exact (map_error_nonzero e F)|congruence].
Qed.
Theorem posix_readdir s c h ck cnt d da : Good s -> lookup_node s h = Some (d, da) -> na_kind da = KDir ->
  let so := step s c (RReaddir h ck cnt) in
  (ob_status (snd so) = 0 <-> kd (fs s) d = true) /\ fs (fst so) = fs s.
Proof.
  intros G L K. cbv zeta. unfold step. cbn [garbage_reply]. pose proof (Good_clear s G) as G0.
  split; [|apply (proj1 (handle_readdir_ro (clear_log s) h ck cnt))].
  unfold handle_readdir. rewrite lookup_node_clear, L, K. cbn [kind_eqb negb].
  assert (GD : gpath d) by (apply lookup_node_get in L; exact (g_hok s G h d L)). pose proof (gpath_nodd d GD) as ND.
  destruct (srv_readdir_spec (clear_log s) d G0 GD) as (C1 & G1 & R). change (fs (clear_log s)) with (fs s) in *.
  destruct (srv_readdir (clear_log s) d) as [s1 r]. cbn [fst snd] in *. unfold readdir_res in R.
  destruct (kd (fs s) d) eqn:KD.
  - rewrite (rd_names_dir (fs s) d (g_wf s G) (g_nl s G) ND KD) in R. destruct R as (l & -> & _).
    apply kd_true in KD. destruct KD as [o [Go _]]. destruct C1 as (F1 & _).
    destruct (getattr_h_ok s1 h d o G1 ND) as (s2 & x & E & _); [rewrite F1; exact Go|]. rewrite E.
    destruct (page false cnt 0 ck 0 dir_header_len l) as [pg lim]. cbn. split; auto.
  - assert (X : exists e, rd_names (fs s) d = Err e).
    { unfold rd_names. destruct (be_open_spec (fs s) (g_wf s G) (g_nl s G) d false ND) as [e S]. rewrite S.
      destruct (fs_get (fs s) d) as [o|] eqn:Go; [|exists e; reflexivity]. rewrite andb_false_r.
      destruct (be_readdir_notdir (fs s) d KD) as [e2 E2]. rewrite E2. exists e2. reflexivity. }
    destruct X as [e X]. rewrite X in R. subst r. cbn [snd fail_post ob_mk ob_status].
    split; [intros F; exfalso; exact (map_error_nonzero e F)|discriminate].
Qed.
