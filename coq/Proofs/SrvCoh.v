(* Proofs/SrvCoh.v — property C02 on the server model (Model/Srv.v): the cache coherence invariant [Coh],
   its preservation by every request, and cache transparency (a cached and a cache-free run give the same
   projected replies and the same tree), plus the POSIX characterisations and the C04 corollary.

   Side condition (the aliasing caveat of C02): [nolinks (fs s)] — the backend tree holds no symbolic link.
   It is an invariant of every history without SYMLINK requests (proved here), and it is what makes the
   path-keyed caches coherent: with a symlink to a directory two paths alias one object.  All handle paths
   are ".."-free ([HOK] of Proofs/SrvPaths.v), so resolution has the closed form of Proofs/BackendWF.v. *)
From Coq Require Import List NArith ZArith Bool Lia.
From Verif Require Import Gen.Facts Model.Handles Model.Backend Model.Srv Proofs.BackendWF Proofs.SrvPaths.
Import ListNotations.
Open Scope N_scope.

Ltac sproj :=
  cbn [fs hm nodes ac dc conf now blog with_fs with_hm with_nodes with_ac with_dc with_conf with_now logc clear_log] in *.

(* ====================================================================================================== *)
(* 1. the invariant                                                                                       *)
(* ====================================================================================================== *)
(* the fields of an attribute record the caches must get right (times, uid, gid are not compared) *)
Definition pn (a : nattrs) : kind * N * N * N := (na_kind a, na_perm a, na_size a, na_fileid a).
(* "a is a correct description of the object at p" *)
Definition attr_ok (f : fsmap) (p : path) (a : nattrs) : Prop :=
  pk f p = Some (na_kind a, na_perm a, na_size a) /\ na_fileid a = fileid_of p.
Definition ac_ok (f : fsmap) (e : acentry) : Prop :=
  match ac_attrs e with
  | Some a => attr_ok f (ac_path e) a
  | None => noent f (ac_path e)
  end.
Definition dc_ok (f : fsmap) (e : dcentry) : Prop :=
  kd f (dc_path e) = true /\ dc_names e = listing f (dc_path e).
(* the directory cache is consulted (and invalidated) only when it is switched on *)
Definition Coh (s : srv) : Prop :=
  Forall (ac_ok (fs s)) (ac s) /\ (dir_on (conf s) = true -> Forall (dc_ok (fs s)) (dc s)).

Record Good (s : srv) : Prop := { g_wf : WF (fs s); g_nl : nolinks (fs s); g_hok : HOK s; g_coh : Coh s }.

(* s' differs from s in the caches and the call log only *)
Definition core (s s' : srv) : Prop :=
  fs s' = fs s /\ hm s' = hm s /\ nodes s' = nodes s /\ conf s' = conf s /\ now s' = now s.
Lemma core_refl s : core s s. Proof. repeat split. Qed.
Lemma core_trans a b c : core a b -> core b c -> core a c.
Proof. unfold core. intros (A1 & A2 & A3 & A4 & A5) (B1 & B2 & B3 & B4 & B5). repeat split; congruence. Qed.
Lemma Good_core s s' : core s s' -> Good s -> Coh s' -> Good s'.
Proof.
  intros (A1 & A2 & _) G C. destruct G as [W NL H _]. split; [rewrite A1; exact W|rewrite A1; exact NL| |exact C].
  unfold HOK in *. rewrite A2. exact H.
Qed.

Lemma gcomp_nodd c : gcomp c -> is_dotdot c = false.
Proof. intros (_ & _ & _ & H). apply is_dotdot_false. exact H. Qed.
Lemma gpath_nodd p : gpath p -> nodd p.
Proof. unfold gpath, nodd. apply Forall_impl. intros c. apply gcomp_nodd. Qed.

Lemma Forall_sub {A} (P : A -> Prop) l l' : (forall x, In x l' -> In x l) -> Forall P l -> Forall P l'.
Proof. intros H F. apply Forall_forall. intros x I. exact (proj1 (Forall_forall P l) F x (H x I)). Qed.
Lemma In_removelast {A} (l : list A) x : In x (removelast l) -> In x l.
Proof.
  induction l as [|y r IH]; cbn [removelast]; [tauto|]. destruct r as [|z r']; [intros []|].
  intros [<-|H]; [left; reflexivity|right; apply IH; exact H].
Qed.
Lemma In_filter_sub {A} (f : A -> bool) l x : In x (filter f l) -> In x l.
Proof. intros H. apply filter_In in H. tauto. Qed.

(* ---------- the cache primitives ---------- *)
Lemma ac_find_some l p e : ac_find l p = Some e -> In e l /\ ac_path e = p.
Proof. unfold ac_find. intros H. apply find_some in H. destruct H as [A B]. apply peqb_eq in B. auto. Qed.
Lemma dc_find_some l p e : dc_find l p = Some e -> In e l /\ dc_path e = p.
Proof. unfold dc_find. intros H. apply find_some in H. destruct H as [A B]. apply peqb_eq in B. auto. Qed.

Lemma Coh_with_ac s a : Forall (ac_ok (fs s)) a -> Coh s -> Coh (with_ac s a).
Proof. intros H [_ D]. split; assumption. Qed.
Lemma Coh_with_dc s d : (dir_on (conf s) = true -> Forall (dc_ok (fs s)) d) -> Coh s -> Coh (with_dc s d).
Proof. intros H [A _]. split; assumption. Qed.
Lemma Coh_logc s c : Coh s -> Coh (logc s c). Proof. intros H. exact H. Qed.

Lemma ac_get_spec s p : Coh s ->
  core s (fst (ac_get s p)) /\ Coh (fst (ac_get s p)) /\
  match snd (ac_get s p) with
  | Some (Some a) => attr_ok (fs s) p a
  | Some None => noent (fs s) p
  | None => True
  end.
Proof.
  intros C. unfold ac_get. destruct (ac_find (ac s) p) as [e|] eqn:F; [|cbn; auto using core_refl].
  apply ac_find_some in F. destruct F as [Hin E].
  assert (OK : ac_ok (fs s) e) by (exact (proj1 (Forall_forall _ _) (proj1 C) e Hin)).
  assert (S1 : Forall (ac_ok (fs s)) (ac_remove (ac s) p)).
  { eapply Forall_sub; [|exact (proj1 C)]. intros x. apply In_filter_sub. }
  destruct (now s <? ac_expire e).
  - cbn [fst snd]. split; [repeat split|]. split.
    + apply Coh_with_ac; [constructor; assumption|exact C].
    + unfold ac_ok in OK. rewrite E in OK. destruct (ac_attrs e); exact OK.
  - destruct (ac_expire e <? now s); cbn [fst snd]; (split; [repeat split|]); (split; [|exact I]); [|exact C].
    apply Coh_with_ac; assumption.
Qed.
Lemma ac_evict_sub s p x : In x (ac_evict_for s p) -> In x (ac s).
Proof.
  unfold ac_evict_for. destruct (ac_find (ac s) p); [tauto|].
  destruct (attr_cap (conf s) <=? N.of_nat (length (ac s))); [apply In_removelast|tauto].
Qed.
Lemma ac_put_coh s p a : attr_ok (fs s) p a -> Coh s -> Coh (ac_put s p a).
Proof.
  intros OK C. unfold ac_put. apply Coh_with_ac; [|exact C]. constructor; [exact OK|].
  eapply Forall_sub; [|exact (proj1 C)]. intros x H. apply In_filter_sub in H. eapply ac_evict_sub. exact H.
Qed.
Lemma ac_put_negative_coh s p : noent (fs s) p -> Coh s -> Coh (ac_put_negative s p).
Proof.
  intros OK C. unfold ac_put_negative. destruct (neg_on (conf s)); [|exact C]. apply Coh_with_ac; [|exact C].
  constructor; [exact OK|].
  eapply Forall_sub; [|exact (proj1 C)]. intros x H. apply In_filter_sub in H. eapply ac_evict_sub. exact H.
Qed.
Lemma ac_put_core s p a : core s (ac_put s p a). Proof. repeat split. Qed.
Lemma ac_put_negative_core s p : core s (ac_put_negative s p).
Proof. unfold ac_put_negative. destruct (neg_on (conf s)); repeat split. Qed.

Lemma dc_get_spec s p : Coh s -> dir_on (conf s) = true ->
  core s (fst (dc_get s p)) /\ Coh (fst (dc_get s p)) /\
  match snd (dc_get s p) with
  | Some names => kd (fs s) p = true /\ names = listing (fs s) p
  | None => True
  end.
Proof.
  intros C ON. unfold dc_get. destruct (dc_find (dc s) p) as [e|] eqn:F; [|cbn; auto using core_refl].
  apply dc_find_some in F. destruct F as [Hin E]. pose proof (proj2 C ON) as CD.
  assert (OK : dc_ok (fs s) e) by (exact (proj1 (Forall_forall _ _) CD e Hin)).
  assert (S1 : Forall (dc_ok (fs s)) (dc_remove (dc s) p)).
  { eapply Forall_sub; [|exact CD]. intros x. apply In_filter_sub. }
  destruct (dc_expire e <? now s); cbn [fst snd]; (split; [repeat split|]); split; auto.
  - apply Coh_with_dc; [intros _; assumption|exact C].
  - apply Coh_with_dc; [intros _; constructor; assumption|exact C].
  - unfold dc_ok in OK. rewrite E in OK. exact OK.
Qed.
Lemma dc_put_coh s p names : kd (fs s) p = true -> names = listing (fs s) p -> Coh s -> Coh (dc_put s p names).
Proof.
  intros K L C. unfold dc_put. destruct (dir_maxsize (conf s) <? N.of_nat (length names)); [exact C|].
  apply Coh_with_dc; [|exact C]. intros ON. constructor; [split; assumption|].
  eapply Forall_sub; [|exact (proj2 C ON)]. intros x H. apply In_filter_sub in H.
  destruct (dc_find (dc s) p); [exact H|].
  destruct (dir_cap (conf s) <=? N.of_nat (length (dc s))); [apply In_removelast|]; exact H.
Qed.
Lemma dc_put_core s p names : core s (dc_put s p names).
Proof. unfold dc_put. destruct (_ <? _); repeat split. Qed.

(* ====================================================================================================== *)
(* 2. Lookup and GetAttr against the tree                                                                 *)
(* ====================================================================================================== *)
(* what AbsfsNFS.Lookup(p) may answer on tree f *)
Definition lookup_res (f : fsmap) (p : path) (r : res nattrs) : Prop :=
  match r with
  | Ok a => attr_ok f p a
  | Err e => be_stat f p false = Err e
  end.

Lemma attr_ok_info f p o u g : fs_get f p = Some o -> attr_ok f p (attrs_of_info (info_of o) (fileid_of p) u g).
Proof. intros G. unfold attr_ok, pk. rewrite G. split; reflexivity. Qed.

Lemma srv_lookup_spec s p : Good s -> nodd p ->
  core s (fst (srv_lookup s p)) /\ Good (fst (srv_lookup s p)) /\ lookup_res (fs s) p (snd (srv_lookup s p)).
Proof.
  intros G ND. pose proof (ac_get_spec s p (g_coh s G)) as (A1 & A2 & A3).
  unfold srv_lookup. destruct (ac_get s p) as [s1 c]. cbn [fst snd] in *.
  assert (G1 : Good s1) by (eapply Good_core; eassumption).
  pose proof A1 as (F1 & _). destruct c as [[a|]|]; cbn [fst snd].
  - split; [exact A1|]. split; [exact G1|exact A3].
  - split; [exact A1|]. split; [exact G1|]. apply noent_be_stat; [exact (g_nl s G)|exact ND|exact A3].
  - unfold do_lstat. rewrite F1. cbn [fst snd].
    assert (CL : core s (logc s1 (bc BLstat p))) by (eapply core_trans; [exact A1|repeat split]).
    assert (GL : Good (logc s1 (bc BLstat p))) by (eapply Good_core; [exact CL|exact G|exact (g_coh s1 G1)]).
    destruct (be_stat (fs s) p false) as [fi|e] eqn:B; cbn [fst snd].
    + destruct (be_stat_ok_inv (fs s) (g_wf s G) (g_nl s G) p false fi ND B) as [o [Go ->]].
      assert (OK : attr_ok (fs s) p (attrs_of_info (info_of o) (fileid_of p) 0 0)) by (apply attr_ok_info; exact Go).
      split; [eapply core_trans; [exact CL|apply ac_put_core]|]. split; [|exact OK].
      eapply Good_core; [apply ac_put_core|exact GL|]. apply ac_put_coh; [sproj; rewrite F1; exact OK|exact (g_coh _ GL)].
    + assert (X : forall s', s' = logc s1 (bc BLstat p) \/ (e = ENOENT /\ s' = ac_put_negative (logc s1 (bc BLstat p)) p) ->
                  core s s' /\ Good s').
      { intros s' [->|[-> ->]]; [split; assumption|]. split; [eapply core_trans; [exact CL|apply ac_put_negative_core]|].
        eapply Good_core; [apply ac_put_negative_core|exact GL|]. apply ac_put_negative_coh; [|exact (g_coh _ GL)].
        sproj. rewrite F1. eapply be_stat_noent; [exact (g_nl s G)|exact ND|exact B]. }
      assert (Y : core s (match e with ENOENT => ac_put_negative (logc s1 (bc BLstat p)) p | _ => logc s1 (bc BLstat p) end) /\
                  Good (match e with ENOENT => ac_put_negative (logc s1 (bc BLstat p)) p | _ => logc s1 (bc BLstat p) end)).
      { destruct e; apply X; auto. }
      destruct Y as [Y1 Y2]. split; [exact Y1|]. split; [exact Y2|exact B].
Qed.

Lemma srv_getattr_spec s p u g : Good s -> nodd p ->
  core s (fst (srv_getattr s p u g)) /\ Good (fst (srv_getattr s p u g)) /\
  match snd (srv_getattr s p u g) with
  | Ok a => exists o, fs_get (fs s) p = Some o /\ a = attrs_of_info (info_of o) (fileid_of p) u g
  | Err e => be_stat (fs s) p false = Err e
  end.
Proof.
  intros G ND. pose proof (ac_get_spec s p (g_coh s G)) as (A1 & A2 & _).
  unfold srv_getattr. destruct (ac_get s p) as [s1 c]. cbn [fst snd] in *.
  assert (G1 : Good s1) by (eapply Good_core; eassumption).
  pose proof A1 as (F1 & _). unfold do_lstat. rewrite F1. cbn [fst snd].
  assert (CL : core s (logc s1 (bc BLstat p))) by (eapply core_trans; [exact A1|repeat split]).
  assert (GL : Good (logc s1 (bc BLstat p))) by (eapply Good_core; [exact CL|exact G|exact (g_coh s1 G1)]).
  destruct (be_stat (fs s) p false) as [fi|e] eqn:B; cbn [fst snd].
  - destruct (be_stat_ok_inv (fs s) (g_wf s G) (g_nl s G) p false fi ND B) as [o [Go ->]].
    assert (OK : attr_ok (fs s) p (attrs_of_info (info_of o) (fileid_of p) u g)) by (apply attr_ok_info; exact Go).
    split; [eapply core_trans; [exact CL|apply ac_put_core]|]. split; [|exists o; auto].
    eapply Good_core; [apply ac_put_core|exact GL|]. apply ac_put_coh; [sproj; rewrite F1; exact OK|exact (g_coh _ GL)].
  - split; [exact CL|]. split; [exact GL|reflexivity].
Qed.
Lemma getattr_h_spec s h p : Good s -> nodd p ->
  core s (fst (getattr_h s h p)) /\ Good (fst (getattr_h s h p)) /\
  match snd (getattr_h s h p) with
  | Ok a => exists o, fs_get (fs s) p = Some o /\ a = attrs_of_info (info_of o) (fileid_of p) (na_uid a) (na_gid a)
  | Err e => be_stat (fs s) p false = Err e
  end.
Proof.
  intros G ND. unfold getattr_h. destruct (node_get s h) as [n|].
  - pose proof (srv_getattr_spec s p (na_uid n) (na_gid n) G ND) as (A & B & C). split; [exact A|]. split; [exact B|].
    destruct (snd (srv_getattr s p (na_uid n) (na_gid n))) as [a|e]; [|exact C].
    destruct C as [o [C1 C2]]. exists o. split; [exact C1|]. rewrite C2 at 1. rewrite C2. reflexivity.
  - pose proof (srv_getattr_spec s p 0 0 G ND) as (A & B & C). split; [exact A|]. split; [exact B|].
    destruct (snd (srv_getattr s p 0 0)) as [a|e]; [|exact C].
    destruct C as [o [C1 C2]]. exists o. split; [exact C1|]. rewrite C2 at 1. rewrite C2. reflexivity.
Qed.
(* in the form the other lemmas use *)
Definition getattr_res (f : fsmap) (p : path) (r : res nattrs) : Prop :=
  match r with
  | Ok a => exists o, fs_get f p = Some o /\ pn a = (o_kind o, o_perm o, stat_size o, fileid_of p)
  | Err e => be_stat f p false = Err e
  end.
Lemma getattr_h_res s h p : Good s -> nodd p -> getattr_res (fs s) p (snd (getattr_h s h p)).
Proof.
  intros G ND. pose proof (getattr_h_spec s h p G ND) as (_ & _ & C). unfold getattr_res.
  destruct (snd (getattr_h s h p)) as [a|e]; [|exact C]. destruct C as [o [C1 C2]]. exists o. split; [exact C1|].
  rewrite C2. reflexivity.
Qed.

(* ====================================================================================================== *)
(* 3. two runs side by side                                                                               *)
(* ====================================================================================================== *)
Definition pnode (e : N * nattrs) : N * (kind * N * N * N) := (fst e, pn (snd e)).
Record sim (s t : srv) : Prop := {
  sim_fs : fs s = fs t; sim_hm : hm s = hm t; sim_nodes : map pnode (nodes s) = map pnode (nodes t);
  sim_conf : conf s = conf t; sim_now : now s = now t }.
Definition SIM (s t : srv) : Prop := sim s t /\ Good s /\ Good t.

Lemma sim_refl s : sim s s. Proof. split; reflexivity. Qed.
Lemma sim_core s t s' t' : core s s' -> core t t' -> sim s t -> sim s' t'.
Proof.
  intros (A1 & A2 & A3 & A4 & A5) (B1 & B2 & B3 & B4 & B5) [C1 C2 C3 C4 C5]. split; congruence.
Qed.

(* results of Lookup / GetAttr in the two runs *)
Definition rres (r r' : res nattrs) : Prop :=
  match r, r' with
  | Ok a, Ok a' => pn a = pn a'
  | Err e, Err e' => e = e'
  | _, _ => False
  end.
Lemma lookup_res_det f p r r' : WF f -> nolinks f -> nodd p -> lookup_res f p r -> lookup_res f p r' -> rres r r'.
Proof.
  intros W NL ND. destruct r as [a|e], r' as [a'|e']; cbn.
  - intros [A1 A2] [B1 B2]. unfold pn. rewrite A1 in B1. injection B1 as -> -> ->. rewrite A2, B2. reflexivity.
  - intros [A1 _] B. unfold pk in A1. destruct (fs_get f p) as [o|] eqn:G; [|discriminate].
    rewrite (be_stat_present f W NL p o false ND G) in B. discriminate.
  - intros B [A1 _]. unfold pk in A1. destruct (fs_get f p) as [o|] eqn:G; [|discriminate].
    rewrite (be_stat_present f W NL p o false ND G) in B. discriminate.
  - congruence.
Qed.
Lemma getattr_res_det f p r r' : WF f -> nolinks f -> nodd p -> getattr_res f p r -> getattr_res f p r' -> rres r r'.
Proof.
  intros W NL ND. destruct r as [a|e], r' as [a'|e']; cbn.
  - intros [o [A1 A2]] [o' [B1 B2]]. rewrite A1 in B1. injection B1 as <-. congruence.
  - intros [o [G _]] B. rewrite (be_stat_present f W NL p o false ND G) in B. discriminate.
  - intros B [o [G _]]. rewrite (be_stat_present f W NL p o false ND G) in B. discriminate.
  - congruence.
Qed.

Lemma srv_lookup_rel s t p : SIM s t -> nodd p ->
  SIM (fst (srv_lookup s p)) (fst (srv_lookup t p)) /\ rres (snd (srv_lookup s p)) (snd (srv_lookup t p)).
Proof.
  intros (S & G1 & G2) ND.
  destruct (srv_lookup_spec s p G1 ND) as (A1 & A2 & A3). destruct (srv_lookup_spec t p G2 ND) as (B1 & B2 & B3).
  split; [split; [eapply sim_core; eassumption|split; assumption]|].
  rewrite <- (sim_fs s t S) in B3. eapply lookup_res_det; try eassumption; [exact (g_wf s G1)|exact (g_nl s G1)].
Qed.
Lemma getattr_h_rel s t h p : SIM s t -> nodd p ->
  SIM (fst (getattr_h s h p)) (fst (getattr_h t h p)) /\ rres (snd (getattr_h s h p)) (snd (getattr_h t h p)).
Proof.
  intros (S & G1 & G2) ND.
  destruct (getattr_h_spec s h p G1 ND) as (A1 & A2 & _). destruct (getattr_h_spec t h p G2 ND) as (B1 & B2 & _).
  pose proof (getattr_h_res s h p G1 ND) as A3. pose proof (getattr_h_res t h p G2 ND) as B3.
  split; [split; [eapply sim_core; eassumption|split; assumption]|].
  rewrite <- (sim_fs s t S) in B3. eapply getattr_res_det; try eassumption; [exact (g_wf s G1)|exact (g_nl s G1)].
Qed.

(* nodes and handles *)
Lemma cons_pair_inv {A B} (k k' : A) (x y : B) l l' : (k, x) :: l = (k', y) :: l' -> k = k' /\ x = y /\ l = l'.
Proof. intros H. injection H. auto. Qed.
Lemma find_pnode h : forall l l', map pnode l = map pnode l' ->
  match find (fun e : N * nattrs => fst e =? h) l, find (fun e : N * nattrs => fst e =? h) l' with
  | Some e, Some e' => pn (snd e) = pn (snd e')
  | None, None => True
  | _, _ => False
  end.
Proof.
  induction l as [|[k a] r IH]; intros [|[k' a'] r']; cbn [map find fst]; try discriminate; [tauto|].
  intros H. apply (cons_pair_inv k k' (pn a) (pn a')) in H. destruct H as (-> & H1 & H2).
  destruct (k' =? h); [cbn; exact H1|apply IH; exact H2].
Qed.
Lemma node_get_rel s t h : sim s t ->
  match node_get s h, node_get t h with
  | Some a, Some a' => pn a = pn a'
  | None, None => True
  | _, _ => False
  end.
Proof.
  intros S. unfold node_get. pose proof (find_pnode h _ _ (sim_nodes s t S)) as H.
  destruct (find _ (nodes s)), (find _ (nodes t)); exact H.
Qed.
Lemma lookup_node_rel s t h : sim s t ->
  match lookup_node s h, lookup_node t h with
  | Some (p, a), Some (p', a') => p = p' /\ pn a = pn a'
  | None, None => True
  | _, _ => False
  end.
Proof.
  intros S. unfold lookup_node. rewrite <- (sim_hm s t S). destruct (get (hm s) h) as [p|]; [|exact I].
  pose proof (node_get_rel s t h S) as H. destruct (node_get s h), (node_get t h); try exact H. split; [reflexivity|exact H].
Qed.
Lemma filter_pnode h l : map pnode (filter (fun e : N * nattrs => negb (fst e =? h)) l) =
  filter (fun e => negb (fst e =? h)) (map pnode l).
Proof.
  induction l as [|[k a] r IH]; cbn [filter map pnode fst]; [reflexivity|].
  destruct (negb (k =? h)); cbn [map]; rewrite IH; reflexivity.
Qed.
Lemma node_set_sim s t h a a' : sim s t -> pn a = pn a' -> sim (node_set s h a) (node_set t h a').
Proof.
  intros [C1 C2 C3 C4 C5] E. split; sproj; try assumption. unfold node_set. sproj. cbn [map].
  rewrite !filter_pnode, C3. unfold pnode at 1 3. cbn [fst snd]. rewrite E. reflexivity.
Qed.
Lemma HOK_alloc s p a : HOK s -> gpath p -> HOK (fst (alloc s p a)).
Proof.
  intros H GP. destruct (alloc_T gpath s p a GP) as [_ TH].
  intros h q Q. destruct (TH h q Q) as [Q0|Q0]; [exact (H h q Q0)|exact Q0].
Qed.
Lemma alloc_parts s p a :
  fs (fst (alloc s p a)) = fs s /\ ac (fst (alloc s p a)) = ac s /\ dc (fst (alloc s p a)) = dc s /\
  conf (fst (alloc s p a)) = conf s /\ now (fst (alloc s p a)) = now s.
Proof. unfold alloc. destruct (allocate path_eqb (hm s) p) as [m h]. cbn. auto. Qed.
Lemma Good_alloc s p a : Good s -> gpath p -> Good (fst (alloc s p a)).
Proof.
  intros [W NL H C] GP. destruct (alloc_parts s p a) as (A1 & A2 & A3 & A4 & _). split.
  - rewrite A1. exact W.
  - rewrite A1. exact NL.
  - apply HOK_alloc; assumption.
  - unfold Coh. rewrite A1, A2, A3, A4. exact C.
Qed.
Lemma alloc_rel s t p a a' : SIM s t -> gpath p -> pn a = pn a' ->
  SIM (fst (alloc s p a)) (fst (alloc t p a')) /\ snd (alloc s p a) = snd (alloc t p a').
Proof.
  intros (S & G1 & G2) GP E.
  split; [split; [|split; apply Good_alloc; assumption]|].
  - unfold alloc. rewrite <- (sim_hm s t S). destruct (allocate path_eqb (hm s) p) as [m h]. cbn [fst].
    apply node_set_sim; [|exact E]. destruct S as [C1 C2 C3 C4 C5]. split; sproj; auto.
  - unfold alloc. rewrite <- (sim_hm s t S). destruct (allocate path_eqb (hm s) p) as [m h]. reflexivity.
Qed.

(* ====================================================================================================== *)
(* 4. the reply projection and the lockstep machinery                                                     *)
(* ====================================================================================================== *)
Definition pfa (fa : fattr) : N * N * N * N * N := (fa_type fa, fa_perm fa, fa_nlink fa, fa_size fa, fa_fileid fa).
Definition pde (e : dentry) := (de_fileid e, de_name e, de_cookie e, option_map pfa (de_attr e), de_fh e).
(* everything of a reply except times, uid, gid (and the wcc / procedure-specific numbers built from them) *)
Definition proj (o : obs) :=
  (ob_rpc o, ob_status o, ob_fh o, map (option_map pfa) (ob_attrs o), ob_bytes o, map pde (ob_entries o), ob_eof o).
Definition HREL (x y : srv * obs) : Prop := SIM (fst x) (fst y) /\ proj (snd x) = proj (snd y).

Lemma pn_kind a a' : pn a = pn a' -> na_kind a = na_kind a'.
Proof. unfold pn. congruence. Qed.
Lemma pn_size a a' : pn a = pn a' -> na_size a = na_size a'.
Proof. unfold pn. congruence. Qed.
Lemma pn_fileid a a' : pn a = pn a' -> na_fileid a = na_fileid a'.
Proof. unfold pn. congruence. Qed.
Lemma pfa_pn a a' : pn a = pn a' -> pfa (fattr_of a) = pfa (fattr_of a').
Proof. unfold pn, pfa, fattr_of. cbn. intros [= -> -> -> ->]. reflexivity. Qed.

Lemma SIM_gpath s t h p a : SIM s t -> lookup_node s h = Some (p, a) -> gpath p.
Proof. intros (_ & G & _) L. apply lookup_node_get in L. exact (g_hok s G h p L). Qed.
Lemma vname_nodd n : vname n -> is_dotdot n = false.
Proof. intros V. apply gcomp_nodd. apply vname_gcomp. exact V. Qed.

(* side conditions *)
Ltac nd :=
  first [ assumption
        | apply gpath_nodd; assumption
        | apply gpath_nodd; apply gpath_app; [assumption|first [apply vname_gcomp; assumption|apply name_sane_gcomp; assumption]]
        | apply gpath_app; [assumption|first [apply vname_gcomp; assumption|apply name_sane_gcomp; assumption]] ].

Ltac obs_cbn :=
  cbn [snd]; unfold proj, fail_post, fail_wcc, fail_wcc2, ob_fail, ob_mk, sf;
  cbn [ob_rpc ob_status ob_fh ob_attrs ob_bytes ob_entries ob_eof map option_map].
Ltac leaf :=
  split; [cbn [fst]; first [assumption|tauto]
         |obs_cbn;
          repeat match goal with R : pn ?a = pn ?b |- _ => try rewrite (pfa_pn a b R); clear R end; reflexivity].

(* the handle lookup at the head of a handler *)
Ltac lnode :=
  match goal with
  | HS : SIM ?s ?t |- context [lookup_node ?s ?h] =>
    let L := fresh "L" in let Ls := fresh "Ls" in let Lt := fresh "Lt" in
    pose proof (lookup_node_rel s t h (proj1 HS)) as L;
    destruct (lookup_node s h) as [[? ?]|] eqn:Ls; destruct (lookup_node t h) as [[? ?]|] eqn:Lt; try contradiction;
    [destruct L as [<- L]; pose proof (SIM_gpath _ _ _ _ _ HS Ls)|]
  end.
(* one Lookup / GetAttr / Allocate on both sides *)
Ltac lock :=
  match goal with
  | HS : SIM ?s ?t |- context [getattr_h ?s ?h ?p] =>
    let R := fresh "R" in
    assert (R := getattr_h_rel s t h p HS ltac:(nd));
    destruct (getattr_h s h p) as [? [?|?]]; destruct (getattr_h t h p) as [? [?|?]];
    cbn [fst snd rres] in R; destruct R as [? R]; try contradiction; clear HS;
    try (match type of R with ?x = ?y => is_var y; subst y end)
  | HS : SIM ?s ?t |- context [srv_lookup ?s ?p] =>
    let R := fresh "R" in
    assert (R := srv_lookup_rel s t p HS ltac:(nd));
    destruct (srv_lookup s p) as [? [?|?]]; destruct (srv_lookup t p) as [? [?|?]];
    cbn [fst snd rres] in R; destruct R as [? R]; try contradiction; clear HS;
    try (match type of R with ?x = ?y => is_var y; subst y end)
  end.
Ltac lock_alloc :=
  match goal with
  | HS : SIM ?s ?t, E : pn ?a = pn ?a' |- context [alloc ?s ?p ?a] =>
    let R := fresh "R" in
    assert (R := alloc_rel s t p a a' HS ltac:(nd) E);
    destruct (alloc s p a) as [? ?]; destruct (alloc t p a') as [? ?];
    cbn [fst snd] in R; destruct R as [? R]; try subst; clear HS
  end.
Ltac kindeq :=
  repeat match goal with
  | L : pn ?a = pn ?a' |- context [na_kind ?a'] => rewrite <- (pn_kind a a' L)
  end.

Lemma handle_getattr_rel s t h : SIM s t -> HREL (handle_getattr s h) (handle_getattr t h).
Proof. intros HS. unfold handle_getattr. lnode; [lock|]; leaf. Qed.
Lemma handle_access_rel s t c h m : SIM s t -> HREL (handle_access s c h m) (handle_access t c h m).
Proof. intros HS. unfold handle_access. lnode; [lock|]; leaf. Qed.
Lemma handle_fsx_rel s t h f : SIM s t -> HREL (handle_fsx s h f) (handle_fsx t h f).
Proof. intros HS. unfold handle_fsx. lnode; [lock|]; leaf. Qed.
Lemma current_attrs_rel s t h p : SIM s t -> nodd p ->
  SIM (fst (current_attrs s h p)) (fst (current_attrs t h p)) /\
  option_map pfa (snd (current_attrs s h p)) = option_map pfa (snd (current_attrs t h p)).
Proof.
  intros HS ND. unfold current_attrs. lock; cbn [fst snd]; (split; [assumption|]); [|reflexivity].
  cbn [sf option_map]. rewrite (pfa_pn _ _ R). reflexivity.
Qed.

Lemma Good_logc s c : Good s -> Good (logc s c).
Proof. intros G. eapply Good_core; [|exact G|exact (g_coh s G)]. repeat split. Qed.
Lemma SIM_logc s t c c' : SIM s t -> SIM (logc s c) (logc t c').
Proof.
  intros (S & G1 & G2). split; [|split; apply Good_logc; assumption].
  destruct S as [C1 C2 C3 C4 C5]. split; sproj; assumption.
Qed.
Lemma Good_clear s : Good s -> Good (clear_log s).
Proof. intros G. eapply Good_core; [|exact G|exact (g_coh s G)]. repeat split. Qed.
Lemma SIM_clear s t : SIM s t -> SIM (clear_log s) (clear_log t).
Proof.
  intros (S & G1 & G2). split; [|split; apply Good_clear; assumption].
  destruct S as [C1 C2 C3 C4 C5]. split; sproj; assumption.
Qed.

Lemma failed_reply_rel s t h d st_ a a' : SIM s t -> nodd d -> pn a = pn a' ->
  HREL (failed_reply s h d st_ a) (failed_reply t h d st_ a').
Proof. intros HS ND E. unfold failed_reply. lock; leaf. Qed.
Lemma created_reply_rel s t h d p a a' dp dp' : SIM s t -> nodd d -> gpath p -> pn a = pn a' -> pn dp = pn dp' ->
  HREL (created_reply s h d p a dp) (created_reply t h d p a' dp').
Proof. intros HS ND GP E E'. unfold created_reply. lock; [lock_alloc|]; leaf. Qed.

Lemma handle_commit_rel s t h : SIM s t -> HREL (handle_commit s h) (handle_commit t h).
Proof.
  intros HS. unfold handle_commit. rewrite <- (sim_conf s t (proj1 HS)). destruct (ro (conf s)); [leaf|].
  lnode; [lock|]; leaf.
Qed.
Lemma handle_lookup_rel s t h n : SIM s t -> HREL (handle_lookup s h n) (handle_lookup t h n).
Proof.
  intros HS. unfold handle_lookup. destruct (negb (validate_name n =? st_ok)) eqn:V; [leaf|].
  apply vname_of_negb in V. lnode; [|leaf]. kindeq.
  destruct (negb (kind_eqb (na_kind n0) KDir)).
  - pose proof (current_attrs_rel s t h p HS ltac:(nd)) as R.
    destruct (current_attrs s h p) as [? ?]. destruct (current_attrs t h p) as [? ?]. cbn [fst snd] in R. destruct R as [R1 R2].
    split; [exact R1|]. obs_cbn. rewrite R2. reflexivity.
  - lock.
    + lock_alloc.
      match goal with HS' : SIM ?s1 ?t1 |- _ => pose proof (current_attrs_rel s1 t1 h p HS' ltac:(nd)) as Rc end.
      destruct (current_attrs _ h p) as [? ?]. destruct (current_attrs _ h p) as [? ?]. cbn [fst snd] in Rc. destruct Rc as [R1 R2].
      split; [exact R1|]. obs_cbn. rewrite R2, (pfa_pn _ _ R). reflexivity.
    + match goal with HS' : SIM ?s1 ?t1 |- _ => pose proof (current_attrs_rel s1 t1 h p HS' ltac:(nd)) as Rc end.
      destruct (current_attrs _ h p) as [? ?]. destruct (current_attrs _ h p) as [? ?]. cbn [fst snd] in Rc. destruct Rc as [R1 R2].
      split; [exact R1|]. obs_cbn. rewrite R2. reflexivity.
Qed.
Lemma handle_mnt_rel s t p : SIM s t -> HREL (handle_mnt s p) (handle_mnt t p).
Proof.
  intros HS. unfold handle_mnt. destruct (negb (is_abs p)); [leaf|].
  pose proof (mnt_path_gpath p) as GP. lock; [lock_alloc|]; leaf.
Qed.
Lemma handle_readlink_rel s t h : SIM s t -> HREL (handle_readlink s h) (handle_readlink t h).
Proof.
  intros HS. unfold handle_readlink. lnode; [|leaf]. kindeq.
  destruct (negb (kind_eqb (na_kind n) KLink)); [leaf|].
  cbn [fs logc]. rewrite <- (sim_fs s t (proj1 HS)).
  destruct (be_readlink (fs s) p) as [tg|e]; [|split; [cbn [fst]; apply SIM_logc; exact HS|reflexivity]].
  destruct (negb (is_abs tg) && target_has_dotdot tg); [split; [cbn [fst]; apply SIM_logc; exact HS|reflexivity]|].
  pose proof (SIM_logc s t (bc BReadlink p) (bc BReadlink p) HS) as HS1. clear HS. lock; leaf.
Qed.

(* ====================================================================================================== *)
(* 5. mutations: re-establishing the invariant after a change of the tree                                 *)
(* ====================================================================================================== *)
Lemma ac_ok_frame f f' e : WF f -> (forall q, is_prefix q (ac_path e) = true -> pk f' q = pk f q) -> ac_ok f e -> ac_ok f' e.
Proof.
  intros W H. unfold ac_ok. destruct (ac_attrs e) as [a|].
  - unfold attr_ok. rewrite (H _ (is_prefix_refl _)). tauto.
  - apply noent_frame; assumption.
Qed.
Lemma dc_ok_frame f f' e : pk f' (dc_path e) = pk f (dc_path e) -> listing f' (dc_path e) = listing f (dc_path e) ->
  dc_ok f e -> dc_ok f' e.
Proof. intros H1 H2 [A B]. split; [rewrite (pk_kd _ _ _ H1); exact A|rewrite H2; exact B]. Qed.

(* s' is s with tree f' and possibly smaller caches *)
Definition modfs (s : srv) (f' : fsmap) (s' : srv) : Prop :=
  fs s' = f' /\ hm s' = hm s /\ nodes s' = nodes s /\ conf s' = conf s /\ now s' = now s.
Lemma sim_modfs s t f' s' t' : sim s t -> modfs s f' s' -> modfs t f' t' -> sim s' t'.
Proof. intros [C1 C2 C3 C4 C5] (A1 & A2 & A3 & A4 & A5) (B1 & B2 & B3 & B4 & B5). split; congruence. Qed.

Lemma Good_frame s f' s' : Good s -> modfs s f' s' -> WF f' -> nolinks f' ->
  (forall e, In e (ac s') -> In e (ac s) /\ forall q, is_prefix q (ac_path e) = true -> pk f' q = pk (fs s) q) ->
  (dir_on (conf s) = true -> forall e, In e (dc s') -> In e (dc s) /\
     (dc_ok (fs s) e -> pk f' (dc_path e) = pk (fs s) (dc_path e) /\ listing f' (dc_path e) = listing (fs s) (dc_path e))) ->
  Good s'.
Proof.
  intros [W NL H [CA CD]] (A1 & A2 & A3 & A4 & A5) W' NL' HA HD. split.
  - rewrite A1. exact W'.
  - rewrite A1. exact NL'.
  - unfold HOK. rewrite A2. exact H.
  - split.
    + apply Forall_forall. intros e He. destruct (HA e He) as [I F]. rewrite A1.
      eapply ac_ok_frame; [exact W|exact F|]. exact (proj1 (Forall_forall _ _) CA e I).
    + rewrite A4. intros ON. apply Forall_forall. intros e He. destruct (HD ON e He) as [I F]. rewrite A1.
      pose proof (proj1 (Forall_forall _ _) (CD ON) e I) as OK. destruct (F OK) as [F1 F2].
      eapply dc_ok_frame; eassumption.
Qed.

(* a change confined to the object at p (and the listing of its parent) *)
Lemma Good_local s f' s' p : Good s -> modfs s f' s' -> WF f' -> nolinks f' ->
  (forall q, q <> p -> pk f' q = pk (fs s) q) ->
  (forall d, d <> parent p -> listing f' d = listing (fs s) d) ->
  (forall e, In e (ac s') -> In e (ac s) /\ is_prefix p (ac_path e) = false) ->
  (dir_on (conf s) = true -> forall e, In e (dc s') -> In e (dc s) /\ dc_path e <> parent p /\ (kd (fs s) p = true -> dc_path e <> p)) ->
  Good s'.
Proof.
  intros G M W' NL' HP HL HA HD. eapply Good_frame; try eassumption.
  - intros e He. destruct (HA e He) as [I F]. split; [exact I|]. intros q Q. apply HP. intros ->. congruence.
  - intros ON e He. destruct (HD ON e He) as (I & F1 & F2). split; [exact I|]. intros [K _]. split; [|apply HL; exact F1].
    apply HP. intros E. rewrite E in K. exact (F2 K E).
Qed.

(* the invalidation primitives *)
Lemma dc_invalidate_parts s q :
  fs (dc_invalidate s q) = fs s /\ hm (dc_invalidate s q) = hm s /\ nodes (dc_invalidate s q) = nodes s /\
  ac (dc_invalidate s q) = ac s /\ conf (dc_invalidate s q) = conf s /\ now (dc_invalidate s q) = now s.
Proof. unfold dc_invalidate. destruct (dir_on (conf s)); cbn; auto 10. Qed.
Lemma dc_invalidate_tree_parts s q :
  fs (dc_invalidate_tree s q) = fs s /\ hm (dc_invalidate_tree s q) = hm s /\ nodes (dc_invalidate_tree s q) = nodes s /\
  ac (dc_invalidate_tree s q) = ac s /\ conf (dc_invalidate_tree s q) = conf s /\ now (dc_invalidate_tree s q) = now s.
Proof. unfold dc_invalidate_tree. destruct (dir_on (conf s)); cbn; auto 10. Qed.
Lemma fs_dci s q : fs (dc_invalidate s q) = fs s. Proof. apply dc_invalidate_parts. Qed.
Lemma hm_dci s q : hm (dc_invalidate s q) = hm s. Proof. apply dc_invalidate_parts. Qed.
Lemma nodes_dci s q : nodes (dc_invalidate s q) = nodes s. Proof. apply dc_invalidate_parts. Qed.
Lemma ac_dci s q : ac (dc_invalidate s q) = ac s. Proof. apply dc_invalidate_parts. Qed.
Lemma conf_dci s q : conf (dc_invalidate s q) = conf s. Proof. apply dc_invalidate_parts. Qed.
Lemma now_dci s q : now (dc_invalidate s q) = now s. Proof. apply dc_invalidate_parts. Qed.
Lemma fs_dcit s q : fs (dc_invalidate_tree s q) = fs s. Proof. apply dc_invalidate_tree_parts. Qed.
Lemma hm_dcit s q : hm (dc_invalidate_tree s q) = hm s. Proof. apply dc_invalidate_tree_parts. Qed.
Lemma nodes_dcit s q : nodes (dc_invalidate_tree s q) = nodes s. Proof. apply dc_invalidate_tree_parts. Qed.
Lemma ac_dcit s q : ac (dc_invalidate_tree s q) = ac s. Proof. apply dc_invalidate_tree_parts. Qed.
Lemma conf_dcit s q : conf (dc_invalidate_tree s q) = conf s. Proof. apply dc_invalidate_tree_parts. Qed.
Lemma now_dcit s q : now (dc_invalidate_tree s q) = now s. Proof. apply dc_invalidate_tree_parts. Qed.
Global Hint Rewrite fs_dci hm_dci nodes_dci ac_dci conf_dci now_dci fs_dcit hm_dcit nodes_dcit ac_dcit conf_dcit now_dcit : inv.

Ltac inv_simpl :=
  repeat (autorewrite with inv;
          cbn [fs hm nodes ac dc conf now blog with_fs with_hm with_nodes with_ac with_dc with_conf with_now logc clear_log
               ac_invalidate ac_invalidate_tree ac_invalidate_neg_in_dir invalidate_for_new]).
Ltac inv_simpl_in H :=
  repeat (autorewrite with inv in H;
          cbn [fs hm nodes ac dc conf now blog with_fs with_hm with_nodes with_ac with_dc with_conf with_now logc clear_log
               ac_invalidate ac_invalidate_tree ac_invalidate_neg_in_dir invalidate_for_new] in H).
Ltac solve_modfs := unfold modfs, invalidate_for_new; inv_simpl; repeat split; reflexivity.

Lemma in_dc_invalidate s q e : dir_on (conf s) = true -> In e (dc (dc_invalidate s q)) -> In e (dc s) /\ dc_path e <> q.
Proof.
  intros ON. unfold dc_invalidate. rewrite ON. cbn [dc with_dc]. unfold dc_remove. rewrite filter_In.
  intros [A B]. split; [exact A|]. apply negb_true_iff, peqb_neq in B. congruence.
Qed.
Lemma in_dc_invalidate_tree s q e : dir_on (conf s) = true -> In e (dc (dc_invalidate_tree s q)) ->
  In e (dc s) /\ is_prefix q (dc_path e) = false.
Proof.
  intros ON. unfold dc_invalidate_tree. rewrite ON. cbn [dc with_dc]. rewrite filter_In.
  intros [A B]. split; [exact A|]. apply negb_true_iff in B. exact B.
Qed.
Lemma in_ac_remove l q e : In e (ac_remove l q) -> In e l /\ ac_path e <> q.
Proof.
  unfold ac_remove. rewrite filter_In. intros [A B]. split; [exact A|]. apply negb_true_iff, peqb_neq in B. congruence.
Qed.
Lemma in_ac_tree (l : list acentry) q e : In e (filter (fun e => negb (is_prefix q (ac_path e))) l) -> In e l /\ is_prefix q (ac_path e) = false.
Proof. rewrite filter_In. intros [A B]. split; [exact A|]. apply negb_true_iff in B. exact B. Qed.
Lemma prefix_false_neq q p : is_prefix q p = false -> p <> q.
Proof. intros H ->. rewrite is_prefix_refl in H. discriminate. Qed.

Ltac inv_in H :=
  repeat match type of H with
  | In _ (ac_remove _ _) => let X := fresh "X" in apply in_ac_remove in H; destruct H as [H X]
  | In _ (filter (fun e => negb (is_prefix _ (ac_path e))) _) => let X := fresh "X" in apply in_ac_tree in H; destruct H as [H X]
  | In _ (filter _ _) => apply In_filter_sub in H
  | In _ (dc (dc_invalidate _ _)) =>
      let X := fresh "X" in apply in_dc_invalidate in H; [destruct H as [H X]|inv_simpl; assumption]
  | In _ (dc (dc_invalidate_tree _ _)) =>
      let X := fresh "X" in apply in_dc_invalidate_tree in H; [destruct H as [H X]|inv_simpl; assumption]
  end.

(* ---------- REMOVE / RMDIR ---------- *)
Lemma be_remove_err s p t f' e : Good s -> nodd p -> be_remove (fs s) p t = (f', Err e) -> f' = fs s.
Proof.
  intros G ND B. destruct (be_remove_spec (fs s) (g_wf s G) (g_nl s G) p t ND) as [e0 S]. rewrite S in B.
  destruct (removable (fs s) p); [discriminate|]. congruence.
Qed.
Lemma Good_rm s s' p f' : Good s -> nodd p -> be_remove (fs s) p (now s) = (f', Ok tt) -> modfs s f' s' ->
  (forall e, In e (ac s') -> In e (ac s) /\ is_prefix p (ac_path e) = false) ->
  (dir_on (conf s) = true -> forall e, In e (dc s') -> In e (dc s) /\ dc_path e <> parent p /\ dc_path e <> p) ->
  Good s'.
Proof.
  intros G ND B M HA HD. destruct (be_remove_spec (fs s) (g_wf s G) (g_nl s G) p (now s) ND) as [e0 S]. rewrite S in B.
  destruct (removable (fs s) p) eqn:R; [|discriminate]. injection B as <-.
  destruct (removable_spec (fs s) (g_wf s G) p R) as (NE & _ & NC).
  eapply (Good_local s _ s' p G M).
  - apply WF_del; [exact (g_wf s G)|exact NE|exact NC].
  - apply nolinks_del. exact (g_nl s G).
  - intros q Q. apply pk_del; assumption.
  - intros d D. apply listing_del. exact D.
  - exact HA.
  - intros ON e He. destruct (HD ON e He) as (A & B & C). auto.
Qed.
Lemma remove_block_good s d n f' c : Good s -> nodd (d ++ [n]) -> be_remove (fs s) (d ++ [n]) (now s) = (f', Ok tt) ->
  Good (dc_invalidate (dc_invalidate_tree (ac_invalidate (ac_invalidate (ac_invalidate_tree (logc (with_fs s f') c) (d ++ [n])) (d ++ [n])) d) (d ++ [n])) d).
Proof.
  intros G ND B. eapply (Good_rm s _ (d ++ [n]) f' G ND B); [solve_modfs| |].
  - intros e He. inv_simpl_in He. inv_in He. auto.
  - intros ON e He. inv_in He. inv_simpl_in He. rewrite parent_snoc. split; [exact He|]. split; [assumption|].
    apply prefix_false_neq. assumption.
Qed.
Lemma rmdir_block_good s d n f' c : Good s -> nodd (d ++ [n]) -> be_remove (fs s) (d ++ [n]) (now s) = (f', Ok tt) ->
  Good (dc_invalidate_tree (dc_invalidate (ac_invalidate (ac_invalidate (ac_invalidate_tree (logc (with_fs s f') c) (d ++ [n])) (d ++ [n])) d) d) (d ++ [n])).
Proof.
  intros G ND B. eapply (Good_rm s _ (d ++ [n]) f' G ND B); [solve_modfs| |].
  - intros e He. inv_simpl_in He. inv_in He. auto.
  - intros ON e He. inv_in He. inv_simpl_in He. rewrite parent_snoc. split; [exact He|]. split; [assumption|].
    apply prefix_false_neq. assumption.
Qed.
Lemma Good_with_fs_same s c : Good s -> Good (logc (with_fs s (fs s)) c).
Proof.
  intros [W NL H C]. split; sproj; assumption.
Qed.

Lemma SIM_same_fs s t c : SIM s t -> SIM (logc (with_fs s (fs s)) c) (logc (with_fs t (fs s)) c).
Proof.
  intros (S & G1 & G2). split; [|split; [apply Good_with_fs_same; exact G1|rewrite (sim_fs s t S); apply Good_with_fs_same; exact G2]].
  destruct S as [C1 C2 C3 C4 C5]. split; sproj; auto.
Qed.

Lemma handle_remove_rel s t h n : SIM s t -> HREL (handle_remove s h n) (handle_remove t h n).
Proof.
  intros HS. unfold handle_remove. rewrite <- (sim_conf s t (proj1 HS)). destruct (ro (conf s)); [leaf|].
  destruct (negb (validate_name n =? st_ok)) eqn:V; [leaf|]. apply vname_of_negb in V.
  lnode; [|leaf]. kindeq. destruct (negb (kind_eqb (na_kind n0) KDir)); [leaf|].
  lock; [|leaf].
  destruct (negb (sanitize_ok p n)); [apply failed_reply_rel; [assumption|nd|assumption]|].
  match goal with HS' : SIM ?s1 ?t1 |- _ =>
    unfold lift_unit; cbn [fst snd]; rewrite <- (sim_fs s1 t1 (proj1 HS')), <- (sim_now s1 t1 (proj1 HS'));
    pose proof (sim_fs s1 t1 (proj1 HS')) as EF; pose proof (sim_now s1 t1 (proj1 HS')) as EN;
    destruct (be_remove (fs s1) (p ++ [n]) (now s1)) as [f' [[]|e]] eqn:B; cbn [fst snd];
    destruct HS' as (S1 & G1 & G2)
  end.
  - match goal with |- HREL (let '(_, _) := getattr_h ?s2 _ _ in _) (let '(_, _) := getattr_h ?t2 _ _ in _) => assert (HS2 : SIM s2 t2) end.
    { split; [eapply sim_modfs; [exact S1|solve_modfs|solve_modfs]|]. split.
      - apply remove_block_good; [exact G1|nd|exact B].
      - apply remove_block_good; [exact G2|nd|rewrite <- EF, <- EN; exact B]. }
    lock; leaf.
  - assert (f' = fs s0) as -> by (eapply be_remove_err; [exact G1| |exact B]; nd).
    apply failed_reply_rel; [apply SIM_same_fs; split; [exact S1|split; assumption]|nd|assumption].
Qed.

Lemma handle_rmdir_rel s t h n : SIM s t -> HREL (handle_rmdir s h n) (handle_rmdir t h n).
Proof.
  intros HS. unfold handle_rmdir. rewrite <- (sim_conf s t (proj1 HS)). destruct (ro (conf s)); [leaf|].
  destruct (negb (validate_name n =? st_ok)) eqn:V; [leaf|]. apply vname_of_negb in V.
  lnode; [|leaf]. kindeq. destruct (negb (kind_eqb (na_kind n0) KDir)); [leaf|].
  lock; [|leaf].
  match goal with HS' : SIM ?s1 ?t1 |- _ =>
    unfold do_stat; cbn [fst snd]; rewrite <- (sim_fs s1 t1 (proj1 HS'));
    pose proof (SIM_logc s1 t1 (bc BStat (p ++ [n])) (bc BStat (p ++ [n])) HS') as HSL;
    destruct (be_stat (fs s1) (p ++ [n]) true) as [fi|e0]; [|clear HS'; leaf];
    destruct (negb (kind_eqb (fi_kind fi) KDir)); [clear HS'; leaf|]; clear HS'
  end.
  match goal with HS' : SIM ?s1 ?t1 |- _ =>
    unfold lift_unit; cbn [fst snd]; rewrite <- (sim_fs s1 t1 (proj1 HS')), <- (sim_now s1 t1 (proj1 HS'));
    pose proof (sim_fs s1 t1 (proj1 HS')) as EF; pose proof (sim_now s1 t1 (proj1 HS')) as EN;
    destruct (be_remove (fs s1) (p ++ [n]) (now s1)) as [f' [[]|e]] eqn:B; cbn [fst snd];
    destruct HS' as (S1 & G1 & G2)
  end.
  - match goal with |- HREL (let '(_, _) := getattr_h ?s2 _ _ in _) (let '(_, _) := getattr_h ?t2 _ _ in _) => assert (HS2 : SIM s2 t2) end.
    { split; [eapply sim_modfs; [exact S1|solve_modfs|solve_modfs]|]. split.
      - apply rmdir_block_good; [exact G1|nd|exact B].
      - apply rmdir_block_good; [exact G2|nd|rewrite <- EF, <- EN; exact B]. }
    lock; leaf.
  - match type of B with be_remove (fs ?s1) _ _ = _ =>
      assert (f' = fs s1) as -> by (eapply be_remove_err; [exact G1| |exact B]; nd);
      apply failed_reply_rel; [apply SIM_same_fs; split; [exact S1|split; assumption]|nd|assumption] end.
Qed.

(* ---------- CREATE / MKDIR: a change confined to p ---------- *)
Definition local_change (f f' : fsmap) (p : path) : Prop :=
  WF f' /\ nolinks f' /\ (forall q, q <> p -> pk f' q = pk f q) /\ (forall d, d <> parent p -> listing f' d = listing f d).
Lemma local_refl f p : WF f -> nolinks f -> local_change f f p.
Proof. intros W NL. split; [exact W|]. split; [exact NL|]. split; intros; reflexivity. Qed.
Lemma local_upd f f1 p g : local_change f f1 p -> keeps_kind g -> local_change f (fs_upd f1 p g) p.
Proof.
  intros (W & NL & HP & HL) K. split; [apply WF_upd; assumption|]. split; [apply nolinks_upd; assumption|]. split.
  - intros q Q. rewrite <- (HP q Q). unfold pk. rewrite fs_get_upd. apply peqb_neq in Q. rewrite Q. reflexivity.
  - intros d D. rewrite listing_upd. apply HL. exact D.
Qed.
Lemma local_add f p o t : WF f -> nolinks f -> creatable f p = true -> o_kind o <> KLink -> local_change f (fs_add f p o t) p.
Proof.
  intros W NL C K. pose proof (creatable_nonroot f W p C) as NE. split; [apply WF_add; assumption|].
  split; [apply nolinks_add; assumption|]. split.
  - intros q Q. apply pk_add; assumption.
  - intros d D. apply listing_add. exact D.
Qed.
Lemma be_meta_ok f p fl g o : WF f -> nolinks f -> nodd p -> fs_get f p = Some o -> be_meta f p fl g = (fs_upd f p g, Ok tt).
Proof. intros W NL ND G. destruct (be_meta_spec f W NL p fl g ND) as [e S]. rewrite S, G. reflexivity. Qed.
Lemma fs_get_upd_some f p g o : fs_get f p = Some o -> fs_get (fs_upd f p g) p = Some (g o).
Proof. intros G. rewrite fs_get_upd, peqb_refl, G. reflexivity. Qed.

Lemma mkdir_chain f p mode t u g f1 : WF f -> nolinks f -> nodd p -> be_mkdir f p mode t = (f1, Ok tt) ->
  exists f2, be_chown f1 p u g = (f2, Ok tt) /\ local_change f f2 p /\ kd f p = false /\ fs_get f p = None /\ kd f (parent p) = true.
Proof.
  intros W NL ND B. destruct (be_mkdir_spec f W NL p mode t ND) as [e S]. rewrite S in B.
  destruct (creatable f p) eqn:C; [|discriminate]. injection B as <-.
  assert (L1 : local_change f (fs_add f p (mk_dir (N.land mode 511) t) t) p) by (apply local_add; auto; discriminate).
  pose proof (creatable_nonroot f W p C) as NE.
  unfold be_chown. erewrite be_meta_ok; [| apply L1 | apply L1 | exact ND | apply fs_get_add_same; exact NE].
  eexists. split; [reflexivity|]. split; [apply local_upd; [exact L1|apply set_meta_kind]|].
  unfold creatable in C. unfold kd. destruct (fs_get f p); [discriminate|]. auto.
Qed.
Lemma create_chain f p t m u g f1 q : WF f -> nolinks f -> nodd p -> be_create f p t = (f1, Ok q) ->
  exists f2 f3, be_chmod f1 p m = (f2, Ok tt) /\ be_chown f2 p u g = (f3, Ok tt) /\ local_change f f3 p /\ kd f p = false.
Proof.
  intros W NL ND B. destruct (be_create_spec f W NL p t ND) as [e S]. rewrite S in B.
  assert (X : local_change f f1 p /\ (exists o, fs_get f1 p = Some o) /\ kd f p = false).
  { destruct (fs_get f p) as [o|] eqn:G.
    - pose proof (NL p o G) as L. destruct (o_kind o) eqn:K; try congruence. injection B as <- <-.
      split; [apply local_upd; [apply local_refl; assumption|intros x; reflexivity]|].
      split; [eexists; apply fs_get_upd_some; exact G|]. unfold kd. rewrite G, K. reflexivity.
    - destruct (kd f (parent p)) eqn:KP; [|discriminate]. injection B as <- <-.
      assert (C : creatable f p = true) by (unfold creatable; rewrite G; exact KP).
      split; [apply local_add; auto; discriminate|]. split; [|unfold kd; rewrite G; reflexivity].
      eexists. apply fs_get_add_same. eapply creatable_nonroot; eassumption. }
  destruct X as (L1 & [o1 G1] & K).
  assert (L2 : local_change f (fs_upd f1 p (fun o => set_meta o (N.land m 511) (o_uid o) (o_gid o) (o_mtime o))) p)
    by (apply local_upd; [exact L1|apply set_meta_kind]).
  unfold be_chmod, be_chown. eexists. eexists.
  split; [eapply be_meta_ok; [apply L1|apply L1|exact ND|exact G1]|].
  split; [eapply be_meta_ok; [apply L2|apply L2|exact ND|apply fs_get_upd_some; exact G1]|].
  split; [|exact K]. apply local_upd; [exact L2|apply set_meta_kind].
Qed.

Lemma Good_new s f3 d n s0 : Good s -> local_change (fs s) f3 (d ++ [n]) -> kd (fs s) (d ++ [n]) = false ->
  modfs s f3 s0 -> ac s0 = ac s -> dc s0 = dc s -> Good (invalidate_for_new s0 d (d ++ [n])).
Proof.
  intros G (W' & NL' & HP & HL) K M EA ED.
  assert (M' : modfs s f3 (invalidate_for_new s0 d (d ++ [n]))).
  { destruct M as (M1 & M2 & M3 & M4 & M5). unfold modfs, invalidate_for_new. inv_simpl. auto. }
  eapply (Good_local s f3 _ (d ++ [n]) G M' W' NL' HP HL).
  - intros e He. unfold invalidate_for_new in He. inv_simpl_in He. inv_in He. rewrite EA in He. auto.
  - intros ON e He. unfold invalidate_for_new in He.
    apply in_dc_invalidate in He; [|inv_simpl; destruct M as (_ & _ & _ & M4 & _); rewrite M4; exact ON].
    destruct He as [He X]. inv_simpl_in He. rewrite ED in He. rewrite parent_snoc. split; [exact He|]. split; [exact X|].
    intros F. congruence.
Qed.

Lemma be_mkdir_err s p m t f' e : Good s -> nodd p -> be_mkdir (fs s) p m t = (f', Err e) -> f' = fs s.
Proof.
  intros G ND B. destruct (be_mkdir_spec (fs s) (g_wf s G) (g_nl s G) p m t ND) as [e0 S]. rewrite S in B.
  destruct (creatable (fs s) p); [discriminate|]. congruence.
Qed.

Lemma handle_mkdir_rel s t c h n sa : SIM s t -> HREL (handle_mkdir s c h n sa) (handle_mkdir t c h n sa).
Proof.
  intros HS. unfold handle_mkdir. cbv zeta. rewrite <- (sim_conf s t (proj1 HS)). destruct (ro (conf s)); [leaf|].
  destruct (negb (validate_name n =? st_ok)) eqn:V; [leaf|]. apply vname_of_negb in V.
  destruct (negb (validate_mode _ =? st_ok)); [leaf|].
  lnode; [|leaf]. kindeq. destruct (negb (kind_eqb (na_kind n0) KDir)); [leaf|].
  lock; [|leaf].
  match goal with HS' : SIM ?s1 ?t1 |- _ =>
    unfold lift_unit; cbn [fst snd fs logc with_fs]; rewrite <- (sim_fs s1 t1 (proj1 HS')), <- (sim_now s1 t1 (proj1 HS'));
    pose proof (sim_fs s1 t1 (proj1 HS')) as EF; pose proof (sim_now s1 t1 (proj1 HS')) as EN;
    destruct (be_mkdir (fs s1) (p ++ [n]) _ (now s1)) as [f1 [[]|e]] eqn:B; cbn [fst snd fs logc with_fs];
    destruct HS' as (S1 & G1 & G2)
  end.
  - assert (ND : nodd (p ++ [n])) by nd.
    match goal with |- context [be_chown f1 (p ++ [n]) ?u ?g] =>
      destruct (mkdir_chain _ _ _ _ u g _ (g_wf _ G1) (g_nl _ G1) ND B) as [f2 (C & LC & K & _)]; rewrite C; cbn [fst] end.
    match goal with |- HREL (let '(_, _) := srv_lookup ?s2 _ in _) (let '(_, _) := srv_lookup ?t2 _ in _) => assert (HS2 : SIM s2 t2) end.
    { split; [eapply sim_modfs; [exact S1|solve_modfs|solve_modfs]|]. split.
      - eapply Good_new; [exact G1|exact LC|exact K|solve_modfs|reflexivity|reflexivity].
      - eapply Good_new; [exact G2|rewrite <- EF; exact LC|rewrite <- EF; exact K|solve_modfs|reflexivity|reflexivity]. }
    lock; [|leaf]. apply created_reply_rel; [assumption|nd|nd|assumption|assumption].
  - match type of B with be_mkdir (fs ?s1) _ _ _ = _ =>
      assert (f1 = fs s1) as -> by (eapply be_mkdir_err; [exact G1| |exact B]; nd);
      apply failed_reply_rel; [apply SIM_same_fs; split; [exact S1|split; assumption]|nd|assumption] end.
Qed.

Lemma be_create_err s p t f' e : Good s -> nodd p -> be_create (fs s) p t = (f', Err e) -> f' = fs s.
Proof.
  intros G ND B. destruct (be_create_spec (fs s) (g_wf s G) (g_nl s G) p t ND) as [e0 S]. rewrite S in B.
  destruct (fs_get (fs s) p) as [o|].
  - destruct (o_kind o); try discriminate; congruence.
  - destruct (kd (fs s) (parent p)); [discriminate|]. congruence.
Qed.

Lemma srv_create_rel s t d n perm uid gid : SIM s t -> gpath d -> vname n ->
  SIM (fst (srv_create s d n perm uid gid)) (fst (srv_create t d n perm uid gid)) /\
  rres (snd (srv_create s d n perm uid gid)) (snd (srv_create t d n perm uid gid)).
Proof.
  intros HS GD V. unfold srv_create. cbv zeta. rewrite <- (sim_conf s t (proj1 HS)).
  destruct (ro (conf s)); [cbn; tauto|]. destruct (negb (sanitize_ok d n)); [cbn; tauto|].
  assert (ND : nodd (d ++ [n])) by nd.
  rewrite <- (sim_fs s t (proj1 HS)), <- (sim_now s t (proj1 HS)).
  pose proof (sim_fs s t (proj1 HS)) as EF. destruct HS as (S1 & G1 & G2).
  destruct (be_create (fs s) (d ++ [n]) (now s)) as [f1 [q|e]] eqn:B; cbn [fst snd].
  - destruct (create_chain _ _ _ (N.land perm 511) uid gid _ _ (g_wf _ G1) (g_nl _ G1) ND B) as (f2 & f3 & C2 & C3 & LC & K).
    unfold lift_unit. cbn [fst snd fs logc with_fs]. rewrite C2. cbn [fst snd fs logc with_fs]. rewrite C3. cbn [fst snd fs logc with_fs].
    apply srv_lookup_rel; [|exact ND].
    split; [eapply sim_modfs; [exact S1|solve_modfs|solve_modfs]|]. split.
    + eapply Good_new; [exact G1|exact LC|exact K|solve_modfs|reflexivity|reflexivity].
    + eapply Good_new; [exact G2|rewrite <- EF; exact LC|rewrite <- EF; exact K|solve_modfs|reflexivity|reflexivity].
  - assert (f1 = fs s) as -> by (eapply be_create_err; [exact G1|exact ND|exact B]).
    split; [|reflexivity]. apply SIM_same_fs. split; [exact S1|split; assumption].
Qed.

(* ---------- attribute / data changes of one object (keys and kinds unchanged) ---------- *)
Lemma noent_upd f q g p : WF f -> keeps_kind g -> noent f p -> noent (fs_upd f q g) p.
Proof.
  intros W K N. unfold noent. replace (rwalk (fs_upd f q g) [] p) with (rwalk f [] p); [exact N|]. symmetry.
  apply rwalk_ext; cbn [app].
  - intros x _ _. split; [apply kd_upd; exact K|apply fs_get_upd_none].
  - pose proof (noent_absent f p W N) as A. rewrite A. apply fs_get_upd_none. exact A.
Qed.
Lemma Good_attr s p g s' : Good s -> keeps_kind g -> modfs s (fs_upd (fs s) p g) s' ->
  (forall e, In e (ac s') -> In e (ac s) /\ (ac_attrs e <> None -> ac_path e <> p)) ->
  (dir_on (conf s) = true -> forall e, In e (dc s') -> In e (dc s)) ->
  Good s'.
Proof.
  intros [W NL H [CA CD]] K (A1 & A2 & A3 & A4 & A5) HA HD. split.
  - rewrite A1. apply WF_upd; assumption.
  - rewrite A1. apply nolinks_upd; assumption.
  - unfold HOK. rewrite A2. exact H.
  - split.
    + apply Forall_forall. intros e He. destruct (HA e He) as [I F]. rewrite A1.
      pose proof (proj1 (Forall_forall _ _) CA e I) as OK. unfold ac_ok in *. destruct (ac_attrs e) as [a|].
      * unfold attr_ok in *. unfold pk. rewrite fs_get_upd.
        assert (N : ac_path e <> p) by (apply F; discriminate). apply peqb_neq in N. rewrite N. exact OK.
      * apply noent_upd; assumption.
    + rewrite A4. intros ON. apply Forall_forall. intros e He. specialize (HD ON e He). rewrite A1.
      destruct (proj1 (Forall_forall _ _) (CD ON) e HD) as [D1 D2]. split.
      * rewrite kd_upd by exact K. exact D1.
      * rewrite listing_upd. exact D2.
Qed.
Lemma be_truncate_cases f p sz t : WF f -> nolinks f -> nodd p ->
  (fst (be_truncate f p sz t) = f \/
   fst (be_truncate f p sz t) = fs_upd f p (fun o => set_data o (Z.to_N sz) (sd_trunc (o_data o) (Z.to_N sz)) t)) /\
  (forall e, snd (be_truncate f p sz t) = Err e -> fst (be_truncate f p sz t) = f).
Proof.
  intros W NL ND. destruct (be_truncate_spec f W NL p sz t ND) as [e0 S]. rewrite S.
  destruct (fs_get f p) as [o|]; [|cbn; auto].
  destruct (o_kind o); cbn [fst snd]; try (split; [left; reflexivity|reflexivity]);
    (destruct (sz <? 0)%Z; cbn [fst snd]; [split; [left; reflexivity|reflexivity]|split; [right; reflexivity|discriminate]]).
Qed.
Lemma truncate_block_good s p sz t c : Good s -> nodd p ->
  Good (ac_invalidate (logc (with_fs s (fst (be_truncate (fs s) p sz t))) c) p).
Proof.
  intros G ND. destruct (be_truncate_cases (fs s) p sz t (g_wf s G) (g_nl s G) ND) as [[E|E] _]; rewrite E.
  - eapply Good_core; [|exact G|]; [repeat split|].
    destruct (g_coh s G) as [CA CD]. split; [|exact CD]. cbn [ac ac_invalidate with_ac fs logc with_fs].
    eapply Forall_sub; [|exact CA]. intros x. apply In_filter_sub.
  - eapply (Good_attr s p (fun o => set_data o (Z.to_N sz) (sd_trunc (o_data o) (Z.to_N sz)) t) _ G);
      [intros o; reflexivity|solve_modfs| |].
    + intros e He. inv_simpl_in He. inv_in He. auto.
    + intros ON e He. exact He.
Qed.

Lemma handle_create_rel s t c h n how sa : SIM s t -> HREL (handle_create s c h n how sa) (handle_create t c h n how sa).
Proof.
  intros HS. unfold handle_create. cbv zeta. rewrite <- (sim_conf s t (proj1 HS)). destruct (ro (conf s)); [leaf|].
  destruct (negb (validate_name n =? st_ok)) eqn:V; [leaf|]. apply vname_of_negb in V.
  destruct (negb (validate_mode _ =? st_ok)); [leaf|].
  lnode; [|leaf]. kindeq. destruct (negb (kind_eqb (na_kind n0) KDir)); [leaf|].
  lock; [|leaf].
  match goal with HS' : SIM ?s1 ?t1 |- _ =>
    unfold do_lstat; cbn [fst snd]; rewrite <- (sim_fs s1 t1 (proj1 HS'));
    pose proof (SIM_logc s1 t1 (bc BLstat (p ++ [n])) (bc BLstat (p ++ [n])) HS') as HSL;
    destruct (be_stat (fs s1) (p ++ [n]) false) as [fi|e0]; clear HS'
  end.
  - destruct (how =? 2).
    + lock; [lock; lock_alloc; leaf|]. apply failed_reply_rel; [assumption|nd|assumption].
    + destruct ((how =? 1) || negb (kind_eqb (fi_kind fi) KFile)); [apply failed_reply_rel; [assumption|nd|assumption]|].
      set (S0 := logc s0 (bc BLstat (p ++ [n]))) in *. set (T0 := logc s1 (bc BLstat (p ++ [n]))) in *. clearbody S0 T0.
      rewrite <- (sim_conf S0 T0 (proj1 HSL)), <- (sim_fs S0 T0 (proj1 HSL)), <- (sim_now S0 T0 (proj1 HSL)).
      pose proof (sim_fs S0 T0 (proj1 HSL)) as EF. pose proof (sim_now S0 T0 (proj1 HSL)) as EN.
      assert (ND : nodd (p ++ [n])) by nd.
      destruct (if (how =? 0) || (how =? 1) then s_size sa else None) as [sz|]; cbn [fst snd].
      2:{ lock; [apply created_reply_rel|apply failed_reply_rel]; try assumption; nd. }
      destruct (two63N <=? sz); cbn [fst snd].
      { lock; [apply created_reply_rel|apply failed_reply_rel]; try assumption; nd. }
      destruct ((0 <? maxfile (conf S0)) && (maxfile (conf S0) <? sz)); cbn [fst snd].
      { apply failed_reply_rel; try assumption; nd. }
      unfold lift_unit. cbn [fst snd].
      assert (HS2 : SIM (ac_invalidate (logc (with_fs S0 (fst (be_truncate (fs S0) (p ++ [n]) (Z.of_N sz) (now S0)))) (bc2 BTruncate (p ++ [n]) [] sz 0)) (p ++ [n]))
                        (ac_invalidate (logc (with_fs T0 (fst (be_truncate (fs S0) (p ++ [n]) (Z.of_N sz) (now S0)))) (bc2 BTruncate (p ++ [n]) [] sz 0)) (p ++ [n]))).
      { destruct HSL as (S1 & G1 & G2). split; [eapply sim_modfs; [exact S1|solve_modfs|solve_modfs]|]. split.
        - apply truncate_block_good; assumption.
        - rewrite EF, EN. apply truncate_block_good; assumption. }
      clear HSL. destruct (snd (be_truncate (fs S0) (p ++ [n]) (Z.of_N sz) (now S0))).
      * lock; [apply created_reply_rel|apply failed_reply_rel]; try assumption; nd.
      * apply failed_reply_rel; try assumption; nd.
  - (* absent: AbsfsNFS.Create *)
    match goal with |- context [srv_create ?S0 p n ?m ?u ?g] =>
      match goal with |- context [srv_create ?T0 p n m u g] => 
        lazymatch S0 with T0 => fail | _ => idtac end;
        pose proof (srv_create_rel S0 T0 p n m u g HSL H V) as RC;
        destruct (srv_create S0 p n m u g) as [? [?|?]]; destruct (srv_create T0 p n m u g) as [? [?|?]];
        cbn [fst snd rres] in RC; destruct RC as [? RC]; try contradiction; clear HSL end end.
    + apply created_reply_rel; try assumption; nd.
    + subst. apply failed_reply_rel; try assumption; nd.
Qed.
