(* Proofs/SrvRO.v — the non-mutating part of the server model never touches the backend tree, the
   configuration, or adds a mutating call to the backend log; under ReadOnly no procedure does. *)
From Coq Require Import List NArith ZArith Bool Lia.
From Verif Require Import Gen.Facts Model.Handles Model.Backend Model.Srv.
Import ListNotations.
Open Scope N_scope.

Definition safe (l : list bcall) : Prop := forall b, In b l -> mutating b = false.
(* "s' is s as far as the backend is concerned" *)
Definition RO (s s' : srv) : Prop := fs s' = fs s /\ conf s' = conf s /\ (safe (blog s) -> safe (blog s')).

Lemma RO_refl s : RO s s. Proof. unfold RO; tauto. Qed.
Lemma RO_trans a b c : RO a b -> RO b c -> RO a c.
Proof. unfold RO; intros (A1 & A2 & A3) (B1 & B2 & B3). repeat split; try congruence. tauto. Qed.

Lemma safe_cons b l : mutating b = false -> safe l -> safe (b :: l).
Proof. intros Hb Hl x [<-|Hx]; auto. Qed.
Lemma RO_logc s c : mutating c = false -> RO s (logc s c).
Proof. intros H. unfold RO, logc; cbn. repeat split; auto. intros S. apply safe_cons; auto. Qed.

Lemma RO_with_ac s a : RO s (with_ac s a). Proof. unfold RO; cbn; tauto. Qed.
Lemma RO_with_dc s a : RO s (with_dc s a). Proof. unfold RO; cbn; tauto. Qed.
Lemma RO_with_nodes s a : RO s (with_nodes s a). Proof. unfold RO; cbn; tauto. Qed.
Lemma RO_with_hm s a : RO s (with_hm s a). Proof. unfold RO; cbn; tauto. Qed.

Ltac des :=
  repeat match goal with
  | |- context [match ?x with _ => _ end] =>
      match type of x with
      | sumbool _ _ => destruct x
      | _ => destruct x eqn:?
      end
  end.

Lemma ac_get_ro s p : RO s (fst (ac_get s p)).
Proof. unfold ac_get. des; cbn; auto using RO_refl, RO_with_ac. Qed.
Lemma ac_put_ro s p a : RO s (ac_put s p a). Proof. apply RO_with_ac. Qed.
Lemma ac_put_negative_ro s p : RO s (ac_put_negative s p).
Proof. unfold ac_put_negative. des; auto using RO_refl, RO_with_ac. Qed.
Lemma ac_invalidate_ro s p : RO s (ac_invalidate s p). Proof. apply RO_with_ac. Qed.
Lemma dc_get_ro s p : RO s (fst (dc_get s p)).
Proof. unfold dc_get. des; cbn; auto using RO_refl, RO_with_dc. Qed.
Lemma dc_put_ro s p n : RO s (dc_put s p n).
Proof. unfold dc_put. des; auto using RO_refl, RO_with_dc. Qed.
Lemma node_set_ro s h a : RO s (node_set s h a). Proof. apply RO_with_nodes. Qed.
Lemma node_upd_ro s h f : RO s (node_upd s h f).
Proof. unfold node_upd. des; auto using RO_refl, node_set_ro. Qed.
Lemma alloc_ro s p a : RO s (fst (alloc s p a)).
Proof.
  unfold alloc. destruct (allocate path_eqb (hm s) p) as [m h]. cbn.
  eapply RO_trans; [apply RO_with_hm|apply node_set_ro].
Qed.
Lemma do_lstat_ro s p : RO s (fst (do_lstat s p)). Proof. apply RO_logc; reflexivity. Qed.
Lemma do_stat_ro s p : RO s (fst (do_stat s p)). Proof. apply RO_logc; reflexivity. Qed.

(* facts about a destructed pair: turn [E : f .. = (s1, x)] into [RO s s1] *)
Ltac ro_fact E lem := let H := fresh "R" in pose proof lem as H; rewrite E in H; cbn [fst] in H.
Ltac collect :=
  repeat match goal with
  | E : ac_get ?s ?p = (_, _) |- _ => ro_fact E (ac_get_ro s p); revert E
  | E : dc_get ?s ?p = (_, _) |- _ => ro_fact E (dc_get_ro s p); revert E
  | E : alloc ?s ?p ?a = (_, _) |- _ => ro_fact E (alloc_ro s p a); revert E
  | E : do_lstat ?s ?p = (_, _) |- _ => ro_fact E (do_lstat_ro s p); revert E
  | E : do_stat ?s ?p = (_, _) |- _ => ro_fact E (do_stat_ro s p); revert E
  end; intros.
Ltac chain :=
  cbn [fst snd];
  repeat match goal with
  | |- RO ?a ?a => apply RO_refl
  | H : RO ?a ?b |- RO ?a ?b => exact H
  | |- RO ?a (ac_put ?b _ _) => apply RO_trans with b; [|apply ac_put_ro]
  | |- RO ?a (ac_put_negative ?b _) => apply RO_trans with b; [|apply ac_put_negative_ro]
  | |- RO ?a (ac_invalidate ?b _) => apply RO_trans with b; [|apply ac_invalidate_ro]
  | |- RO ?a (dc_put ?b _ _) => apply RO_trans with b; [|apply dc_put_ro]
  | |- RO ?a (node_set ?b _ _) => apply RO_trans with b; [|apply node_set_ro]
  | |- RO ?a (node_upd ?b _ _) => apply RO_trans with b; [|apply node_upd_ro]
  | |- RO ?a (logc ?b ?c) => apply RO_trans with b; [|apply RO_logc; reflexivity]
  | H : RO ?b ?c |- RO ?a ?c => apply RO_trans with b; [|exact H]
  end.

Lemma srv_lookup_ro s p : RO s (fst (srv_lookup s p)).
Proof. unfold srv_lookup. des; collect; chain. Qed.
Lemma srv_getattr_ro s p u g : RO s (fst (srv_getattr s p u g)).
Proof. unfold srv_getattr. des; collect; chain. Qed.
Lemma getattr_h_ro s h p : RO s (fst (getattr_h s h p)).
Proof. unfold getattr_h. des; apply srv_getattr_ro. Qed.

Ltac collect2 :=
  repeat match goal with
  | E : srv_lookup ?s ?p = (_, _) |- _ => ro_fact E (srv_lookup_ro s p); revert E
  | E : getattr_h ?s ?h ?p = (_, _) |- _ => ro_fact E (getattr_h_ro s h p); revert E
  | E : srv_getattr ?s ?p ?u ?g = (_, _) |- _ => ro_fact E (srv_getattr_ro s p u g); revert E
  end; intros; collect.

Lemma lookup_all_ro d names : forall s, RO s (fst (lookup_all s d names)).
Proof.
  induction names as [|n r IH]; intros s; cbn [lookup_all]; [apply RO_refl|].
  destruct (is_dot n || is_dotdot n || negb (sanitize_ok d n)); [apply IH|].
  destruct (srv_lookup s (d ++ [n])) as [s1 lr] eqn:E.
  pose proof (IH s1) as H1. destruct (lookup_all s1 d r) as [s2 rest]. cbn [fst] in H1.
  collect2. destruct lr; cbn [fst]; chain.
Qed.
Lemma refresh_all_ro l : forall s, RO s (fst (refresh_all s l)).
Proof.
  induction l as [|[p a] r IH]; intros s; cbn [refresh_all]; [apply RO_refl|].
  destruct (ac_get s p) as [s0 x] eqn:E0. destruct (do_lstat s0 p) as [s1 li] eqn:E1.
  collect2. destruct li as [fi|e].
  - pose proof (IH (ac_put s1 p (attrs_of_info fi (na_fileid a) (na_uid a) (na_gid a)))) as H.
    destruct (refresh_all _ r) as [s2 rest]. cbn [fst] in *. chain.
  - pose proof (IH s1) as H. destruct (refresh_all s1 r) as [s2 rest]. cbn [fst] in *. chain.
Qed.
Lemma alloc_all_ro pg : forall s, RO s (fst (alloc_all s pg)).
Proof.
  induction pg as [|[ck [p a]] r IH]; intros s; cbn [alloc_all]; [apply RO_refl|].
  destruct (alloc s p a) as [s1 fh] eqn:E. pose proof (IH s1) as H. destruct (alloc_all s1 r) as [s2 rest].
  collect. cbn [fst] in *. chain.
Qed.
Lemma srv_readdir_ro s d : RO s (fst (srv_readdir s d)).
Proof.
  unfold srv_readdir.
  assert (Hhit : RO s (fst (if dir_on (conf s) then dc_get s d else (s, None)))).
  { destruct (dir_on (conf s)); [apply dc_get_ro|apply RO_refl]. }
  destruct (if dir_on (conf s) then dc_get s d else (s, None)) as [s0 hit]. cbn [fst snd] in *.
  destruct hit as [names|].
  - pose proof (lookup_all_ro d names s0) as H. destruct (lookup_all s0 d names) as [s1 l]. cbn [fst] in *. chain.
  - destruct (be_open (fs (logc s0 (bc BOpenR d))) d false) as [q|e]; cbn [fst]; [|chain].
    destruct (be_readdir _ q) as [ents|e]; cbn [fst]; [|chain].
    match goal with |- context [lookup_all ?st d ?nm] =>
      pose proof (lookup_all_ro d nm st) as H; destruct (lookup_all st d nm) as [s4 l] end.
    cbn [fst] in *. eapply RO_trans; [|exact H].
    destruct (dir_on (conf (logc (logc s0 (bc BOpenR d)) (bc BReaddir d)))); chain.
Qed.

(* ---------- the non-mutating handlers ---------- *)
Ltac handler := des; collect2; chain.

Lemma handle_getattr_ro s h : RO s (fst (handle_getattr s h)).
Proof. unfold handle_getattr. handler. Qed.
Lemma handle_access_ro s c h m : RO s (fst (handle_access s c h m)).
Proof. unfold handle_access. handler. Qed.
Lemma current_attrs_ro s h p : RO s (fst (current_attrs s h p)).
Proof. unfold current_attrs. des; collect2; chain. Qed.
Lemma handle_lookup_ro s h n : RO s (fst (handle_lookup s h n)).
Proof.
  unfold handle_lookup. des; collect2;
  repeat match goal with E : current_attrs ?s ?h ?p = (_, _) |- _ => ro_fact E (current_attrs_ro s h p); revert E end;
  intros; chain.
Qed.
Lemma handle_readlink_ro s h : RO s (fst (handle_readlink s h)).
Proof. unfold handle_readlink. handler. Qed.
Lemma handle_fsx_ro s h f : RO s (fst (handle_fsx s h f)).
Proof. unfold handle_fsx. handler. Qed.
Lemma mnt_prefix_check_ro fuel : forall s pre, RO s (fst (mnt_prefix_check s pre fuel)).
Proof.
  induction fuel as [|k IH]; intros s pre; cbn [mnt_prefix_check]; [destruct pre; apply RO_refl|].
  destruct pre as [|c r]; [apply RO_refl|].
  destruct (do_lstat s (c :: r)) as [s1 res] eqn:E. collect.
  destruct res as [fi|e]; [destruct (kind_eqb (fi_kind fi) KLink)|]; cbn [fst]; chain;
  (eapply RO_trans; [|apply IH]); chain.
Qed.
Lemma handle_mnt_ro s p : RO s (fst (handle_mnt s p)).
Proof.
  unfold handle_mnt. des; collect2;
  repeat match goal with E : mnt_prefix_check ?s ?pre ?f = (_, _) |- _ => ro_fact E (mnt_prefix_check_ro f s pre); revert E end;
  intros; chain.
Qed.
Lemma handle_read_ro s h off cnt : RO s (fst (handle_read s h off cnt)).
Proof.
  unfold handle_read. des; collect2; chain.
  all: try match goal with H : (_, _) = (_, _) |- _ => inversion H; subst; clear H end.
  all: cbn [fst snd] in *; chain.
  all: des; cbn [fst snd] in *; chain.
Qed.
Lemma handle_readdir_ro s h ck cnt : RO s (fst (handle_readdir s h ck cnt)).
Proof.
  unfold handle_readdir. des; collect2;
  repeat match goal with E : srv_readdir ?s ?d = (_, _) |- _ => ro_fact E (srv_readdir_ro s d); revert E end; intros; chain.
Qed.
Lemma handle_readdirplus_ro s h ck mc : RO s (fst (handle_readdirplus s h ck mc)).
Proof.
  unfold handle_readdirplus. des; collect2;
  repeat match goal with
  | E : srv_readdir ?s ?d = (_, _) |- _ => ro_fact E (srv_readdir_ro s d); revert E
  | E : refresh_all ?s ?l = (_, _) |- _ => ro_fact E (refresh_all_ro l s); revert E
  | E : alloc_all ?s ?l = (_, _) |- _ => ro_fact E (alloc_all_ro l s); revert E
  end; intros; chain.
Qed.

(* ---------- every procedure under ReadOnly ---------- *)
Definition mutating_req (r : req) : bool :=
  match r with
  | RSetattr _ _ _ | RWrite _ _ _ _ _ | RCreate _ _ _ _ | RMkdir _ _ _ | RSymlink _ _ _ _ | RMknod _ _
  | RRemove _ _ | RRmdir _ _ | RRename _ _ _ _ | RLink _ _ _ | RCommit _ _ _ => true
  | _ => false
  end.
Definition keeps_ro (r : req) : bool := match r with RSetRO false => false | _ => true end.

Lemma RO_clear s : fs (clear_log s) = fs s /\ conf (clear_log s) = conf s /\ blog (clear_log s) = [].
Proof. unfold clear_log; cbn; auto. Qed.

Lemma step_ro s c r : ro (conf s) = true -> keeps_ro r = true ->
  let s' := fst (step s c r) in
  fs s' = fs s /\ ro (conf s') = true /\ safe (blog s').
Proof.
  intros Hro Hk. cbv zeta.
  assert (Hc : ro (conf (clear_log s)) = true) by exact Hro.
  assert (Hsafe0 : safe (blog (clear_log s))) by (intros b []).
  assert (K : forall s', RO (clear_log s) s' -> fs s' = fs s /\ ro (conf s') = true /\ safe (blog s')).
  { intros s' (A & B & C). repeat split; [exact A | rewrite B; exact Hro | apply C; exact Hsafe0]. }
  unfold step. set (s0 := clear_log s) in *.
  destruct (garbage_reply s0 r) as [o|] eqn:G; cbn [fst]; [apply K, RO_refl|].
  destruct r; cbn [fst]; try (apply K; first
    [ apply RO_refl | apply handle_getattr_ro | apply handle_lookup_ro | apply handle_access_ro | apply handle_readlink_ro
    | apply handle_read_ro | apply handle_readdir_ro | apply handle_readdirplus_ro | apply handle_fsx_ro | apply handle_mnt_ro ]).
  - unfold handle_setattr. rewrite Hc. apply K, RO_refl.
  - unfold handle_write. rewrite Hc. apply K, RO_refl.
  - unfold handle_create. rewrite Hc. apply K, RO_refl.
  - unfold handle_mkdir. rewrite Hc. apply K, RO_refl.
  - unfold handle_symlink. rewrite Hc. apply K, RO_refl.
  - unfold handle_remove. rewrite Hc. apply K, RO_refl.
  - unfold handle_rmdir. rewrite Hc. apply K, RO_refl.
  - unfold handle_rename. rewrite Hc. apply K, RO_refl.
  - unfold handle_commit. rewrite Hc. apply K, RO_refl.
  - (* RSetRO b *) destruct b; [|discriminate]. cbn. repeat split; auto.
  - cbn. repeat split; auto.
  - cbn. repeat split; auto.
Qed.

Lemma rofs_nonzero : NFSERR_ROFS <> 0. Proof. vm_compute. discriminate. Qed.
Lemma notsupp_nonzero : NFSERR_NOTSUPP <> 0. Proof. vm_compute. discriminate. Qed.

Lemma step_ro_fails s c r : ro (conf s) = true -> mutating_req r = true ->
  ob_rpc (snd (step s c r)) = 0 /\ ob_status (snd (step s c r)) <> 0.
Proof.
  intros Hro Hm.
  assert (Hc : ro (conf (clear_log s)) = true) by exact Hro.
  unfold step. set (s0 := clear_log s) in *.
  destruct r; try discriminate; cbn [garbage_reply].
  - unfold handle_setattr. rewrite Hc. cbn. split; [reflexivity|apply rofs_nonzero].
  - unfold handle_write. rewrite Hc. cbn. split; [reflexivity|apply rofs_nonzero].
  - rewrite Hc. destruct (str_ok n); cbn [snd]; [unfold handle_create; rewrite Hc|]; cbn; (split; [reflexivity|apply rofs_nonzero]).
  - rewrite Hc. destruct (str_ok n); cbn [snd]; [unfold handle_mkdir; rewrite Hc|]; cbn; (split; [reflexivity|apply rofs_nonzero]).
  - rewrite Hc. destruct (str_ok n && str_ok target); cbn [snd]; [unfold handle_symlink; rewrite Hc|]; cbn; (split; [reflexivity|apply rofs_nonzero]).
  - cbn. split; [reflexivity|apply notsupp_nonzero].
  - rewrite Hc. destruct (str_ok n); cbn [snd]; [unfold handle_remove; rewrite Hc|]; cbn; (split; [reflexivity|apply rofs_nonzero]).
  - rewrite Hc. destruct (str_ok n); cbn [snd]; [unfold handle_rmdir; rewrite Hc|]; cbn; (split; [reflexivity|apply rofs_nonzero]).
  - rewrite Hc. destruct (str_ok n1 && str_ok n2); cbn [snd]; [unfold handle_rename; rewrite Hc|]; cbn; (split; [reflexivity|apply rofs_nonzero]).
  - cbn. split; [reflexivity|apply notsupp_nonzero].
  - unfold handle_commit. rewrite Hc. cbn. split; [reflexivity|apply rofs_nonzero].
Qed.

Definition write_bits : N := ACCESS_MODIFY + ACCESS_EXTEND + ACCESS_DELETE.
Lemma access_bits_ro a c m : N.land (access_bits true a c m) write_bits = 0.
Proof.
  unfold access_bits. cbn [negb andb].
  match goal with |- context [if ?b1 then ACCESS_READ else 0] => destruct b1 end;
  match goal with |- context [if ?b2 then ACCESS_LOOKUP else 0] => destruct b2 end;
  match goal with |- context [if ?b3 then ACCESS_EXECUTE else 0] => destruct b3 end; vm_compute; reflexivity.
Qed.
Lemma step_ro_access s c h m : ro (conf s) = true ->
  forall w, In w (ob_nums (snd (step s c (RAccess h m)))) -> N.land w write_bits = 0.
Proof.
  intros Hro w. unfold step. cbn [garbage_reply]. unfold handle_access.
  destruct (lookup_node (clear_log s) h) as [[p na]|]; [|cbn; tauto].
  destruct (getattr_h (clear_log s) h p) as [s1 ga] eqn:E.
  destruct ga as [a|e]; [|cbn; tauto].
  cbn [snd ob_mk ob_nums]. intros [<-|[]].
  pose proof (getattr_h_ro (clear_log s) h p) as R. rewrite E in R. destruct R as (_ & Hc & _). cbn [fst] in Hc.
  rewrite Hc. change (conf (clear_log s)) with (conf s). rewrite Hro. apply access_bits_ro.
Qed.

(* whole histories: as long as no administrative step switches ReadOnly off *)
Lemma hrun_ro : forall l s, ro (conf s) = true -> (forall x, In x l -> keeps_ro (hs_req x) = true) ->
  forall so, In so (hrun s l) -> fs (fst so) = fs s /\ safe (blog (fst so)).
Proof.
  induction l as [|x r IH]; intros s Hro Hk so Hin; [destruct Hin|].
  cbn [hrun] in Hin.
  assert (Hx : keeps_ro (hs_req x) = true) by (apply Hk; left; reflexivity).
  pose proof (step_ro (with_now s (now s + hs_adv x)) (hs_cred x) (hs_req x) Hro Hx) as (A & B & C).
  destruct Hin as [<-|Hin]; [unfold hrun1; cbn [fst]; auto|].
  destruct (IH (fst (hrun1 s x)) B (fun y Hy => Hk y (or_intror Hy)) so Hin) as (D & E).
  split; [rewrite D; exact A|exact E].
Qed.
